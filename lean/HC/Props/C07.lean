import HC.Conn.Inv
/-!
# C07 — idle connections time out, busy ones do not, dead ones are released

Theorems about the timed connection model `HC.Conn.Server` for every configuration (protocol, worker, queue capacity,
`keep_alive_timeout`) and every operation sequence.  `busy` = some registered stream the peer has not abandoned has a
complete head and an unfinished response, or is a WebSocket that is not closed.
-/
namespace HC.Props.C07
open HC.Conn HC.Extracted.ConnGuards

/-- the extracted facts about the idle timer the model was written against -/
theorem guards_as_extracted :
    httpStreamIdle = false ∧ wsIdleStates = ["CLOSED", "HTTPCLOSED"] ∧
    h11UpdatedSites = ["_handle_events:False", "_maybe_recycle:True"] ∧
    h2UpdatedSites = ["_handle_events:self.idle", "_handle_events:self.idle", "stream_send:idle"] ∧
    asyncioUpdatedDrivesTimer = true ∧ trioUpdatedDrivesTimer = true ∧
    asyncioIdleFireClosesProtocolThenTransport = true ∧ trioIdleFireClosesProtocolThenTransport = true ∧
    asyncioReaderEndStopsIdle = true ∧ trioReaderEndStopsIdle = true ∧
    h11ClosedSetsFlag = true ∧ h11ClosedClosesStream = true ∧ h11ClosedReleasesReader = true ∧ pausedBreaksWhenClosed = true ∧
    h2StreamClosedIgnoresUnknown = true ∧ h2StreamClosedAlwaysUpdates = true ∧ h2IdleCountsBuffered = true ∧
    priorIdleBeforeData = true ∧ wrapperUpdatedSites = ["handle:True"] ∧ h11RecycleIdleUnconditional = true ∧
    trioCloseToleratesBusy = true ∧ trioCloseToleratesBroken = true ∧ trioCloseToleratesClosed = true ∧ trioCloseAlwaysCloses = true := by decide

/-- the expression each worker hands to `asyncio.wait_for` / `trio.move_on_after` around the idle task's wait is the configured
    `keep_alive_timeout` itself, for every value of it - 0 is a timeout of 0 (expires at once), not "no timeout" -/
theorem idle_wait_is_keep_alive_timeout (T : Nat) : asyncioIdleWait T = some T ∧ trioIdleWait T = some T := ⟨rfl, rfl⟩

/-- … hence in every configuration (protocol, worker, capacity, every `keep_alive_timeout ≥ 0`) the idle task's wait is limited
    by exactly that value -/
theorem wait_is_configured_timeout (c : Cfg) : c.wait = some c.T := Cfg.wait_eq c

/-- **timer_armed_implies_not_busy**: whenever the idle timer is armed no request is in progress and no WebSocket is open,
    so the timer never closes a busy connection -/
theorem timer_armed_implies_not_busy (cfg : Cfg) (ops : List Op) (s : St) (hr : run (init cfg) ops = some s)
    (ha : s.timer.isSome = true) : s.busy = false :=
  (reachable_inv cfg ops s hr).armed ha

/-- the deadline of an armed timer is exactly (the instant it was started) + keep_alive_timeout, and the clock has not passed it -/
theorem deadline_exact (cfg : Cfg) (ops : List Op) (s : St) (hr : run (init cfg) ops = some s) (d : Nat) (hd : s.timer = some d) :
    d = s.armedAt + s.cfg.T ∧ s.now ≤ d :=
  ⟨(reachable_inv cfg ops s hr).dl d hd, (reachable_inv cfg ops s hr).nl d hd⟩

/-- **idle_close_time**: an armed timer on a connection without registered streams fires at exactly its deadline - not
    before (the step is disabled), not after (time cannot pass it) - and closes the transport at that instant;
    when shutdown has begun it fires at once and no time may pass first -/
theorem idle_close_time (cfg : Cfg) (ops : List Op) (s : St) (hr : run (init cfg) ops = some s) (d : Nat)
    (hd : s.timer = some d) (hl : s.live = []) (hc : s.closedByServer = false) (hb : s.cont .timer = none) :
    -- enabled exactly when due
    ((step s .timerFire).isSome = (decide (d ≤ s.now) || s.terminated)) ∧
    -- it closes the transport now; without shutdown "now" is the deadline = idle start + T
    (∀ s', step s .timerFire = some s' → s'.closedByServer = true ∧ s'.closeAt = some s.now ∧ s'.timer = none ∧
        (s.terminated = false → s.now = s.armedAt + s.cfg.T)) ∧
    -- time cannot pass the deadline, and not at all once shutdown has begun
    (∀ k s', step s (.tick k) = some s' → s'.now ≤ d ∧ (s.terminated = true → k = 0)) := by
  have hI := reachable_inv cfg ops s hr
  refine ⟨?_, ?_, ?_⟩
  · simp only [step, hd, hb, Option.isNone_none, Bool.and_true]
    split <;> simp_all
  · intro s' hs'
    simp only [step, hd, hb] at hs'
    split at hs'
    · rename_i hg
      simp only [Option.some.injEq] at hs'
      subst hs'
      have e : ({ s with timer := none } : St).run .timer [.handleClosed, .transportClose, .timerEnd] =
          ({ s with timer := none, pclosed := s.pclosed || h11ClosedSetsFlag, draining := [],
                    ready := s.ready ++ s.draining.map (·.1) } : St).release.closeTransport := by
        have f1 : s.draining.filter (fun _ => true) = s.draining := List.filter_eq_self.2 (fun _ _ => rfl)
        have f2 : s.draining.filter (fun _ => false) = [] := List.filter_eq_nil_iff.2 (fun _ _ => by simp)
        simp [St.run, FUEL, exec, hl, h11ClosedClosesStream, h11ClosedReleasesReader, h2ClosedTellsEveryStream, f1, f2]
      rw [e]
      have hrc : ∀ t : St, t.release.closedByServer = t.closedByServer ∧ t.release.now = t.now ∧ t.release.timer = t.timer := by
        intro t; unfold St.release; split <;> simp
      refine ⟨closeTransport_closed _, ?_, ?_, ?_⟩
      · rw [closeTransport_closeAt _ (by rw [(hrc _).1]; exact hc), (hrc _).2.1]
      · rw [closeTransport_timer, (hrc _).2.2]
      · intro ht
        have h1 := hI.dl d hd
        have h2 := hI.nl d hd
        simp [ht] at hg
        omega
    · simp at hs'
  · intro k s' hs'
    simp only [step, hd] at hs'
    split at hs'
    · simp at hs'
    · rename_i hg
      simp only [Option.some.injEq] at hs'; subst hs'
      simp only [Cfg.wait_eq, Option.isSome_some, Bool.true_and, Bool.or_eq_true, not_or, Bool.and_eq_true, decide_eq_true_eq, not_and, Nat.not_lt] at hg
      refine ⟨by simp; omega, ?_⟩
      intro ht; have := hg.1 ht; omega

/-- **idle_closes_at_T**, for every `keep_alive_timeout` T ≥ 0 (0 included): on a connection without registered streams whose
    timer is armed, the deadline is (start of idleness) + T with T the configured value itself, the start lies in the past and
    the deadline not; the expiry step is enabled exactly from `armedAt + T` on (or at once during shutdown), it closes the
    transport at that instant - which without shutdown is `armedAt + T` - and the clock cannot pass `armedAt + T` -/
theorem idle_closes_at_T (cfg : Cfg) (ops : List Op) (s : St) (hr : run (init cfg) ops = some s) (d : Nat)
    (hd : s.timer = some d) (hl : s.live = []) (hc : s.closedByServer = false) (hb : s.cont .timer = none) :
    d = s.armedAt + s.cfg.T ∧ s.armedAt ≤ s.now ∧ s.now ≤ s.armedAt + s.cfg.T ∧
    ((step s .timerFire).isSome = (decide (s.armedAt + s.cfg.T ≤ s.now) || s.terminated)) ∧
    (∀ s', step s .timerFire = some s' → s'.closedByServer = true ∧ s'.closeAt = some s.now ∧ s'.timer = none ∧
        (s.terminated = false → s.now = s.armedAt + s.cfg.T)) ∧
    (∀ k s', step s (.tick k) = some s' → s'.now = s.now + k ∧ s.now + k ≤ s.armedAt + s.cfg.T ∧ (s.terminated = true → k = 0)) := by
  have hI := reachable_inv cfg ops s hr
  have hdl := hI.dl d hd
  obtain ⟨h1, h2, h3⟩ := idle_close_time cfg ops s hr d hd hl hc hb
  refine ⟨hdl, hI.al d hd, by have := hI.nl d hd; omega, by rw [h1, hdl], h2, ?_⟩
  intro k s' hs'
  have h4 := h3 k s' hs'
  have hn : s'.now = s.now + k := by
    simp only [step, hd] at hs'
    split at hs'
    · simp at hs'
    · simp only [Option.some.injEq] at hs'; subst hs'; rfl
  exact ⟨hn, by omega, h4.2⟩

/-- **keep-alive disabled** (`keep_alive_timeout = 0`): an idle connection is closed at once - whenever the timer is armed on a
    connection without streams, its expiry is enabled now and no time can pass first (before the first head, between keep-alive
    requests, on an HTTP/2 connection whose last stream has ended) -/
theorem keep_alive_zero_closes_at_once (cfg : Cfg) (ops : List Op) (s : St) (hr : run (init cfg) ops = some s) (d : Nat)
    (hd : s.timer = some d) (hl : s.live = []) (hc : s.closedByServer = false) (hb : s.cont .timer = none) (h0 : s.cfg.T = 0) :
    (step s .timerFire).isSome = true ∧ (∀ s', step s .timerFire = some s' → s'.closeAt = some s.now) ∧
    (∀ k s', step s (.tick k) = some s' → k = 0) := by
  obtain ⟨_, ha, hn, hf, hcl, ht⟩ := idle_closes_at_T cfg ops s hr d hd hl hc hb
  refine ⟨?_, fun s' hs' => (hcl s' hs').2.1, ?_⟩
  · rw [hf]; simp; left; omega
  · intro k s' hs'; have := (ht k s' hs').2.1; omega

/-- **partial_head_times_out**: bytes that do not complete a request head (a read after which the parser needs more
    data) leave the armed timer and its deadline untouched -/
theorem partial_head_times_out (s s1 s2 : St) (h1 : step s .read = some s1) (h2 : step s1 .needData = some s2) :
    s2.timer = s.timer ∧ s2.armedAt = s.armedAt ∧ s2.closedByServer = s.closedByServer := by
  simp only [step] at h1
  split at h1 <;> simp at h1
  rename_i hg
  subst h1
  simp only [Bool.and_eq_true, beq_iff_eq, Bool.not_eq_true'] at hg
  simp only [step, St.readerCan, beq_self_eq_true, if_true] at h2
  simp at h2; subst h2
  simp [St.run, FUEL, exec, hg.2, priorIdleBeforeData]

/-- the reader notices a server-side close: while it waits in `read()` on a transport the server has closed, the step
    that ends the reader is enabled (so such a state is never quiescent) -/
theorem reader_notices_close (s : St) (h1 : s.rpc = .reading) (h2 : s.closedByServer = true) (h3 : s.eofSeen = false) :
    (step s .readerSeesClose).isSome = true := by simp [step, h1, h2, h3]

/-- **released** (final step): once the reader has finished, no stream is registered, every application has returned,
    the timer is stopped and no task is blocked, the handler exits at once: transport closed, nothing left alive -/
theorem released (s : St) (h : s.handlerReady = true) :
    ∃ s', step s .handlerExit = some s' ∧ s'.closedByServer = true ∧ s'.timer = none ∧ s'.doneAt = some s.now ∧
      s'.closers = [] ∧ s'.rpc = .finished ∧ s'.live = [] := by
  have h0 := h
  simp only [St.handlerReady, Bool.and_eq_true, beq_iff_eq, List.isEmpty_iff, Option.isNone_iff_eq_none] at h
  obtain ⟨⟨⟨⟨⟨⟨⟨h1, h2⟩, h3⟩, h4⟩, _⟩, _⟩, _⟩, _⟩ := h
  refine ⟨({ (s.closeTransport).stopTimer with doneAt := some s.now } : St).emit [.done s.now], by simp only [step, h0, if_true], ?_, ?_, ?_, ?_, ?_, ?_⟩
  · simp [St.emit, stopTimer_closed, closeTransport_closed]
  · simp [St.emit, stopTimer_timer]
  · simp [St.emit]
  · simp [St.emit, stopTimer_closers, closeTransport_closers, h4]
  · simp [St.emit, stopTimer_rpc, closeTransport_rpc, h1]
  · simp [St.emit, stopTimer_live, closeTransport_live, h2]

/-- the reader's end stops the idle timer on both workers (F25 fixed): after `readerEnd` no timer is armed -/
theorem reader_end_stops_timer (s : St) (w : Who) : (s.run w [.readerEnd]).timer = none ∧ (s.run w [.readerEnd]).rpc = .finished := by
  have : s.cfg.readerEndStops = true := by
    simp [Cfg.readerEndStops, asyncioReaderEndStopsIdle, trioReaderEndStopsIdle]
  simp [St.run, FUEL, exec, this, St.stopTimer]
  split <;> simp_all [St.emit]

/-- **a late `StreamClosed` does not prolong idleness**: HTTP/2 `stream_send(StreamClosed)` for a stream that is no longer
    registered (the client reset it, its application finishes later) changes nothing - in particular neither the timer nor
    its deadline -/
theorem late_stream_closed_changes_nothing (s : St) (w : Who) (i : Nat) (h : s.live.contains i = false) :
    s.run w [.h2StreamClosed i] = s := by
  have ha : s.h2ClosedApplies i = false := by simp only [St.h2ClosedApplies, h2StreamClosedIgnoresUnknown, if_true]; exact h
  simp only [St.run, FUEL, exec, ha]
  rfl

/-- **HTTP/2: the end of a stream always reports the connection's idleness**: for a registered stream on a connection that is not
    closed, what follows `_close_stream` in `stream_send(StreamClosed)` ends with `send(Updated(idle=idle))` whether or not the
    shutdown GOAWAY was written before it (`h2StreamClosedAlwaysUpdates`, extracted: the `if not self.closed:` is a statement of
    its own, not an `elif` of the GOAWAY branch) -/
theorem h2_stream_closed_always_updates (s : St) (hp : s.cfg.proto = .h2) (hc : s.pclosed = false) :
    (afterCloseP s).1 = s ∧
    (afterCloseP s).2 = (if s.live.all (fun j => (s.inst j).idle) && s.terminated then [Instr.write] else []) ++ [.idleUpdate] := by
  have hg : h2StreamClosedAlwaysUpdates = true := by decide
  simp [afterCloseP, hp, hc, hg]

/-- … and that `Updated` restarts the timer when every remaining stream is idle (deadline now + T), stops it otherwise -/
theorem idle_update_drives_timer (f : Nat) (s : St) (w : Who) (rest : List Instr) :
    exec (f + 1) s w (.idleUpdate :: rest) =
      exec f (if s.live.all (fun j => (s.inst j).idle) then s.armTimer else s.stopTimer) w rest ∧
    s.armTimer.timer = some (s.now + s.cfg.T) ∧ s.armTimer.armedAt = s.now := by
  simp [exec, St.armTimer, St.emit]

/-- **the last stream ends after shutdown has begun** (HTTP/2, asyncio; trio differs only in the checkpoint of the write, see the
    witnesses): the GOAWAY is written, the timer - stopped since the request arrived - is restarted, and because `terminated` is
    set its expiry is enabled at once while no time may pass: the connection is closed now, whatever the client makes of the
    GOAWAY -/
theorem shutdown_last_stream_closes_at_once (s : St) (w : Who) (hp : s.cfg.proto = .h2) (ha : s.cfg.trio = false) (hc : s.pclosed = false)
    (hl : s.live = []) (ht : s.terminated = true) (ho : s.closedByServer = false) (hf : s.failWrites = false) (hfa : s.failAt = none)
    (hw : s.wblocked = none) (hpw : s.wpaused = false) (hb : s.cont .timer = none) :
    (s.run w [.afterClose]).timer = some (s.now + s.cfg.T) ∧
    (step (s.run w [.afterClose]) .timerFire).isSome = true ∧
    (∀ k, 0 < k → step (s.run w [.afterClose]) (.tick k) = none) := by
  have hg : h2StreamClosedAlwaysUpdates = true := by decide
  have e : s.run w [.afterClose] = ({ s with wc := s.wc + 1 }.emit [.write]).armTimer := by
    simp [St.run, FUEL, exec, afterCloseP, hp, ha, hc, hl, ht, ho, hf, hfa, hw, hpw, hg, St.writeDue, St.emit]
  rw [e]
  refine ⟨by simp [St.armTimer, St.emit], ?_, ?_⟩
  · simp [step, St.armTimer, St.emit, ht, hb]
  · intro k hk
    simp [step, St.armTimer, St.emit, ht, hk]

/-- **the end of a response restarts the idle timer whatever the parser still holds** (HTTP/1): request and response complete,
    nothing registered, not closed, no shutdown - the rest of `stream_send(StreamClosed)` recycles the connection, releases a
    parked reader and arms the timer with deadline now + T.  The state has no record of bytes h11 has buffered (the beginning
    of a pipelined request's head that arrived while this one was being answered, say), so the restart cannot depend on them;
    in the source the `Updated(idle=True)` is an unconditional statement of the recycle branch (`h11RecycleIdleUnconditional`,
    extracted): a complete pipelined head stops the timer again at its `Request` event, an incomplete one leaves it running
    (`partial_head_times_out`) and the connection is closed T after the response ended -/
theorem recycle_restarts_idle_timer (s : St) (hp : s.cfg.proto = .h1) (hc : s.pclosed = false) (ht : s.terminated = false)
    (ho : s.our = .done) (hth : s.their = .done) (hw : s.wsMode = false) (hl : s.live = []) :
    (afterCloseP s).1.timer = some (s.now + s.cfg.T) ∧ (afterCloseP s).1.armedAt = s.now ∧ (afterCloseP s).2 = [] ∧
    (afterCloseP s).1.our = .idle ∧ (afterCloseP s).1.their = .idle ∧ (afterCloseP s).1.rpc ≠ .parked := by
  have hg : h11RecycleIdleUnconditional = true := by decide
  simp only [afterCloseP, hp, hc, ht, ho, hth, hw, hl, hg, if_true, Bool.not_false, Bool.and_self, beq_self_eq_true,
    List.isEmpty_nil, St.armTimer, St.emit, St.release]
  split <;> simp_all

/-- **prior-knowledge HTTP/2** (cleartext; h11 reports the preface line as a request, which stops the timer): the wrapper's
    `Updated(idle=True)` is processed while no stream exists - it restarts the timer with deadline now + T - and *before* the
    bytes that followed the preface are handed over, so a request among them stops the timer again afterwards -/
theorem prior_switch_idle_first (f : Nat) (s : St) (w : Who) (rest : List Instr) (hl : s.live = []) :
    exec (f + 1) s w (.wrapperIdle :: rest) = exec f s.armTimer w rest ∧
    s.armTimer.timer = some (s.now + s.cfg.T) ∧ s.armTimer.armedAt = s.now := by
  simp [exec, priorIdleBeforeData, hl, St.armTimer, St.emit]

/-- … and the switch itself arms nothing while a request is in progress: whatever the state, after the preface step the
    timer is armed only if no registered stream is busy (an instance of `timer_armed_implies_not_busy`, spelled out for the
    step because it is the one place where `Updated(idle=True)` is sent without looking at the streams) -/
theorem prior_switch_not_armed_while_busy (cfg : Cfg) (ops : List Op) (s s' : St) (hr : run (init cfg) ops = some s)
    (hs : step s .h2prior = some s') (ha : s'.timer.isSome = true) : s'.busy = false :=
  (step_inv s s' .h2prior (reachable_inv cfg ops s hr) hs).armed ha

/-- **a server-side close releases a writer the peer keeps waiting** (trio): `_close()` passes over the BusyResourceError
    that `send_eof()` raises while another task is inside `send_all` and goes on to `aclose()`: the transport is closed at
    this instant and the blocked writer is runnable again … -/
theorem server_close_releases_blocked_writer (f : Nat) (s : St) (w u : Who) (rest : List Instr) (ht : s.cfg.trio = true)
    (hb : s.wblocked = some u) (hc : s.closedByServer = false) :
    (exec (f + 1) s w (.serverCloseNow :: rest)).closedByServer = true ∧
    (exec (f + 1) s w (.serverCloseNow :: rest)).closeAt = some s.now ∧
    (exec (f + 1) s w (.serverCloseNow :: rest)).wblocked = none ∧
    u ∈ (exec (f + 1) s w (.serverCloseNow :: rest)).ready := by
  simp [exec, ht, hb, hc, trioCloseToleratesBusy, trioCloseAlwaysCloses, Cfg.closeStops, Cfg.echoes, trioCloseStopsIdle, trioClosedEchoes,
    St.closeTransport, St.releaseWriter, St.yieldTo, St.emit]

/-- … and when it runs it finds its write failed and tells the protocol the connection is closed (which tells every stream:
    `C03.closed_tells_every_stream`), so an application held in `send()` gets its answer -/
theorem released_writer_reports_closed (f : Nat) (s : St) (u : Who) (rest : List Instr) (ht : s.cfg.trio = true) (hc : s.closedByServer = true) :
    exec (f + 1) s u (.writeWait :: rest) = exec f (s.emit [.writeFail]) u (.handleClosed :: rest) := by
  simp [exec, ht, hc]

/-! ### witnesses -/

/-- HTTP/2: the client resets the only stream at 1 s (idle from then), the streaming application ignores the disconnect and
    ends its response at 4 s: the deadline stays 1 s + T and the connection is closed then, not at 4 s + T -/
example : (run (init { proto := .h2, T := 5000 }) [.read, .head {}, .h2eom 0, .needData, .appSend 0 (.start false), .appSend 0 (.body true true),
      .tick 1000, .read, .h2rst 0, .needData, .tick 3000, .appSend 0 (.body false true), .appExit 0, .tick 2000, .timerFire]).map
    (fun s => (s.closeAt, s.timer)) = some (some 6000, none) := by decide


/-- HTTP/1: the first bytes of a second request's head arrive at 0.5 s, while the first request is still being answered (h11
    reports PAUSED, the reader parks); the response ends at 1 s: the connection is recycled, the released reader finds an
    incomplete head (NEED_DATA), and the connection - idle from 1 s - is closed at 1 s + T -/
example : (run (init { T := 5000 }) [.read, .head {}, .eom, .needData, .tick 500, .read, .paused, .tick 500, .appSend 0 (.start false),
      .appSend 0 (.body false true), .needData, .appExit 0, .tick 5000, .timerFire]).map
    (fun s => (s.closeAt, s.timer, (s.inst 0).access)) = some (some 6000, none, 1) := by decide
/-- … the same with those bytes in the read that carried the first request -/
example : (run (init { T := 5000 }) [.read, .head {}, .eom, .paused, .tick 1000, .appSend 0 (.start false),
      .appSend 0 (.body false true), .needData, .tick 4999]).map
    (fun s => (s.timer, s.armedAt, s.closedByServer)) = some (some 6000, 1000, false) := by decide
example : (run (init { T := 5000 }) [.read, .head {}, .eom, .paused, .tick 1000, .appSend 0 (.start false),
      .appSend 0 (.body false true), .needData, .tick 5001]).isNone = true := by decide

/-- prior-knowledge HTTP/2, preface and first request in ONE read, a response that takes 3 T: the timer restarted by the
    switch is stopped again by the request that follows in the same read; nothing is closed while the request is served, the
    connection is closed T after the response ended -/
example : (run (init { proto := .h2, T := 5000 }) [.tick 1000, .read, .h2prior, .head {}, .h2eom 0, .needData, .appRecv 0, .tick 15000,
      .appSend 0 (.start false), .appSend 0 (.body false true), .resume (.app 0), .appExit 0, .tick 5000, .timerFire]).map
    (fun s => (s.closeAt, s.timer, (s.inst 0).access)) = some (some 21000, none, 1) := by decide
/-- … while the request is being served the timer is not armed and the clock may pass any old deadline -/
example : (run (init { proto := .h2, T := 5000 }) [.tick 1000, .read, .h2prior, .head {}, .h2eom 0, .needData, .tick 15000]).map
    (fun s => (s.timer, s.busy, s.closedByServer)) = some (none, true, false) := by decide
/-- the preface on its own: the connection is idle again from the switch (F95, known: counted from the preface, not from the
    accept) and is closed T later -/
example : (run (init { proto := .h2, T := 5000 }) [.tick 1000, .read, .h2prior, .needData, .tick 5000, .timerFire]).map
    (fun s => (s.closeAt, s.live)) = some (some 6000, []) := by decide

/-- h2c upgrade: the upgraded request is in progress from the switch on - the timer h11 stopped stays stopped, 3 T may pass, and
    the connection is closed T after the response has ended -/
example : (run (init { proto := .h2, T := 5000 }) [.tick 1000, .read, .h2c, .head {}, .h2eom 0, .needData, .appRecv 0, .tick 15000,
      .appSend 0 (.start false), .appSend 0 (.body false true), .resume (.app 0), .appExit 0, .tick 5000, .timerFire]).map
    (fun s => (s.closeAt, s.timer, (s.inst 0).access)) = some (some 21000, none, 1) := by decide
example : (run (init { proto := .h2, T := 5000 }) [.tick 1000, .read, .h2c, .head {}, .h2eom 0, .needData, .tick 15000]).map
    (fun s => (s.timer, s.busy, s.closedByServer)) = some (none, true, false) := by decide

/-- trio: the peer does not read, the application's first write is held up; a malformed chunk header makes the server close:
    `_close()` passes over BusyResourceError, `aclose()` releases the writer, which reports the closure; the application's
    later sends are no-ops, it returns and the handler finishes - all at the instant of the decision -/
def blockedWriterClosed : List Op :=
  [.pauseWrites, .read, .head {}, .needData, .appSend 0 (.start false), .resume (.app 0), .tick 300, .read, .protoError,
   .resume .reader, .resume .reader, .resume .reader, .resume (.app 0), .appSend 0 (.body false true),
   .resume (.app 0), .resume (.app 0), .resume (.app 0), .resume (.app 0), .appExit 0, .readerSeesClose, .handlerExit]
example : (run (init { trio := true, T := 1000 }) blockedWriterClosed).map
    (fun s => (s.closeAt, s.doneAt, (s.inst 0).discPuts, s.wblocked.isNone && s.wlockq.isEmpty)) = some (some 300, some 300, 1, true) := by decide
/-- F96 (known), asyncio: `writer.close()` keeps what is buffered until the peer reads it; the task waiting in `drain()` is not
    released by the server's close - the application stays inside `send()`, the handler never becomes ready -/
example : (run (init { T := 1000 }) [.pauseWrites, .read, .head {}, .needData, .appSend 0 (.start false), .tick 300, .read, .protoError,
      .readerSeesClose, .tick 100000]).map
    (fun s => (s.closeAt, s.wblocked == some (.app 0), s.handlerReady, (s.inst 0).discPuts)) = some (some 300, true, false, 1) := by decide

/-- HTTP/2, shutdown begins at 1 s while a request is being served, its response ends at 3 s: GOAWAY, the timer is restarted and
    - `terminated` being set - fires at once: the connection is closed at 3 s although the client, ignoring the GOAWAY, keeps it
    open; no time may pass first (asyncio, trio) -/
example : (run (init { proto := .h2, T := 5000 }) [.read, .head {}, .h2eom 0, .needData, .appRecv 0, .tick 1000, .terminate, .tick 2000,
      .appSend 0 (.start false), .appSend 0 (.body false true), .resume (.app 0), .timerFire]).map
    (fun s => (s.closeAt, s.timer, (s.inst 0).access)) = some (some 3000, none, 1) := by decide
example : (run (init { proto := .h2, T := 5000 }) [.read, .head {}, .h2eom 0, .needData, .appRecv 0, .tick 1000, .terminate, .tick 2000,
      .appSend 0 (.start false), .appSend 0 (.body false true), .resume (.app 0), .tick 1]).isNone = true := by decide
/-- keep-alive disabled (T = 0): nothing arrives - closed at 0, no time can pass first; a request that arrived together with the
    connection is served (its head stopped the timer before it ran), and the connection is closed the instant its response ends -/
example : (run (init { T := 0 }) [.timerFire, .readerSeesClose, .handlerExit]).map (fun s => (s.closeAt, s.doneAt)) = some (some 0, some 0) := by decide
example : (run (init { T := 0 }) [.tick 1]).isNone = true := by decide
example : (run (init { T := 0 }) [.read, .head {}, .eom, .needData, .appRecv 0, .tick 700, .appSend 0 (.start false), .appSend 0 (.body false true),
      .timerFire]).map (fun s => (s.closeAt, s.timer, (s.inst 0).access)) = some (some 700, none, 1) := by decide
example : (run (init { T := 0 }) [.read, .head {}, .eom, .needData, .appRecv 0, .tick 700, .appSend 0 (.start false), .appSend 0 (.body false true),
      .tick 1]).isNone = true := by decide

/-- idle connection: nothing arrives, closed at exactly T; the handler is done at the same instant -/
example : (run (init { T := 5000 }) [.tick 5000, .timerFire, .readerSeesClose, .handlerExit]).map (fun s => (s.closeAt, s.doneAt)) =
    some (some 5000, some 5000) := by decide
/-- … and time cannot jump over the deadline -/
example : (run (init { T := 5000 }) [.tick 5001]).isNone = true := by decide
/-- client EOF on an idle connection at 2 s: released at 2 s, not at T (F25 fixed) -/
example : (run (init { T := 5000 }) [.tick 2000, .readEof, .connClosed, .handlerExit]).map (fun s => (s.closeAt, s.doneAt)) =
    some (some 2000, some 2000) := by decide
/-- a request in progress: the timer is not armed, 100 s may pass -/
example : (run (init { T := 5000 }) [.read, .head {}, .eom, .needData, .tick 100000]).map (fun s => (s.timer, s.busy, s.closedByServer)) =
    some (none, true, false) := by decide
/-- shutdown: the idle connection is closed at once -/
example : (run (init { T := 5000 }) [.tick 1000, .terminate, .timerFire]).map (fun s => s.closeAt) = some (some 1000) := by decide
example : (run (init { T := 5000 }) [.tick 1000, .terminate, .tick 1]).isNone = true := by decide
/-- a stream-generated 404 (unknown server name): the closer task closes the connection at once (F09 fixed) -/
example : (run (init { T := 5000 }) [.read, .head { nameOk := false }, .eom, .needData, .closerRun 0, .readerSeesClose, .handlerExit]).map
    (fun s => (s.closeAt, s.doneAt, (s.inst 0).access)) = some (some 0, some 0, 1) := by decide
/-- a pipelined request parked behind an unfinished one, the write fails, the application gives up: the reader is
    released by `handle(Closed)` and the connection ends with the client's EOF (F10 fixed) -/
example : (run (init { T := 5000 }) [.read, .head {}, .eom, .paused, .failWrites, .appRecv 0, .appSend 0 (.start false),
      .appRecv 0, .appExit 0, .paused, .readEof, .protoError, .handlerExit]).map (fun s => (s.rpc, s.doneAt.isSome, (s.inst 0).discPuts)) =
    some (.finished, true, 1) := by decide
/-- F08 (known): the queue is full and the application has gone: the handler never becomes ready, whatever happens -/
example : (run (init { cap := 2, T := 5000 }) (HC.Conn.Op.read :: [.head {}, .body, .body, .needData, .appExit 0, .readEof, .connClosed, .tick 100000])).map
    (fun s => (s.handlerReady, s.closedByServer, (s.cont (.app 0)).isSome)) = some (false, false, true) := by decide

end HC.Props.C07
