import HC.Conn.Inv
/-!
# C07 — idle connections time out, busy ones do not, dead ones are released

Theorems about the timed connection model `HC.Conn.Server` for every configuration (protocol, worker, queue capacity,
`keep_alive_timeout`) and every operation sequence.  `busy` = some registered stream the peer has not abandoned has a
complete head and an unfinished response, or is a WebSocket that is not closed.
-/
namespace HC.Props.C07
open HC.Conn HC.Extracted.ConnGuards

/-- the extracted facts about the idle timer the model was written against -/
theorem guards_as_extracted :
    httpStreamIdle = false ∧ wsIdleStates = ["CLOSED", "HTTPCLOSED"] ∧
    h11UpdatedSites = ["_handle_events:False", "_maybe_recycle:True"] ∧
    h2UpdatedSites = ["_handle_events:self.idle", "_handle_events:self.idle", "stream_send:idle"] ∧
    asyncioUpdatedDrivesTimer = true ∧ trioUpdatedDrivesTimer = true ∧
    asyncioIdleFireClosesProtocolThenTransport = true ∧ trioIdleFireClosesProtocolThenTransport = true ∧
    asyncioReaderEndStopsIdle = true ∧ trioReaderEndStopsIdle = true ∧
    h11ClosedSetsFlag = true ∧ h11ClosedClosesStream = true ∧ h11ClosedReleasesReader = true ∧ pausedBreaksWhenClosed = true ∧
    h2StreamClosedIgnoresUnknown = true := by decide

/-- **timer_armed_implies_not_busy**: whenever the idle timer is armed no request is in progress and no WebSocket is open,
    so the timer never closes a busy connection -/
theorem timer_armed_implies_not_busy (cfg : Cfg) (ops : List Op) (s : St) (hr : run (init cfg) ops = some s)
    (ha : s.timer.isSome = true) : s.busy = false :=
  (reachable_inv cfg ops s hr).armed ha

/-- the deadline of an armed timer is exactly (the instant it was started) + keep_alive_timeout, and the clock has not passed it -/
theorem deadline_exact (cfg : Cfg) (ops : List Op) (s : St) (hr : run (init cfg) ops = some s) (d : Nat) (hd : s.timer = some d) :
    d = s.armedAt + s.cfg.T ∧ s.now ≤ d :=
  ⟨(reachable_inv cfg ops s hr).dl d hd, (reachable_inv cfg ops s hr).nl d hd⟩

/-- **idle_close_time**: an armed timer on a connection without registered streams fires at exactly its deadline - not
    before (the step is disabled), not after (time cannot pass it) - and closes the transport at that instant;
    when shutdown has begun it fires at once and no time may pass first -/
theorem idle_close_time (cfg : Cfg) (ops : List Op) (s : St) (hr : run (init cfg) ops = some s) (d : Nat)
    (hd : s.timer = some d) (hl : s.live = []) (hc : s.closedByServer = false) (hb : s.cont .timer = none) :
    -- enabled exactly when due
    ((step s .timerFire).isSome = (decide (d ≤ s.now) || s.terminated)) ∧
    -- it closes the transport now; without shutdown "now" is the deadline = idle start + T
    (∀ s', step s .timerFire = some s' → s'.closedByServer = true ∧ s'.closeAt = some s.now ∧ s'.timer = none ∧
        (s.terminated = false → s.now = s.armedAt + s.cfg.T)) ∧
    -- time cannot pass the deadline, and not at all once shutdown has begun
    (∀ k s', step s (.tick k) = some s' → s'.now ≤ d ∧ (s.terminated = true → k = 0)) := by
  have hI := reachable_inv cfg ops s hr
  refine ⟨?_, ?_, ?_⟩
  · simp only [step, hd, hb, Option.isNone_none, Bool.and_true]
    split <;> simp_all
  · intro s' hs'
    simp only [step, hd, hb] at hs'
    split at hs'
    · rename_i hg
      simp only [Option.some.injEq] at hs'
      subst hs'
      have e : ({ s with timer := none } : St).run .timer [.handleClosed, .transportClose, .timerEnd] =
          ({ s with timer := none, pclosed := s.pclosed || h11ClosedSetsFlag, draining := [],
                    ready := s.ready ++ s.draining.map (·.1) } : St).release.closeTransport := by
        have f1 : s.draining.filter (fun _ => true) = s.draining := List.filter_eq_self.2 (fun _ _ => rfl)
        have f2 : s.draining.filter (fun _ => false) = [] := List.filter_eq_nil_iff.2 (fun _ _ => by simp)
        simp [St.run, FUEL, exec, hl, h11ClosedClosesStream, h11ClosedReleasesReader, f1, f2]
      rw [e]
      refine ⟨?_, ?_, ?_, ?_⟩
      · simp [St.closeTransport, St.release]; split <;> split <;> simp_all [St.emit]
      · simp [St.closeTransport, St.release]; split <;> split <;> simp_all [St.emit]
      · simp [St.closeTransport, St.release]; split <;> split <;> simp_all [St.emit]
      · intro ht
        have h1 := hI.dl d hd
        have h2 := hI.nl d hd
        simp [ht] at hg
        omega
    · simp at hs'
  · intro k s' hs'
    simp only [step, hd] at hs'
    split at hs'
    · simp at hs'
    · rename_i hg
      simp only [Option.some.injEq] at hs'; subst hs'
      simp only [Bool.or_eq_true, not_or, Bool.and_eq_true, decide_eq_true_eq, not_and, Nat.not_lt] at hg
      refine ⟨by simp; omega, ?_⟩
      intro ht; have := hg.1 ht; omega

/-- **partial_head_times_out**: bytes that do not complete a request head (a read after which the parser needs more
    data) leave the armed timer and its deadline untouched -/
theorem partial_head_times_out (s s1 s2 : St) (h1 : step s .read = some s1) (h2 : step s1 .needData = some s2) :
    s2.timer = s.timer ∧ s2.armedAt = s.armedAt ∧ s2.closedByServer = s.closedByServer := by
  simp only [step] at h1
  split at h1 <;> simp at h1
  rename_i hg
  subst h1
  simp only [Bool.and_eq_true, beq_iff_eq, Bool.not_eq_true'] at hg
  simp only [step, St.readerCan, beq_self_eq_true, if_true] at h2
  simp at h2; subst h2
  simp [St.run, FUEL, exec, hg.2]

/-- the reader notices a server-side close: while it waits in `read()` on a transport the server has closed, the step
    that ends the reader is enabled (so such a state is never quiescent) -/
theorem reader_notices_close (s : St) (h1 : s.rpc = .reading) (h2 : s.closedByServer = true) (h3 : s.eofSeen = false) :
    (step s .readerSeesClose).isSome = true := by simp [step, h1, h2, h3]

/-- **released** (final step): once the reader has finished, no stream is registered, every application has returned,
    the timer is stopped and no task is blocked, the handler exits at once: transport closed, nothing left alive -/
theorem released (s : St) (h : s.handlerReady = true) :
    ∃ s', step s .handlerExit = some s' ∧ s'.closedByServer = true ∧ s'.timer = none ∧ s'.doneAt = some s.now ∧
      s'.closers = [] ∧ s'.rpc = .finished ∧ s'.live = [] := by
  have h0 := h
  simp only [St.handlerReady, Bool.and_eq_true, beq_iff_eq, List.isEmpty_iff, Option.isNone_iff_eq_none] at h
  obtain ⟨⟨⟨⟨⟨⟨⟨h1, h2⟩, h3⟩, h4⟩, _⟩, _⟩, _⟩, _⟩ := h
  refine ⟨({ (s.closeTransport).stopTimer with doneAt := some s.now } : St).emit [.done s.now], by simp only [step, h0, if_true], ?_, ?_, ?_, ?_, ?_, ?_⟩
  · simp only [St.closeTransport, St.stopTimer, St.emit]; split <;> split <;> simp_all
  · simp only [St.closeTransport, St.stopTimer, St.emit]; split <;> split <;> simp_all
  · simp [St.emit]
  · simp only [St.closeTransport, St.stopTimer, St.emit]; split <;> split <;> simp_all
  · simp only [St.closeTransport, St.stopTimer, St.emit]; split <;> split <;> simp_all
  · simp only [St.closeTransport, St.stopTimer, St.emit]; split <;> split <;> simp_all

/-- the reader's end stops the idle timer on both workers (F25 fixed): after `readerEnd` no timer is armed -/
theorem reader_end_stops_timer (s : St) (w : Who) : (s.run w [.readerEnd]).timer = none ∧ (s.run w [.readerEnd]).rpc = .finished := by
  have : s.cfg.readerEndStops = true := by
    simp [Cfg.readerEndStops, asyncioReaderEndStopsIdle, trioReaderEndStopsIdle]
  simp [St.run, FUEL, exec, this, St.stopTimer]
  split <;> simp_all [St.emit]

/-- **a late `StreamClosed` does not prolong idleness**: HTTP/2 `stream_send(StreamClosed)` for a stream that is no longer
    registered (the client reset it, its application finishes later) changes nothing - in particular neither the timer nor
    its deadline -/
theorem late_stream_closed_changes_nothing (s : St) (w : Who) (i : Nat) (h : s.live.contains i = false) :
    s.run w [.h2StreamClosed i] = s := by
  have ha : s.h2ClosedApplies i = false := by simp only [St.h2ClosedApplies, h2StreamClosedIgnoresUnknown, if_true]; exact h
  simp only [St.run, FUEL, exec, ha]
  rfl

/-! ### witnesses -/

/-- HTTP/2: the client resets the only stream at 1 s (idle from then), the streaming application ignores the disconnect and
    ends its response at 4 s: the deadline stays 1 s + T and the connection is closed then, not at 4 s + T -/
example : (run (init { proto := .h2, T := 5000 }) [.read, .head {}, .h2eom 0, .needData, .appSend 0 (.start false), .appSend 0 (.body true true),
      .tick 1000, .read, .h2rst 0, .needData, .tick 3000, .appSend 0 (.body false true), .appExit 0, .tick 2000, .timerFire]).map
    (fun s => (s.closeAt, s.timer)) = some (some 6000, none) := by decide


/-- idle connection: nothing arrives, closed at exactly T; the handler is done at the same instant -/
example : (run (init { T := 5000 }) [.tick 5000, .timerFire, .readerSeesClose, .handlerExit]).map (fun s => (s.closeAt, s.doneAt)) =
    some (some 5000, some 5000) := by decide
/-- … and time cannot jump over the deadline -/
example : (run (init { T := 5000 }) [.tick 5001]).isNone = true := by decide
/-- client EOF on an idle connection at 2 s: released at 2 s, not at T (F25 fixed) -/
example : (run (init { T := 5000 }) [.tick 2000, .readEof, .connClosed, .handlerExit]).map (fun s => (s.closeAt, s.doneAt)) =
    some (some 2000, some 2000) := by decide
/-- a request in progress: the timer is not armed, 100 s may pass -/
example : (run (init { T := 5000 }) [.read, .head {}, .eom, .needData, .tick 100000]).map (fun s => (s.timer, s.busy, s.closedByServer)) =
    some (none, true, false) := by decide
/-- shutdown: the idle connection is closed at once -/
example : (run (init { T := 5000 }) [.tick 1000, .terminate, .timerFire]).map (fun s => s.closeAt) = some (some 1000) := by decide
example : (run (init { T := 5000 }) [.tick 1000, .terminate, .tick 1]).isNone = true := by decide
/-- a stream-generated 404 (unknown server name): the closer task closes the connection at once (F09 fixed) -/
example : (run (init { T := 5000 }) [.read, .head { nameOk := false }, .eom, .needData, .closerRun 0, .readerSeesClose, .handlerExit]).map
    (fun s => (s.closeAt, s.doneAt, (s.inst 0).access)) = some (some 0, some 0, 1) := by decide
/-- a pipelined request parked behind an unfinished one, the write fails, the application gives up: the reader is
    released by `handle(Closed)` and the connection ends with the client's EOF (F10 fixed) -/
example : (run (init { T := 5000 }) [.read, .head {}, .eom, .paused, .failWrites, .appRecv 0, .appSend 0 (.start false),
      .appRecv 0, .appExit 0, .paused, .readEof, .protoError, .handlerExit]).map (fun s => (s.rpc, s.doneAt.isSome, (s.inst 0).discPuts)) =
    some (.finished, true, 1) := by decide
/-- F08 (known): the queue is full and the application has gone: the handler never becomes ready, whatever happens -/
example : (run (init { cap := 2, T := 5000 }) (HC.Conn.Op.read :: [.head {}, .body, .body, .needData, .appExit 0, .readEof, .connClosed, .tick 100000])).map
    (fun s => (s.handlerReady, s.closedByServer, (s.cont (.app 0)).isSome)) = some (false, false, true) := by decide

end HC.Props.C07
