import HC.Proto.H2Send
/-!
# C09 — HTTP/2 flow control is respected; multiplexed delivery is live and ordered

Invariants of the send-path model (`HC/Proto/H2Send.lean`) over **every** operation sequence: any number of streams,
any interleaving of application writes, the send task's picks (whatever unblocked stream the priority tree hands
out), WINDOW_UPDATE / SETTINGS / RST_STREAM, application aborts and connection close.
Each invariant is proved clause by clause (one-step preservation), then lifted to all runs by `HC.inv_runOps`.
-/
namespace HC.Props.C09
open HC HC.Proto.H2Send HC.Extracted

/-- common opening of every one-step proof: case on the op, unfold `step`, split its branches, discard the disabled
    ones and substitute the successor state -/
macro "step_cases" hs:ident : tactic =>
  `(tactic| (simp only [step] at $hs:ident <;> (repeat' split at $hs:ident) <;>
      (first | (simp at $hs:ident; done) | (simp only [Option.some.injEq] at $hs:ident; subst $hs:ident))))

/-- finish a per-stream goal about `s'.str j` after `step_cases`: unfold the point update, split on `j = i`, then
    arithmetic / propositional clean-up -/
macro "upd_finish" : tactic =>
  `(tactic| (simp only [upd, Str.closeBuf, unblockAll, chunk] at * <;> (repeat' split) <;> (try subst_vars) <;> (try simp_all) <;>
      (first | done | omega | grind)))

/-! ### accounting -/

/-- nothing invented, nothing lost: pushed = sent + buffered + dropped-at-close -/
def Acct (s : St) : Prop := ∀ i, (s.str i).pushed = (s.str i).sent + (s.str i).buf + (s.str i).dropped
/-- the stream window is exactly the credit granted minus what was sent on the stream -/
def Win (s : St) : Prop := ∀ i, (s.str i).window = (s.str i).credit - (s.str i).sent
/-- the connection window is the connection credit granted minus everything sent -/
def CWin (s : St) : Prop := s.connWin = s.connCredit - s.connSent

theorem acct_step (s s' : St) (o : Op) (h : Acct s) (hs : step s o = some s') : Acct s' := by
  intro j
  have hj := h j
  cases o <;> step_cases hs <;>
    first
      | exact hj
      | (have hall := h; unfold Acct at hall; upd_finish)

theorem win_step (s s' : St) (o : Op) (h : Win s) (hs : step s o = some s') : Win s' := by
  intro j
  have hj := h j
  cases o <;> step_cases hs <;>
    first
      | exact hj
      | (have hall := h; unfold Win at hall; upd_finish)

theorem cwin_step (s s' : St) (o : Op) (h : CWin s) (hs : step s o = some s') : CWin s' := by
  unfold CWin at *
  cases o <;> step_cases hs <;> first | exact h | (simp_all; omega)

/-! ### flow control is respected -/

/-- **every DATA frame fits the frame size, the stream window and the connection window as they stand**:
    the number of bytes `_send_data` takes is at most each of them (and 0 when a window is not positive) -/
theorem flow_respected (s : St) (i : Nat) :
    chunk s i ≤ s.maxFrame ∧ ((chunk s i : Int) ≤ max 0 (s.str i).window) ∧ ((chunk s i : Int) ≤ max 0 s.connWin) := by
  unfold chunk
  omega

/-- … and therefore, by the accounting above, what was sent never exceeds the credit granted while the window the peer
    advertises is non-negative: `sent = credit − window` on each stream and on the connection -/
theorem sent_is_credit_minus_window (s : St) (h1 : Win s) (h2 : CWin s) (i : Nat) :
    ((s.str i).sent : Int) = (s.str i).credit - (s.str i).window ∧ (s.connSent : Int) = s.connCredit - s.connWin := by
  have := h1 i
  unfold CWin at h2
  omega

/-! ### scheduling: tree membership, stalls, wake-ups -/

def Tree (s : St) : Prop := (∀ i, (s.str i).hasBuf = true → (s.str i).inTree = true) ∧ 0 < s.maxFrame

theorem tree_step (s s' : St) (o : Op) (h : Tree s) (hs : step s o = some s') : Tree s' := by
  obtain ⟨h1, h2⟩ := h
  cases o <;> step_cases hs <;>
    (refine ⟨?_, ?_⟩ <;> first
      | exact h1
      | exact h2
      | (intro j hj; have hall := h1; revert hj; upd_finish))

/-- **a stalled stream has no credit**: a buffered stream that is blocked in the priority tree either has nothing to
    send yet, or its stream window or the connection window is exhausted (or the connection is closed) -/
def Stall (s : St) : Prop := ∀ i, (s.str i).hasBuf = true → (s.str i).blocked = true →
  ((s.str i).buf = 0 ∧ (s.str i).complete = false) ∨ (s.str i).window ≤ 0 ∨ s.connWin ≤ 0 ∨ s.closed = true

theorem stall_step (s s' : St) (o : Op) (h : Stall s) (ht : Tree s) (hs : step s o = some s') : Stall s' := by
  obtain ⟨ht1, ht2⟩ := ht
  intro j
  have hj := h j
  cases o <;> step_cases hs <;>
    first
      | exact hj
      | (have hall := h; unfold Stall at hall; upd_finish)

/-- **no lost wake-up**: if the send task is parked and `has_data` is clear then every member of the tree is blocked -/
def Sleep (s : St) : Prop := s.task = .parked → s.hasData = false → deadlock s

theorem sleep_step (s s' : St) (o : Op) (h : Sleep s) (hp : opOk s o) (hs : step s o = some s') : Sleep s' := by
  unfold Sleep deadlock at *
  cases o <;> step_cases hs <;>
    first
      | exact h
      | (intro h1 h2 j hj; simp_all [opOk, deadlock]; done)
      | (intro h1 h2 j; have hall := h; upd_finish)

/-! ### END_STREAM exactly once, after everything -/

/-- bytes are only ever dropped from a buffer that is then gone or belongs to a closed connection -/
def Drop (s : St) : Prop := ∀ i, (s.str i).dropped > 0 → (s.str i).hasBuf = false ∨ s.closed = true

theorem drop_step (s s' : St) (o : Op) (h : Drop s) (hs : step s o = some s') : Drop s' := by
  intro j
  have hj := h j
  cases o <;> step_cases hs <;>
    first
      | exact hj
      | (have hall := h; unfold Drop at hall; upd_finish)

/-- END_STREAM has been sent only for a stream whose buffer is gone, complete, empty and un-dropped; a stream whose
    buffer is gone is never opened again -/
def Fin (s : St) : Prop := ∀ i, (s.str i).ended = true →
  (s.str i).hasBuf = false ∧ (s.str i).complete = true ∧ (s.str i).buf = 0 ∧ (s.str i).dropped = 0

theorem fin_step (s s' : St) (o : Op) (h : Fin s) (hd : Drop s) (hs : step s o = some s') : Fin s' := by
  intro j
  have hj := h j
  have hdj := hd j
  cases o <;> step_cases hs <;>
    first
      | exact hj
      | (have hall := h; have halld := hd; unfold Fin at hall; unfold Drop at halld; upd_finish)

/-- a buffered stream that the library regards as closed stays schedulable until the send task has discarded its buffer -/
def RstU (s : St) : Prop := ∀ i, (s.str i).hasBuf = true → (s.str i).libClosed = true → (s.str i).blocked = false ∨ s.closed = true

theorem rstU_step (s s' : St) (o : Op) (h : RstU s) (ht : Tree s) (hs : step s o = some s') : RstU s' := by
  obtain ⟨ht1, ht2⟩ := ht
  intro j
  have hj := h j
  cases o <;> step_cases hs <;>
    first
      | exact hj
      | (have hall := h; unfold RstU at hall; upd_finish)

/-- registration discipline: a registered stream whose body is not ended has a buffer; a buffer is only complete once
    the app ended the body or the stream is gone; a stream the library closed is not registered; and — the point —
    **every unblocked member of the priority tree has a buffer**, so `_send_data` never meets a `KeyError` it cannot
    handle (its `except` clause indexes `stream_buffers` again) -/
def Reg (s : St) : Prop := ∀ i,
  ((s.str i).live = true → (s.str i).appDone = false → (s.str i).hasBuf = true) ∧
  ((s.str i).hasBuf = true → (s.str i).complete = true → (s.str i).appDone = true ∨ (s.str i).live = false) ∧
  ((s.str i).libClosed = true → (s.str i).live = false) ∧
  ((s.str i).inTree = true → (s.str i).blocked = false → (s.str i).hasBuf = true)

theorem reg_step (s s' : St) (o : Op) (h : Reg s) (hp : opOk s o) (hs : step s o = some s') : Reg s' := by
  intro j
  have hj := h j
  cases o <;> step_cases hs <;>
    first
      | exact hj
      | (have hall := h; unfold Reg at hall; simp only [opOk] at hp; upd_finish)

/-! ### all together, for every run -/

structure Inv (s : St) : Prop where
  acct : Acct s
  win : Win s
  cwin : CWin s
  tree : Tree s
  stall : Stall s
  sleep : Sleep s
  drop : Drop s
  fin : Fin s
  rstU : RstU s
  reg : Reg s

theorem inv_init (cw : Int) (mf : Nat) (h : 0 < mf) : Inv (init cw mf) := by
  constructor <;> simp [init, Acct, Win, CWin, Tree, Stall, Sleep, Drop, Fin, RstU, Reg, deadlock, h]

theorem inv_step (s s' : St) (o : Op) (h : Inv s) (hp : opOk s o) (hs : step s o = some s') : Inv s' :=
  ⟨acct_step s s' o h.acct hs, win_step s s' o h.win hs, cwin_step s s' o h.cwin hs, tree_step s s' o h.tree hs,
   stall_step s s' o h.stall h.tree hs, sleep_step s s' o h.sleep hp hs, drop_step s s' o h.drop hs,
   fin_step s s' o h.fin h.drop hs, rstU_step s s' o h.rstU h.tree hs, reg_step s s' o h.reg hp hs⟩

/-- a run in which every op meets `opOk` (`park`/`consume` only at deadlock; body events only from live streams) -/
abbrev allOk : St → List Op → Prop := allQ opOk

theorem inv_run (ops : List Op) : ∀ (s s' : St), Inv s → allOk s ops → runOk s ops = some s' → Inv s' :=
  run_invariant Inv opOk inv_step ops

/-- **in order, complete, one END_STREAM**: in every reachable state, for every stream, what reached the wire plus what
    is still buffered plus what a close discarded is exactly what the application pushed, and END_STREAM has been sent
    only after *all* pushed bytes were sent (and then the buffer is gone, so it cannot be sent again) -/
theorem in_order_complete (cw : Int) (mf : Nat) (hmf : 0 < mf) (ops : List Op) (s : St)
    (hok : allOk (init cw mf) ops) (hr : runOk (init cw mf) ops = some s) (i : Nat) :
    (s.str i).pushed = (s.str i).sent + (s.str i).buf + (s.str i).dropped ∧
    ((s.str i).ended = true → (s.str i).sent = (s.str i).pushed ∧ (s.str i).hasBuf = false) := by
  have hI := inv_run ops _ s (inv_init cw mf hmf) hok hr
  refine ⟨hI.acct i, fun he => ?_⟩
  obtain ⟨h1, _, h3, h4⟩ := hI.fin i he
  have := hI.acct i
  exact ⟨by omega, h1⟩

/-- **no lost wake-up / stall means no credit**, for every reachable state -/
theorem no_lost_wakeup (cw : Int) (mf : Nat) (hmf : 0 < mf) (ops : List Op) (s : St)
    (hok : allOk (init cw mf) ops) (hr : runOk (init cw mf) ops = some s) :
    (s.task = .parked → s.hasData = false → ∀ j, (s.str j).inTree = true → (s.str j).blocked = true) ∧
    (∀ i, (s.str i).hasBuf = true → (s.str i).blocked = true → (s.str i).buf > 0 → s.closed = false →
      (s.str i).window ≤ 0 ∨ s.connWin ≤ 0) := by
  have hI := inv_run ops _ s (inv_init cw mf hmf) hok hr
  refine ⟨hI.sleep, fun i hb hbl hbuf hc => ?_⟩
  rcases hI.stall i hb hbl with h | h | h | h
  · omega
  · exact Or.inl h
  · exact Or.inr h
  · simp [hc] at h

/-- **the send task survives**: in every reachable state, whichever unblocked member `next(priority)` hands out has a
    buffer, so the pick is a defined step (no `KeyError` escapes `_send_data` and kills the task) -/
theorem send_task_survives (cw : Int) (mf : Nat) (hmf : 0 < mf) (ops : List Op) (s : St)
    (hok : allOk (init cw mf) ops) (hr : runOk (init cw mf) ops = some s) (i : Nat)
    (hrun : s.task = .running) (hc : s.closed = false) (ht : (s.str i).inTree = true) (hb : (s.str i).blocked = false) :
    (step s (.pick i)).isSome = true := by
  have hI := inv_run ops _ s (inv_init cw mf hmf) hok hr
  have hbuf := (hI.reg i).2.2.2 ht hb
  simp only [step]
  (repeat' split) <;> simp_all

/-- the send task has nothing it could do: it is parked (or gone), or every member is blocked and `has_data` is clear -/
def taskQuiescent (s : St) : Prop :=
  s.task = .exited ∨ (s.task = .parked ∧ s.hasData = false)

/-- **live**: when the send task is quiescent on an open connection, every stream that still holds data has no credit,
    and every stream whose application ended the body and that has credit has had its END_STREAM -/
theorem live (cw : Int) (mf : Nat) (hmf : 0 < mf) (ops : List Op) (s : St)
    (hok : allOk (init cw mf) ops) (hr : runOk (init cw mf) ops = some s)
    (hq : s.task = .parked ∧ s.hasData = false) (hc : s.closed = false) (i : Nat) (hb : (s.str i).hasBuf = true) :
    ((s.str i).buf > 0 → (s.str i).window ≤ 0 ∨ s.connWin ≤ 0) ∧
    ((s.str i).complete = true → (s.str i).buf = 0 → (s.str i).window ≤ 0 ∨ s.connWin ≤ 0) := by
  have hI := inv_run ops _ s (inv_init cw mf hmf) hok hr
  have hbl : (s.str i).blocked = true := hI.sleep hq.1 hq.2 i (hI.tree.1 i hb)
  rcases hI.stall i hb hbl with h | h | h | h
  · exact ⟨fun hp => by omega, fun hcpl _ => by simp [hcpl] at h⟩
  · exact ⟨fun _ => Or.inl h, fun _ _ => Or.inl h⟩
  · exact ⟨fun _ => Or.inr h, fun _ _ => Or.inr h⟩
  · simp [hc] at h

/-- **a reset (or stalled) stream does not stop the others**: an op on stream `i` leaves every other stream's state
    untouched, so whatever was enabled for stream `j` stays enabled apart from the shared connection window -/
theorem reset_isolated (s s' : St) (i j : Nat) (hij : j ≠ i) (hs : step s (.rst i) = some s') : s'.str j = s.str j := by
  simp only [step, Option.some.injEq] at hs
  subst hs
  simp [upd, hij]

theorem push_isolated (s s' : St) (i n j : Nat) (hij : j ≠ i) (hs : step s (.push i n) = some s') : s'.str j = s.str j := by
  step_cases hs <;> simp [upd, hij]

-- non-vacuity: two streams, one stalls at a zero stream window, the other is delivered and ended
example :
    (runOk (init 65535 16384) [.open_ 1 0, .open_ 3 65535, .push 1 10, .push 3 20000, .end_ 3, .pick 1, .pick 3, .pick 3, .consume,
      .park, .winStream 1 100, .wake, .pick 1]).map (fun s => ((s.str 1).sent, (s.str 1).blocked, (s.str 3).sent, (s.str 3).ended, s.task)) =
    some (10, false, 20000, true, .running) := by decide

end HC.Props.C09
