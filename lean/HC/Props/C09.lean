import HC.Proto.H2Send
import HC.Proto.H2SendEvents
import HC.Proto.H2Credit
import HC.Extracted.Excepts
/-!
# C09 — HTTP/2 flow control is respected; multiplexed delivery is live and ordered

Invariants of the send-path model (`HC/Proto/H2Send.lean`) over **every** operation sequence: any number of streams,
any interleaving of application writes, the send task's picks (whatever unblocked stream the priority tree hands
out) and its suspensions inside `_send_data`, WINDOW_UPDATE / SETTINGS / PRIORITY / RST_STREAM, application aborts and
connection close.  Each invariant is proved clause by clause (one-step preservation), then lifted to all runs.

The only hypothesis on a run is `opOk`: the send task goes to sleep (`park`) only when `next(priority)` raised
`DeadlockError`, i.e. when no member of the tree is unblocked.
-/
namespace HC.Props.C09
open HC HC.Proto.H2Send HC.Proto.H2SendEvents HC.Extracted

/-- common opening of every one-step proof: case on the op, unfold `step`, split its branches, discard the disabled
    ones and substitute the successor state -/
macro "step_cases" hs:ident : tactic =>
  `(tactic| (simp only [step] at $hs:ident <;> (repeat' split at $hs:ident) <;>
      (first | (simp at $hs:ident; done) | (simp only [Option.some.injEq] at $hs:ident; subst $hs:ident))))

/-- finish a per-stream goal about `s'.str j` after `step_cases`: unfold the point update, split on `j = i`, then
    arithmetic / propositional clean-up -/
macro "upd_finish" : tactic =>
  `(tactic| (simp only [upd, Str.closeBuf, Str.discard, Str.gone, unblockAll, Guards.sendDataEnds, Guards.bufferComplete, Guards.bufferPopEmpty,
                        Guards.bufferDrainClears] at * <;>
      (repeat' split) <;> (try subst_vars) <;> (try simp_all) <;>
      (first | done | omega | grind)))

/-! ### the source facts the model's granularity rests on (extracted from the current tree) -/

/-- `Event.set()` / `Event.clear()` never suspend in either worker, `Event.wait()` does: the only suspension points of
    the send path are the waits and the transport write -/
theorem atomicity_assumed :
    Atomic.asyncioEventSetSuspends = false ∧ Atomic.asyncioEventClearSuspends = false ∧ Atomic.asyncioEventWaitSuspends = true ∧
    Atomic.trioEventSetSuspends = false ∧ Atomic.trioEventClearSuspends = false ∧ Atomic.trioEventWaitSuspends = true := by decide

/-- the statement order inside the pieces of `h2.py` that one model op stands for -/
theorem statement_order_assumed :
    Atomic.h2BodyBranch = ["self.priority.unblock", "self.has_data.set", "self.stream_buffers[event.stream_id].push"] ∧
    Atomic.h2EndBranch = ["self.stream_buffers[event.stream_id].set_complete", "self.priority.unblock", "self.has_data.set",
                          "self.stream_buffers[event.stream_id].drain"] ∧
    Atomic.h2ClosedBranch = ["self._reset_abandoned_response", "self._close_stream"] ∧
    Atomic.h2SendTask = ["next", "self.has_data.wait", "self.has_data.clear", "self._send_data", "self.stream_buffers.values",
                         "stream_buffer.close"] ∧
    Atomic.h2SendDataTry = ["min", "self.connection.local_flow_control_window", "max", "self.stream_buffers[stream_id].pop",
                            "self.connection.send_data", "self._flush", "self.priority.block", "self._end_stream", "self._flush",
                            "self.stream_buffers[stream_id].close", "self.priority.remove_stream"] ∧
    Atomic.h2BufferPush = ["BufferCompleteError", "self.buffer.extend", "self._is_empty.clear", "len", "self._paused.wait", "self._paused.clear"] ∧
    Atomic.h2BufferClose = ["self._complete = True", "self._closed = True", "self.buffer = bytearray()", "await self._is_empty.set()",
                            "await self._paused.set()"] := by
  decide

/-- the recovery from a priority tree that schedules a stream it does not know (`MissingStreamError` inside the `except`
    clause of `_send_data`): a fresh tree into which every buffered stream is inserted - active, nothing blocks it again -/
theorem rebuild_assumed :
    Atomic.h2SendDataExcept = ["self.stream_buffers.pop", "stream_buffer.close", "self.priority.remove_stream", "priority.PriorityTree",
                               "self.priority.insert_stream"] ∧
    Atomic.h2SendDataRebuild = ["insert"] ∧ Atomic.h2RebuildBlocks = false := by decide

/-- the `except` clauses the model's "swallowed" branches stand for -/
theorem except_clauses_assumed :
    Excepts.h2SendData = ["StreamClosedError", "KeyError", "ProtocolError", "MissingStreamError"] ∧
    Excepts.h2StreamSend = ["BufferCompleteError", "KeyError", "MissingStreamError", "ProtocolError"] := by decide

/-- nothing fits only when a window is exhausted (the frame size is positive) -/
theorem chunk_zero (s : St) (i : Nat) (hm : 0 < s.maxFrame) (h : chunk s i = 0) : (s.str i).window ≤ 0 ∨ s.connWin ≤ 0 := by
  unfold chunk at h
  omega

/-- the bytes taken fit both windows -/
theorem chunk_le (s : St) (i : Nat) : ((chunk s i : Nat) : Int) ≤ max 0 (s.str i).window ∧ ((chunk s i : Nat) : Int) ≤ max 0 s.connWin ∧ chunk s i ≤ s.maxFrame := by
  unfold chunk
  omega

/-! ### accounting -/

/-- nothing invented, nothing lost: pushed = sent + buffered + dropped-at-close -/
def Acct (s : St) : Prop := ∀ i, (s.str i).pushed = (s.str i).sent + (s.str i).buf + (s.str i).dropped
/-- the stream window is exactly the credit granted minus what was sent on the stream -/
def Win (s : St) : Prop := ∀ i, (s.str i).window = (s.str i).credit - (s.str i).sent
/-- the connection window is the connection credit granted minus everything sent -/
def CWin (s : St) : Prop := s.connWin = s.connCredit - s.connSent

theorem acct_step (s s' : St) (o : Op) (h : Acct s) (hs : step s o = some s') : Acct s' := by
  intro j
  have hj := h j
  cases o <;> step_cases hs <;>
    first
      | exact hj
      | (have hall := h; unfold Acct at hall; upd_finish)

theorem win_step (s s' : St) (o : Op) (h : Win s) (hs : step s o = some s') : Win s' := by
  intro j
  have hj := h j
  cases o <;> step_cases hs <;>
    first
      | exact hj
      | (have hall := h; unfold Win at hall; upd_finish)

theorem cwin_step (s s' : St) (o : Op) (h : CWin s) (hs : step s o = some s') : CWin s' := by
  unfold CWin at *
  cases o <;> step_cases hs <;> first | exact h | (simp_all; omega)

/-! ### flow control is respected -/

/-- **every DATA frame fits the frame size, the stream window and the connection window as they stand**:
    the number of bytes `_send_data` takes is at most each of them (and 0 when a window is not positive) -/
theorem flow_respected (s : St) (i : Nat) :
    chunk s i ≤ s.maxFrame ∧ ((chunk s i : Int) ≤ max 0 (s.str i).window) ∧ ((chunk s i : Int) ≤ max 0 s.connWin) := by
  unfold chunk
  omega

/-- … and that is what the step sends: whatever a `pick` puts on the wire (`connSent` grows by it) is at most
    `maxFrame`, the stream window and the connection window *before* the step; no other op sends any DATA -/
theorem frame_within_windows (s s' : St) (o : Op) (hs : step s o = some s') :
    s'.connSent - s.connSent ≤ s.maxFrame ∧ s.connSent ≤ s'.connSent ∧
    (∀ i, o = .pick i → ((s'.connSent - s.connSent : Nat) : Int) ≤ max 0 (s.str i).window ∧
                         ((s'.connSent - s.connSent : Nat) : Int) ≤ max 0 s.connWin ∧
                         (s'.str i).sent - (s.str i).sent ≤ s'.connSent - s.connSent) ∧
    ((∀ i, o ≠ .pick i) → s'.connSent = s.connSent) := by
  cases o
  case pick i =>
    have hc := chunk_le s i
    step_cases hs <;> simp [upd, Str.discard, Str.closeBuf] <;> (try split) <;> simp_all <;> omega
  all_goals (step_cases hs <;> simp [upd])

/-- … and therefore, by the accounting above, what was sent is the credit granted minus the window the peer still
    advertises: `sent = credit − window` on each stream and on the connection -/
theorem sent_is_credit_minus_window (s : St) (h1 : Win s) (h2 : CWin s) (i : Nat) :
    ((s.str i).sent : Int) = (s.str i).credit - (s.str i).window ∧ (s.connSent : Int) = s.connCredit - s.connWin := by
  have := h1 i
  unfold CWin at h2
  omega

/-- the connection window never goes negative (nothing but DATA consumes it) -/
def CNonneg (s : St) : Prop := 0 ≤ s.connWin

theorem cnonneg_step (s s' : St) (o : Op) (h : CNonneg s) (hs : step s o = some s') : CNonneg s' := by
  unfold CNonneg at *
  cases o
  case pick i =>
    have hc := chunk_le s i
    step_cases hs <;> first | exact h | (simp_all; omega)
  all_goals (step_cases hs <;> first | exact h | (simp_all; omega))

/-! ### scheduling: tree membership, stalls, wake-ups -/

def Tree (s : St) : Prop := (∀ i, (s.str i).hasBuf = true → (s.str i).inTree = true) ∧ 0 < s.maxFrame

theorem tree_step (s s' : St) (o : Op) (h : Tree s) (hs : step s o = some s') : Tree s' := by
  obtain ⟨h1, h2⟩ := h
  cases o <;> step_cases hs <;>
    (refine ⟨?_, ?_⟩ <;> first
      | exact h1
      | exact h2
      | (simp_all; omega)
      | (intro j hj; have hall := h1; revert hj; upd_finish))

/-- **a stalled stream has no credit**: a buffered stream that is blocked in the priority tree either has nothing to
    send yet, or its stream window or the connection window is exhausted (or the connection is closed) -/
def Stall (s : St) : Prop := ∀ i, (s.str i).hasBuf = true → (s.str i).blocked = true →
  ((s.str i).buf = 0 ∧ (s.str i).complete = false) ∨ (s.str i).window ≤ 0 ∨ s.connWin ≤ 0 ∨ s.closed = true ∨ (s.str i).ended = true

theorem stall_step (s s' : St) (o : Op) (h : Stall s) (ht : Tree s) (hs : step s o = some s') : Stall s' := by
  obtain ⟨ht1, ht2⟩ := ht
  intro j
  have hj := h j
  have hz := chunk_zero s
  cases o <;> step_cases hs <;>
    first
      | exact hj
      | (have hall := h; unfold Stall at hall; upd_finish)

/-- **no lost wake-up**: if the send task is parked and `has_data` is clear then every member of the tree is blocked -/
def Sleep (s : St) : Prop := s.task = .parked → s.hasData = false → deadlock s

theorem sleep_step (s s' : St) (o : Op) (h : Sleep s) (hp : opOk s o) (hs : step s o = some s') : Sleep s' := by
  unfold Sleep deadlock at *
  cases o <;> step_cases hs <;>
    first
      | exact h
      | (intro h1 h2 j hj; simp_all [opOk, deadlock]; done)
      | (intro h1 h2 j; have hall := h; upd_finish)

/-! ### END_STREAM exactly once, after everything -/

/-- a sender that is inside `_reset_abandoned_response` has already reset the stream -/
def Aband (s : St) : Prop := ∀ i, (s.str i).pusher = .inAbandon → (s.str i).libClosed = true

theorem aband_step (s s' : St) (o : Op) (h : Aband s) (hs : step s o = some s') : Aband s' := by
  intro j
  have hj := h j
  cases o <;> step_cases hs <;>
    first
      | exact hj
      | (have hall := h; unfold Aband at hall; upd_finish)

/-- a stream without a buffer holds no bytes -/
def NoBuf (s : St) : Prop := ∀ i, (s.str i).hasBuf = false → (s.str i).buf = 0

/-- END_STREAM has been sent only for a stream whose buffer was complete, empty and un-dropped -/
def Fin (s : St) : Prop := ∀ i, (s.str i).ended = true → (s.str i).complete = true ∧ (s.str i).buf = 0 ∧ (s.str i).dropped = 0

/-- bytes are only ever dropped on a closed connection or a reset stream -/
def Drop (s : St) : Prop := ∀ i, (s.str i).dropped > 0 → s.closed = true ∨ (s.str i).libClosed = true

/-- the send task waits for the END_STREAM flush only of a stream it has ended; an ended stream still has its buffer only
    during that flush -/
def Ending (s : St) : Prop := ∀ i, (s.task = .ending i → (s.str i).ended = true) ∧
  ((s.str i).ended = true → (s.str i).hasBuf = true → s.task = .ending i)

theorem ending_step (s s' : St) (o : Op) (h : Ending s) (hs : step s o = some s') : Ending s' := by
  intro j
  have hj := h j
  cases o <;> step_cases hs <;>
    first
      | exact hj
      | (have hall := h; unfold Ending at hall; upd_finish)

theorem fin_step (s s' : St) (o : Op) (h : Fin s) (hd : Drop s) (hs : step s o = some s') : Fin s' := by
  intro j
  have hj := h j
  have hdj := hd j
  cases o <;> step_cases hs <;>
    first
      | exact hj
      | (have hall := h; have halld := hd; unfold Fin at hall; unfold Drop at halld; upd_finish)

theorem nobuf_step (s s' : St) (o : Op) (h : NoBuf s) (hf : Fin s) (he : Ending s) (hs : step s o = some s') : NoBuf s' := by
  intro j
  have hj := h j
  have hfj := hf j
  have hej := he j
  cases o <;> step_cases hs <;>
    first
      | exact hj
      | (have hall := h; have hallf := hf; have halle := he; unfold NoBuf at hall; unfold Fin at hallf; unfold Ending at halle; upd_finish)

theorem drop_step (s s' : St) (o : Op) (h : Drop s) (hn : NoBuf s) (hf : Fin s) (ha : Aband s) (he : Ending s)
    (hs : step s o = some s') : Drop s' := by
  intro j
  have hj := h j
  have hnj := hn j
  have hfj := hf j
  have haj := ha j
  have hej := he j
  cases o <;> step_cases hs <;>
    first
      | exact hj
      | (have hall := h; have halln := hn; have hallf := hf; have halla := ha; have halle := he
         unfold Drop at hall; unfold NoBuf at halln; unfold Fin at hallf; unfold Aband at halla; unfold Ending at halle; upd_finish)

/-- a stream that was opened and has lost its buffer was either ended or reset -/
def Gone (s : St) : Prop := ∀ i, (s.str i).opened = true → (s.str i).hasBuf = false → (s.str i).ended = true ∨ (s.str i).libClosed = true

theorem gone_step (s s' : St) (o : Op) (h : Gone s) (he : Ending s) (ha : Aband s) (hs : step s o = some s') : Gone s' := by
  intro j
  have hj := h j
  have hej := he j
  have haj := ha j
  cases o <;> step_cases hs <;>
    first
      | exact hj
      | (have hall := h; have halle := he; have halla := ha; unfold Gone at hall; unfold Ending at halle; unfold Aband at halla; upd_finish)

/-- a sender waiting in `drain()` is waiting on a complete buffer, and its `_is_empty` is only set by `close()` -/
def DrainEv (s : St) : Prop := ∀ i, (s.str i).pusher = .inDrain →
  (s.str i).complete = true ∧ ((s.str i).emptyEv = true → (s.str i).bufClosed = true)

theorem drainEv_step (s s' : St) (o : Op) (h : DrainEv s) (hs : step s o = some s') : DrainEv s' := by
  intro j
  have hj := h j
  cases o <;> step_cases hs <;>
    first
      | exact hj
      | (have hall := h; unfold DrainEv at hall; upd_finish)

/-- a buffer is closed only when its stream was ended or reset, or the connection is closed -/
def BufClosed (s : St) : Prop := ∀ i, (s.str i).bufClosed = true → (s.str i).ended = true ∨ (s.str i).libClosed = true ∨ s.closed = true

theorem bufClosed_step (s s' : St) (o : Op) (h : BufClosed s) (he : Ending s) (ha : Aband s) (hs : step s o = some s') : BufClosed s' := by
  intro j
  have hj := h j
  have hej := he j
  have haj := ha j
  cases o <;> step_cases hs <;>
    first
      | exact hj
      | (have hall := h; have halle := he; have halla := ha; unfold BufClosed at hall; unfold Ending at halle; unfold Aband at halla; upd_finish)

/-! ### all together, for every run -/

structure Inv (s : St) : Prop where
  drainEv : DrainEv s
  bufClosed : BufClosed s
  acct : Acct s
  win : Win s
  cwin : CWin s
  tree : Tree s
  stall : Stall s
  sleep : Sleep s
  aband : Aband s
  nobuf : NoBuf s
  fin : Fin s
  drop : Drop s
  ending : Ending s
  gone : Gone s

theorem inv_init (cw : Int) (mf : Nat) (h : 0 < mf) : Inv (init cw mf) := by
  constructor <;> simp [init, DrainEv, BufClosed, Acct, Win, CWin, Tree, Stall, Sleep, Aband, NoBuf, Fin, Drop, Ending, Gone, deadlock, h]

theorem inv_step (s s' : St) (o : Op) (h : Inv s) (hp : opOk s o) (hs : step s o = some s') : Inv s' :=
  ⟨drainEv_step s s' o h.drainEv hs, bufClosed_step s s' o h.bufClosed h.ending h.aband hs, acct_step s s' o h.acct hs, win_step s s' o h.win hs, cwin_step s s' o h.cwin hs, tree_step s s' o h.tree hs,
   stall_step s s' o h.stall h.tree hs, sleep_step s s' o h.sleep hp hs, aband_step s s' o h.aband hs,
   nobuf_step s s' o h.nobuf h.fin h.ending hs, fin_step s s' o h.fin h.drop hs, drop_step s s' o h.drop h.nobuf h.fin h.aband h.ending hs,
   ending_step s s' o h.ending hs, gone_step s s' o h.gone h.ending h.aband hs⟩

/-- a run in which every op meets `opOk` (`park` only at deadlock) -/
abbrev allOk : St → List Op → Prop := allQ opOk

theorem inv_run (ops : List Op) : ∀ (s s' : St), Inv s → allOk s ops → runOk s ops = some s' → Inv s' :=
  run_invariant Inv opOk inv_step ops

/-! ### the priority library handing out a stream the tree does not know (`rebuild`) -/

/-- common opening for the recovery step: it is enabled only with the task at the top of its loop on an open connection,
    for a stream without tree entry and buffer, and replaces the tree flags of every stream -/
theorem rebuild_spec (s s' : St) (i : Nat) (hs : rebuild s i = some s') :
    s.task = .running ∧ s.closed = false ∧ (s.str i).inTree = false ∧ (s.str i).hasBuf = false ∧
    s' = { s with str := fun j => rebuildStr (s.str j) } := by
  unfold rebuild at hs
  split at hs
  · cases hs
  · simp only [Option.some.injEq] at hs
    simp_all

/-- **the fresh tree schedules every buffered stream**: after the recovery each stream with a buffer is a member of the
    tree and *not* blocked (the extracted loop body inserts and never blocks), streams without a buffer are not members,
    and nothing else changes - buffers, events, waiting senders, windows, `has_data`, the task's position -/
theorem rebuild_unblocks (s s' : St) (i : Nat) (hs : rebuild s i = some s') :
    (∀ j, (s'.str j).inTree = (s.str j).hasBuf ∧ ((s.str j).hasBuf = true → (s'.str j).blocked = false) ∧
          (s'.str j) = { (s.str j) with inTree := (s'.str j).inTree, blocked := (s'.str j).blocked }) ∧
    s'.task = s.task ∧ s'.hasData = s.hasData ∧ s'.closed = s.closed ∧ s'.connWin = s.connWin ∧ s'.maxFrame = s.maxFrame ∧
    s'.connSent = s.connSent ∧ s'.connCredit = s.connCredit := by
  obtain ⟨_, _, _, _, h⟩ := rebuild_spec s s' i hs
  subst h
  refine ⟨fun j => ?_, rfl, rfl, rfl, rfl, rfl, rfl, rfl⟩
  simp [rebuildStr, Atomic.h2RebuildBlocks]

/-- whatever non-member the library hands out, the send task survives it: the recovery is defined -/
theorem rebuild_total (s : St) (i : Nat) (h1 : s.task = .running) (h2 : s.closed = false) (h3 : (s.str i).inTree = false)
    (h4 : (s.str i).hasBuf = false) : (rebuild s i).isSome = true := by
  simp [rebuild, h1, h2, h3, h4]

theorem inv_rebuild (s s' : St) (i : Nat) (h : Inv s) (hs : rebuild s i = some s') : Inv s' := by
  obtain ⟨ht, hc, _, _, he⟩ := rebuild_spec s s' i hs
  subst he
  obtain ⟨h1, h2, h3, h4, h5, h6, h7, h8, h9, h10, h11, h12, h13, h14⟩ := h
  refine ⟨?_, ?_, ?_, ?_, ?_, ?_, ?_, ?_, ?_, ?_, ?_, ?_, ?_, ?_⟩
  · intro j; have := h1 j; simpa [rebuildStr] using this
  · intro j; have := h2 j; simpa [rebuildStr] using this
  · intro j; have := h3 j; simpa [rebuildStr] using this
  · intro j; have := h4 j; simpa [rebuildStr] using this
  · exact h5
  · exact ⟨fun j hj => by simpa [rebuildStr] using hj, h6.2⟩
  · -- Stall: no buffered stream is blocked after the recovery
    intro j hb hbl
    simp [rebuildStr, Atomic.h2RebuildBlocks] at hbl
  · intro hp; simp [ht] at hp
  · intro j; have := h9 j; simpa [rebuildStr] using this
  · intro j; have := h10 j; simpa [rebuildStr] using this
  · intro j; have := h11 j; simpa [rebuildStr] using this
  · intro j; have := h12 j; simpa [rebuildStr] using this
  · intro j; have := h13 j; simpa [rebuildStr, ht] using this
  · intro j; have := h14 j; simpa [rebuildStr] using this

theorem inv_xstep (s s' : St) (o : XOp) (h : Inv s) (hp : xopOk s o) (hs : xstep s o = some s') : Inv s' := by
  cases o with
  | op o => exact inv_step s s' o h hp hs
  | rebuild i => exact inv_rebuild s s' i h hs

/-- a run of the extended machine (send path + the library's misbehaviour) in which `park` happens only at deadlock -/
abbrev xallOk : St → List XOp → Prop := xallQ xopOk

theorem inv_xrun (ops : List XOp) : ∀ (s s' : St), Inv s → xallOk s ops → xrunOk s ops = some s' → Inv s' :=
  xrun_invariant Inv xopOk inv_xstep ops

/-- the states of all runs from the start of a connection - runs in which the priority library may, at any time the send
    task asks it, hand out a stream the tree does not know (`XOp.rebuild`) -/
def Reachable (s : St) : Prop := ∃ cw mf ops, 0 < mf ∧ xallOk (init cw mf) ops ∧ xrunOk (init cw mf) ops = some s

/-- in particular the states of the runs of the send path proper -/
theorem reachable_of_run (cw : Int) (mf : Nat) (ops : List Op) (s : St) (hmf : 0 < mf) (hok : allOk (init cw mf) ops)
    (hr : runOk (init cw mf) ops = some s) : Reachable s :=
  ⟨cw, mf, ops.map .op, hmf, xallQ_lift opOk xopOk (fun _ _ h => h) ops _ hok, by rw [xrunOk_lift]; exact hr⟩

theorem reachable_inv (s : St) (h : Reachable s) : Inv s := by
  obtain ⟨cw, mf, ops, hmf, hok, hr⟩ := h
  exact inv_xrun ops _ s (inv_init cw mf hmf) hok hr

theorem allQ_true (ops : List Op) : ∀ s, allQ (fun _ _ => True) s ops := by
  induction ops with
  | nil => intro s; trivial
  | cons o os ih =>
    intro s
    simp only [allQ, true_and]
    split
    · trivial
    · exact ih _

/-- **never more than the connection window allows**: with a non-negative initial connection window, the bytes sent on
    the connection never exceed the connection credit granted — in every reachable state -/
theorem xallQ_true (ops : List XOp) : ∀ s, xallQ (fun _ _ => True) s ops := by
  induction ops with
  | nil => intro s; trivial
  | cons o os ih =>
    intro s
    simp only [xallQ, true_and]
    split
    · trivial
    · exact ih _

/-- the recovery step touches neither windows nor counters -/
theorem rebuild_windows (s s' : St) (i : Nat) (hs : rebuild s i = some s') :
    s'.connWin = s.connWin ∧ s'.connCredit = s.connCredit ∧ s'.connSent = s.connSent ∧
    ∀ j, (s'.str j).window = (s.str j).window ∧ (s'.str j).credit = (s.str j).credit ∧ (s'.str j).sent = (s.str j).sent := by
  obtain ⟨_, _, _, _, h⟩ := rebuild_spec s s' i hs
  subst h
  exact ⟨rfl, rfl, rfl, fun j => by simp [rebuildStr]⟩

theorem conn_sent_le_credit (cw : Int) (mf : Nat) (hmf : 0 < mf) (hcw : 0 ≤ cw) (ops : List XOp) (s : St)
    (hr : xrunOk (init cw mf) ops = some s) : (s.connSent : Int) ≤ s.connCredit := by
  have hI : CNonneg s ∧ CWin s := by
    refine xrun_invariant (fun s => CNonneg s ∧ CWin s) (fun _ _ => True) ?_ ops _ s ?_ ?_ hr
    · intro s s' o h _ hs
      cases o with
      | op o => exact ⟨cnonneg_step s s' o h.1 hs, cwin_step s s' o h.2 hs⟩
      | rebuild i =>
        obtain ⟨w1, w2, w3, _⟩ := rebuild_windows s s' i hs
        obtain ⟨h1, h2⟩ := h
        unfold CNonneg CWin at *
        omega
    · simp [CNonneg, CWin, init, hcw]
    · exact xallQ_true _ _
  unfold CNonneg CWin at hI
  omega

/-- SETTINGS never lowers INITIAL_WINDOW_SIZE and streams open with a non-negative window -/
def creditMonotone : Op → Prop
  | .settings d => 0 ≤ d
  | .open_ _ w => 0 ≤ w
  | _ => True

def xcreditMonotone : XOp → Prop
  | .op o => creditMonotone o
  | .rebuild _ => True

/-- every stream window is non-negative -/
def SNonneg (s : St) : Prop := ∀ i, 0 ≤ (s.str i).window

theorem snonneg_step (s s' : St) (o : Op) (h : SNonneg s) (hp : creditMonotone o) (hs : step s o = some s') : SNonneg s' := by
  intro j
  have hj := h j
  have hc := chunk_le s
  cases o <;> step_cases hs <;>
    first
      | exact hj
      | (have hall := h; unfold SNonneg at hall; simp only [creditMonotone] at hp; upd_finish)

/-- **never more than the stream window allows**: as long as the peer never lowers INITIAL_WINDOW_SIZE (the one event that
    may legitimately make a window negative, RFC 7540 6.9.2), the bytes sent on a stream never exceed the stream credit
    granted — in every reachable state -/
theorem stream_sent_le_credit (cw : Int) (mf : Nat) (ops : List XOp) (s : St)
    (hmono : xallQ (fun _ o => xcreditMonotone o) (init cw mf) ops) (hr : xrunOk (init cw mf) ops = some s) (i : Nat) :
    ((s.str i).sent : Int) ≤ (s.str i).credit := by
  have hI : SNonneg s ∧ Win s := by
    refine xrun_invariant (fun s => SNonneg s ∧ Win s) (fun _ o => xcreditMonotone o) ?_ ops _ s ?_ hmono hr
    · intro s s' o h hp hs
      cases o with
      | op o => exact ⟨snonneg_step s s' o h.1 hp hs, win_step s s' o h.2 hs⟩
      | rebuild i =>
        obtain ⟨_, _, _, w⟩ := rebuild_windows s s' i hs
        obtain ⟨h1, h2⟩ := h
        refine ⟨fun j => ?_, fun j => ?_⟩
        · have := h1 j; have := w j; omega
        · have := h2 j; have := w j; omega
    simp [SNonneg, Win, init]
  have h1 := hI.1 i
  have h2 := hI.2 i
  omega

/-- **in order, complete, one END_STREAM**: in every reachable state, for every stream, what reached the wire plus what
    is still buffered plus what a close / reset discarded is exactly what the application pushed (bytes leave the buffer
    from its front only, so what was sent is a prefix of what was pushed), and END_STREAM has been sent only after *all*
    pushed bytes were sent, none dropped -/
theorem in_order_complete (s : St) (hr : Reachable s) (i : Nat) :
    (s.str i).pushed = (s.str i).sent + (s.str i).buf + (s.str i).dropped ∧
    ((s.str i).ended = true → (s.str i).sent = (s.str i).pushed ∧ (s.str i).complete = true) := by
  have hI := reachable_inv s hr
  refine ⟨hI.acct i, fun he => ?_⟩
  obtain ⟨h1, h2, h3⟩ := hI.fin i he
  have := hI.acct i
  exact ⟨by omega, h1⟩

/-- **the final send returns only after END_STREAM**: a sender waiting in `drain()` (the application's send of the end of the
    body) can only resume — its `_is_empty` is only set — when END_STREAM has been sent, or the stream was reset, or the
    connection is closed -/
theorem drain_returns_after_end (s : St) (hr : Reachable s) (i : Nat) (hp : (s.str i).pusher = .inDrain)
    (he : (step s (.drainWake i)).isSome = true) :
    (s.str i).ended = true ∨ (s.str i).libClosed = true ∨ s.closed = true := by
  have hI := reachable_inv s hr
  have hev : (s.str i).emptyEv = true := by
    simp only [step] at he
    split at he <;> simp_all
  exact hI.bufClosed i ((hI.drainEv i hp).2 hev)

/-- **END_STREAM at most once**: an op that sends END_STREAM for stream `i` (it moves the send task to `ending i`) is
    never enabled for a stream that was already ended -/
theorem end_stream_once (s s' : St) (hr : Reachable s) (o : Op) (i : Nat) (hs : step s o = some s')
    (he : (s.str i).ended = true) (hn : s.task ≠ .ending i) : s'.task ≠ .ending i := by
  have hE := (reachable_inv s hr).ending i
  have hnb : (s.str i).hasBuf = false := by
    cases hb : (s.str i).hasBuf
    · rfl
    · exact absurd (hE.2 he hb) hn
  cases o <;> step_cases hs <;> simp_all <;> (intro heq; subst heq; simp_all)

/-- **no lost wake-up / stall means no credit**, for every reachable state -/
theorem no_lost_wakeup (s : St) (hr : Reachable s) :
    (s.task = .parked → s.hasData = false → ∀ j, (s.str j).inTree = true → (s.str j).blocked = true) ∧
    (∀ i, (s.str i).hasBuf = true → (s.str i).blocked = true → (s.str i).buf > 0 → s.closed = false →
      (s.str i).window ≤ 0 ∨ s.connWin ≤ 0) := by
  have hI := reachable_inv s hr
  refine ⟨hI.sleep, fun i hb hbl hbuf hc => ?_⟩
  rcases hI.stall i hb hbl with h | h | h | h | h
  · omega
  · exact Or.inl h
  · exact Or.inr h
  · simp [hc] at h
  · have := (hI.fin i h).2.1; omega

/-- the send task has nothing it could do: it sleeps on `has_data`, which is clear -/
def taskQuiescent (s : St) : Prop := s.task = .parked ∧ s.hasData = false

/-- **delivered as soon as the windows permit** (liveness as a property of every quiescent state): when the send task is
    quiescent on an open connection, every stream that was opened, is not reset and has credit (its own window and the
    connection window are positive) has *nothing* left in its buffer — everything the application wrote is on the wire —
    and END_STREAM has been sent exactly if the application has ended the body -/
theorem delivered_when_quiescent (s : St) (hr : Reachable s) (hq : taskQuiescent s) (hc : s.closed = false) (i : Nat)
    (ho : (s.str i).opened = true) (hl : (s.str i).libClosed = false) (hw : 0 < (s.str i).window) (hcw : 0 < s.connWin) :
    (s.str i).buf = 0 ∧ (s.str i).sent = (s.str i).pushed ∧ ((s.str i).ended = true ↔ (s.str i).complete = true) := by
  have hI := reachable_inv s hr
  have hA := hI.acct i
  have hD : (s.str i).dropped = 0 := by
    cases hd : (s.str i).dropped with
    | zero => rfl
    | succ n => rcases hI.drop i (by omega) with h | h <;> simp_all
  cases hb : (s.str i).hasBuf
  · -- the buffer is gone: the stream was ended (it is not reset)
    have hbuf := hI.nobuf i hb
    have he : (s.str i).ended = true := by
      rcases hI.gone i ho hb with h | h
      · exact h
      · simp [hl] at h
    exact ⟨hbuf, by omega, ⟨fun _ => (hI.fin i he).1, fun _ => he⟩⟩
  · -- the buffer is there, so the stream is in the tree, hence blocked, hence (having credit) empty and not complete
    have hbl : (s.str i).blocked = true := hI.sleep hq.1 hq.2 i (hI.tree.1 i hb)
    rcases hI.stall i hb hbl with h | h | h | h | h
    · refine ⟨h.1, by omega, ⟨fun he => ?_, fun hcpl => ?_⟩⟩
      · have := (hI.fin i he).1; simp [h.2] at this
      · simp [h.2] at hcpl
    · omega
    · omega
    · simp [hc] at h
    · have := (hI.ending i).2 h hb; simp [hq.1] at this

/-- **a stalled or reset stream does not stop the others**: a stream that holds data and has credit is never left behind —
    whatever state any other stream is in (stalled at a zero window, reset, abandoned, with a sender waiting), the send
    task is not quiescent -/
theorem sibling_progress (s : St) (hr : Reachable s) (hc : s.closed = false) (j : Nat)
    (hb : (s.str j).hasBuf = true) (hd : 0 < (s.str j).buf) (hw : 0 < (s.str j).window) (hcw : 0 < s.connWin) :
    ¬ taskQuiescent s := by
  intro hq
  have hI := reachable_inv s hr
  have hbl : (s.str j).blocked = true := hI.sleep hq.1 hq.2 j (hI.tree.1 j hb)
  rcases hI.stall j hb hbl with h | h | h | h | h
  · omega
  · omega
  · omega
  · simp [hc] at h
  · have := (hI.fin j h).2.1; omega

/-- an op that concerns stream `i` only -/
def opStream : Op → Option Nat
  | .open_ i _ | .push i _ | .pushWake i | .end_ i | .drainWake i | .pick i | .pickRaise i | .sent i | .endSent i
  | .winStream i _ | .rst i | .abandon i | .abandonFin i => some i
  | _ => none

/-- **frame condition**: an op on stream `i` (its application's writes and waits, its reset, its window update, the send
    task serving it) leaves the record of every other stream untouched -/
theorem stream_op_frame (s s' : St) (o : Op) (i j : Nat) (ho : opStream o = some i) (hij : j ≠ i) (hs : step s o = some s') :
    s'.str j = s.str j := by
  cases o <;> simp only [opStream, Option.some.injEq, reduceCtorEq] at ho <;> subst ho <;> step_cases hs <;> simp [upd, hij]

/-! ### facts other properties cite (C16: both workers' event wrappers behave alike on this glue) -/

-- `closed_idempotent` and `clear_has_no_foreign_waiter` live in `HC/Proto/H2SendEvents.lean` (they are also what C16 relies on).

/-! ### quiescent rather than spinning -/

/-- **the send task's ops never set `has_data`**: every wake-up is caused by an application or by the reader -/
theorem task_never_sets_has_data (s s' : St) (o : Op) (ht : o.isTask = true) (hs : step s o = some s') (h : s'.hasData = true) :
    s.hasData = true := by
  cases o <;> simp only [Op.isTask] at ht <;> step_cases hs <;> simp_all

/-- **at deadlock the task can only go to sleep, and asleep it does nothing**: with no unblocked member in the tree the
    only op of a running send task is `park`; a parked task with `has_data` clear has no enabled op at all -/
theorem quiescent_only_park (s : St) (o : Op) (ht : o.isTask = true) (hd : deadlock s) (hc : s.closed = false) :
    (s.task = .running → (step s o).isSome = true → o = .park) ∧
    (s.task = .parked → s.hasData = false → step s o = none) := by
  unfold deadlock at hd
  refine ⟨fun hr he => ?_, fun hp hh => ?_⟩
  · cases o <;> simp [Op.isTask] at ht
    case park => rfl
    case pick i =>
      have h1 := hd i
      simp only [step] at he
      cases h2 : (s.str i).inTree <;> cases h3 : (s.str i).blocked <;> simp_all
    case pickRaise i =>
      have h1 := hd i
      simp only [step] at he
      cases h2 : (s.str i).inTree <;> cases h3 : (s.str i).blocked <;> simp_all
    all_goals (simp_all [step])
  · cases o <;> simp [Op.isTask] at ht <;> simp [step, hp, hh]

/-- the send task never gets stuck and never dies: whatever unblocked member `next(priority)` hands out, `_send_data` runs
    (its `except` clause copes with a missing buffer, a missing tree entry and a closed stream), and each flush it waits
    for can complete -/
theorem send_task_total (s : St) (i : Nat) :
    (s.task = .running → s.closed = false → (s.str i).inTree = true → (s.str i).blocked = false → (step s (.pick i)).isSome = true) ∧
    (s.task = .sending i → (step s (.sent i)).isSome = true) ∧
    (s.task = .ending i → (step s (.endSent i)).isSome = true) := by
  refine ⟨fun h1 h2 h3 h4 => ?_, fun h => ?_, fun h => ?_⟩ <;> simp only [step] <;> (repeat' split) <;> simp_all

/-- weight of the send task's program counter in the termination measure -/
def pcWeight : TaskPc → Nat
  | .sending _ => 3 | .ending _ => 2 | .running => 1 | .parked => 0 | .exited => 0

/-- per-stream part of the termination measure: bytes buffered, plus one while the stream is schedulable -/
def strWeight (x : Str) : Nat := x.buf + (if x.inTree && !x.blocked then 1 else 0)

/-- **no spinning** (termination measure): every op of the send task strictly decreases
    `4·(buffered bytes + schedulable flag of the stream it serves) + 3·[has_data] + weight(pc)` and raises no other stream's weight —
    so between two external events the send task takes at most `4·Σ(buf+1) + 4` steps and then sleeps -/
theorem no_spin_step (s s' : St) (o : Op) (ht : o.isTask = true) (hs : step s o = some s') :
    (∀ i, opStream o = some i →
        4 * strWeight (s'.str i) + (if s'.hasData then 3 else 0) + pcWeight s'.task <
        4 * strWeight (s.str i) + (if s.hasData then 3 else 0) + pcWeight s.task) ∧
    (opStream o = none → (∀ i, strWeight (s'.str i) ≤ strWeight (s.str i)) ∧
        (if s'.hasData then 3 else 0) + pcWeight s'.task < (if s.hasData then 3 else 0) + pcWeight s.task) := by
  cases o <;> simp only [Op.isTask] at ht <;> step_cases hs <;>
    simp_all [opStream, strWeight, pcWeight, upd, Str.discard, Str.closeBuf] <;> (try intro i) <;> (repeat' split) <;> (try simp_all) <;> (try omega)

/-! ### the receive side: upload credit is conserved

`_handle_events`, `DataReceived`: the frame took its *flow-controlled length* (payload + pad-length byte + padding) from
the client's stream and connection windows; `acknowledge_received_data` must give exactly that back, on the path where
the stream still exists and on the `KeyError` path, or the client's upload windows leak away and every upload on the
connection stalls.  Which attribute of the event is acknowledged, and how often on each path, is extracted
(`ReqGlue.dataAckAmount`, `dataAcksDelivered`, `dataAcksMissing`, `dataAckArgs`). -/

/-- a DATA frame as the client accounts for it: payload bytes, padding overhead (0, or pad length + 1), and whether
    `self.streams` still has the stream when the frame is handled -/
structure UpFrame where
  data : Nat
  pad : Nat
  live : Bool
deriving Repr, DecidableEq

/-- what the frame takes from the client's windows -/
def UpFrame.flow (f : UpFrame) : Nat := f.data + f.pad

/-- bytes handed to `acknowledge_received_data` while the frame's event is handled -/
def upAcked (f : UpFrame) : Nat :=
  (if f.live then ReqGlue.dataAcksDelivered else ReqGlue.dataAcksMissing) * ReqGlue.dataAckAmount f.data f.flow

/-- the client's window after a sequence of upload frames -/
def upRun (fs : List UpFrame) : HC.Proto.H2Credit.Win :=
  fs.foldl (fun w f => { consumed := w.consumed + f.flow, returned := w.returned + upAcked f }) {}

/-- **every DATA frame gives back what it took**: padded or not, for a live stream or for one whose response has
    already completed, exactly the flow-controlled length is acknowledged -/
theorem upload_frame_acked (f : UpFrame) : upAcked f = f.flow := by
  cases f with
  | mk d p l => cases l <;> simp [upAcked, UpFrame.flow, ReqGlue.dataAcksDelivered, ReqGlue.dataAcksMissing, ReqGlue.dataAckAmount]

/-- **upload credit is conserved**: after any sequence of DATA frames - any payload sizes, any padding, live and
    completed streams in any mix - the client's window is back at its initial value once the acknowledged bytes
    have been announced: nothing leaks, a later upload can always be sent -/
theorem upload_credit_conserved (fs : List UpFrame) (w0 : Nat) : (upRun fs).available w0 = w0 := by
  have h : ∀ (fs : List UpFrame) (w : HC.Proto.H2Credit.Win), w.returned = w.consumed →
      (fs.foldl (fun w f => ({ consumed := w.consumed + f.flow, returned := w.returned + upAcked f } : HC.Proto.H2Credit.Win)) w).returned =
      (fs.foldl (fun w f => ({ consumed := w.consumed + f.flow, returned := w.returned + upAcked f } : HC.Proto.H2Credit.Win)) w).consumed := by
    intro fs
    induction fs with
    | nil => intro w hw; exact hw
    | cons f fs ih =>
      intro w hw
      simp only [List.foldl_cons]
      apply ih
      simp [upload_frame_acked, hw]
  have := h fs {} rfl
  simp only [upRun, HC.Proto.H2Credit.Win.available]
  omega

/-- the acknowledgement names the event's flow-controlled length and the event's stream -/
theorem upload_ack_args :
    ReqGlue.dataAckArgs = ["event.flow_controlled_length, event.stream_id"] ∧ ∀ d f, ReqGlue.dataAckAmount d f = f := by
  exact ⟨by decide, fun _ _ => rfl⟩

-- non-vacuity: padded frames on a live and on a completed stream, an empty padded frame: all of it is given back
example : (upRun [⟨1, 256, true⟩, ⟨1, 256, false⟩, ⟨0, 1, true⟩, ⟨16384, 0, true⟩]).consumed = 16899 ∧
    (upRun [⟨1, 256, true⟩, ⟨1, 256, false⟩, ⟨0, 1, true⟩, ⟨16384, 0, true⟩]).available 65535 = 65535 := by
  decide

-- non-vacuity: two streams, one stalls at a zero stream window, the other is delivered and ended
example :
    (runOk (init 65535 16384) [.open_ 1 0, .open_ 3 65535, .push 1 10, .push 3 20000, .end_ 3, .pick 1, .pick 3, .sent 3, .pick 3, .sent 3,
      .endSent 3, .park, .wake, .park, .winStream 1 100, .wake, .pick 1]).map
        (fun s => ((s.str 1).sent, (s.str 1).blocked, (s.str 3).sent, (s.str 3).ended, (s.str 3).hasBuf, s.task)) =
    some (10, false, 20000, true, false, .sending 1) := by decide

-- non-vacuity of `delivered_when_quiescent`: the state after that run, quiescent again, with credit on both streams
example : ∃ s, runOk (init 65535 16384) [.open_ 1 0, .push 1 10, .pick 1, .park, .wake, .park, .winStream 1 100, .wake, .pick 1, .sent 1,
      .pick 1, .park] = some s ∧ s.task = .parked ∧ s.hasData = false ∧ (s.str 1).opened = true ∧ 0 < (s.str 1).window ∧
      (s.str 1).buf = 0 ∧ (s.str 1).sent = 10 := by
  refine ⟨_, rfl, ?_⟩
  decide

end HC.Props.C09
