import HC.Worker.Invariants
import HC.Extracted.LifespanSend
import HC.Worker.Escape
/-!
# C14 — Lifespan ordering, failure handling, state isolation

Property theorems only.  Model: `HC/Worker/Lifespan.lean`, `HC/Worker/Run.lean`; invariants and their
preservation: `HC/Worker/LifeLemmas.lean`, `HC/Worker/Invariants.lean`.

Every theorem quantifies over **every operation list** `ops` (every schedule of the lifespan task, `worker_serve`,
clients, the trigger and the clock), every lifespan script, every configuration (time-outs, queue bound) and every
`Runtime` unless a hypothesis names a runtime field.  `Runtime.asyncio` / `Runtime.trio` are the two worker classes as the
code is now (`Current`); `Runtime.asyncioBeforeFixes` / `Runtime.trioBeforeFixes` are kept for the record: the runs that
refuted the full statements before the `fix:` commits b14e22f (F16), fa7ea28 (F17), 9c9a997 (F29) are theorems about them.
Each property clause appears twice: `…_of_flags` over arbitrary runtimes with hypotheses on the flags it depends on, and the
full statement for the current runtimes.
-/
namespace HC.Props.C14
open HC HC.Worker

/-- the two worker classes as the code is now (the flags are re-measured on every run of the check) -/
def Current (rt : Runtime) : Prop := rt = Runtime.asyncio ∨ rt = Runtime.trio

/-! ### the model's send alphabet is the source's dispatch

The model's lifespan actions `sendStartupComplete … sendUnknown` stand for *every* message of the respective type, whatever
else it carries or lacks (`{"type": "lifespan.startup.failed"}` without the optional `message` key included).  That this is
what `Lifespan.asgi_send` does is re-decided against the source: the extractor reads the `if/elif` chain of both workers
(`HC/Extracted/LifespanSend.lean`), including whether the arguments of `LifespanFailureError(…)` can be evaluated for every
message of that type (`argsTotal`: constants and `message.get(key, default)` only - a subscript `message["message"]` would
raise `KeyError`, i.e. an *unsupported* application instead of a failed start-up) and whether the event is set before the raise
(the measured runtime flag `failedSetsEvent`, here read off the source as well). -/

open HC.Extracted.LifespanSend in
/-- what the model does with a send action, in the extractor's vocabulary -/
def effectOfAct (rt : Runtime) : LAct → Option Effect
  | .sendStartupComplete => some .setStartup
  | .sendShutdownComplete => some .setShutdown
  -- `startup := l.startup || rt.failedSetsEvent, pending := some (.failure .startup)`, for every payload
  | .sendStartupFailed => some (.raiseFailure "startup" rt.failedSetsEvent true)
  | .sendShutdownFailed => some (.raiseFailure "shutdown" rt.failedSetsEvent true)
  | .sendUnknown => some .raiseUnexpected                           -- `pending := some .other`
  | _ => none

open HC.Extracted.LifespanSend in
def modelSendTable (rt : Runtime) : List (String × Effect) :=
  LAct.sendTypes.filterMap (fun p => (effectOfAct rt p.2).map (fun e => (p.1, e)))

open HC.Extracted.LifespanSend in
/-- **`asgi_send` of both workers is the model's send alphabet**: the same message types in the same order with the same
    effect, `lifespan.startup.failed` / `lifespan.shutdown.failed` raise `LifespanFailureError` of the right stage for every
    message of that type (no optional key is required) without setting the event first (`failedSetsEvent` of the current
    runtimes), anything else raises `UnexpectedMessageError` -/
theorem asgi_send_dispatch :
    asyncioSendTable = modelSendTable Runtime.asyncio ∧ asyncioSendElse = .raiseUnexpected ∧
    trioSendTable = modelSendTable Runtime.trio ∧ trioSendElse = .raiseUnexpected ∧
    effectOfAct Runtime.asyncio (LAct.ofSendType "lifespan.bogus") = some .raiseUnexpected := by
  decide

/-- something is being, or has been, served -/
def Serving (s : W) : Prop := s.listening = true ∨ s.conns ≠ [] ∨ s.g.scopes > 0 ∨ s.g.accepts > 0

/-- the legitimate reasons for serving: the application does not support lifespan (it raised), or
    `lifespan.startup` was put and the application completed start-up or left the lifespan scope -/
def StartedProperly (s : W) : Prop :=
  s.life.supported = false ∨
  (s.g.startupPuts = 1 ∧ (s.life.completeSeen = true ∨ s.life.exited = true))

theorem serving_everListening (s : W) (hR : Reach s) (h : Serving s) : s.g.everListening = true := by
  by_cases he : s.g.everListening = true
  · exact he
  · have := hR.P.never (by simpa using he)
    rcases h with h | h | h | h
    · simp [this.1] at h
    · exact absurd this.2.1 h
    · omega
    · omega

/-! ### startup before serving -/

/-- serving implies a proper start-up on every runtime that does not set the event for `startup.failed` and, on the
    others, for every script that does not suspend right after `startup.failed` -/
theorem startup_before_serving_of_flags (rt : Runtime) (cfg : Cfg) (script : List LAct) (cap : Nat) (ops : List Op) (s : W)
    (h0 : rt.failedSetsEvent = false ∨ failedThenAwait script = false)
    (hr : run (W.init rt cfg script cap) ops = some s) (hs : Serving s) : StartedProperly s := by
  obtain ⟨hR, hrt, _, _⟩ := reach_run rt cfg script cap ops s hr
  have hH := reachH_run rt cfg script cap ops s h0 hr
  have hw := hR.G.good (serving_everListening s hR hs)
  unfold Why at hw
  unfold StartedProperly
  rcases hw with hw | ⟨hw1, hw | hw | ⟨hw2, hw3⟩⟩
  · exact Or.inl hw
  · exact Or.inr ⟨hw1, Or.inl hw⟩
  · exact Or.inr ⟨hw1, Or.inr hw⟩
  · rcases hH.noF16 with h | ⟨_, h⟩
    · simp [hw2] at h
    · exact absurd hw3 h

/-- `lifespan.startup` is the first message the application receives, and it is put at most once -/
theorem startup_first_message (rt : Runtime) (cfg : Cfg) (script : List LAct) (cap : Nat) (ops : List Op) (s : W)
    (hr : run (W.init rt cfg script cap) ops = some s) :
    s.g.startupPuts ≤ 1 ∧ ∀ m, s.life.recvd.head? = some m → m = .startup := by
  obtain ⟨hR, _⟩ := reach_run rt cfg script cap ops s hr
  refine ⟨hR.P.putsLe.1, ?_⟩
  intro m hm
  have hq := hR.Q.q
  cases hrc : s.life.recvd with
  | nil => simp [hrc] at hm
  | cons a rest =>
    simp only [hrc, List.head?_cons, Option.some.injEq] at hm
    subst hm
    rw [hrc] at hq
    have h1 := hR.P.putsLe
    by_cases hsp : s.g.startupPuts = 1
    · rw [hsp] at hq
      simpa using (List.cons.inj hq).1
    · have hsp0 : s.g.startupPuts = 0 := by omega
      have hsh : s.g.shutdownPuts = 0 := by
        by_cases h : s.g.shutdownPuts = 1
        · exact absurd (hR.Q.q2 h) hsp
        · omega
      rw [hsp0, hsh] at hq
      simp at hq

/-- **serving implies a proper start-up** — both worker classes, every script, every schedule -/
theorem startup_before_serving (rt : Runtime) (hc : Current rt) (cfg : Cfg) (script : List LAct) (cap : Nat) (ops : List Op)
    (s : W) (hr : run (W.init rt cfg script cap) ops = some s) (hs : Serving s) : StartedProperly s :=
  startup_before_serving_of_flags rt cfg script cap ops s (Or.inl (by rcases hc with rfl | rfl <;> rfl)) hr hs

/-- the F16 script: `recv; startup.failed; await` -/
def f16Script : List LAct := [.recv, .sendStartupFailed, .awaitInCleanup]
def f16Ops : List Op := [.app, .srv, .app, .srv, .connect .h1, .request 0 (some 0)]
def cfg0 : Cfg := { startupTimeout := 4, shutdownTimeout := 4, gracefulTimeout := 4, maxRequests := none }

/-- history (F16, fixed by b14e22f): before the fix asyncio set the `startup` event for `startup.failed`, so with the
    application awaiting while it unwinds a request was served and nothing justified it -/
theorem f16_run_before_fix :
    (run (W.init .asyncioBeforeFixes cfg0 f16Script 10) f16Ops).map (fun s => decide
      (s.listening = true ∧ s.g.scopes = 1 ∧ s.g.accepts = 1 ∧ s.life.supported = true ∧ s.life.completeSeen = false ∧
       s.life.exited = false ∧ s.life.failedBeforeComplete = true)) = some true := by decide

/-- history: the full statement was false for `Runtime.asyncioBeforeFixes` — the flag hypothesis of
    `startup_before_serving_of_flags` is needed -/
theorem startup_before_serving_failed_before_fix :
    ¬ (∀ (cfg : Cfg) (script : List LAct) (cap : Nat) (ops : List Op) (s : W),
        run (W.init .asyncioBeforeFixes cfg script cap) ops = some s → Serving s → StartedProperly s) := by
  intro h
  have hw := f16_run_before_fix
  cases hr : run (W.init .asyncioBeforeFixes cfg0 f16Script 10) f16Ops with
  | none => simp [hr] at hw
  | some s =>
    simp only [hr, Option.map_some, Option.some.injEq, decide_eq_true_eq] at hw
    obtain ⟨h1, h2, h3, h4, h5, h6, h7⟩ := hw
    have := h _ _ _ _ s hr (Or.inl h1)
    unfold StartedProperly at this
    rcases this with t | ⟨_, t | t⟩
    · simp [h4] at t
    · simp [h5] at t
    · simp [h6] at t

-- the same script on the code as it is now: while the application unwinds `worker_serve` keeps waiting (its `srv` step is
-- not enabled), and when the task is over it raises the failure; nothing was listened on
example : (run (W.init .asyncio cfg0 f16Script 10) [.app, .srv, .app]).map (fun s => decide
    (s.srvStep.isNone = true ∧ s.listening = false ∧ s.life.startup = false)) = some true := by decide
example : (run (W.init .asyncio cfg0 f16Script 10) [.app, .srv, .app, .app, .srv]).map (fun s => decide
    (s.phase = .failed (.lifespanFailure .startup) ∧ s.g.everListening = false ∧ s.g.accepts = 0)) = some true := by decide
example : (run (W.init .trio cfg0 f16Script 10) [.app, .srv, .app, .app, .srv, .app]).map (fun s => decide
    (s.phase = .failed (.lifespanFailure .startup) ∧ s.g.accepts = 0 ∧ s.g.scopes = 0)) = some true := by decide
example : failedThenAwait [.recv, .sendStartupFailed] = false := by decide
example : failedThenAwait f16Script = true := by decide

/-! ### startup.failed / startup time-out abort the server and nothing is served -/

/-- **`lifespan.startup.failed` before `startup.complete`: no connection is accepted, no scope is created,
    `worker_serve` never returns normally and can only end with the matching error** — on runtimes on which a
    failed lifespan task is noticed (`Noticed`) and without the F16 shape (event set for `startup.failed` + suspension) -/
theorem failed_or_timeout_aborts_of_flags (rt : Runtime) (cfg : Cfg) (script : List LAct) (cap : Nat) (ops : List Op) (s : W)
    (hN : Noticed rt) (h0 : rt.failedSetsEvent = false ∨ failedThenAwait script = false)
    (hr : run (W.init rt cfg script cap) ops = some s) (hf : s.life.failedBeforeComplete = true) :
    s.g.accepts = 0 ∧ s.g.scopes = 0 ∧ s.conns = [] ∧ s.phase ≠ .done ∧
    (∀ e, s.phase = .failed e → OkStartupErr s e) ∧
    -- serving is reached at most inside the leaving task's exit window (trio), where nothing can be accepted
    (s.phase = .serving → s.life.exiting.isSome = true) := by
  obtain ⟨_, hF⟩ := reachF_run rt cfg script cap ops s hN h0 hr
  have := hF.fb hf
  exact ⟨this.acc, this.sco, this.con, this.p4, this.err, fun hp => (this.srv hp).1⟩

theorem noticed_asyncio : Noticed Runtime.asyncio := Or.inr ⟨rfl, rfl⟩
theorem noticed_trio : Noticed Runtime.trio := Or.inl rfl

/-- **`lifespan.startup.failed` before `startup.complete` aborts the server and nothing is served** — both worker classes,
    every script (awaiting in its clean-up or not), every schedule -/
theorem failed_or_timeout_aborts (rt : Runtime) (hc : Current rt) (cfg : Cfg) (script : List LAct) (cap : Nat) (ops : List Op)
    (s : W) (hr : run (W.init rt cfg script cap) ops = some s) (hf : s.life.failedBeforeComplete = true) :
    s.g.accepts = 0 ∧ s.g.scopes = 0 ∧ s.conns = [] ∧ s.phase ≠ .done ∧
    (∀ e, s.phase = .failed e → OkStartupErr s e) ∧ (s.phase = .serving → s.life.exiting.isSome = true) :=
  failed_or_timeout_aborts_of_flags rt cfg script cap ops s
    (by rcases hc with rfl | rfl; exact noticed_asyncio; exact noticed_trio)
    (Or.inl (by rcases hc with rfl | rfl <;> rfl)) hr hf

/-- once the failed task's result is visible, `worker_serve`'s next action is to raise it (asyncio: the
    `lifespan_task.done()` check; trio raises at once, inside the `app` operation) -/
theorem failure_fires (s : W) (since : Nat) (e : ServeErr) (hp : s.phase = .waitingStartup since)
    (hs : s.life.startup = true) (hck : s.rt.taskDoneCheckOnly = true) (hd : s.life.taskDone = some (some e)) :
    s.srvStep = some (s.fail e) := by
  simp [W.srvStep, hp, hs, W.afterStartup, hck, hd]

/-- **exceeding `startup_timeout`**: the clock cannot pass the deadline while `worker_serve` waits … -/
theorem startup_deadline_not_overrun (rt : Runtime) (cfg : Cfg) (script : List LAct) (cap : Nat) (ops : List Op) (s : W)
    (hr : run (W.init rt cfg script cap) ops = some s) (since : Nat) (hp : s.phase = .waitingStartup since) :
    s.now ≤ since + cfg.startupTimeout ∧ s.g.accepts = 0 ∧ s.g.scopes = 0 ∧ s.listening = false := by
  obtain ⟨hR, _, hcfg, _⟩ := reach_run rt cfg script cap ops s hr
  have := hR.P.wait since hp
  have hn := hR.P.never this.2.1
  exact ⟨by rw [← hcfg]; exact this.2.2.2, hn.2.2.2.1, hn.2.2.1, hn.1⟩

/-- … at the deadline, with the event still unset, its only action is to raise `LifespanTimeoutError` … -/
theorem startup_timeout_fires (s : W) (since : Nat) (hp : s.phase = .waitingStartup since) (hs : s.life.startup = false)
    (hd : since + s.cfg.startupTimeout ≤ s.now) : s.srvStep = some (s.fail (.lifespanTimeout .startup)) := by
  simp [W.srvStep, hp, hs, hd]

/-- … and when it has done so nothing was ever listened on, accepted or served -/
theorem timeout_aborts (rt : Runtime) (cfg : Cfg) (script : List LAct) (cap : Nat) (ops : List Op) (s : W)
    (hr : run (W.init rt cfg script cap) ops = some s) (hp : s.phase = .failed (.lifespanTimeout .startup)) :
    s.g.everListening = false ∧ s.g.accepts = 0 ∧ s.g.scopes = 0 ∧ s.conns = [] ∧ s.life.startup = false := by
  obtain ⟨hR, _⟩ := reach_run rt cfg script cap ops s hr
  have he := hR.Z.z hp
  have hn := hR.P.never he
  exact ⟨he, hn.2.2.2.1, hn.2.2.1, hn.2.1, hR.E.just _ hp⟩

/-! ### an application that raises does not support lifespan: serving starts, no `lifespan.shutdown` later -/

/-- the application raised (anything but a lifespan failure) before completing start-up -/
theorem raised_is_unsupported (rt : Runtime) (cfg : Cfg) (script : List LAct) (cap : Nat) (ops : List Op) (s : W)
    (hr : run (W.init rt cfg script cap) ops = some s) (hb : s.life.raisedBeforeComplete = true) :
    s.life.supported = false ∧ s.life.startup = true ∧ s.life.started = true ∧ ∀ e, s.life.taskDone ≠ some (some e) := by
  obtain ⟨hR, _⟩ := reach_run rt cfg script cap ops s hr
  have h1 := hR.L.ok.raisedBC hb
  have hx := hR.L.ok.unsupportedWhy h1.1
  refine ⟨h1.1, (hR.L.ok.exitedEvents hx).1, ?_, h1.2.2.2.2⟩
  by_cases hs : s.life.started = true
  · exact hs
  · have := (hR.L.ok.notStarted (by simpa using hs)).1; simp [hx] at this

/-- from then on `worker_serve`'s next start-up action is to start serving … -/
theorem unsupported_serving_starts (s : W) (hsup : s.life.supported = false) (hst : s.life.started = true)
    (hsu : s.life.startup = true) (hnd : ∀ e, s.life.taskDone ≠ some (some e))
    (hp : s.phase = .booting ∨ ∃ t, s.phase = .waitingStartup t) :
    s.srvStep = some s.enterServing := by
  have hafter : s.afterStartup = s.enterServing := by
    unfold W.afterStartup
    split
    · split
      · rename_i e he; exact absurd he (hnd e)
      · rfl
    · rfl
  rcases hp with hp | ⟨t, hp⟩
  · simp [W.srvStep, hp, hst, Life.put, hsup, hafter]
  · simp [W.srvStep, hp, hsu, hafter]

/-- … and **no `lifespan.shutdown` is ever put once the application is unsupported** (for every continuation) -/
theorem unsupported_continues (s s' : W) (ops : List Op) (hsup : s.life.supported = false) (hr : run s ops = some s') :
    s'.life.supported = false ∧ s'.g.shutdownPuts = s.g.shutdownPuts := by
  have := HC.inv_runOps step (fun x => x.life.supported = false ∧ x.g.shutdownPuts = s.g.shutdownPuts) (fun _ => True)
    (fun x o x' _ hI hs => by
      obtain ⟨h1, h2⟩ := hI
      have hrel := step_rel x x' o hs
      by_cases ha : o = .app
      · subst ha
        cases hrel with
        | appFail l' e hnt hl => exact ⟨by simpa [W.fail] using appStep_supported _ _ _ hl h1, by simpa [W.fail] using h2⟩
        | appOk l' hnt hl => exact ⟨appStep_supported _ _ _ hl h1, h2⟩
      · by_cases hb : o = .srv
        · subst hb
          cases hrel with
          | srv x' hr _ =>
            have key : ∀ (y y' : W), y.life.supported = false → SlsRel y y' →
                y'.life.supported = false ∧ y'.g.shutdownPuts = y.g.shutdownPuts := by
              intro y y' hy hsl
              cases hsl with
              | unsupported => simp only [W.finishServe]; split <;> split <;> (try split) <;> simp [W.fail, hy]
              | closed hsp => simp [hy] at hsp
              | put hsp => simp [hy] at hsp
            cases hr with
            | bootUnsupported =>
              simp only [W.afterStartup]; split <;> (try split) <;> simp [W.fail, W.enterServing, h1, h2]
            | bootClosed _ _ hsp => simp [h1] at hsp
            | bootPut _ _ hsp => simp [h1] at hsp
            | startupSet =>
              simp only [W.afterStartup]; split <;> (try split) <;> simp [W.fail, W.enterServing, h1, h2]
            | startupTimeout => simp [W.fail, h1, h2]
            | begin => simp [W.beginShutdown, h1, h2]
            | closed => simp [h1, h2]
            | drained since x' hp hc hsl => have := key x x' h1 hsl; exact ⟨this.1, by rw [this.2]; exact h2⟩
            | graceOver since x' hp hc hto hsl =>
              have := key x.cancelAll x' h1 hsl; exact ⟨this.1, by rw [this.2]; exact h2⟩
            | shutdownSet => simp only [W.finishServe]; split <;> split <;> (try split) <;> simp [W.fail, h1, h2]
            | shutdownTimeout => simp [W.fail, h1, h2]
        · have hsame : x'.life = x.life ∧ x'.g.shutdownPuts = x.g.shutdownPuts := by
            cases hrel <;> first
              | exact absurd rfl ha
              | exact absurd rfl hb
              | exact ⟨rfl, rfl⟩
          exact ⟨by rw [hsame.1]; exact h1, by rw [hsame.2]; exact h2⟩)
    ops s s' ⟨hsup, rfl⟩ (fun _ _ => trivial) hr
  exact this

example : (run (W.init .asyncio cfg0 [.recv, .raise] 10) [.app, .srv, .app, .srv, .connect .h1, .trigger, .srv, .srv]).map
    (fun s => decide (s.phase = .done ∧ s.life.supported = false ∧ s.g.shutdownPuts = 0 ∧ s.life.warnings = 1 ∧
      s.g.accepts = 1)) = some true := by decide

/-! ### `lifespan.shutdown` is sent at most once, only after the handlers have drained or the grace period is over,
and `worker_serve` ends abnormally only for a reason the application gave -/

/-- **at most one put; when it happened no handler was alive, it was not before the trigger, and if a handler had
    to be cancelled it was not before `trigger + graceful_timeout`** -/
theorem shutdown_once_after_drain (rt : Runtime) (cfg : Cfg) (script : List LAct) (cap : Nat) (ops : List Op) (s : W)
    (hr : run (W.init rt cfg script cap) ops = some s) :
    s.g.shutdownPuts ≤ 1 ∧
    (s.g.shutdownPuts = 1 → s.conns = [] ∧ s.terminated = true ∧
      ∃ t p, s.g.triggerTime = some t ∧ s.g.shutdownPutAt = some p ∧ t ≤ p ∧
        (s.hist.cancelled ≠ [] → t + cfg.gracefulTimeout ≤ p) ∧
        (∀ x ∈ s.hist.cancelled, t + cfg.gracefulTimeout ≤ x.2.2)) := by
  obtain ⟨hR, _, hcfg, _⟩ := reach_run rt cfg script cap ops s hr
  refine ⟨hR.P.putsLe.2, ?_⟩
  intro h1
  -- a put has happened: the phase is `lifespanShutdown` or terminal, so no handler is alive
  have hconns : s.conns = [] := by
    cases hp : s.phase with
    | booting => have := (hR.P.early (hR.P.boot hp).2).2; omega
    | waitingStartup t => have := (hR.P.early (hR.P.wait t hp).2.1).2; omega
    | serving => have := (hR.P.serv hp).2.2.2; omega
    | closing => have := (hR.P.closing hp).2.2.2.2; omega
    | draining t => have := (hR.P.drain t hp).2.2.2.2.1; omega
    | lifespanShutdown t => exact (hR.P.lsd t hp).2.2.2.2.2.1
    | done => exact (hR.P.term (by simp [hp, Phase.terminal])).1
    | failed e => exact (hR.P.term (by simp [hp, Phase.terminal])).1
  obtain ⟨y1, y2, y3⟩ := hR.Y.y h1
  obtain ⟨p, hp⟩ := Option.isSome_iff_exists.mp y1
  obtain ⟨t, ht⟩ := Option.isSome_iff_exists.mp y2
  have h3 := hR.T.t3 p hp t ht
  refine ⟨hconns, y3, t, p, ht, hp, h3.1, by rw [← hcfg]; exact h3.2.2, ?_⟩
  intro x hx
  have h2 := hR.T.t2 x hx t ht
  rw [← hcfg]; exact h2.1

/-! ### the listeners are closed before the drain starts (the order of the exit path)

`shutdown_once_after_drain` speaks about `s.conns`, the handlers alive at the put.  That this is *every* connection of
the worker rests on the model closing the listeners in the same atomic action that sets `terminated` (`beginShutdown`):
`gather(*server_tasks)` is a snapshot, a connection accepted while it is awaited would not be waited for.  The order is
re-decided against the source on every run. -/

/-- **the model's exit path is the source's**: the statements of the `finally:` block of asyncio `worker_serve` (and of the
    `finally:` of the bounded wait inside it), in source order, are the model's - `terminated.set()`, the listeners closed,
    THEN the bounded wait for the handlers, then `wait_for_shutdown()`, then the lifespan task cancelled and awaited; on
    trio the listeners run in the nursery that has been cancelled and joined before the `finally:` that sets `terminated` -/
theorem exit_path_order_is_source :
    (Extracted.Guards.asyncioExitOrder = (exitOrder Runtime.asyncio).map ExitStmt.name ∨
     -- (`terminated.set()` and the closing of the listeners are ONE atomic action of the model and neither suspends in the
     --  source: which of the two statements stands first is immaterial)
     Extracted.Guards.asyncioExitOrder =
       [ExitStmt.closeListeners.name, ExitStmt.setTerminated.name] ++ ((exitOrder Runtime.asyncio).drop 2).map ExitStmt.name) ∧
    Extracted.Guards.trioListenersStopBeforeTerminated = true := by
  constructor
  · decide
  · rfl

/-- **no connection joins the drain**: once `terminated` is set the listeners are closed, no `connect` is enabled (of
    any kind of connection), and no connection has been accepted since; so the handlers `lifespan.shutdown` waits for
    (`shutdown_once_after_drain`: none is alive at the put) are all the connections there are -/
theorem listeners_closed_before_drain (rt : Runtime) (cfg : Cfg) (script : List LAct) (cap : Nat) (ops : List Op) (s : W)
    (hr : run (W.init rt cfg script cap) ops = some s) :
    (s.terminated = true → s.listening = false ∧ ∀ k, step s (.connect k) = none) ∧
    s.g.acceptsAfterTerm = 0 ∧
    (s.g.shutdownPuts = 1 → s.conns = [] ∧ s.listening = false) := by
  obtain ⟨hR, _⟩ := reach_run rt cfg script cap ops s hr
  have hl : s.terminated = true → s.listening = false := by
    intro ht
    by_cases hl : s.listening = true
    · have := (hR.P.listen hl).2; simp [ht] at this
    · simpa using hl
  refine ⟨fun ht => ⟨hl ht, fun k => by simp [step, hl ht]⟩, hR.O.o2.1, ?_⟩
  intro h1
  have h := shutdown_once_after_drain rt cfg script cap ops s hr
  exact ⟨(h.2 h1).1, hl (h.2 h1).2.1⟩

/-- the order matters: a trigger with a request in flight, then a client - refused; the put happens only after the request
    in flight has been delivered, with no handler alive -/
example : (run (W.init .asyncio cfg0 [.recv, .sendStartupComplete, .recv] 10)
    [.app, .srv, .app, .srv, .connect .h1, .request 0 (some 5), .trigger, .srv]).map
    (fun s => decide (s.terminated = true ∧ s.listening = false ∧ step s (.connect .h1) = none ∧ s.g.shutdownPuts = 0 ∧ s.conns.length = 1))
    = some true := by decide

/-- **every abnormal end of `worker_serve` is attributable** (see `ErrJustified`): a lifespan failure only if the
    application sent `lifespan.<stage>.failed`, a time-out only if the event was not set, `ClosedResourceError` only on
    runtimes that close the channels behind a leaving application, `CancelledError` only when the application was still
    running at the very end -/
theorem serve_error_justified (rt : Runtime) (cfg : Cfg) (script : List LAct) (cap : Nat) (ops : List Op) (s : W)
    (hr : run (W.init rt cfg script cap) ops = some s) (e : ServeErr) (hp : s.phase = .failed e) : ErrJustified s e :=
  (reach_run rt cfg script cap ops s hr).1.E.just e hp

/-- an application that left the lifespan scope without sending a failure (in particular one that returns early, before
    or after `startup.complete`, like every WSGI application) never makes `worker_serve` fail — on runtimes on which a put
    on the channels of a leaving application does not raise -/
theorem serve_returns_normally_of_flags (rt : Runtime) (cfg : Cfg) (script : List LAct) (cap : Nat) (ops : List Op) (s : W)
    (hch : rt.channelsClosedOnExit = false) (hck : rt.exitCheckpoints = false ∨ rt.lifespanInNursery = true)
    (hr : run (W.init rt cfg script cap) ops = some s) (hx : s.life.exited = true)
    (h1 : s.life.startupFailedSent = false) (h2 : s.life.shutdownFailedSent = false) : ∀ e, s.phase ≠ .failed e := by
  obtain ⟨hR, hrt, _, _⟩ := reach_run rt cfg script cap ops s hr
  intro e hp
  have hj := hR.E.just e hp
  have hev := hR.L.ok.exitedEvents hx
  cases e with
  | lifespanFailure st => cases st <;> simp [ErrJustified, Life.failedSent, h1, h2] at hj
  | lifespanTimeout st => cases st <;> simp [ErrJustified, hev.1, hev.2.1] at hj
  | closedResource => simp [ErrJustified, hrt, hch] at hj
  | cancelled =>
    simp only [ErrJustified] at hj
    rcases hck with hck | hck
    · simp only [Life.exited, hj.2.1, Option.isSome_none, Bool.false_or] at hx
      have := (hR.L.ok.exitingFlag hx).1
      simp [hrt, hck] at this
    · have := hj.1
      simp [hrt, hck] at this

/-- **an application that left the lifespan scope without sending a failure never makes `worker_serve` fail** — both
    worker classes (every WSGI application, every ASGI application that returns from the lifespan scope) -/
theorem serve_returns_normally (rt : Runtime) (hc : Current rt) (cfg : Cfg) (script : List LAct) (cap : Nat) (ops : List Op)
    (s : W) (hr : run (W.init rt cfg script cap) ops = some s) (hx : s.life.exited = true)
    (h1 : s.life.startupFailedSent = false) (h2 : s.life.shutdownFailedSent = false) : ∀ e, s.phase ≠ .failed e :=
  serve_returns_normally_of_flags rt cfg script cap ops s (by rcases hc with rfl | rfl <;> rfl)
    (by rcases hc with rfl | rfl; exact Or.inl rfl; exact Or.inr rfl) hr hx h1 h2

/-- `worker_serve` never ends with `CancelledError` on a runtime that swallows the cancellation of its own lifespan task -/
theorem no_cancelled_error_of_flags (rt : Runtime) (cfg : Cfg) (script : List LAct) (cap : Nat) (ops : List Op) (s : W)
    (hf : rt.endCancelRaises = false) (hr : run (W.init rt cfg script cap) ops = some s) : s.phase ≠ .failed .cancelled := by
  obtain ⟨hR, hrt, _, _⟩ := reach_run rt cfg script cap ops s hr
  intro hp
  have := (hR.E.just _ hp).2.2
  simp [hrt, hf] at this

/-- **an application that is still running when the lifespan shutdown is over does not make `worker_serve` raise
    `CancelledError`** — both worker classes -/
theorem no_cancelled_error (rt : Runtime) (hc : Current rt) (cfg : Cfg) (script : List LAct) (cap : Nat) (ops : List Op) (s : W)
    (hr : run (W.init rt cfg script cap) ops = some s) : s.phase ≠ .failed .cancelled :=
  no_cancelled_error_of_flags rt cfg script cap ops s (by rcases hc with rfl | rfl <;> rfl) hr

/-- the F17 script: `recv; startup.complete; return` -/
def f17Script : List LAct := [.recv, .sendStartupComplete, .ret]
def f17Ops : List Op := [.app, .srv, .app, .app, .srv, .trigger, .srv, .srv]

/-- history (F17, fixed by fa7ea28): before the fix trio's put on the channel closed behind the leaving application raised
    `ClosedResourceError`, at shutdown … -/
theorem f17_run_before_fix :
    (run (W.init .trioBeforeFixes cfg0 f17Script 10) f17Ops).map (fun s => decide
      (s.phase = .failed .closedResource ∧ s.life.exited = true ∧ s.life.completeSeen = true ∧
       s.life.startupFailedSent = false ∧ s.life.shutdownFailedSent = false)) = some true := by decide

/-- … and already at start-up when the application returns before `lifespan.startup` is put (every WSGI application) -/
theorem f17_run_wsgi_before_fix :
    (run (W.init .trioBeforeFixes cfg0 [.ret] 10) [.app, .srv]).map (fun s => (s.phase, s.g.everListening)) =
      some (.failed .closedResource, false) := by decide

/-- history: the full statement was false for `Runtime.trioBeforeFixes` — the `channelsClosedOnExit` hypothesis of
    `serve_returns_normally_of_flags` is needed -/
theorem serve_returns_normally_failed_before_fix :
    ¬ (∀ (cfg : Cfg) (script : List LAct) (cap : Nat) (ops : List Op) (s : W),
        run (W.init .trioBeforeFixes cfg script cap) ops = some s → s.life.exited = true → s.life.startupFailedSent = false →
        s.life.shutdownFailedSent = false → ∀ e, s.phase ≠ .failed e) := by
  intro h
  have hw := f17_run_before_fix
  cases hr : run (W.init .trioBeforeFixes cfg0 f17Script 10) f17Ops with
  | none => simp [hr] at hw
  | some s =>
    simp only [hr, Option.map_some, Option.some.injEq, decide_eq_true_eq] at hw
    obtain ⟨h1, h2, _, h4, h5⟩ := hw
    exact h _ _ _ _ s hr h2 h4 h5 _ h1

-- the same scripts on the code as it is now: normal return after one `lifespan.shutdown` put (into a queue nobody reads) on
-- both workers; a WSGI-like application (`return` at once) is served on trio
example : (run (W.init .trio cfg0 f17Script 10) (f17Ops ++ [.srv])).map
    (fun s => (s.phase, s.g.shutdownPuts)) = some (.done, 1) := by decide
example : (run (W.init .trio cfg0 [.ret] 10) [.app, .srv, .srv, .app, .connect .h1]).map
    (fun s => (s.phase, s.g.accepts)) = some (.serving, 1) := by decide
example : (run (W.init .asyncio cfg0 f17Script 10) [.app, .srv, .app, .srv, .trigger, .srv, .srv, .srv]).map
    (fun s => (s.phase, s.g.shutdownPuts)) = some (.done, 1) := by decide

/-- history (F29, fixed by 9c9a997): before the fix an application still awaiting after `lifespan.shutdown.complete` made
    `await lifespan_task` raise `CancelledError` out of asyncio's `worker_serve` -/
theorem noreturn_after_shutdown_cancelled_before_fix :
    (run (W.init .asyncioBeforeFixes cfg0 [.recv, .sendStartupComplete, .recv, .sendShutdownComplete, .hang] 10)
      [.app, .srv, .app, .srv, .trigger, .srv, .srv, .srv, .app, .srv]).map (fun s => s.phase) =
      some (.failed .cancelled) := by decide

-- now: normal return
example : (run (W.init .asyncio cfg0 [.recv, .sendStartupComplete, .recv, .sendShutdownComplete, .hang] 10)
    [.app, .srv, .app, .srv, .trigger, .srv, .srv, .app, .srv]).map (fun s => s.phase) = some .done := by decide

/-! ### each connection's scope carries its own copy of the lifespan state -/

/-- **a write through one connection's `scope["state"]` changes neither the lifespan state, nor the serve-time
    snapshot, nor any other connection's state** -/
theorem state_isolated (rt : Runtime) (cfg : Cfg) (script : List LAct) (cap : Nat) (ops : List Op) (s s' : W)
    (hr : run (W.init rt cfg script cap) ops = some s) (c : Conn) (hc : c ∈ s.conns) (k v : Nat)
    (hs : step s (.connWrite c.id k v) = some s') :
    s'.mem.heap 0 = s.mem.heap 0 ∧ s'.mem.heap c.ref = kvSet (s.mem.heap c.ref) k v ∧
    (∀ r, s.mem.serveRef = some r → s'.mem.heap r = s.mem.heap r) ∧
    (∀ c2 ∈ s.conns, c2.id ≠ c.id → s'.mem.heap c2.ref = s.mem.heap c2.ref) ∧ s'.conns = s.conns := by
  obtain ⟨hR, _⟩ := reach_run rt cfg script cap ops s hr
  -- `findConn` finds `c` itself: ids are unique
  have hfind : ∀ c', s.findConn c.id = some c' → c' = c := by
    intro c' h
    obtain ⟨hm, hid⟩ := findConn_mem s c.id c' h
    exact nodup_map_inj hR.S.s6 hm hc hid
  simp only [step] at hs
  cases hf : s.findConn c.id with
  | none => simp [hf] at hs
  | some c' =>
    have := hfind c' hf
    subst this
    simp only [hf, Option.some.injEq] at hs
    subst hs
    have h3 := hR.S.s3 c' hc
    refine ⟨?_, by simp, ?_, ?_, rfl⟩
    · have : (0 : Nat) ≠ c'.ref := by omega
      simp [this]
    · intro r hr'
      have : r ≠ c'.ref := by intro h; exact h3.2.2 (by rw [hr', h])
      simp [this]
    · intro c2 hc2 hne
      have : c2.ref ≠ c'.ref := by
        intro h
        exact hne (congrArg Conn.id (nodup_map_inj hR.S.s4 hc2 hc h))
      simp [this]

/-- a write of the lifespan application to its own state reaches no existing connection -/
theorem lifespan_write_isolated (rt : Runtime) (cfg : Cfg) (script : List LAct) (cap : Nat) (ops : List Op) (s s' : W)
    (hr : run (W.init rt cfg script cap) ops = some s) (k v : Nat) (hs : step s (.lifeWrite k v) = some s') :
    ∀ c ∈ s'.conns, s'.mem.heap c.ref = s.mem.heap c.ref := by
  obtain ⟨hR, _⟩ := reach_run rt cfg script cap ops s hr
  simp only [step, Option.some.injEq] at hs
  subst hs
  intro c hc
  have := (hR.S.s3 c hc).1
  have h0 : c.ref ≠ 0 := by omega
  simp [h0]

/-- **a new connection starts from a copy**: of the live lifespan state (asyncio), or of the copy taken when serving
    started (trio); every existing cell is left alone -/
theorem state_copied_at_connect (rt : Runtime) (cfg : Cfg) (script : List LAct) (cap : Nat) (ops : List Op) (s s' : W)
    (hr : run (W.init rt cfg script cap) ops = some s) (k : Kind) (hs : step s (.connect k) = some s') :
    s.newConn k ∈ s'.conns ∧ (s.newConn k).id = s.nextId ∧ (s.newConn k).ref = s.mem.nextRef ∧
      s'.mem.heap (s.newConn k).ref = s.mem.heap s.stateSource ∧
      (∀ r, r < s.mem.nextRef → s'.mem.heap r = s.mem.heap r) ∧
      (rt.stateCopiedAtServe = false → s.stateSource = 0) := by
  obtain ⟨hR, hrt, _, _⟩ := reach_run rt cfg script cap ops s hr
  have hsrc : rt.stateCopiedAtServe = false → s.stateSource = 0 := by
    intro h
    have := hR.S.s7 (by rw [hrt]; exact h)
    simp [W.stateSource, this]
  simp only [step] at hs
  split at hs
  · simp only [Option.some.injEq] at hs
    subst hs
    have key : ∀ r, r < s.mem.nextRef → (s.accept k).mem.heap r = s.mem.heap r := by
      intro r hr'
      have : r ≠ s.mem.nextRef := by omega
      simp [W.accept, W.newConn, this]
    have hcopy : (s.accept k).mem.heap (s.newConn k).ref = s.mem.heap s.stateSource := by
      simp [W.accept, W.newConn]
    split
    · exact ⟨by simp [W.newScope, W.markRequest, W.accept, W.newConn], rfl, rfl, hcopy, key, hsrc⟩
    · exact ⟨by simp [W.accept, W.newConn], rfl, rfl, hcopy, key, hsrc⟩
  · simp at hs

-- non-vacuity: two connections, each writes key 7; the lifespan state keeps its own value
example : (run (W.init .asyncio cfg0 [.recv, .sendStartupComplete, .recv] 10)
    [.lifeWrite 7 1, .app, .srv, .app, .srv, .connect .h1, .connect .h1, .connWrite 0 7 10, .connWrite 1 7 11]).map
    (fun s => (s.mem.heap 0, s.conns.map (fun c => s.mem.heap c.ref))) =
    some ([(7, 1)], [[(7, 10)], [(7, 11)]]) := by decide
-- trio: a late write of the lifespan application is not seen by later connections (copy taken when serving started)
example : (run (W.init .trio cfg0 [.recv, .sendStartupComplete, .recv] 10)
    [.lifeWrite 7 1, .app, .srv, .app, .srv, .lifeWrite 8 2, .connect .h1]).map
    (fun s => (s.mem.heap 0, s.conns.map (fun c => s.mem.heap c.ref))) =
    some ([(8, 2), (7, 1)], [[(7, 1)]]) := by decide
example : (run (W.init .asyncio cfg0 [.recv, .sendStartupComplete, .recv] 10)
    [.lifeWrite 7 1, .app, .srv, .app, .srv, .lifeWrite 8 2, .connect .h1]).map
    (fun s => (s.mem.heap 0, s.conns.map (fun c => s.mem.heap c.ref))) =
    some ([(8, 2), (7, 1)], [[(8, 2), (7, 1)]]) := by decide

/-! ### what escapes the application is a tree of exceptions

An application that runs its lifespan inside task groups / nurseries (anyio, Starlette) does not raise a bare
`LifespanFailureError` when it sends `lifespan.startup.failed`: the exception leaves the application wrapped in one
`ExceptionGroup` per task group, possibly next to other exceptions.  `HC/Worker/Escape.lean` models the `except` chain of
`handle_lifespan` as a function on such trees, parameterised by what the extractor reads off both workers
(`HC/Extracted/LifespanSites.lean`).  The clauses below are what the lifespan model (whose `AppExc` is the *verdict* of that
chain) relies on. -/

open HC.Extracted.LifespanSites in
/-- the `except` chain the lifespan model assumes: `LifespanFailureError` and the cancellation class are re-raised as they
    are; a group is searched **through every level** (`error.subgroup(...)`) for the same two classes and what is found is
    re-raised; anything else makes the application unsupported -/
def expectedEscapeHandler : EscapeHandler :=
  { reraise := [.lifespanFailure, .cancelled], caught := [.group, .exception],
    search := .subgroup [.lifespanFailure, .cancelled], marksUnsupported := true }

open HC.Extracted.LifespanSites in
/-- **`handle_lifespan` of both workers is that chain** (decided on the extracted source shape) -/
theorem escape_handler_searches_every_level :
    asyncioEscapeHandler = expectedEscapeHandler ∧ trioEscapeHandler = expectedEscapeHandler := by decide

open HC.Extracted.LifespanSites in
/-- the handlers of the two worker classes as the code is now -/
def CurrentHandler (h : EscapeHandler) : Prop := h = asyncioEscapeHandler ∨ h = trioEscapeHandler

open HC.Extracted.LifespanSites in
theorem currentHandler_eq (h : EscapeHandler) (hc : CurrentHandler h) : h = expectedEscapeHandler := by
  rcases hc with rfl | rfl
  · exact escape_handler_searches_every_level.1
  · exact escape_handler_searches_every_level.2

private theorem isa_fc (e : Exc) : e.isaAny [.lifespanFailure, .cancelled] = true ↔ e ≠ .other := by
  cases e <;> simp [Exc.isaAny, Exc.isa]

/-- **any tree that contains a `LifespanFailureError` - at whatever depth, next to whatever else - is re-raised**: the
    lifespan task ends with a tree that still contains that failure and nothing but failures and cancellations, i.e. for the
    lifespan model the application *failed* (it is never filed under "does not support lifespan") -/
theorem failure_leaf_aborts (h : HC.Extracted.LifespanSites.EscapeHandler) (hc : CurrentHandler h) (t : ExcTree) (st : Stage)
    (hl : Exc.failure st ∈ t.leaves) :
    ∃ t', handle h t = .reraise t' ∧ Exc.failure st ∈ t'.leaves ∧ (∀ x ∈ t'.leaves, x ≠ .other) ∧
      ∃ st', (handle h t).appExc = some (.failure st') := by
  rw [currentHandler_eq h hc]
  cases t with
  | leaf e =>
    simp only [ExcTree.leaves, List.mem_singleton] at hl
    subst hl
    refine ⟨.leaf (.failure st), by simp [handle, expectedEscapeHandler, Exc.isaAny, Exc.isa], by simp [ExcTree.leaves],
      by simp [ExcTree.leaves], st, by simp [handle, expectedEscapeHandler, Exc.isaAny, Exc.isa, Verdict.appExc, ExcTree.leaves, firstFailure]⟩
  | group ts =>
    have spec := ExcTree.subgroup_spec [.lifespanFailure, .cancelled] (by decide) (.group ts)
    have hmem : Exc.failure st ∈ (ExcTree.group ts).leaves.filter (fun e => e.isaAny [.lifespanFailure, .cancelled]) := by
      simp [List.mem_filter, hl, Exc.isaAny, Exc.isa]
    cases hs : (ExcTree.group ts).subgroup [.lifespanFailure, .cancelled] with
    | none =>
      have := spec.2.mp hs
      rw [this] at hmem
      simp at hmem
    | some t' =>
      have hlv := spec.1 t' hs
      have hv : handle expectedEscapeHandler (.group ts) = .reraise t' := by
        simp only [handle, expectedEscapeHandler, caughtVerdict]
        simp [hs]
      refine ⟨t', hv, by rw [hlv]; exact hmem, ?_, ?_⟩
      · intro x hx
        rw [hlv, List.mem_filter] at hx
        exact (isa_fc x).mp hx.2
      · obtain ⟨st', hst'⟩ := firstFailure_some_of_mem st t'.leaves (by rw [hlv]; exact hmem)
        exact ⟨st', by simp [hv, Verdict.appExc, hst']⟩

/-- **a tree of other exceptions only (no failure, no cancellation) makes the application unsupported** - the server goes on
    without lifespan, as for a bare exception -/
theorem other_only_unsupported (h : HC.Extracted.LifespanSites.EscapeHandler) (hc : CurrentHandler h) (t : ExcTree)
    (hl : ∀ x ∈ t.leaves, x = .other) : handle h t = .unsupported := by
  rw [currentHandler_eq h hc]
  cases t with
  | leaf e =>
    have := hl e (by simp [ExcTree.leaves])
    subst this
    simp [handle, expectedEscapeHandler, caughtVerdict, Exc.isaAny, Exc.isa]
  | group ts =>
    have spec := ExcTree.subgroup_spec [.lifespanFailure, .cancelled] (by decide) (.group ts)
    have hnone : (ExcTree.group ts).subgroup [.lifespanFailure, .cancelled] = none := by
      apply spec.2.mpr
      rw [List.filter_eq_nil_iff]
      intro x hx
      rw [hl x hx]
      simp [Exc.isaAny, Exc.isa]
    simp only [handle, expectedEscapeHandler, caughtVerdict]
    simp [hnone]

/-- a cancellation inside a group (a cancelled application that sits in nurseries) is re-raised, never logged as an error of
    the application -/
theorem cancelled_leaf_reraised (h : HC.Extracted.LifespanSites.EscapeHandler) (hc : CurrentHandler h) (t : ExcTree)
    (hl : Exc.cancelled ∈ t.leaves) : ∃ t', handle h t = .reraise t' ∧ Exc.cancelled ∈ t'.leaves := by
  rw [currentHandler_eq h hc]
  cases t with
  | leaf e =>
    simp only [ExcTree.leaves, List.mem_singleton] at hl
    subst hl
    exact ⟨.leaf .cancelled, by simp [handle, expectedEscapeHandler, Exc.isaAny, Exc.isa], by simp [ExcTree.leaves]⟩
  | group ts =>
    have spec := ExcTree.subgroup_spec [.lifespanFailure, .cancelled] (by decide) (.group ts)
    have hmem : Exc.cancelled ∈ (ExcTree.group ts).leaves.filter (fun e => e.isaAny [.lifespanFailure, .cancelled]) := by
      simp [List.mem_filter, hl, Exc.isaAny, Exc.isa]
    cases hs : (ExcTree.group ts).subgroup [.lifespanFailure, .cancelled] with
    | none =>
      have := spec.2.mp hs
      rw [this] at hmem
      simp at hmem
    | some t' =>
      refine ⟨t', ?_, by rw [spec.1 t' hs]; exact hmem⟩
      simp only [handle, expectedEscapeHandler, caughtVerdict]
      simp [hs]

/-- **a script behaves under any nest of task groups as it does bare**: for every wrap that lets the script's own exception
    through (`hasOwn`; the other members of the groups are other exceptions), `translate` - the script as the server
    experiences it - is the script itself.  Hence every theorem of this file about scripts (`failed_or_timeout_aborts`,
    `startup_before_serving`, `raised_is_unsupported` …) holds for the script run inside task groups / nurseries of any depth. -/
theorem wrapped_script_is_script (h : HC.Extracted.LifespanSites.EscapeHandler) (hc : CurrentHandler h) (w : Wrap)
    (hw : w.hasOwn = true) (script : List LAct) : translate h w script = some script := by
  have key : ∀ a : LAct, translateAct h w a = some a := by
    intro a
    unfold translateAct
    cases hr : a.raises with
    | none => rfl
    | some e =>
      have hfl := Wrap.fill_leaves e w
      cases e with
      | failure st =>
        obtain ⟨t', hv, _, hall, _⟩ := failure_leaf_aborts h hc (w.fill (.failure st)) st (hfl.2 hw)
        have hall' : ∀ x ∈ t'.leaves, x = Exc.failure st := by
          intro x hx
          have hsub : x ∈ (w.fill (.failure st)).leaves := by
            rw [currentHandler_eq h hc] at hv
            cases hwf : w.fill (.failure st) with
            | leaf e' =>
              rw [hwf] at hv
              cases e' <;> simp [handle, expectedEscapeHandler, caughtVerdict, Exc.isaAny, Exc.isa] at hv
              all_goals (subst hv; exact hx)
            | group ts =>
              rw [hwf] at hv
              have spec := ExcTree.subgroup_spec [.lifespanFailure, .cancelled] (by decide) (.group ts)
              cases hs : (ExcTree.group ts).subgroup [.lifespanFailure, .cancelled] with
              | none =>
                simp only [handle, expectedEscapeHandler, caughtVerdict] at hv
                simp [hs] at hv
              | some t'' =>
                simp only [handle, expectedEscapeHandler, caughtVerdict] at hv
                simp [hs] at hv
                subst hv
                rw [spec.1 t'' hs, List.mem_filter] at hx
                exact hx.1
          rcases hfl.1 x hsub with h1 | h1
          · exact h1
          · exact absurd h1 (hall x hx)
        have hne : t'.leaves ≠ [] := by
          intro he
          obtain ⟨_, _, hm, _⟩ := failure_leaf_aborts h hc (w.fill (.failure st)) st (hfl.2 hw)
          rename_i t2 _
          simp_all
        have hff := firstFailure_of_all st t'.leaves hne hall'
        simp [hv, Verdict.appExc, hff]
      | cancelled => cases a <;> simp [LAct.raises] at hr
      | other =>
        have hv := other_only_unsupported h hc (w.fill .other) (by
          intro x hx
          rcases hfl.1 x hx with h1 | h1 <;> exact h1)
        simp [hv, Verdict.appExc]
  unfold translate
  induction script with
  | nil => rfl
  | cons a rest ih => simp [List.mapM_cons, key a, ih]

open HC.Extracted.LifespanSites in
/-- the hypothesis is needed: a handler that only scans the *direct* members of the group (`error.exceptions`) does not find a
    failure that sits one level deeper - `lifespan.startup.failed` sent from inside two task groups would make the application
    "unsupported" and the server would serve -/
theorem direct_scan_misses_nested :
    (handle { expectedEscapeHandler with search := .directMembers [.lifespanFailure, .cancelled] }
      (.group [.group [.leaf (.failure .startup)]])).isUnsupported = true ∧
    translate { expectedEscapeHandler with search := .directMembers [.lifespanFailure, .cancelled] } (Wrap.nest 2)
      [.recv, .sendStartupFailed] = some [.recv, .sendUnknown] := by decide

-- non-vacuity: depth 1, 2, 3 and mixed trees on the handlers as they are
example : (handle HC.Extracted.LifespanSites.asyncioEscapeHandler ((Wrap.nest 3).fill (.failure .startup))).reraised =
    some [.failure .startup] := by decide
example : (handle HC.Extracted.LifespanSites.trioEscapeHandler
    (.group [.leaf .other, .group [.leaf .other, .group [.leaf (.failure .startup)], .leaf .cancelled]])).reraised =
    some [.failure .startup, .cancelled] := by decide
example : (handle HC.Extracted.LifespanSites.trioEscapeHandler (.group [.leaf .other, .group [.leaf .other]])).isUnsupported = true := by
  decide
example : (Wrap.group [.sibling, .group [.own, .sibling]]).hasOwn = true := by decide

/-! ### the per-connection state is an unconditional copy -/

open HC.Extracted.LifespanSites in
/-- **every connection gets `ConnectionState(self.state.copy())` - a fresh dict, whatever the state holds (also when it is
    empty)** on both workers; the dict copied is the live lifespan state on asyncio and the copy taken when serving started on
    trio (`Runtime.stateCopiedAtServe`).  This is what `W.accept` (a fresh heap cell per connection) models; decided on the
    argument expressions the extractor reads from `TCPServer.run` and `worker_serve` of both workers. -/
theorem conn_state_unconditional_copy :
    asyncioConnStateArg = .copy ∧ trioConnStateArg = .copy ∧
    (asyncioServeStateArg = .shared ∧ Runtime.asyncio.stateCopiedAtServe = false) ∧
    (trioServeStateArg = .copy ∧ Runtime.trio.stateCopiedAtServe = true) := by decide

-- an EMPTY lifespan state: both connections start empty, each sees only its own write, the lifespan state stays empty
example : (run (W.init .asyncio cfg0 [.recv, .sendStartupComplete, .recv] 10)
    [.app, .srv, .app, .srv, .connect .h1, .connWrite 0 7 10, .connect .h1, .connWrite 1 7 11]).map
    (fun s => (s.mem.heap 0, s.conns.map (fun c => s.mem.heap c.ref))) =
    some ([], [[(7, 10)], [(7, 11)]]) := by decide
example : (run (W.init .trio cfg0 [.raise] 10)
    [.app, .app, .srv, .connect .h1, .connWrite 0 7 10, .connect .h1]).map
    (fun s => (s.mem.heap 0, s.conns.map (fun c => s.mem.heap c.ref))) =
    some ([], [[(7, 10)], []]) := by decide

end HC.Props.C14
