import HC.Prelude
import HC.Extracted.Guards
import HC.Extracted.RedirectSites
/-!
# Model of `hypercorn/middleware/{proxy_fix,dispatcher,http_to_https}.py`

Hand-written; tied to the code by the correspondence run of `./check C20`
(`harness/gen/C20.py` drives the real classes and this model on the same inputs).
`str` values produced by `.decode("latin1")` are carried as `Bytes` (code points 0..255).
-/
namespace HC.Middleware
open HC

/-! ## ProxyFixMiddleware -/

/-- `[value.decode("latin1").strip() for value in header_value.split(b",")]` -/
def lineValues (v : Bytes) : List Bytes := (Bytes.splitOnB 44 v).map Bytes.stripL1

/-- the `values` list built by `_get_trusted_value` -/
def values (name : Bytes) (hs : Headers) : List Bytes :=
  hs.flatMap (fun h => if Bytes.lower h.1 == name then lineValues h.2 else [])

/-- `_get_trusted_value(name, headers, trusted_hops)` -/
def getTrusted (name : Bytes) (hs : Headers) (hops : Nat) : Option Bytes :=
  if hops = 0 then none
  else
    let vs := values name hs
    -- the comparison operator is the one extracted from `len(values) >= trusted_hops`
    if Extracted.Guards.proxyEnoughCmp.eval vs.length hops then vs[vs.length - hops]? else none

structure Scope where
  kind : String                      -- scope["type"]
  client : Option (Bytes × Nat)      -- scope["client"]
  scheme : Bytes                     -- scope["scheme"]
  headers : Headers
deriving Repr, DecidableEq

structure Trusted where
  client : Option Bytes := none
  scheme : Option Bytes := none
  host : Option Bytes := none
deriving Repr, DecidableEq

/-- the `for part in value.split(";")` loop of modern mode -/
def parseForwarded (value : Bytes) : Trusted :=
  (Bytes.splitOnB 59 value).foldl (fun t part =>
    if Bytes.startsWith "for=".b part then { t with client := some (Bytes.stripL1 (part.drop 4)) }
    else if Bytes.startsWith "host=".b part then { t with host := some (Bytes.stripL1 (part.drop 5)) }
    else if Bytes.startsWith "proto=".b part then { t with scheme := some (Bytes.stripL1 (part.drop 6)) }
    else t) {}

/-- which (client, scheme, host) the middleware decides to trust -/
def trusted (modern : Bool) (hops : Nat) (hs : Headers) : Trusted :=
  match (if modern then getTrusted "forwarded".b hs hops else none) with
  | some value => parseForwarded value
  | none =>
    { client := getTrusted "x-forwarded-for".b hs hops
      scheme := getTrusted "x-forwarded-proto".b hs hops
      host := getTrusted "x-forwarded-host".b hs hops }

/-- `str.encode()` (UTF-8) of a string whose code points are all < 256 -/
def utf8OfLatin1 (bs : Bytes) : Bytes :=
  bs.flatMap (fun b => if b.toNat < 128 then [b] else [(0xC0 : UInt8) ||| (b >>> 6), (0x80 : UInt8) ||| (b &&& 0x3F)])

def applyTrusted (t : Trusted) (sc : Scope) : Scope :=
  let sc := match t.client with | some c => { sc with client := some (c, 0) } | none => sc
  let sc := match t.scheme with | some s => { sc with scheme := s } | none => sc
  match t.host with
  | some h => { sc with headers := sc.headers.filter (fun x => Bytes.lower x.1 != "host".b) ++ [("host".b, utf8OfLatin1 h)] }
  | none => sc

/-- the scope handed to the wrapped application -/
def proxyFix (modern : Bool) (hops : Nat) (sc : Scope) : Scope :=
  if sc.kind = "http" ∨ sc.kind = "websocket" then applyTrusted (trusted modern hops sc.headers) sc else sc

/-! ## DispatcherMiddleware -/

/-- first mount (in table order) whose key is a prefix of the path; returns its index and the new path -/
def dispatchFrom (i : Nat) : List (List Char) → List Char → Option (Nat × List Char)
  | [], _ => none
  | m :: ms, path =>
    if m.isPrefixOf path then
      let r := path.drop m.length
      some (i, if r = [] then ['/'] else r)
    else dispatchFrom (i + 1) ms path

def dispatch (mounts : List (List Char)) (path : List Char) : Option (Nat × List Char) :=
  dispatchFrom 0 mounts path

/-- lifespan fan-out bookkeeping (`send(path, send, message)`), per message kind -/
structure Fan where
  startup : List Bool
  shutdown : List Bool
  fwdStartup : Nat := 0        -- ghost: forwarded `lifespan.startup.complete` count
  fwdShutdown : Nat := 0
deriving Repr, DecidableEq

inductive FanOp where
  | startupComplete (i : Nat)
  | shutdownComplete (i : Nat)
  | other (i : Nat)
deriving Repr, DecidableEq

def Fan.init (n : Nat) : Fan := { startup := List.replicate n false, shutdown := List.replicate n false }

/-- returns the new state and whether a message was forwarded upstream -/
def Fan.step (f : Fan) : FanOp → Fan × Bool
  | .startupComplete i =>
    let st := f.startup.set i true
    if st.all id then ({ f with startup := st, fwdStartup := f.fwdStartup + 1 }, true)
    else ({ f with startup := st }, false)
  | .shutdownComplete i =>
    let st := f.shutdown.set i true
    if st.all id then ({ f with shutdown := st, fwdShutdown := f.fwdShutdown + 1 }, true)
    else ({ f with shutdown := st }, false)
  | .other _ => (f, false)

def Fan.run (f : Fan) (ops : List FanOp) : Fan := ops.foldl (fun f o => (f.step o).1) f

/-! ## HTTPToHTTPSRedirectMiddleware -/

/-- `urllib.parse.urlunsplit((scheme, netloc, path, query, ""))` for a scheme in `uses_netloc` -/
def urlunsplit (scheme netloc path query : List Char) : List Char :=
  let url :=
    if netloc ≠ [] ∨ (scheme ≠ [] ∧ path.take 2 ≠ ['/', '/']) then
      let p := if path ≠ [] ∧ path.take 1 ≠ ['/'] then '/' :: path else path
      ['/', '/'] ++ netloc ++ p
    else path
  let url := if scheme ≠ [] then scheme ++ ':' :: url else url
  if query ≠ [] then url ++ '?' :: query else url

structure RScope where
  kind : String
  scheme : String
  httpVersion : String
  hasWsResponseExt : Bool
  hostHeader : Option (List Char)     -- first header whose name == b"host", latin-1 decoded
  rootPath : List Char
  rawPath : List Char                 -- raw_path.decode(): the path of the request target exactly as the client sent it
  path : List Char                    -- scope["path"]: the percent-decoded form the server derives from it
  query : List Char
deriving Repr, DecidableEq

inductive RAction where
  | httpRedirect (url : List Char)      -- http.response.start 307 + location, http.response.body
  | wsRedirect (url : List Char)        -- websocket.http.response.start 307 + location, …body
  | wsClose                             -- websocket.close
  | passThrough                         -- wrapped app called with the same scope
  | valueError                          -- "Host to redirect to cannot be determined"
deriving Repr, DecidableEq

def pickHost (cfgHost : Option (List Char)) (sc : RScope) : Option (List Char) :=
  match cfgHost with | some h => some h | none => sc.hostHeader

/-- the request path `_new_url` appends to the root path; which scope key it reads is *extracted* from the source
    (`Extracted.RedirectSites.redirectPathSource`) -/
def requestPath (sc : RScope) : List Char :=
  match Extracted.RedirectSites.redirectPathSource with
  | .rawPath => sc.rawPath
  | .path => sc.path

def newUrl (cfgHost : Option (List Char)) (scheme : List Char) (sc : RScope) : Option (List Char) :=
  (pickHost cfgHost sc).map (fun host => urlunsplit scheme host (sc.rootPath ++ requestPath sc) sc.query)

def redirect (cfgHost : Option (List Char)) (sc : RScope) : RAction :=
  if sc.kind = "http" ∧ sc.scheme = "http" then
    match newUrl cfgHost "https".toList sc with
    | some u => .httpRedirect u
    | none => .valueError
  else if sc.kind = "websocket" ∧ sc.scheme = "ws" then
    if sc.hasWsResponseExt then
      match newUrl cfgHost (if sc.httpVersion = "2" then "https".toList else "wss".toList) sc with
      | some u => .wsRedirect u
      | none => .valueError
    else .wsClose
  else .passThrough

end HC.Middleware
