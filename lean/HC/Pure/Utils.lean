import HC.Prelude
/-! # Model of `hypercorn/utils.py`: `filter_pseudo_headers` -/
namespace HC.Utils
open HC

/-- `filter_pseudo_headers(headers)` exactly as the loop runs (last `:authority` / last `host` win) -/
def filterPseudo (hs : Headers) : Headers :=
  let authority := (hs.reverse.find? (fun x => x.1 == ":authority".b)).map (·.2)
  let host := ((hs.reverse.find? (fun x => x.1 == "host".b)).map (·.2)).getD []
  let rest := hs.filter (fun x => x.1 != ":authority".b && x.1 != "host".b && x.1.head? != some 58)
  ("host".b, authority.getD host) :: rest

end HC.Utils
