import HC.Prelude
/-!
# SHA-1 (FIPS 180-4) and base64 (RFC 4648, standard alphabet, padding) over `List UInt8`

Executable specification of the RFC 6455 `Sec-WebSocket-Accept` token:
`acceptToken key = base64 (sha1 (key ++ "258EAFA5-E914-47DA-95CA-C5AB0DC85B11"))`.

Everything is total and structurally recursive (folds over the padded message, one 64-byte block at a time; the
message schedule is a rolling window of 16 words), core Lean only.  The test vectors at the end are checked by the
kernel (`decide +kernel`: plain kernel evaluation of the `Decidable` instance, no compiler, no extra axiom).
-/
namespace HC.Pure.Sha1
open HC

def rotl (x : UInt32) (n : UInt32) : UInt32 := (x <<< n) ||| (x >>> (32 - n))

/-- big-endian bytes of a 32-bit word -/
def wordBytes (w : UInt32) : Bytes :=
  [(w >>> 24).toUInt8, (w >>> 16).toUInt8, (w >>> 8).toUInt8, w.toUInt8]

/-- the 64-bit big-endian bit length -/
def lenBytes (nBytes : Nat) : Bytes :=
  let bits := nBytes * 8
  [56, 48, 40, 32, 24, 16, 8, 0].map (fun sh => ((bits >>> sh) % 256).toUInt8)

/-- `msg ++ 0x80 ++ 0…0 ++ len64`, a multiple of 64 bytes -/
def pad (msg : Bytes) : Bytes :=
  msg ++ [0x80] ++ List.replicate ((119 - msg.length % 64) % 64) 0 ++ lenBytes msg.length

/-- four bytes → one big-endian word; the words of a byte list (a trailing group of < 4 bytes is dropped:
    `pad` always produces a multiple of 64) -/
def words : Bytes → List UInt32
  | a :: b :: c :: d :: rest =>
    ((a.toUInt32 <<< 24) ||| (b.toUInt32 <<< 16) ||| (c.toUInt32 <<< 8) ||| d.toUInt32) :: words rest
  | _ => []

structure H5 where
  a : UInt32
  b : UInt32
  c : UInt32
  d : UInt32
  e : UInt32
deriving Repr, DecidableEq

def H5.init : H5 := ⟨0x67452301, 0xEFCDAB89, 0x98BADCFE, 0x10325476, 0xC3D2E1F0⟩

def H5.add (x y : H5) : H5 := ⟨x.a + y.a, x.b + y.b, x.c + y.c, x.d + y.d, x.e + y.e⟩

def fk (t : Nat) (b c d : UInt32) : UInt32 × UInt32 :=
  if t < 20 then ((b &&& c) ||| ((~~~ b) &&& d), 0x5A827999)
  else if t < 40 then (b ^^^ c ^^^ d, 0x6ED9EBA1)
  else if t < 60 then ((b &&& c) ||| (b &&& d) ||| (c &&& d), 0x8F1BBCDC)
  else (b ^^^ c ^^^ d, 0xCA62C1D6)

/-- one of the 80 rounds: `win` is the rolling window `w[t] … w[t+15]` -/
def round (t : Nat) (h : H5) (win : List UInt32) : H5 × List UInt32 :=
  match win with
  | w0 :: w1 :: w2 :: w3 :: w4 :: w5 :: w6 :: w7 :: w8 :: w9 :: w10 :: w11 :: w12 :: w13 :: w14 :: w15 :: _ =>
    let (f, k) := fk t h.b h.c h.d
    let tmp := rotl h.a 5 + f + h.e + k + w0
    (⟨tmp, h.a, rotl h.b 30, h.c, h.d⟩,
     [w1, w2, w3, w4, w5, w6, w7, w8, w9, w10, w11, w12, w13, w14, w15, rotl (w13 ^^^ w8 ^^^ w2 ^^^ w0) 1])
  | _ => (h, win)      -- not a 16-word window: cannot happen for a 64-byte block

def rounds : Nat → Nat → H5 → List UInt32 → H5
  | 0, _, h, _ => h
  | n + 1, t, h, win => let (h', win') := round t h win; rounds n (t + 1) h' win'

/-- compression of one 64-byte block -/
def compress (h : H5) (block : Bytes) : H5 := h.add (rounds 80 0 h (words block))

/-- fold state: chaining value, bytes of the current block (reversed), how many of them -/
structure Acc where
  h : H5
  cur : Bytes
  n : Nat

def feedByte (acc : Acc) (b : UInt8) : Acc :=
  if acc.n + 1 = 64 then { h := compress acc.h (b :: acc.cur).reverse, cur := [], n := 0 }
  else { acc with cur := b :: acc.cur, n := acc.n + 1 }

def sha1 (msg : Bytes) : Bytes :=
  let acc := (pad msg).foldl feedByte { h := H5.init, cur := [], n := 0 }
  wordBytes acc.h.a ++ wordBytes acc.h.b ++ wordBytes acc.h.c ++ wordBytes acc.h.d ++ wordBytes acc.h.e

/-! ## base64 -/

def b64Char (n : UInt8) : UInt8 :=
  if n < 26 then 65 + n            -- A–Z
  else if n < 52 then 97 + (n - 26)  -- a–z
  else if n < 62 then 48 + (n - 52)  -- 0–9
  else if n = 62 then 43            -- +
  else 47                           -- /

def base64 : Bytes → Bytes
  | a :: b :: c :: rest =>
    b64Char (a >>> 2) :: b64Char (((a &&& 3) <<< 4) ||| (b >>> 4)) :: b64Char (((b &&& 15) <<< 2) ||| (c >>> 6)) ::
      b64Char (c &&& 63) :: base64 rest
  | [a, b] => [b64Char (a >>> 2), b64Char (((a &&& 3) <<< 4) ||| (b >>> 4)), b64Char ((b &&& 15) <<< 2), 61]
  | [a] => [b64Char (a >>> 2), b64Char ((a &&& 3) <<< 4), 61, 61]
  | [] => []

def guid : Bytes := "258EAFA5-E914-47DA-95CA-C5AB0DC85B11".b

/-- RFC 6455 §4.2.2: `Sec-WebSocket-Accept` for a given `Sec-WebSocket-Key` -/
def acceptToken (key : Bytes) : Bytes := base64 (sha1 (key ++ guid))

/-- value of one lower-case hexadecimal digit (test-vector notation only) -/
def hexVal (c : UInt8) : UInt8 := if c < 58 then c - 48 else c - 87

/-- `ofHex "a999…"`: the bytes written in hexadecimal (test-vector notation only) -/
def ofHexB : Bytes → Bytes
  | a :: b :: rest => ((hexVal a <<< 4) ||| hexVal b) :: ofHexB rest
  | _ => []

def ofHex (s : String) : Bytes := ofHexB s.b

/-! ## structural facts -/

theorem base64_length (bs : Bytes) : (base64 bs).length = 4 * ((bs.length + 2) / 3) := by
  induction bs using base64.induct with
  | case1 a b c rest ih => simp only [base64, List.length_cons, ih]; omega
  | case2 a b => simp [base64]
  | case3 a => simp [base64]
  | case4 => simp [base64]

theorem pad_length_mod (msg : Bytes) : (pad msg).length % 64 = 0 := by
  simp only [pad, lenBytes, List.length_append, List.length_cons, List.length_nil, List.length_replicate, List.length_map]
  omega

theorem wordBytes_length (w : UInt32) : (wordBytes w).length = 4 := rfl

/-- a SHA-1 digest is 20 bytes, so every accept token is 28 characters -/
theorem sha1_length (msg : Bytes) : (sha1 msg).length = 20 := by
  simp [sha1, wordBytes_length]

theorem acceptToken_length (key : Bytes) : (acceptToken key).length = 28 := by
  simp [acceptToken, base64_length, sha1_length]

/-! ## test vectors (kernel-checked) -/

-- FIPS 180 / RFC 3174
example : sha1 "abc".b = ofHex "a9993e364706816aba3e25717850c26c9cd0d89d" := by decide +kernel
example : sha1 [] = ofHex "da39a3ee5e6b4b0d3255bfef95601890afd80709" := by decide +kernel
-- two-block message (56 bytes → 128 padded)
example : sha1 "abcdbcdecdefdefgefghfghighijhijkijkljklmklmnlmnomnopnopq".b = ofHex "84983e441c3bd26ebaae4aa1f95129e5e54670f1" := by decide +kernel
-- RFC 4648 §10
example : base64 [] = [] := by decide
example : base64 "f".b = "Zg==".b := by decide
example : base64 "fo".b = "Zm8=".b := by decide
example : base64 "foo".b = "Zm9v".b := by decide
example : base64 "foob".b = "Zm9vYg==".b := by decide
example : base64 "fooba".b = "Zm9vYmE=".b := by decide
example : base64 "foobar".b = "Zm9vYmFy".b := by decide
-- RFC 6455 §1.3 sample handshake
theorem rfc6455_sample : acceptToken "dGhlIHNhbXBsZSBub25jZQ==".b = "s3pPLMBiTxaQ9kYGzzhZRbK+xOo=".b := by decide +kernel

end HC.Pure.Sha1
