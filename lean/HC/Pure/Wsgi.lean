import HC.Prelude
import HC.Extracted.Guards
import HC.Extracted.WsgiSites
/-!
# Model of `hypercorn/app_wrappers.py`: `WSGIWrapper.__call__`, `handle_http`, `run_app`, `_build_environ`

Hand-written; tied to the code by the correspondence run of `./check C17` (`harness/gen/C17.py` drives the real
`WSGIWrapper` / `_build_environ` and this model on the same inputs).

Representation choices
* Python `str` is `List Char` (`Str`).  A Lean `Char` is a Unicode scalar value, exactly the code points a `str` that
  came out of `bytes.decode` can hold, so `str.startswith`, slicing and `encode("utf8")` are total here.  The path
  and root path are kept as code points (not bytes) because the code compares and slices them *before* transcoding.
* `x.encode("utf8").decode("latin1")` is `latin1 (utf8 x)`: the UTF-8 bytes re-read as code points 0..255.
* `bytes` are `HC.Bytes`; `b.decode("latin1")` is `latin1 b`.
* the environ `dict` is an insertion-ordered association list with in-place update (`setKey`/`getKey`).
* where Python raises, the model returns an explicit error value (`EnvErr`, `PyErr`), never a default.
  (`Option.getD` occurs only where the code itself supplies a default: `scope.get("root_path", "")`,
  `scope.get("scheme", "http")`, `scope.get("server") or ("localhost", 80)`.)
* the body-limit comparison is the *extracted* comparator `Extracted.Guards.wsgiBodyCmp`.
* what `run_app` iterates and closes is the *extracted* `Extracted.WsgiSites.wsgiBodyBinding`: the object the application
  returned (`for output in response_body` inside the `try`, `close` looked up on that object), or `iter()` of it taken
  before the `try` (then `close` is looked up on the iterator and an exception from `__iter__` escapes the `finally`).
* `run_app` exists in two shapes, selected by `Variant` (the harness reads the shape off the current source):
  `checkAfterCall` is the pinned tree (start_response must have been called when the callable returns, the
  `try/finally: close()` covers only the iteration — observation F19); `checkAtFirstChunk` is the repaired shape
  (the check and the start message are deferred to the first chunk / the end of the iteration, all inside `try`).
-/
namespace HC.Wsgi
open HC

abbrev Str := List Char

/-! ## transcoding -/

/-- UTF-8 encoding of one scalar value -/
def utf8Char (c : Char) : Bytes :=
  let n := c.toNat
  if n < 0x80 then [n.toUInt8]
  else if n < 0x800 then [(0xC0 + n / 64).toUInt8, (0x80 + n % 64).toUInt8]
  else if n < 0x10000 then [(0xE0 + n / 4096).toUInt8, (0x80 + n / 64 % 64).toUInt8, (0x80 + n % 64).toUInt8]
  else [(0xF0 + n / 262144).toUInt8, (0x80 + n / 4096 % 64).toUInt8, (0x80 + n / 64 % 64).toUInt8, (0x80 + n % 64).toUInt8]

/-- `s.encode("utf8")` -/
def utf8 (s : Str) : Bytes := s.flatMap utf8Char

/-- `b.decode("latin1")` -/
def latin1 (b : Bytes) : Str := b.map (fun x => Char.ofNat x.toNat)

/-- `b.decode("ascii")`: `none` = UnicodeDecodeError -/
def asciiDecode (b : Bytes) : Option Str := if b.all (fun x => x.toNat < 128) then some (latin1 b) else none

/-- a UTF-8 continuation byte -/
def isCont (b : UInt8) : Bool := 0x80 ≤ b.toNat && b.toNat < 0xC0

/-- `b.decode("utf8")` (strict, as CPython: no overlong forms, no surrogates, nothing above U+10FFFF): `none` = UnicodeDecodeError -/
def utf8Decode : Bytes → Option Str
  | [] => some []
  | b0 :: rest =>
    if b0.toNat < 0x80 then (utf8Decode rest).map (fun s => Char.ofNat b0.toNat :: s)
    else if b0.toNat < 0xC2 then none
    else if b0.toNat < 0xE0 then
      match rest with
      | b1 :: r =>
        if isCont b1 then (utf8Decode r).map (fun s => Char.ofNat ((b0.toNat - 0xC0) * 64 + (b1.toNat - 0x80)) :: s) else none
      | _ => none
    else if b0.toNat < 0xF0 then
      match rest with
      | b1 :: b2 :: r =>
        let cp := (b0.toNat - 0xE0) * 4096 + (b1.toNat - 0x80) * 64 + (b2.toNat - 0x80)
        if isCont b1 && isCont b2 && decide (0x800 ≤ cp) && !(decide (0xD800 ≤ cp) && decide (cp < 0xE000)) then
          (utf8Decode r).map (fun s => Char.ofNat cp :: s)
        else none
      | _ => none
    else if b0.toNat < 0xF5 then
      match rest with
      | b1 :: b2 :: b3 :: r =>
        let cp := (b0.toNat - 0xF0) * 262144 + (b1.toNat - 0x80) * 4096 + (b2.toNat - 0x80) * 64 + (b3.toNat - 0x80)
        if isCont b1 && isCont b2 && isCont b3 && decide (0x10000 ≤ cp) && decide (cp < 0x110000) then
          (utf8Decode r).map (fun s => Char.ofNat cp :: s)
        else none
      | _ => none
    else none

/-- `b.decode(codec)` (strict) for the codecs `_build_environ` may name; a codec that is not modelled decodes nothing -/
def codecDecode : Extracted.WsgiSites.Codec → Bytes → Option Str
  | .latin1, b => some (latin1 b)
  | .ascii, b => asciiDecode b
  | .utf8, b => utf8Decode b
  | .other _, _ => none

/-- a `.decode()` site as the extractor read it: the codec and - when the call sits in `try: … except UnicodeDecodeError:` - a
    second attempt with the fall-back codec; `none` = the error escapes.  An `errors=` argument only matters for bytes the
    codec cannot decode (it is irrelevant for latin-1, which decodes everything); what it does then is not modelled (`none`). -/
def decodeWith (d : Extracted.WsgiSites.Decode) (b : Bytes) : Option Str :=
  match codecDecode d.codec b with
  | some s => some s
  | none =>
    match d.errors with
    | some _ => none
    | none =>
      match d.fallback with
      | some c => codecDecode c b
      | none => none

/-- `value = raw_value.decode(…)` in the header loop of `_build_environ`, with the codec the source names now -/
def headerValue (b : Bytes) : Option Str := decodeWith Extracted.WsgiSites.environHeaderValueDecode b

/-- Python `chr(b).upper()` for a code point below 256 (µ → U+039C, ß → "SS", ÿ → U+0178, à..þ → À..Þ) -/
def upperL1 (b : UInt8) : Str :=
  let n := b.toNat
  if 97 ≤ n ∧ n ≤ 122 then [Char.ofNat (n - 32)]
  else if n = 0xB5 then [Char.ofNat 0x39C]
  else if n = 0xDF then ['S', 'S']
  else if n = 0xFF then [Char.ofNat 0x178]
  else if 0xE0 ≤ n ∧ n ≤ 0xFE ∧ n ≠ 0xF7 then [Char.ofNat (n - 32)]
  else [Char.ofNat n]

/-- `chr(c).lower().encode("latin-1")` for one code point: `none` = UnicodeEncodeError.
    Four code points above 255 lower into Latin-1 (Ÿ, ẞ, KELVIN SIGN, ANGSTROM SIGN). -/
def lowerEncodeChar (c : Char) : Option UInt8 :=
  let n := c.toNat
  if 65 ≤ n ∧ n ≤ 90 then some (n + 32).toUInt8
  else if 0xC0 ≤ n ∧ n ≤ 0xDE ∧ n ≠ 0xD7 then some (n + 32).toUInt8
  else if n < 256 then some n.toUInt8
  else if n = 0x178 then some 0xFF
  else if n = 0x1E9E then some 0xDF
  else if n = 0x212A then some 0x6B
  else if n = 0x212B then some 0xE5
  else none

/-- `chr(c).encode("latin-1")` -/
def encodeChar (c : Char) : Option UInt8 := if c.toNat < 256 then some c.toNat.toUInt8 else none

/-! ## `handle_http`: the receive loop -/

structure ReqMsg where
  body : Bytes        -- `message.get("body", b"")`
  more : Bool         -- truthiness of `message.get("more_body")`
deriving Repr, DecidableEq

inductive Collected where
  | tooLarge                    -- `len(body) > max_body_size` after some message
  | complete (body : Bytes)     -- a message without `more_body` ended the loop
  | pending (body : Bytes)      -- every given message was consumed and the loop is waiting in `receive()`
deriving Repr, DecidableEq

def collectFrom (max : Nat) (acc : Bytes) : List ReqMsg → Collected
  | [] => .pending acc
  | m :: ms =>
    let acc' := acc ++ m.body
    if Extracted.Guards.wsgiBodyCmp.eval acc'.length max then .tooLarge
    else if m.more then collectFrom max acc' ms
    else .complete acc'

def collectBody (max : Nat) (msgs : List ReqMsg) : Collected := collectFrom max [] msgs

/-! ## `_build_environ` -/

inductive Val where
  | str (s : Str)
  | int (n : Int)                       -- `SERVER_PORT` is handed on as given by the scope (a Python int)
  | none                                -- … or `None` (unix sockets)
  | bool (b : Bool)
  | version (major minor : Nat)         -- `wsgi.version`
  | input (body : Bytes)                -- `BytesIO(body)`, identified with what `read()` returns
  | stdout                              -- `sys.stdout`
deriving Repr, DecidableEq

abbrev Environ := List (Str × Val)

def getKey (k : Str) : Environ → Option Val
  | [] => none
  | (k', v) :: e => if k' = k then some v else getKey k e

/-- `environ[k] = v` (a new key goes last, an existing key keeps its position) -/
def setKey (k : Str) (v : Val) : Environ → Environ
  | [] => [(k, v)]
  | (k', v') :: e => if k' = k then (k, v) :: e else (k', v') :: setKey k v e

structure Scope where
  method : Str
  path : Str
  rootPath : Option Str                     -- `scope.get("root_path", "")`
  query : Bytes
  httpVersion : Str
  scheme : Option Str                       -- `scope.get("scheme", "http")`
  server : Option (Str × Option Int)        -- `scope.get("server") or ("localhost", 80)`
  client : Option Str                       -- `scope["client"][0]` when `scope.get("client") is not None`
  headers : Headers
deriving Repr, DecidableEq

inductive EnvErr where
  | invalidPath            -- `InvalidPathError`: path does not start with root_path
  | unicodeDecodeError     -- `query_string.decode("ascii")` (or a header value, should its decode ever be strict in a codec that can fail)
  | typeError              -- `environ[name] + "," + value` on a non-str entry
deriving Repr, DecidableEq

-- key constants are spelled as explicit character lists so that key comparisons reduce by plain evaluation
-- (`HC.Props.C17.key_spellings` checks each against its string literal)
def kRequestMethod : Str := ['R', 'E', 'Q', 'U', 'E', 'S', 'T', '_', 'M', 'E', 'T', 'H', 'O', 'D']   -- "REQUEST_METHOD"
def kScriptName : Str := ['S', 'C', 'R', 'I', 'P', 'T', '_', 'N', 'A', 'M', 'E']   -- "SCRIPT_NAME"
def kPathInfo : Str := ['P', 'A', 'T', 'H', '_', 'I', 'N', 'F', 'O']   -- "PATH_INFO"
def kQueryString : Str := ['Q', 'U', 'E', 'R', 'Y', '_', 'S', 'T', 'R', 'I', 'N', 'G']   -- "QUERY_STRING"
def kServerName : Str := ['S', 'E', 'R', 'V', 'E', 'R', '_', 'N', 'A', 'M', 'E']   -- "SERVER_NAME"
def kServerPort : Str := ['S', 'E', 'R', 'V', 'E', 'R', '_', 'P', 'O', 'R', 'T']   -- "SERVER_PORT"
def kServerProtocol : Str := ['S', 'E', 'R', 'V', 'E', 'R', '_', 'P', 'R', 'O', 'T', 'O', 'C', 'O', 'L']   -- "SERVER_PROTOCOL"
def kWsgiVersion : Str := ['w', 's', 'g', 'i', '.', 'v', 'e', 'r', 's', 'i', 'o', 'n']   -- "wsgi.version"
def kUrlScheme : Str := ['w', 's', 'g', 'i', '.', 'u', 'r', 'l', '_', 's', 'c', 'h', 'e', 'm', 'e']   -- "wsgi.url_scheme"
def kInput : Str := ['w', 's', 'g', 'i', '.', 'i', 'n', 'p', 'u', 't']   -- "wsgi.input"
def kErrors : Str := ['w', 's', 'g', 'i', '.', 'e', 'r', 'r', 'o', 'r', 's']   -- "wsgi.errors"
def kMultithread : Str := ['w', 's', 'g', 'i', '.', 'm', 'u', 'l', 't', 'i', 't', 'h', 'r', 'e', 'a', 'd']   -- "wsgi.multithread"
def kMultiprocess : Str := ['w', 's', 'g', 'i', '.', 'm', 'u', 'l', 't', 'i', 'p', 'r', 'o', 'c', 'e', 's', 's']   -- "wsgi.multiprocess"
def kRunOnce : Str := ['w', 's', 'g', 'i', '.', 'r', 'u', 'n', '_', 'o', 'n', 'c', 'e']   -- "wsgi.run_once"
def kRemoteAddr : Str := ['R', 'E', 'M', 'O', 'T', 'E', '_', 'A', 'D', 'D', 'R']   -- "REMOTE_ADDR"
def kContentLength : Str := ['C', 'O', 'N', 'T', 'E', 'N', 'T', '_', 'L', 'E', 'N', 'G', 'T', 'H']   -- "CONTENT_LENGTH"
def kContentType : Str := ['C', 'O', 'N', 'T', 'E', 'N', 'T', '_', 'T', 'Y', 'P', 'E']   -- "CONTENT_TYPE"
def httpPrefix : Str := ['H', 'T', 'T', 'P', '_']   -- "HTTP_"

/-- the keys written before the header loop -/
def baseKeys : List Str :=
  [kRequestMethod, kScriptName, kPathInfo, kQueryString, kServerName, kServerPort, kServerProtocol, kWsgiVersion,
   kUrlScheme, kInput, kErrors, kMultithread, kMultiprocess, kRunOnce, kRemoteAddr]

def bContentLength : Bytes := [99, 111, 110, 116, 101, 110, 116, 45, 108, 101, 110, 103, 116, 104]   -- b"content-length"
def bContentType : Bytes := [99, 111, 110, 116, 101, 110, 116, 45, 116, 121, 112, 101]   -- b"content-type"

/-- `corrected_name` -/
def headerKey (name : Bytes) : Str :=
  if name = bContentLength then kContentLength
  else if name = bContentType then kContentType
  else httpPrefix ++ (name.flatMap upperL1).map (fun c => if c = '-' then '_' else c)

/-- one turn of the header loop -/
def addHeader (e : Environ) (h : Header) : Except EnvErr Environ :=
  match headerValue h.2 with
  | none => .error .unicodeDecodeError
  | some value =>
    match getKey (headerKey h.1) e with
    | none => .ok (setKey (headerKey h.1) (.str value) e)
    | some (.str old) => .ok (setKey (headerKey h.1) (.str (old ++ ',' :: value)) e)
    | some _ => .error .typeError

deriving instance DecidableEq for Except

def addHeaders : Environ → Headers → Except EnvErr Environ
  | e, [] => .ok e
  | e, h :: hs =>
    match addHeader e h with
    | .ok e' => addHeaders e' hs
    | .error x => .error x

/-- the path left after removing the root path, never empty -/
def pathInfoOf (root path : Str) : Str :=
  let rest := path.drop root.length
  if rest = [] then ['/'] else rest

def baseEnviron (sc : Scope) (query : Str) (body : Bytes) : Environ :=
  let root := sc.rootPath.getD []
  let server := sc.server.getD ("localhost".toList, some 80)
  [ (kRequestMethod, .str sc.method),
    (kScriptName, .str (latin1 (utf8 root))),
    (kPathInfo, .str (latin1 (utf8 (pathInfoOf root sc.path)))),
    (kQueryString, .str query),
    (kServerName, .str server.1),
    (kServerPort, match server.2 with | some p => .int p | none => .none),
    (kServerProtocol, .str ("HTTP/".toList ++ sc.httpVersion)),
    (kWsgiVersion, .version 1 0),
    (kUrlScheme, .str (sc.scheme.getD "http".toList)),
    (kInput, .input body),
    (kErrors, .stdout),
    (kMultithread, .bool true),
    (kMultiprocess, .bool true),
    (kRunOnce, .bool false) ] ++
  (match sc.client with | some c => [(kRemoteAddr, .str c)] | none => [])

def buildEnviron (sc : Scope) (body : Bytes) : Except EnvErr Environ :=
  if (sc.rootPath.getD []).isPrefixOf sc.path then
    match asciiDecode sc.query with
    | some q => addHeaders (baseEnviron sc q body) sc.headers
    | none => .error .unicodeDecodeError
  else .error .invalidPath

/-! ## `run_app` over an abstract WSGI application -/

inductive PyErr where
  | runtimeError          -- "WSGI app did not call start_response"
  | valueError            -- `status.split(" ", 1)` unpacking / `int(raw)`
  | unicodeEncodeError    -- header name / value outside Latin-1
  | unicodeDecodeError    -- from `_build_environ`
  | typeError             -- from `_build_environ`
  | appError              -- the application raised
  | unknownScope          -- `Exception("Unknown scope type, …")`
deriving Repr, DecidableEq

structure StartArgs where
  status : Str
  headers : List (Str × Str)
deriving Repr, DecidableEq

/-- what iterating the returned object does, in order -/
inductive IterAct where
  | start (a : StartArgs)       -- calls `start_response`
  | yield (chunk : Bytes)
  | raise
deriving Repr, DecidableEq

/-- an application, as far as the wrapper can tell: the `start_response` calls it makes before its callable
    returns, whether the callable then raises, what iterating the returned object does, and whether that object
    has a `close` attribute.  An error raised by `start_response` itself propagates through the application.
    The returned object need not be its own iterator (PEP 3333 only asks for an iterable): `selfIter = false` is a
    container whose `__iter__` hands out a separate iterator (a list subclass, a class with a generator `__iter__` and a
    `close` that releases a resource); that iterator may have a `close` of its own (`iterHasClose`, a generator does), and
    `__iter__` itself may raise (`iterRaises`, then `iter` is never run). -/
structure App where
  call : List StartArgs
  callRaises : Bool
  iter : List IterAct
  hasClose : Bool
  selfIter : Bool := true
  iterRaises : Bool := false
  iterHasClose : Bool := false
deriving Repr, DecidableEq

/-- what iterating the returned object amounts to: `__iter__` raising ends it before any action -/
def App.acts (app : App) : List IterAct := if app.iterRaises then [.raise] else app.iter

inductive Msg where
  | start (status : Nat) (headers : Headers)     -- `http.response.start`
  | body (b : Bytes) (more : Bool)               -- `http.response.body`
  | wsClose                                      -- `websocket.close`
deriving Repr, DecidableEq

/-- `status.split(" ", 1)` unpacked into two names: `none` when there is no space (ValueError) -/
def splitSpace : Str → Option (Str × Str)
  | [] => none
  | c :: cs => if c = ' ' then some ([], cs) else (splitSpace cs).map (fun p => (c :: p.1, p.2))

def digitVal (c : Char) : Option Nat := if '0' ≤ c ∧ c ≤ '9' then some (c.toNat - 48) else none

/-- `int(s)` for plain ASCII decimal digits (`none` = ValueError; Python's `int` accepts more spellings) -/
def parseInt (s : Str) : Option Nat :=
  if s = [] then none else s.foldl (fun acc c => match acc, digitVal c with
    | some a, some d => some (10 * a + d) | _, _ => none) (some 0)

def encodeHeader (h : Str × Str) : Option Header :=
  match h.1.mapM lowerEncodeChar, h.2.mapM encodeChar with
  | some n, some v => some (n, v)
  | _, _ => none

/-- the body of `start_response`: the recorded `(status_code, headers)` or the exception it raises -/
def startResponse (a : StartArgs) : Except PyErr (Nat × Headers) :=
  match splitSpace a.status with
  | none => .error .valueError
  | some (raw, _) =>
    match parseInt raw with
    | none => .error .valueError
    | some code =>
      match a.headers.mapM encodeHeader with
      | some hs => .ok (code, hs)
      | none => .error .unicodeEncodeError

abbrev Recorded := Option (Nat × Headers)        -- `none` = `response_started` is False

def callPhase : Recorded → List StartArgs → Except PyErr Recorded
  | r, [] => .ok r
  | _, a :: as =>
    match startResponse a with
    | .ok s => callPhase (some s) as
    | .error e => .error e

/-- the `for output in response_body` loop.  `sent` = the start message has been sent.  Returns the messages
    emitted and the exception that ended the loop, if any.  (With `sent = true` from the outset this is the
    pinned tree's loop; with `sent = false` it is the repaired one.) -/
def iterate : Recorded → Bool → List IterAct → List Msg × Option PyErr
  | r, sent, [] =>
    if sent then ([], none)
    else match r with
      | some (st, hs) => ([.start st hs], none)
      | none => ([], some .runtimeError)
  | _, sent, .start a :: rest =>
    match startResponse a with
    | .ok s => iterate (some s) sent rest
    | .error e => ([], some e)
  | r, sent, .yield c :: rest =>
    if sent then ((.body c true) :: (iterate r true rest).1, (iterate r true rest).2)
    else match r with
      | some (st, hs) => (.start st hs :: .body c true :: (iterate r true rest).1, (iterate r true rest).2)
      | none => ([], some .runtimeError)
  | _, _, .raise :: _ => ([], some .appError)

inductive Variant where
  | checkAfterCall        -- pinned tree: `if not response_started: raise` right after the call, then `try: for … finally: close()`
  | checkAtFirstChunk     -- repaired: check + start message at the first chunk / after the loop, all inside the `try`
deriving Repr, DecidableEq

structure Run where
  msgs : List Msg
  appCalls : Nat          -- ghost: times `self.app(environ, start_response)` was evaluated
  closeCalls : Nat        -- ghost: times `close()` of the object the application returned was called
  iterObtained : Bool     -- the callable returned (an iterable exists)
  exc : Option PyErr      -- exception leaving `run_app`
  iterCloseCalls : Nat := 0   -- ghost: times `close()` of a *separate* iterator (`iter(obj) is not obj`) was called
deriving Repr, DecidableEq

open Extracted.WsgiSites in
/-- the `finally` block: (calls of the returned object's `close`, calls of a separate iterator's `close`) -/
def closeCounts (app : App) : Nat × Nat :=
  match wsgiBodyBinding with
  | .returned => (if app.hasClose then 1 else 0, 0)
  | .iterOf => if app.selfIter then (if app.hasClose then 1 else 0, 0) else (0, if app.iterHasClose then 1 else 0)

open Extracted.WsgiSites in
/-- `iter()` is applied before the `try` and raises: the exception leaves `run_app` with nothing sent and nothing closed -/
def iterEscapes (app : App) : Bool := app.iterRaises && wsgiBodyBinding == .iterOf

def runApp (v : Variant) (app : App) : Run :=
  match callPhase none app.call with
  | .error e => { msgs := [], appCalls := 1, closeCalls := 0, iterObtained := false, exc := some e }
  | .ok r =>
    if app.callRaises then { msgs := [], appCalls := 1, closeCalls := 0, iterObtained := false, exc := some .appError }
    else if iterEscapes app then { msgs := [], appCalls := 1, closeCalls := 0, iterObtained := true, exc := some .appError }
    else
      let close := closeCounts app
      match v with
      | .checkAfterCall =>
        match r with
        | none => { msgs := [], appCalls := 1, closeCalls := 0, iterObtained := true, exc := some .runtimeError }
        | some (st, hs) =>
          { msgs := .start st hs :: (iterate r true app.acts).1, appCalls := 1, closeCalls := close.1, iterObtained := true,
            exc := (iterate r true app.acts).2, iterCloseCalls := close.2 }
      | .checkAtFirstChunk =>
        { msgs := (iterate r false app.acts).1, appCalls := 1, closeCalls := close.1, iterObtained := true,
          exc := (iterate r false app.acts).2, iterCloseCalls := close.2 }

/-! ## delivery: `call_soon` and the stream's handling of the messages -/

/-- who hands `sync_spawn` / `call_soon` to `WSGIWrapper.__call__`: a worker's `TaskGroup.spawn_app` (the built-in WSGI
    mode) or one of the WSGI middleware classes of `middleware/wsgi.py` (a WSGI application mounted inside an ASGI one) -/
inductive Worker | asyncio | trio | asyncioMiddleware | trioMiddleware
deriving Repr, DecidableEq

open Extracted.WsgiSites in
/-- does `call_soon(send, message)` — the function `run_app` sends every message through, from its thread — return only
    after the send has completed?  *Extracted* from each worker's `TaskGroup.spawn_app`: asyncio `_call_soon` =
    `run_coroutine_threadsafe(func(*args), self._loop)` followed by `.result()`, trio `trio.from_thread.run`. -/
def callSoonWaits : Worker → Bool
  | .asyncio => asyncioCallSoonWaits
  | .trio => trioCallSoonWaits
  | .asyncioMiddleware => asyncioMiddlewareCallSoonWaits     -- `AsyncioWSGIMiddleware.__call__`'s `_call_soon`
  | .trioMiddleware => trioMiddlewareCallSoonWaits           -- `TrioWSGIMiddleware.__call__`: `trio.from_thread.run`

/-- the messages the HTTP stream accepts out of those `run_app` issues, when the send of message number `i` suspends iff
    `susp i` (the transport applies back-pressure: a slow client, a paused transport).  With a waiting `call_soon` a
    message is issued only after the previous send completed, so every message is accepted, in order.  A `call_soon`
    that does not wait lets the thread run ahead: while the send of the start message is suspended the stream is still in
    its REQUEST state (`self.state = ASGIHTTPState.RESPONSE` follows `await self.send(Response(…))` in
    `HTTPStream.app_send`) and rejects the body messages issued meanwhile (UnexpectedMessageError, raised into a future
    nobody reads).  `pending` = such a suspended start is outstanding (worst case: it outlasts the application). -/
def acceptedFrom (waits : Bool) (susp : Nat → Bool) : Nat → Bool → List Msg → List Msg
  | _, _, [] => []
  | i, pending, m :: ms =>
    match m with
    | .start _ _ => m :: acceptedFrom waits susp (i + 1) (pending || (!waits && susp i)) ms
    | _ => if pending then acceptedFrom waits susp (i + 1) pending ms else m :: acceptedFrom waits susp (i + 1) pending ms

def accepted (w : Worker) (susp : Nat → Bool) (msgs : List Msg) : List Msg :=
  acceptedFrom (callSoonWaits w) susp 0 false msgs

/-! ## `handle_http` and `__call__` -/

structure Outcome where
  sent : List Msg := []
  appCalls : Nat := 0
  spawns : Nat := 0               -- ghost: `sync_spawn` invocations (the only place `run_app` is started)
  closeCalls : Nat := 0
  iterCloseCalls : Nat := 0
  iterObtained : Bool := false
  exc : Option PyErr := none      -- exception leaving `WSGIWrapper.__call__`
  waiting : Bool := false         -- still blocked in `receive()`
  environ : Option Environ := none
deriving Repr, DecidableEq

def finalBody : Msg := .body [] false

def pyErrOf : EnvErr → PyErr
  | .invalidPath => .appError          -- never used: `InvalidPathError` is caught
  | .unicodeDecodeError => .unicodeDecodeError
  | .typeError => .typeError

def handleHttp (v : Variant) (max : Nat) (sc : Scope) (msgs : List ReqMsg) (app : App) : Outcome :=
  match collectBody max msgs with
  | .tooLarge => { sent := [.start 400 [], finalBody] }
  | .pending _ => { waiting := true }
  | .complete body =>
    match buildEnviron sc body with
    | .error .invalidPath => { sent := [.start 404 [], finalBody] }
    | .error e => { exc := some (pyErrOf e) }
    | .ok env =>
      let r := runApp v app
      { sent := if r.exc.isSome then r.msgs else r.msgs ++ [finalBody], appCalls := r.appCalls, spawns := 1,
        closeCalls := r.closeCalls, iterCloseCalls := r.iterCloseCalls, iterObtained := r.iterObtained, exc := r.exc, environ := some env }

/-- `WSGIWrapper.__call__` by scope type -/
def wrapper (v : Variant) (kind : String) (max : Nat) (sc : Scope) (msgs : List ReqMsg) (app : App) : Outcome :=
  if kind = "http" then handleHttp v max sc msgs app
  else if kind = "websocket" then { sent := [.wsClose] }
  else if kind = "lifespan" then {}
  else { exc := some .unknownScope }

end HC.Wsgi
