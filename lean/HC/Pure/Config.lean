import HC.Prelude
import HC.Extracted.Cli
import HC.Extracted.Consts
import HC.Extracted.ConfigSites
/-!
# Model of `hypercorn/config.py` (setters, loaders, bind parsing, response headers) and of the
# command-line wiring of `hypercorn/__main__.py` (semantics of the *extracted* table).
-/
namespace HC.Config
open HC HC.Extracted

/-! ## Command line: semantics of "parse argv, then run the `if args.X is not sentinel: config.Y = args.Z` list" -/

/-- what argparse produced: `dest ↦ some v` when the flag was given (for `append` flags: a non-empty list) -/
abbrev Given := String → Option String

/-- one executed assignment `config.attr = value`; `none` = the argparse `sentinel` object leaked into the config -/
abbrev Assign := String × Option String

def fires (g : Given) (w : Cli.Wire) : Bool :=
  w.kind == "always" || (g w.guard).isSome

def assignments (ws : List Cli.Wire) (g : Given) : List Assign :=
  (ws.filter (fires g)).map (fun w => (w.attr, g w.source))

/-- exactly the flags in `ds` were given (each with a value), plus the positional application -/
def givenOf (app : String) (ds : List (String × String)) : Given := fun x =>
  if x = "application" then some app else ds.lookup x

/-! ## Config setters -/

def rstripSlash (s : List Char) : List Char := (s.reverse.dropWhile (· == '/')).reverse

inductive Val where
  | str (s : List Char)
  | strs (l : List (List Char))
  | other (repr : String)           -- any value the model does not look into
  | verifyMode (repr : String)      -- `ssl.VerifyMode(<repr>)`: what the write-only `cert_reqs` setter stores under `verify_mode`
deriving Repr, DecidableEq

/-- attributes that are read-only properties: `setattr` raises AttributeError, which `from_mapping` swallows -/
def readOnly : List String := ["log", "ssl_enabled"]

/-- the attribute actually written and the stored value for `setattr(config, key, value)` -/
def setattrNorm (key : String) (v : Val) : Option (String × Val) :=
  if key ∈ readOnly then none
  else if key = "bind" ∨ key = "insecure_bind" ∨ key = "quic_bind" then
    some ("_" ++ key, match v with | .str s => .strs [s] | v => v)
  else if key = "root_path" then
    some ("_root_path", match v with | .str s => .str (rstripSlash s) | v => v)
  else if key = "cert_reqs" then
    -- `cert_reqs = property(None, set_cert_reqs)`: `self.verify_mode = VerifyMode(value)` (a member stays itself)
    some ("verify_mode", match v with | .other r => .verifyMode r | v => v)
  else some (key, v)

abbrev Store := List (String × Val)      -- instance `__dict__`, last write wins

def Store.set (st : Store) (k : String) (v : Val) : Store := (k, v) :: st.filter (·.1 != k)

/-- one statement in front of the `setattr` of `from_mapping`'s loop: does it let the key through? -/
def mapClauseKeeps : ConfigSites.MapClause → String → Bool
  | .readable, k => ConfigSites.readableKeys.contains k       -- `if not hasattr(config, key): continue`
  | .unrecognised, _ => true                                  -- a loop the extractor could not read (the tie is reported broken)

/-- the guards of the current source's loop (*extracted*; none in the pinned source): is the key handed to `setattr`? -/
def mapKeeps (k : String) : Bool := ConfigSites.fromMappingGuards.all (fun c => mapClauseKeeps c k)

/-- the loop without guards: every key is handed to `setattr`, only `AttributeError` (a read-only property) is swallowed -/
def fromMappingU (kvs : List (String × Val)) : Store :=
  kvs.foldl (fun st (k, v) => match setattrNorm k v with | some (k', v') => st.set k' v' | none => st) []

/-- `Config.from_mapping` as the current source has it -/
def fromMapping (kvs : List (String × Val)) : Store := fromMappingU (kvs.filter (fun kv => mapKeeps kv.1))

/-- when the loop has no guard that skips a key, `from_mapping` hands every key to `setattr` (the hypothesis is discharged
    against the extracted guards in `HC/Props/C19.lean`: `from_mapping_guard_spec`) -/
theorem fromMapping_eq (hg : ∀ k, mapKeeps k = true) (kvs : List (String × Val)) : fromMapping kvs = fromMappingU kvs := by
  unfold fromMapping
  congr 1
  rw [List.filter_eq_self]
  intro kv _
  exact hg kv.1

/-- what kind of Python object an attribute of the configuration object / module holds, as far as `from_object`'s filter
    can tell: a module (`import os` in a configuration file), a class (`logger_class`), a function, or anything else -/
inductive AttrKind | plain | module | cls | func
deriving Repr, DecidableEq

structure Attr where
  name : String
  kind : AttrKind
  val : Val
deriving Repr, DecidableEq

def Attr.callable (a : Attr) : Bool := a.kind == .cls || a.kind == .func

/-- one conjunct of the comprehension's `if` -/
def clauseKeeps : ConfigSites.ObjClause → Attr → Bool
  | .notModule, a => a.kind != .module
  | .notDunder, a => !("__".isPrefixOf a.name)
  | .notCallable, a => !a.callable

/-- the filter of the current source: the conjunction of the *extracted* clauses -/
def objKeeps (a : Attr) : Bool := ConfigSites.fromObjectFilter.all (fun c => clauseKeeps c a)

/-- `from_object` (and through it `from_pyfile`, `-c file:`, `-c python:`): the attributes of the object that pass the
    filter go through `from_mapping` under their own names -/
def fromObject (attrs : List Attr) : Store :=
  fromMapping ((attrs.filter objKeeps).map (fun a => (a.name, a.val)))

/-! ## Bind strings (`Config._create_sockets`) -/

inductive Bind where
  | unix (path : List Char)
  | fd (n : Option Nat)                           -- `none`: `int()` raises
  | inet (v6 : Bool) (host : List Char) (port : Nat)
deriving Repr, DecidableEq

def digitVal (c : Char) : Option Nat := if '0' ≤ c ∧ c ≤ '9' then some (c.toNat - 48) else none

/-- `int(s)` for plain ASCII decimal strings (anything else: the model answers `none`, the code may accept more) -/
def parseNat (s : List Char) : Option Nat :=
  if s = [] then none else s.foldl (fun acc c => match acc, digitVal c with
    | some a, some d => some (10 * a + d) | _, _ => none) (some 0)

/-- `s.rsplit(":", 1)`: (before the last colon, after it) or none when there is no colon -/
def rsplitColon (s : List Char) : Option (List Char × List Char) :=
  let r := s.reverse
  let tail := r.takeWhile (· != ':')
  if tail.length = r.length then none else some ((r.drop (tail.length + 1)).reverse, tail.reverse)

/-- the `else` branch: brackets removed, `rsplit(":", 1)`, `int(port)` or the whole string with port 8000 -/
def parseInet (s : List Char) : Bind :=
  let bracketedHostOnly := s.head? == some '[' && s.getLast? == some ']'
  let b := s.filter (fun c => c != '[' && c != ']')
  let hp : List Char × Nat :=
    if bracketedHostOnly then (b, 8000)
    else match rsplitColon b with
      | some (h, p) => (match parseNat p with | some n => (h, n) | none => (b, 8000))
      | none => (b, 8000)
  -- `socket.AF_INET6 if <test> else socket.AF_INET`: the test is the *extracted* expression over the bind string as given,
  -- the bind string without brackets and the parsed host
  .inet (ConfigSites.inetIsV6 s b hp.1) hp.1 hp.2

def parseBind (s : List Char) : Bind :=
  if "unix:".toList.isPrefixOf s then .unix (s.drop 5)
  else if "fd://".toList.isPrefixOf s then .fd (parseNat (s.drop 5))
  else parseInet s

/-! ### The loop `for bind in binds` of `_create_sockets`

One call creates the sockets of a whole list (`bind`, `insecure_bind`, `quic_bind` are lists).  `ConfigSites.createSocketsCarried`
names the locals of the function whose value can reach an iteration from an earlier one (or from in front of the loop).  The
model follows the one that matters for the address: when `port` is carried, a bind string that names no port is bound to whatever
`port` holds when its iteration starts (`8000` in front of the loop, afterwards the port of the nearest earlier inet entry). -/

/-- does the inet bind string name a port (the branch `host, port = value[0], int(value[1])` of `parseInet`) -/
def inetPortGiven (s : List Char) : Bool :=
  let bracketedHostOnly := s.head? == some '[' && s.getLast? == some ']'
  let b := s.filter (fun c => c != '[' && c != ']')
  if bracketedHostOnly then false
  else match rsplitColon b with
    | some (_, p) => (parseNat p).isSome
    | none => false

def portCarried : Bool := ConfigSites.createSocketsCarried.contains "port"

/-- one iteration; `last` = what the local `port` holds when the iteration starts -/
def bindStep (last : Nat) (s : List Char) : Bind × Nat :=
  match parseBind s with
  | .inet v6 h p => if portCarried && !inetPortGiven s then (.inet v6 h last, last) else (.inet v6 h p, p)
  | b => (b, last)

def createSocketsFrom : Nat → List (List Char) → List Bind
  | _, [] => []
  | last, s :: rest => (bindStep last s).1 :: createSocketsFrom (bindStep last s).2 rest

/-- `_create_sockets(binds, type_)`: what each socket of the returned list is asked to be, in order -/
def createSockets (binds : List (List Char)) : List Bind := createSocketsFrom 8000 binds

/-! ## `Config.response_headers` -/

structure HeaderCfg where
  includeDate : Bool
  includeServer : Bool
  altSvc : List Bytes
deriving Repr, DecidableEq

def responseHeaders (c : HeaderCfg) (date : Bytes) (protocol : Bytes) : Headers :=
  (if c.includeDate then [("date".b, date)] else []) ++
  (if c.includeServer then [("server".b, "hypercorn-".b ++ protocol)] else []) ++
  c.altSvc.map (fun a => ("alt-svc".b, a))

/-! ## RFC 7231 IMF-fixdate (`wsgiref.handlers.format_date_time(time())`) -/

/-- civil from days since 1970-01-01 (Hinnant) -/
def civil (z0 : Nat) : Nat × Nat × Nat :=
  let z := z0 + 719468
  let era := z / 146097
  let doe := z - era * 146097
  let yoe := (doe - doe / 1460 + doe / 36524 - doe / 146096) / 365
  let y := yoe + era * 400
  let doy := doe - (365 * yoe + yoe / 4 - yoe / 100)
  let mp := (5 * doy + 2) / 153
  let d := doy - (153 * mp + 2) / 5 + 1
  let m := if mp < 10 then mp + 3 else mp - 9
  (if m ≤ 2 then y + 1 else y, m, d)

structure Fields where
  wd : Nat
  day : Nat
  mon : Nat
  year : Nat
  hh : Nat
  mm : Nat
  ss : Nat
deriving Repr, DecidableEq

def fields (t : Nat) : Fields :=
  let days := t / 86400
  let rem := t % 86400
  let c := civil days
  { wd := (days + 3) % 7, day := c.2.2, mon := c.2.1, year := c.1, hh := rem / 3600, mm := rem % 3600 / 60, ss := rem % 60 }

def dig (n : Nat) : Char := Char.ofNat (48 + n % 10)
def pad2 (n : Nat) : List Char := [dig (n / 10), dig n]
def pad4 (n : Nat) : List Char := [dig (n / 1000), dig (n / 100), dig (n / 10), dig n]

def weekdays : List (List Char) := [['M', 'o', 'n'], ['T', 'u', 'e'], ['W', 'e', 'd'], ['T', 'h', 'u'], ['F', 'r', 'i'], ['S', 'a', 't'], ['S', 'u', 'n']]
def months : List (List Char) :=
  [['J', 'a', 'n'], ['F', 'e', 'b'], ['M', 'a', 'r'], ['A', 'p', 'r'], ['M', 'a', 'y'], ['J', 'u', 'n'], ['J', 'u', 'l'], ['A', 'u', 'g'], ['S', 'e', 'p'], ['O', 'c', 't'], ['N', 'o', 'v'], ['D', 'e', 'c']]

def render (f : Fields) : List Char :=
  weekdays[f.wd]?.getD [] ++ [',', ' '] ++ pad2 f.day ++ [' '] ++ months[f.mon - 1]?.getD [] ++ [' '] ++ pad4 f.year ++ [' '] ++
  pad2 f.hh ++ [':'] ++ pad2 f.mm ++ [':'] ++ pad2 f.ss ++ [' ', 'G', 'M', 'T']

def formatDate (t : Nat) : List Char := render (fields t)

end HC.Config
