import HC.Pure.Config
import HC.Extracted.ConfigState
import HC.Extracted.Guards
/-!
# Several `Config` objects, histories of operations (C19)

`Config.response_headers` reads `self.include_date_header`, `self.include_server_header`, `self.alt_svc_headers` and
`self._quic_addresses`.  The last one is *derived* state: `create_sockets()` (TLS branch) hands the QUIC sockets it has just made to
`_set_quic_addresses`, which records what they report, and `response_headers` advertises `alt-svc: h3=":<port>"; ma=3600` for them
when the configuration names no alt-svc value of its own.  `_quic_addresses` also has a class-level default - ONE list object that
every instance reads until the instance binds the name itself.

The model is a little heap: the class-level list, and per object its settings and (`quicOwn`) the list the instance has bound, if it
has.  Whether `_set_quic_addresses` rebinds (`self._quic_addresses = []` first) or changes whatever list the attribute lookup
finds is *extracted* (`ConfigState.quicAddressesReset`), so the driver follows the current source; `HC/Props/C19.lean` proves that with
the rebinding every object's headers are a function of its own settings and its own last `create_sockets()` only.
-/
namespace HC.Config
open HC HC.Extracted

/-- one `Config` instance, as far as `response_headers` is concerned -/
structure Obj where
  includeDate : Bool
  includeServer : Bool
  altSvc : List Bytes
  /-- `ssl_enabled`: certfile and keyfile are both set -/
  ssl : Bool
  /-- `_quic_addresses` in the instance's own `__dict__` (ports only: that is all `response_headers` reads), if bound there -/
  quicOwn : Option (List Nat)
deriving Repr, DecidableEq

/-- `Config()`: the class defaults (extracted), nothing bound on the instance -/
def Obj.fresh : Obj :=
  { includeDate := Consts.cfg_include_date_header, includeServer := Consts.cfg_include_server_header, altSvc := [],
    ssl := false, quicOwn := none }

structure World where
  /-- the list the class body binds to `_quic_addresses` -/
  shared : List Nat
  objs : List Obj
deriving Repr, DecidableEq

def World.init : World := { shared := [], objs := [] }

inductive Op where
  | new
  | setDate (i : Nat) (b : Bool)
  | setServer (i : Nat) (b : Bool)
  | setAltSvc (i : Nat) (l : List Bytes)
  | setSsl (i : Nat) (b : Bool)
  /-- `objs[i].create_sockets()`; `quic` = the ports the QUIC sockets this call makes report (`getsockname()[1]`), in order -/
  | createSockets (i : Nat) (quic : List Nat)
deriving Repr, DecidableEq

/-- the object an operation is applied to (`new` makes one, it touches none) -/
def Op.target : Op → Option Nat
  | .new => none
  | .setDate i _ | .setServer i _ | .setAltSvc i _ | .setSsl i _ | .createSockets i _ => some i

/-- does `_set_quic_addresses` start from a fresh empty list bound on the instance (the extracted fact) -/
def quicReset : Bool := ConfigState.quicAddressesReset

/-- `self._set_quic_addresses(sockets)` -/
def setQuic (reset : Bool) (w : World) (i : Nat) (o : Obj) (ports : List Nat) : World :=
  if reset then { w with objs := w.objs.set i { o with quicOwn := some ports } }
  else match o.quicOwn with
    | some l => { w with objs := w.objs.set i { o with quicOwn := some (l ++ ports) } }
    | none => { w with shared := w.shared ++ ports }       -- `.append` on the list the class body made

def stepWith (reset : Bool) (w : World) : Op → World
  | .new => { w with objs := w.objs ++ [Obj.fresh] }
  | .setDate i b => match w.objs[i]? with
    | some o => { w with objs := w.objs.set i { o with includeDate := b } } | none => w
  | .setServer i b => match w.objs[i]? with
    | some o => { w with objs := w.objs.set i { o with includeServer := b } } | none => w
  | .setAltSvc i l => match w.objs[i]? with
    | some o => { w with objs := w.objs.set i { o with altSvc := l } } | none => w
  | .setSsl i b => match w.objs[i]? with
    | some o => { w with objs := w.objs.set i { o with ssl := b } } | none => w
  | .createSockets i quic => match w.objs[i]? with
    | some o =>
      -- without TLS no QUIC socket is made: none is recorded, and none of an earlier call stays - when the call of
      -- `_set_quic_addresses` is made in both cases (extracted; before /repo c5ea7af nothing was recorded without TLS)
      if o.ssl then setQuic reset w i o quic
      else if HC.Extracted.Guards.configQuicSetAlways then setQuic reset w i o [] else w
    | none => w

def runWith (reset : Bool) (w : World) (ops : List Op) : World := ops.foldl (stepWith reset) w

/-- the current source -/
def step : World → Op → World := stepWith quicReset
def run : World → List Op → World := runWith quicReset

/-- `self._quic_addresses`: the instance's own binding, else the class's list -/
def quicOf (w : World) (o : Obj) : List Nat := o.quicOwn.getD w.shared

/-- `b'%s=":%d"; ma=3600' % (version, port)` for every version of `H3_ALPN` and every address -/
def altSvcAuto (alpn : List Bytes) (ports : List Nat) : List Bytes :=
  alpn.flatMap (fun v => ports.map (fun p => v ++ "=\":".b ++ (toString p).b ++ "\"; ma=3600".b))

/-- the alt-svc values: the configured ones, or - when there are none - one per HTTP/3 version and recorded QUIC address -/
def altSvcOf (o : Obj) (quic : List Nat) (alpn : List Bytes) : List Bytes :=
  if o.altSvc.isEmpty then altSvcAuto alpn quic else o.altSvc

def objHeaders (w : World) (o : Obj) (alpn : List Bytes) (date protocol : Bytes) : Headers :=
  responseHeaders { includeDate := o.includeDate, includeServer := o.includeServer, altSvc := altSvcOf o (quicOf w o) alpn } date protocol

/-! ### The specification: one object on its own -/

/-- what an operation does to the object it is applied to - no other object, no class in sight -/
def objStep (o : Obj) : Op → Obj
  | .new => o
  | .setDate _ b => { o with includeDate := b }
  | .setServer _ b => { o with includeServer := b }
  | .setAltSvc _ l => { o with altSvc := l }
  | .setSsl _ b => { o with ssl := b }
  | .createSockets _ quic => { o with quicOwn := some (if o.ssl then quic else []) }

/-- the operations of a history that are applied to object `i`, applied to `o` -/
def ownRun (i : Nat) (o : Obj) (ops : List Op) : Obj :=
  ops.foldl (fun o op => if op.target = some i then objStep o op else o) o

/-- the headers one object asks for by itself: its switches, its alt-svc values, else its own recorded QUIC ports -/
def ownHeaders (o : Obj) (alpn : List Bytes) (date protocol : Bytes) : Headers :=
  responseHeaders { includeDate := o.includeDate, includeServer := o.includeServer,
                    altSvc := altSvcOf o (o.quicOwn.getD []) alpn } date protocol

end HC.Config
