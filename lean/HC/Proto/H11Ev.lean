import HC.Proto.H11Run
/-!
# H11Ev — every result of `next_event()` is handled without an exception leaving the reader (lemmas for C04 `total_h1`)
-/
namespace HC.Proto.H11
open HC HC.Stream HC.Lib HC.Extracted.H11Tables

/-! ## the WebSocket handshake of an HTTP/1 request never raises -/

theorem scan_facts (hname : Ws.Handshake.NamesLowered) : ∀ (hs : Headers) (h0 : Ws.Handshake),
    ∃ h', Ws.Handshake.scan h0 hs = .ok h' ∧ h'.accepted = h0.accepted ∧
      (h0.upgrade.isSome = true → h'.upgrade.isSome = true) ∧
      ((∃ x ∈ hs, Bytes.lower x.1 = "upgrade".b) → h'.upgrade.isSome = true) := by
  intro hs
  induction hs with
  | nil => intro h0; exact ⟨h0, rfl, rfl, id, fun ⟨x, hx, _⟩ => by simp at hx⟩
  | cons hd tl ih =>
    intro h0
    obtain ⟨n, v⟩ := hd
    have fin : ∀ (h1 : Ws.Handshake), h1.accepted = h0.accepted → (h0.upgrade.isSome = true → h1.upgrade.isSome = true) →
        (Bytes.lower n = "upgrade".b → h1.upgrade.isSome = true) →
        ∃ h', Ws.Handshake.scan h1 tl = .ok h' ∧ h'.accepted = h0.accepted ∧ (h0.upgrade.isSome = true → h'.upgrade.isSome = true) ∧
          ((∃ x ∈ (n, v) :: tl, Bytes.lower x.1 = "upgrade".b) → h'.upgrade.isSome = true) := by
      intro h1 ha hu hn
      obtain ⟨h', he, ha', hu', hex⟩ := ih h1
      refine ⟨h', he, by rw [ha', ha], fun h => hu' (hu h), ?_⟩
      rintro ⟨x, hx, hxn⟩
      rcases List.mem_cons.mp hx with rfl | hx'
      · exact hu' (hn hxn)
      · exact hex ⟨x, hx', hxn⟩
    have hnm : ∀ n : Bytes, HC.Extracted.WsGuards.handshakeName n = Bytes.lower n := hname
    simp only [Ws.Handshake.scan, hnm]
    split
    · rename_i hc
      have hne : Bytes.lower n = "upgrade".b → False := by
        intro h; rw [h] at hc; exact absurd hc (by decide)
      split <;> exact fin _ rfl id (fun h => (hne h).elim)
    · split
      · rename_i hc
        have hne : Bytes.lower n = "upgrade".b → False := by
          intro h; rw [h] at hc; exact absurd hc (by decide)
        split <;> exact fin _ rfl id (fun h => (hne h).elim)
      · split
        · rename_i hc
          have hne : Bytes.lower n = "upgrade".b → False := by
            intro h; rw [h] at hc; exact absurd hc (by decide)
          exact fin _ rfl id (fun h => (hne h).elim)
        · split
          · rename_i hc
            have hne : Bytes.lower n = "upgrade".b → False := by
              intro h; rw [h] at hc; exact absurd hc (by decide)
            split <;> exact fin _ rfl id (fun h => (hne h).elim)
          · split
            · rename_i hc
              have hne : Bytes.lower n = "upgrade".b → False := by
                intro h; rw [h] at hc; exact absurd hc (by decide)
              exact fin _ rfl id (fun h => (hne h).elim)
            · split
              · exact fin _ rfl (fun _ => rfl) (fun _ => rfl)
              · rename_i hc
                exact fin _ rfl id (fun h => by rw [h] at hc; simp at hc)

theorem isValid_ok (h : Ws.Handshake) (hu : h.upgrade.isSome = true) : ∃ b, h.isValid = .ok b := by
  unfold Ws.Handshake.isValid
  cases hup : h.upgrade with
  | none => simp [hup] at hu
  | some u =>
    simp only []
    (repeat' split) <;> exact ⟨_, rfl⟩

/-- `WSStream.handle(Request)`: with an `Upgrade` header among the headers it is given, the stream answers 404 / 400 by itself
    (and is closed) or starts the application; it does not raise -/
theorem ws_onRequest_ok (hname : Ws.Handshake.NamesLowered) (maxLen : Nat) (version : String) (hdrs : Headers) (ok ping : Bool)
    (hup : ∃ x ∈ hdrs, Bytes.lower x.1 = "upgrade".b) :
    ∃ s puts evs, Ws.onRequest maxLen version hdrs ok ping = .ok (s, puts, evs) ∧ s.hs.accepted = false ∧ s.conn = none ∧
      s.buffer = { maxLength := maxLen } ∧ s.st = .handshake ∧
      ((s.closed = true ∧ ∃ status, (status = 404 ∨ status = 400) ∧ evs = Ws.errorResponse status ++ [.spawnClose]) ∨
       (s.closed = false ∧ evs = [])) := by
  obtain ⟨h', he, ha, _, hex⟩ := scan_facts hname hdrs { version := version }
  obtain ⟨bv, hv⟩ := isValid_ok h' (hex hup)
  unfold Ws.onRequest Ws.Handshake.ofRequest
  simp only [he, bind, Except.bind, pure, Except.pure]
  by_cases hok : ok = true
  · simp only [hok, Bool.not_true, Bool.false_eq_true, if_false, hv]
    by_cases hb : bv = true
    · simp only [hb, Bool.not_true, Bool.false_eq_true, if_false]
      exact ⟨_, _, _, rfl, ha, rfl, rfl, rfl, Or.inr ⟨rfl, rfl⟩⟩
    · simp only [hb, Bool.not_false, if_true]
      exact ⟨_, _, _, rfl, ha, rfl, rfl, rfl, Or.inl ⟨rfl, 400, Or.inr rfl, rfl⟩⟩
  · simp only [hok, Bool.not_false, if_true]
    exact ⟨_, _, _, rfl, ha, rfl, rfl, rfl, Or.inl ⟨rfl, 404, Or.inl rfl, rfl⟩⟩

/-! ### h11 registered the upgrade proposal for every request hypercorn treats as an upgrade (bytes level) -/

theorem lstripBy_subset (p : UInt8 → Bool) : ∀ (l : Bytes) (x : UInt8), x ∈ Bytes.lstripBy p l → x ∈ l := by
  intro l
  induction l with
  | nil => intro x h; simp [Bytes.lstripBy] at h
  | cons b bs ih =>
    intro x h
    simp only [Bytes.lstripBy] at h
    split at h
    · exact List.mem_cons_of_mem _ (ih x h)
    · exact h

theorem lstripBy_keeps (p : UInt8 → Bool) : ∀ (l : Bytes) (x : UInt8), x ∈ l → p x = false → x ∈ Bytes.lstripBy p l := by
  intro l
  induction l with
  | nil => intro x h; simp at h
  | cons b bs ih =>
    intro x h hp
    simp only [Bytes.lstripBy]
    split
    · rename_i hb
      rcases List.mem_cons.mp h with rfl | h'
      · rw [hp] at hb; cases hb
      · exact ih x h' hp
    · exact h

theorem stripBy_subset (p : UInt8 → Bool) (l : Bytes) (x : UInt8) (h : x ∈ Bytes.stripBy p l) : x ∈ l := by
  unfold Bytes.stripBy Bytes.rstripBy at h
  have h1 := lstripBy_subset p _ x (by simpa using h)
  exact lstripBy_subset p l x (by simpa using h1)

theorem stripBy_keeps (p : UInt8 → Bool) (l : Bytes) (x : UInt8) (h : x ∈ l) (hp : p x = false) : x ∈ Bytes.stripBy p l := by
  unfold Bytes.stripBy Bytes.rstripBy
  have h1 := lstripBy_keeps p l x h hp
  have h2 := lstripBy_keeps p (Bytes.lstripBy p l).reverse x (by simpa using h1) hp
  simpa using h2

theorem splitOnB_piece (sep : UInt8) : ∀ (l : Bytes) (x : UInt8), x ∈ l → x ≠ sep → ∃ piece ∈ Bytes.splitOnB sep l, x ∈ piece := by
  intro l
  induction l with
  | nil => intro x h; simp at h
  | cons b bs ih =>
    intro x h hne
    simp only [Bytes.splitOnB]
    split
    · rename_i hb
      have hb' : b = sep := by simpa using hb
      rcases List.mem_cons.mp h with rfl | h'
      · exact absurd hb' hne
      · obtain ⟨piece, hp, hx⟩ := ih x h' hne
        exact ⟨piece, List.mem_cons_of_mem _ hp, hx⟩
    · cases hs : Bytes.splitOnB sep bs with
      | nil => exact absurd hs (Bytes.splitOnB_ne_nil sep bs)
      | cons p ps =>
        simp only []
        rcases List.mem_cons.mp h with rfl | h'
        · exact ⟨x :: p, by simp, by simp⟩
        · obtain ⟨piece, hp, hx⟩ := ih x h' hne
          rw [hs] at hp
          rcases List.mem_cons.mp hp with rfl | hp'
          · exact ⟨b :: piece, by simp, List.mem_cons_of_mem _ hx⟩
          · exact ⟨piece, by simp [hp'], hx⟩

theorem letter_not_sep (y : UInt8) (c : UInt8) (hc : 97 ≤ c.toNat ∧ c.toNat ≤ 122) (h : Bytes.lowerB y = c) :
    y ≠ 44 ∧ Bytes.isWsB y = false := by
  unfold Bytes.lowerB at h
  have hy : 65 ≤ y.toNat := by
    split at h
    · rename_i hh; exact hh.1
    · subst h; omega
  refine ⟨?_, ?_⟩
  · intro h44; subst h44; simp at hy
  · simp only [Bytes.isWsB, Bool.or_eq_false_iff, Bool.and_eq_false_iff, decide_eq_false_iff_not, beq_eq_false_iff_ne]
    refine ⟨?_, Or.inr (by omega)⟩
    intro h32; subst h32; simp at hy

theorem upgrade_token (v : Bytes) (c : UInt8) (rest : Bytes) (hc : 97 ≤ c.toNat ∧ c.toNat ≤ 122)
    (h : Bytes.lower (Bytes.stripL1 v) = c :: rest) : (Bytes.splitOnB 44 v).any (fun t => Bytes.strip t ≠ []) = true := by
  cases hs : Bytes.stripL1 v with
  | nil => rw [hs] at h; simp [Bytes.lower] at h
  | cons y ys =>
    rw [hs] at h
    simp only [Bytes.lower, List.map_cons, List.cons.injEq] at h
    have hy : y ∈ v := stripBy_subset Bytes.isWsL1 v y (by unfold Bytes.stripL1 at hs; rw [hs]; simp)
    obtain ⟨hne, hws⟩ := letter_not_sep y c hc h.1
    obtain ⟨piece, hp, hx⟩ := splitOnB_piece 44 v y hy hne
    rw [List.any_eq_true]
    refine ⟨piece, hp, ?_⟩
    have := stripBy_keeps Bytes.isWsB piece y hx hws
    simp only [decide_eq_true_eq]
    intro he
    unfold Bytes.strip at he
    rw [he] at this
    simp at this

/-- h11's own reading of the `Upgrade` header (`get_comma_header`: any non-empty token) registers the proposal whenever
    hypercorn's reading of it (last header, latin-1 stripped, lower-cased) finds `h2c` or `websocket` -/
theorem upgrade_seen (r : ReqEv) (hnames : ∀ h ∈ r.headers, Bytes.lower h.1 = h.1 ∧ Bytes.stripL1 h.1 = h.1)
    (h : (reqIsH2c r || isWebsocketRequest r) = true) : (reqInfo r).hasUpgrade = true := by
  -- the value hypercorn read
  have hv : ∃ v c rest, hdr "upgrade".b r.headers = some v ∧ Bytes.lower v = c :: rest ∧ (97 ≤ c.toNat ∧ c.toNat ≤ 122) := by
    simp only [Bool.or_eq_true] at h
    rcases h with h | h
    · simp only [reqIsH2c, beq_iff_eq, Option.map_eq_some_iff] at h
      obtain ⟨v, hv, hl⟩ := h
      exact ⟨v, 104, [50, 99], hv, by rw [hl]; decide, by decide⟩
    · simp only [isWebsocketRequest, Bool.and_eq_true, beq_iff_eq] at h
      obtain ⟨⟨_, hu⟩, _⟩ := h
      cases hh : hdr "upgrade".b r.headers with
      | none => rw [hh] at hu; simp at hu; exact absurd hu (by decide)
      | some v =>
        rw [hh] at hu
        simp only [Option.getD_some] at hu
        exact ⟨v, 119, [101, 98, 115, 111, 99, 107, 101, 116], rfl, by rw [hu]; decide, by decide⟩
  obtain ⟨v, c, rest, hv, hl, hc⟩ := hv
  simp only [hdr, Option.map_eq_some_iff] at hv
  obtain ⟨hh, hf, rfl⟩ := hv
  have hm : hh ∈ r.headers := by simpa using List.mem_of_find?_eq_some hf
  have hp := List.find?_some hf
  simp only [beq_iff_eq] at hp
  have hn := hnames hh hm
  have hname : hh.1 = "upgrade".b := by rw [hn.2, hn.1] at hp; exact hp
  simp only [reqInfo]
  rw [List.any_eq_true]
  exact ⟨hh, by simp [List.mem_filter, hm, hname], upgrade_token hh.2 c rest hc hl⟩

/-- a request hypercorn takes for a WebSocket handshake carries an `Upgrade` header in whichever header list the stream is given -/
theorem ws_request_has_upgrade (cfg : Cfg) (r : ReqEv) (hw : isWebsocketRequest r = true) (hwf : hdrWf r = true) :
    ∃ x ∈ (scopeOf cfg r true).headers, Bytes.lower x.1 = "upgrade".b := by
  simp only [hdrWf, Bool.and_eq_true, List.all_eq_true, beq_iff_eq] at hwf
  obtain ⟨hnames, hraw⟩ := hwf
  -- the header `hdr` found
  have hfound : ∃ h ∈ r.headers, Bytes.lower (Bytes.stripL1 h.1) = "upgrade".b := by
    simp only [isWebsocketRequest, Bool.and_eq_true, beq_iff_eq] at hw
    obtain ⟨⟨_, hu⟩, _⟩ := hw
    cases hf : r.headers.reverse.find? (fun h => Bytes.lower (Bytes.stripL1 h.1) == "upgrade".b) with
    | none =>
      exfalso
      simp only [hdr, hf, Option.map_none, Option.getD_none] at hu
      exact absurd hu (by decide)
    | some h =>
      have hm := List.mem_of_find?_eq_some hf
      have hp := List.find?_some hf
      exact ⟨h, by simpa using hm, by simpa using hp⟩
  obtain ⟨h, hmem, hname⟩ := hfound
  have hn := hnames h hmem
  have hlow : Bytes.lower h.1 = "upgrade".b := by rw [← hn.2]; rw [hn.2]; rw [← hn.2] at hname; rw [hn.2] at hname; rw [← hname, hn.2]
  simp only [scopeOf]
  by_cases hrw : cfg.rawHeaders = true
  · simp only [hrw, if_true]
    rw [← hraw] at hmem
    simp only [List.mem_map] at hmem
    obtain ⟨h', hm', heq⟩ := hmem
    refine ⟨h', hm', ?_⟩
    have : Bytes.lower h'.1 = h.1 := by rw [← heq]
    rw [this, ← hn.1, hlow]
  · simp only [hrw, Bool.false_eq_true, if_false]
    exact ⟨h, hmem, hlow⟩

/-! ## the reader -/

/-- the ghost (wsproto's reassembly state) after the event -/
def ghostEv (g : Ws.Frag) : LibEv → Ws.Frag
  | .wsData _ evs => Ws.evsNext g evs
  | _ => g

/-- the loop top: the 100 Continue (if due) is accepted by h11 — the flag is only up right after a `Request` -/
theorem loopTop_ok (cfg : Cfg) (st : St) (g : Ws.Frag) (hI : Inv st g) (hsw : st.switched = false) :
    (st.lib.waiting100 && !st.wsMode && (libSend st (.info 100 cfg.serverHeaders)).2.2) = false ∧
    Inv (loopTop cfg st).1 g ∧ ((loopTop cfg st).1.lib.waiting100 = false ∨ st.wsMode = true) := by
  by_cases hc : (st.lib.waiting100 && !st.wsMode) = true
  · have hc' := hc
    simp only [Bool.and_eq_true, Bool.not_eq_true'] at hc'
    obtain ⟨hwt, hwm⟩ := hc'
    obtain ⟨hsv, _⟩ := hI.wait hwt hwm hsw
    have hok := libSend_info_ok st 100 cfg.serverHeaders hsv (by intro h; cases h)
    have hf := libSend_facts st (.info 100 cfg.serverHeaders)
    refine ⟨by simp [hok.1], ?_, ?_⟩
    · unfold loopTop
      rw [if_pos hc, libSend_shape]
      refine inv_frame hI rfl rfl rfl hf.1 (fun _ _ _ _ => Or.inr ?_) ?_ ?_
      · rw [(hok.2.2 (by decide)).1]; exact ⟨by decide, by decide, by decide⟩
      · intro _ i s hcur hobj _ _
        have := (hI.wsObj i s hobj).1
        rw [hwm] at this; cases this
      · intro h; simp only [] at h; rw [hok.2.1] at h; cases h
    · left; unfold loopTop; rw [if_pos hc]; exact hok.2.1
  · have hc' : (st.lib.waiting100 && !st.wsMode) = false := by simpa using hc
    refine ⟨by simp [hc'], ?_, ?_⟩
    · unfold loopTop; rw [if_neg hc]; exact hI
    · unfold loopTop; rw [if_neg hc]
      cases hw : st.lib.waiting100 <;> cases hm : st.wsMode <;> simp_all

section body
variable (cfg : Cfg) (st : St) (o0 : List Out) (g : Ws.Frag)

/-- only the reader's own position / flags changed -/
theorem inv_reader {st st' : St} {g : Ws.Frag} (hI : Inv st g) (hw : st.lib.waiting100 = false ∨ st.wsMode = true)
    (ho : st'.objs = st.objs) (hc : st'.cur = st.cur) (hwm : st'.wsMode = st.wsMode) (hl : st'.lib = st.lib) : Inv st' g := by
  refine inv_frame hI ho hc hwm (by rw [hl]; exact id) (fun i s h hs => by rw [hl]; exact hI.live i s h hs)
    (fun _ i s h1 h2 h3 h4 => by rw [hl]; exact hI.hand rfl i s h1 h2 h3 h4) ?_
  intro h1 h2 _
  rw [hl] at h1; rw [hwm] at h2
  rcases hw with hw | hw
  · rw [hw] at h1; cases h1
  · rw [hw] at h2; cases h2

/-- Data / EndOfMessage / ConnectionClosed went through h11's state machine (not in WebSocket mode) -/
theorem inv_recv {st st' : St} {g : Ws.Frag} (hI : Inv st g) (hnws : st.wsMode = false)
    (ho : st'.objs = st.objs) (hc : st'.cur = st.cur) (hwm : st'.wsMode = st.wsMode)
    (ha : st'.lib.client ≠ .idle) (hb : st.lib.client ≠ .error) (hsv : H11M.NotBad st.lib.server → st'.lib.server = st.lib.server)
    (hd : st'.lib.waiting100 = false) : Inv st' g := by
  refine inv_frame hI ho hc hwm (fun h => absurd h ha) ?_ ?_ (fun h => by rw [hd] at h; cases h)
  · intro i s h hs
    rcases hI.live i s h hs with h' | h'
    · exact absurd h' hb
    · right; rw [hsv h']; exact h'
  · intro _ i s hcur hobj _ _
    have := (hI.wsObj i s hobj).1
    rw [hnws] at this; cases this

theorem http_handle_same (s : Http.S) (d : Bytes) : (Http.handle s (.body d)).1 = s ∧ (Http.handle s .endBody).1 = s := by
  unfold Http.handle
  by_cases h : s.closed = true <;> simp [h]

theorem ev_needData (hI : Inv st g) (hw : st.lib.waiting100 = false ∨ st.wsMode = true) :
    ∃ r, onLibEvBody cfg st o0 .needData = some r ∧ Inv r.1 g :=
  ⟨_, rfl, inv_reader hI hw rfl rfl rfl rfl⟩

theorem ev_paused (hI : Inv st g) (hw : st.lib.waiting100 = false ∨ st.wsMode = true) :
    ∃ r, onLibEvBody cfg st o0 .paused = some r ∧ Inv r.1 g := by
  simp only [onLibEvBody]
  split
  · exact ⟨_, rfl, inv_reader hI hw rfl rfl rfl rfl⟩
  · exact ⟨_, rfl, inv_reader hI hw rfl rfl rfl rfl⟩

theorem ev_connClosed (hI : Inv st g) (hw : st.lib.waiting100 = false ∨ st.wsMode = true)
    (hp : libPossibleAt st g .connClosed = true) : ∃ r, onLibEvBody cfg st o0 .connClosed = some r ∧ Inv r.1 g := by
  simp only [libPossibleAt, Bool.and_eq_true, Bool.not_eq_true', Option.isSome_iff_exists] at hp
  obtain ⟨hnws, lib', hl⟩ := hp
  have hwt : st.lib.waiting100 = false := by rcases hw with h | h; exact h; rw [hnws] at h; cases h
  have a := H11M.stepClient_after _ _ _ hl
  simp only [onLibEvBody, hl]
  exact ⟨_, rfl, inv_recv hI hnws rfl rfl rfl a.2.1 a.2.2.1 a.1 (by simp only []; rw [a.2.2.2.1]; exact hwt)⟩

theorem ev_data (d : Bytes) (hI : Inv st g) (hp : libPossibleAt st g (.data d) = true) :
    ∃ r, onLibEvBody cfg st o0 (.data d) = some r ∧ Inv r.1 g := by
  simp only [libPossibleAt, Bool.and_eq_true, Bool.not_eq_true', Option.isSome_iff_exists] at hp
  obtain ⟨hnws, lib', hl⟩ := hp
  simp only [H11M.recvData, Option.map_eq_some_iff] at hl
  obtain ⟨l1, hl1, rfl⟩ := hl
  have a := H11M.stepClient_after _ _ _ hl1
  have hrd : H11M.recvData st.lib = some (l1.withWaiting false) := by simp [H11M.recvData, hl1]
  have hInv : ∀ st' : St, st'.objs = st.objs → st'.cur = st.cur → st'.wsMode = st.wsMode → st'.lib = l1.withWaiting false → Inv st' g := by
    intro st' ho hc hwm hl
    exact inv_recv hI hnws ho hc hwm (by rw [hl]; simpa using a.2.1) a.2.2.1 (fun h => by rw [hl]; simpa using a.1 h) (by rw [hl]; rfl)
  simp only [onLibEvBody, hrd]
  cases hcur : st.cur with
  | none => exact ⟨_, rfl, hInv _ rfl (by simp [hcur]) rfl rfl⟩
  | some i =>
    cases hobj : st.objs[i]? with
    | none =>
      simp only [St.stream, hcur, Option.bind_some, hobj]
      exact ⟨_, rfl, hInv _ rfl (by simp [hcur]) rfl rfl⟩
    | some o =>
      cases o with
      | ws s => have := (hI.wsObj i s hobj).1; rw [hnws] at this; cases this
      | http s =>
        simp only [St.stream, hcur, Option.bind_some, hobj]
        refine ⟨_, rfl, hInv _ ?_ (by simp [St.setObj, hcur]) rfl rfl⟩
        simp only [St.setObj, (http_handle_same s d).1]
        exact set_self _ _ _ hobj

theorem ev_eom (hI : Inv st g) (hp : libPossibleAt st g .eom = true) :
    ∃ r, onLibEvBody cfg st o0 .eom = some r ∧ Inv r.1 g := by
  simp only [libPossibleAt, Bool.and_eq_true, Bool.not_eq_true', Option.isSome_iff_exists] at hp
  obtain ⟨hnws, lib', hl⟩ := hp
  simp only [H11M.recvEom, Option.map_eq_some_iff] at hl
  obtain ⟨l1, hl1, rfl⟩ := hl
  have a := H11M.stepClient_after _ _ _ hl1
  have hrd : H11M.recvEom st.lib = some (l1.withWaiting false) := by simp [H11M.recvEom, hl1]
  have hInv : ∀ st' : St, st'.objs = st.objs → st'.cur = st.cur → st'.wsMode = st.wsMode → st'.lib = l1.withWaiting false → Inv st' g := by
    intro st' ho hc hwm hl
    exact inv_recv hI hnws ho hc hwm (by rw [hl]; simpa using a.2.1) a.2.2.1 (fun h => by rw [hl]; simpa using a.1 h) (by rw [hl]; rfl)
  simp only [onLibEvBody, hrd]
  cases hcur : st.cur with
  | none => exact ⟨_, rfl, hInv _ rfl (by simp [hcur]) rfl rfl⟩
  | some i =>
    cases hobj : st.objs[i]? with
    | none =>
      simp only [St.stream, hcur, Option.bind_some, hobj]
      exact ⟨_, rfl, hInv _ rfl (by simp [hcur]) rfl rfl⟩
    | some o =>
      cases o with
      | ws s => have := (hI.wsObj i s hobj).1; rw [hnws] at this; cases this
      | http s =>
        simp only [St.stream, hcur, Option.bind_some, hobj]
        refine ⟨_, rfl, hInv _ ?_ (by simp [St.setObj, hcur]) rfl rfl⟩
        simp only [St.setObj, (http_handle_same s []).2]
        exact set_self _ _ _ hobj

/-- h11's reader side is in ERROR (RemoteProtocolError): nothing the protocol sends can raise, nothing restarts -/
theorem inv_err {st st' : St} {g : Ws.Frag} (hI : Inv st g) (hnws : st.wsMode = false)
    (ho : st'.objs = st.objs) (hc : st'.cur = st.cur) (hwm : st'.wsMode = st.wsMode)
    (ha : st'.lib.client = .error) (hd : st'.lib.waiting100 = false) : Inv st' g := by
  refine inv_frame hI ho hc hwm (fun h => by rw [ha] at h; cases h) (fun _ _ _ _ => Or.inl ha) ?_ (fun h => by rw [hd] at h; cases h)
  intro _ i s hcur hobj _ _
  have := (hI.wsObj i s hobj).1
  rw [hnws] at this; cases this

theorem ev_protoError (hint : Nat) (hI : Inv st g) (hw : st.lib.waiting100 = false ∨ st.wsMode = true)
    (hp : libPossibleAt st g (.protoError hint) = true) :
    escapeBody cfg st (.protoError hint) = none ∧ ∃ r, onLibEvBody cfg st o0 (.protoError hint) = some r ∧ Inv r.1 g := by
  have hnws : st.wsMode = false := by simpa [libPossibleAt] using hp
  have hwt : st.lib.waiting100 = false := by rcases hw with h | h; exact h; rw [hnws] at h; cases h
  have a := H11M.recvError_after st.lib
  have hwt1 : (H11M.recvError st.lib).waiting100 = false := by rw [a.2.2.1]; exact hwt
  have he : ([("content-length".b, "0".b), ("connection".b, "close".b)] ++ cfg.serverHeaders) = errHeaders cfg := rfl
  simp only [onLibEvBody, escapeBody, he]
  by_cases hc : errIgnored { st with lib := H11M.recvError st.lib } = true
  · simp only [hc, if_true]
    exact ⟨trivial, _, rfl, inv_err hI hnws rfl rfl rfl a.1 hwt1⟩
  · simp only [hc, Bool.false_eq_true, if_false]
    by_cases hs : ((H11M.recvError st.lib).server == .idle || (H11M.recvError st.lib).server == .sendResponse) = true
    · simp only [hs, if_true]
      have f1 := libSend_facts { st with lib := H11M.recvError st.lib }
        (.response hint (errHeaders cfg))
      have f2 := libSend_facts (libSend { st with lib := H11M.recvError st.lib }
        (.response hint (errHeaders cfg))).1 .eom
      have sh1 := libSend_shape { st with lib := H11M.recvError st.lib }
        (.response hint (errHeaders cfg))
      have sh2 := libSend_shape (libSend { st with lib := H11M.recvError st.lib }
        (.response hint (errHeaders cfg))).1 .eom
      have c1 := f1.2.1 a.1
      have c2 := f2.2.1 c1
      have r1 := f1.2.2.2.2 a.1
      have r2 := f2.2.2.2.2 c1
      refine ⟨by simp [r1, r2], _, rfl, ?_⟩
      refine inv_err hI hnws ?_ ?_ ?_ c2 ?_
      · simp only []; rw [sh2, sh1]
      · simp only []; rw [sh2, sh1]
      · simp only []; rw [sh2, sh1]
      · cases hx : (libSend (libSend { st with lib := H11M.recvError st.lib }
          (.response hint (errHeaders cfg))).1 .eom).1.lib.waiting100 with
        | false => rfl
        | true => have := f1.2.2.1 (f2.2.2.1 hx); simp only [] at this; rw [hwt1] at this; cases this
    · simp only [hs, Bool.false_eq_true, if_false]
      exact ⟨trivial, _, rfl, inv_err hI hnws rfl rfl rfl a.1 hwt1⟩

theorem inert_closedFlag (o : Stream) (h : Inert o) : closedFlag o = true := by
  cases o with
  | http s => exact h.2
  | ws s => exact h

/-- a `Request` arrived (so h11's reader side was IDLE and every object is inert): a new stream object becomes the current one -/
theorem inv_newObj {st st' : St} {g : Ws.Frag} (hI : Inv st g) (hidle : st.lib.client = .idle) (hnws : st.wsMode = false)
    (o : Stream) (ho : st'.objs = st.objs ++ [o]) (hc : st'.cur = some st.objs.length) (ha : st'.lib.client ≠ .idle)
    (hnew : match o with
      | .http s => (s.st = .response ∨ s.st = .trailers → s.response.isSome = true) ∧
          (s.st ≠ .closed → st'.lib.client = .error ∨ H11M.NotBad st'.lib.server)
      | .ws s => st'.wsMode = true ∧ Ws.Ok s ∧ Ws.BufRel none s.buffer ∧
          (s.st = .handshake → s.closed = false → st'.lib.server = .sendResponse ∧ st'.lib.pendUpgrade = true))
    (hwait : st'.lib.waiting100 = true → st'.wsMode = false → st'.switched = false → st'.lib.server = .sendResponse ∧ st'.pc = .inLoop) :
    Inv st' g := by
  have hg : g = none := hI.frag0 hnws
  have hin : ∀ (j : Nat) (o' : Stream), st.objs[j]? = some o' → Inert o' := by
    intro j o' h
    rcases hI.objs j o' h with h' | h'
    · exact h'
    · exact absurd hidle h'.2
  have hget : ∀ (j : Nat) (o' : Stream), st'.objs[j]? = some o' → (st.objs[j]? = some o') ∨ (j = st.objs.length ∧ o' = o) := by
    intro j o' h
    rw [ho, List.getElem?_append] at h
    split at h
    · exact Or.inl h
    · rename_i hlt
      right
      have : j - st.objs.length = 0 := by
        cases hj : j - st.objs.length with
        | zero => rfl
        | succ k => rw [hj] at h; simp at h
      rw [this] at h
      simp at h
      exact ⟨by omega, h.symm⟩
  have hnoWs : ∀ (j : Nat) (sw : Ws.S), st.objs[j]? = some (Stream.ws sw) → False := by
    intro j sw h; have := (hI.wsObj j sw h).1; rw [hnws] at this; cases this
  refine ⟨?_, ?_, ?_, ?_, ?_, ?_, ?_, ?_, ?_, hwait⟩
  · intro j sw h
    rcases hget j _ h with h' | ⟨_, h'⟩
    · exact (hnoWs j sw h').elim
    · subst h'; exact ⟨hnew.1, hnew.2.1⟩
  · intro j sh h hs
    rcases hget j _ h with h' | ⟨_, h'⟩
    · exact hI.httpObj j sh h' hs
    · subst h'; exact hnew.1 hs
  · intro j sw _ h
    rcases hget j _ h with h' | ⟨_, h'⟩
    · exact (hnoWs j sw h').elim
    · subst h'; rw [hg]; exact hnew.2.2.1
  · intro _; exact hg
  · intro j h; rw [hc] at h; cases h; rw [ho]; simp
  · intro j o' h hf
    rcases hget j _ h with h' | ⟨hj, _⟩
    · rw [inert_closedFlag o' (hin j o' h')] at hf; cases hf
    · rw [hc, hj]
  · intro j o' h
    rcases hget j _ h with h' | ⟨hj, _⟩
    · exact Or.inl (hin j o' h')
    · exact Or.inr ⟨by rw [ho, hj]; simp, ha⟩
  · intro j sh h hs
    rcases hget j _ h with h' | ⟨_, h'⟩
    · exact absurd (hin j _ h').1 hs
    · subst h'; exact hnew.2 hs
  · intro _ j sw hcur h hs hcl
    rcases hget j _ h with h' | ⟨_, h'⟩
    · exact (hnoWs j sw h').elim
    · subst h'; exact hnew.2.2.2 hs hcl

/-- the stream's own 404 (unknown server name) goes out from SEND_RESPONSE without a raise -/
theorem runHttp_404 (cfg : Cfg) (st : St) (h1 : st.lib.server = .sendResponse) :
    let r := runHttpEvs cfg st [.response 404 [("content-length".b, "0".b), ("connection".b, "close".b)], .endBody, .access (some 404), .spawnClose]
    r.2.2 = false ∧ r.1 = { st with lib := r.1.lib } ∧ LibStep st.lib r.1.lib ∧ r.1.lib.waiting100 = false := by
  have hfin : Extracted.Guards.h11FinalStatusCmp.eval 404 200 = true := by decide
  have hr := libSend_response_ok st 404 ([("content-length".b, "0".b), ("connection".b, "close".b)] ++ cfg.serverHeaders ++
      (if Extracted.Guards.h11KeepAliveCmp.eval st.keepAliveRequests cfg.keepAliveMax then [("connection".b, "close".b)] else [])) h1
  have hsb := hr.2.1 (fun h => by omega)
  have he := libSend_eom_ok _ hsb
  have f2 := libSend_facts (libSend st (.response 404 ([("content-length".b, "0".b), ("connection".b, "close".b)] ++ cfg.serverHeaders ++
      (if Extracted.Guards.h11KeepAliveCmp.eval st.keepAliveRequests cfg.keepAliveMax then [("connection".b, "close".b)] else [])))).1 .eom
  simp only [runHttpEvs, httpStreamSend, Proto.Heads.h11Response, hfin, if_true, hr.1, Bool.false_eq_true, if_false, he]
  refine ⟨trivial, ?_, (libSend_step _ _).trans (libSend_step _ _), ?_⟩
  · rw [libSend_shape, libSend_shape st]
  · cases hx : (libSend (libSend st (.response 404 ([("content-length".b, "0".b), ("connection".b, "close".b)] ++ cfg.serverHeaders ++
        (if Extracted.Guards.h11KeepAliveCmp.eval st.keepAliveRequests cfg.keepAliveMax then [("connection".b, "close".b)] else [])))).1 .eom).1.lib.waiting100 with
    | false => rfl
    | true => have := f2.2.2.1 hx; rw [hr.2.2] at this; cases this

theorem runWs_spawnClose (cfg : Cfg) (st : St) : runWsEvs cfg st [.spawnClose] = (st, [Out.wsOther .spawnClose] ++ [], false) := by
  simp [runWsEvs, wsStreamSend]

theorem checkProtocol_h2c (r : ReqEv) (h : checkProtocol r = .h2c) : reqIsH2c r = true := by
  unfold checkProtocol at h
  split at h
  · rename_i hc; simp only [Bool.and_eq_true] at hc; exact hc.1
  · split at h <;> cases h

theorem ev_request (r : ReqEv) (hI : Inv st g) (hpc : st.pc = .inLoop) (hsw : st.switched = false)
    (hp : libPossibleAt st g (.request r) = true) (hdec : decodeSitesTotal = true) (hname : Ws.Handshake.NamesLowered) :
    escapeBody cfg st (.request r) = none ∧ ∃ res, onLibEvBody cfg st o0 (.request r) = some res ∧ Inv res.1 g := by
  simp only [libPossibleAt, Bool.and_eq_true, Bool.not_eq_true', Option.isSome_iff_exists] at hp
  obtain ⟨⟨hnws, lib', hl⟩, hwf⟩ := hp
  have b := H11M.recvRequest_after _ _ _ hl
  have hidle := H11M.recvRequest_idle _ _ _ hl
  have hupg : (reqIsH2c r || isWebsocketRequest r) = true → lib'.pendUpgrade = true := by
    intro h
    have hwf' := hwf
    simp only [hdrWf, Bool.and_eq_true, List.all_eq_true, beq_iff_eq] at hwf'
    exact b.2.1 (upgrade_seen r hwf'.1 h)
  have hin : ∀ (j : Nat) (o' : Stream), st.objs[j]? = some o' → Inert o' := by
    intro j o' h
    rcases hI.objs j o' h with h' | h'
    · exact h'
    · exact absurd hidle h'.2
  -- a switch to HTTP/2: the objects stay as they are (all inert), this protocol object is not used again
  have hswitch : ∀ st' : St, st'.objs = st.objs → st'.cur = st.cur → st'.wsMode = st.wsMode → st'.switched = true → Inv st' g := by
    intro st' ho hc hwm hs
    refine inv_frame hI ho hc hwm (fun _ => hidle) ?_ ?_ (fun _ _ h => by rw [hs] at h; cases h)
    · intro i s h hst; exact absurd (hin i _ h).1 hst
    · intro _ i s _ h _ hcl; have := hin i _ h; simp [Inert, hcl] at this
  have hnb : H11M.NotBad lib'.server := by rw [b.1]; exact ⟨by decide, by decide, by decide⟩
  simp only [onLibEvBody, escapeBody, hl, decodeRaises_false hdec, Bool.or_self, Bool.false_eq_true, if_false]
  cases hcp : checkProtocol r with
  | h2c =>
    simp only []
    have hok := libSend_info_ok { st with lib := lib', requestComplete := false } 101
      (cfg.serverHeaders ++ [("connection".b, "upgrade".b), ("upgrade".b, "h2c".b)]) b.1
      (fun _ => hupg (by simp [checkProtocol_h2c r hcp]))
    refine ⟨by simp [hok.1], _, rfl, hswitch _ ?_ ?_ ?_ rfl⟩
    · simp only []; rw [libSend_shape]
    · simp only []; rw [libSend_shape]
    · simp only []; rw [libSend_shape]
  | prior => simp only []; exact ⟨trivial, _, rfl, hswitch _ rfl rfl rfl rfl⟩
  | none =>
    simp only []
    by_cases hw : isWebsocketRequest r = true
    · -- a WebSocket handshake
      simp only [hw, if_true]
      obtain ⟨s, puts, evs, heq, hacc, hconn, hbuf, hst, hcases⟩ :=
        ws_onRequest_ok hname cfg.wsMaxLen (scopeOf cfg r true).version (scopeOf cfg r true).headers
          (validServerName cfg (scopeOf cfg r true).headers) cfg.pingInterval (ws_request_has_upgrade cfg r hw hwf)
      simp only [heq]
      have hokS : Ws.Ok s := fun h => by rw [hacc] at h; cases h
      have hbufS : Ws.BufRel none s.buffer := by rw [hbuf]; exact Ws.bufRel_fresh _
      rcases hcases with ⟨hcl, status, hstatus, hevs⟩ | ⟨hcl, hevs⟩
      · -- answered by the stream itself (404 / 400), closed
        subst hevs
        have hfin : Extracted.Guards.h11FinalStatusCmp.eval status 200 = true := by rcases hstatus with rfl | rfl <;> decide
        have hns : ¬ (200 ≤ status ∧ status < 300) := by rcases hstatus with rfl | rfl <;> omega
        rw [runWsEvs_append, runWs_spawnClose]
        have hpl : ∀ e ∈ Ws.errorResponse status, WPlain e := by simp [Ws.errorResponse, WPlain]
        have hp := runWs_plain cfg (Ws.errorResponse status)
          { (St.newObj { st with lib := lib', requestComplete := false } (Stream.ws s)) with
            wsMode := true, spawns := if s.hasAppPut then st.spawns + 1 else st.spawns } hpl
        have hnr := runWs_errorResponse_ok cfg
          { (St.newObj { st with lib := lib', requestComplete := false } (Stream.ws s)) with
            wsMode := true, spawns := if s.hasAppPut then st.spawns + 1 else st.spawns } status b.1 hfin hns
        simp only [hnr, Bool.false_eq_true, if_false]
        refine ⟨trivial, _, rfl, ?_⟩
        refine inv_newObj hI hidle hnws (.ws s) ?_ ?_ ?_ ⟨?_, hokS, hbufS, fun _ h => by rw [hcl] at h; cases h⟩ ?_
        · simp only []; rw [hp.shape]; rfl
        · simp only []; rw [hp.shape]; rfl
        · simp only []; intro h; exact b.2.2 (hp.step.idle h)
        · simp only []; rw [hp.shape]
        · simp only []; intro _ h; rw [hp.shape] at h; cases h
      · -- the application is started
        subst hevs
        simp only [runWsEvs, Bool.false_eq_true, if_false]
        refine ⟨trivial, _, rfl, ?_⟩
        refine inv_newObj hI hidle hnws (.ws s) rfl rfl b.2.2 ⟨rfl, hokS, hbufS, fun _ _ => ⟨b.1, hupg (by simp [hw])⟩⟩ ?_
        intro _ h; cases h
    · -- an HTTP request
      simp only [hw, Bool.false_eq_true, if_false]
      by_cases hok : validServerName cfg (scopeOf cfg r false).headers = true
      · simp only [hok, if_true]
        refine ⟨trivial, _, rfl, ?_⟩
        refine inv_newObj hI hidle hnws (.http _) rfl rfl b.2.2 ⟨fun h => by simp at h, fun _ => Or.inr hnb⟩ ?_
        intro _ _ _; exact ⟨b.1, hpc⟩
      · simp only [hok, Bool.false_eq_true, if_false, Bool.not_false]
        have h404 := runHttp_404 cfg ({ (St.newObj { st with lib := lib', requestComplete := false }
          (.http { method := (scopeOf cfg r false).method, version := (scopeOf cfg r false).version, reqHeaders := (scopeOf cfg r false).headers,
                   hasAppPut := false, closed := true, st := .closed })) with spawns := st.spawns }) b.1
        simp only [] at h404
        obtain ⟨hnr, hshape, hstep, hwt⟩ := h404
        simp only [hnr, Bool.false_eq_true, if_false]
        refine ⟨trivial, _, rfl, ?_⟩
        refine inv_newObj hI hidle hnws
          (.http { method := (scopeOf cfg r false).method, version := (scopeOf cfg r false).version, reqHeaders := (scopeOf cfg r false).headers,
                   hasAppPut := false, closed := true, st := .closed }) ?_ ?_ ?_
          ⟨fun h => (by rcases h with h | h <;> cases h), fun h => absurd rfl h⟩ ?_
        · simp only []; rw [hshape]; rfl
        · simp only []; rw [hshape]; rfl
        · simp only []; intro h; exact b.2.2 (hstep.idle h)
        · simp only []; intro h; rw [hwt] at h; cases h

/-- frames to write and `StreamClosed` never raise and keep the invariant -/
theorem runWs_quiet (cfg : Cfg) (g : Ws.Frag) (b : Bool) : ∀ (evs : List Ws.Ev) (st : St), (∀ e ∈ evs, Ws.QuietEv e) → InvX b st g →
    (runWsEvs cfg st evs).2.2 = false ∧ InvX b (runWsEvs cfg st evs).1 g := by
  intro evs
  induction evs with
  | nil => intro st _ h; exact ⟨rfl, h⟩
  | cons e es ih =>
    intro st hq hI
    have he := hq e (by simp)
    have hes : ∀ e' ∈ es, Ws.QuietEv e' := fun e' h => hq e' (by simp [h])
    cases e with
    | data o =>
      simp only [runWsEvs, wsStreamSend, Bool.false_eq_true, if_false]
      exact ih st hes hI
    | streamClosed =>
      simp only [runWsEvs, wsStreamSend, Bool.false_eq_true, if_false]
      exact ih _ hes (inv_maybeRecycle hI)
    | response _ _ => exact absurd he id
    | body _ => exact absurd he id
    | endBody => exact absurd he id
    | endData => exact absurd he id
    | access _ => exact absurd he id
    | spawnPings => exact absurd he id
    | spawnClose => exact absurd he id

/-- `handle(Data)`: frames / `StreamClosed` only and the stream stays open or closed as it was — or the 400 for early data, after
    which the stream is closed -/
theorem handle_data_cases (s : Ws.S) (evs : List Ws.WsEv) :
    ((∀ e ∈ (Ws.handle s (.data evs)).2.2.1, Ws.QuietEv e) ∧ (Ws.handle s (.data evs)).1.closed = s.closed) ∨
    (s.closed = false ∧ s.hs.accepted = false ∧ s.st = .handshake ∧ (Ws.handle s (.data evs)).1 = { s with closed := true } ∧
      (Ws.handle s (.data evs)).2.2.1 = Ws.errorResponse 400 ++ [.spawnClose]) := by
  by_cases hcl : s.closed = true
  · left; simp [Ws.handle, hcl]
  · have hcl' : s.closed = false := by simpa using hcl
    by_cases hacc : s.hs.accepted = true
    · left
      have h1 : Ws.handle s (.data evs) = Ws.handleEvents s evs := by simp [Ws.handle, hcl', hacc]
      rw [h1]
      refine ⟨Ws.handleEvents_quiet evs s, ?_⟩
      -- `_handle_events` never touches `closed`
      have : ∀ (evs : List Ws.WsEv) (s : Ws.S), (Ws.handleEvents s evs).1.closed = s.closed := by
        intro evs
        induction evs with
        | nil => intro s; rfl
        | cons ev rest ih =>
          intro s
          cases ev with
          | message p fin =>
            simp only [Ws.handleEvents]
            rcases hx : s.buffer.extend p with ⟨b, err⟩
            cases err with
            | none => simp only []; split <;> rw [ih]
            | some be =>
              cases be with
              | tooLarge => simp only []; exact (Ws.sendWs_keeps _ _).2.2.1
              | typeError => rfl
          | ping payload =>
            simp only [Ws.handleEvents]
            rcases hx : Ws.sendWs s (.pong payload) with ⟨s1, e1, err⟩
            have hk := (Ws.sendWs_keeps s (.pong payload)).2.2.1
            rw [hx] at hk
            cases err with
            | some x => exact hk
            | none => simp only []; rw [ih]; exact hk
          | pong _ => simp only [Ws.handleEvents]; rw [ih]
          | close code =>
            simp only [Ws.handleEvents]
            by_cases hrc : s.conn.map Ws.connRecvClose = some .remoteClosing
            · simp only [hrc, if_true]
              rcases hx : Ws.sendWs { s with conn := some .remoteClosing, clientCloseCode := some code } (.close code) with ⟨s1, e1, err⟩
              have hk := (Ws.sendWs_keeps { s with conn := some .remoteClosing, clientCloseCode := some code } (.close code)).2.2.1
              rw [hx] at hk
              cases err with
              | some x => exact hk
              | none => simp only []; rw [ih]; exact hk
            · simp only [hrc, if_false]; rw [ih]
          | failed code =>
            simp only [Ws.handleEvents]
            by_cases hrc : s.conn = some .remoteClosing
            · simp only [hrc, if_true]
              rcases hx : Ws.sendWs { s with conn := some .remoteClosing, clientCloseCode := some code } (.close code) with ⟨s1, e1, err⟩
              have hk := (Ws.sendWs_keeps { s with conn := some .remoteClosing, clientCloseCode := some code } (.close code)).2.2.1
              rw [hx] at hk
              cases err with
              | some x => exact hk
              | none => simp only []; rw [ih]; exact hk
            · simp only [hrc, if_false]; rw [ih]
      exact this evs s
    · have hacc' : s.hs.accepted = false := by simpa using hacc
      by_cases hst : s.st = .handshake
      · right
        refine ⟨hcl', hacc', hst, ?_, ?_⟩ <;> simp [Ws.handle, hcl', hacc', hst]
      · left; simp [Ws.handle, hcl', hacc', hst]

theorem ev_wsData (d : Bytes) (evs : List Ws.WsEv) (hI : Inv st g) (hp : libPossibleAt st g (.wsData d evs) = true) :
    escapeBody cfg st (.wsData d evs) = none ∧ ∃ res, onLibEvBody cfg st o0 (.wsData d evs) = some res ∧ Inv res.1 (Ws.evsNext g evs) := by
  simp only [libPossibleAt, Bool.and_eq_true] at hp
  obtain ⟨hwm, hp2⟩ := hp
  have hidleCase : curWs st = none → (st.cur = none ∨ ∀ i, st.cur = some i → ∀ s, st.objs[i]? ≠ some (Stream.ws s)) →
      escapeBody cfg st (.wsData d evs) = none ∧ ∃ res, onLibEvBody cfg st o0 (.wsData d evs) = some res ∧ Inv res.1 (Ws.evsNext g evs) := by
    intro hcw hno
    have hevs : evs = [] := by simpa [hcw] using hp2
    subst hevs
    have hst : ∀ i s, ¬ (st.cur = some i ∧ st.stream = some (Stream.ws s)) := by
      intro i s ⟨h1, h2⟩
      simp [curWs, h2] at hcw
    simp only [onLibEvBody, escapeBody, Ws.evsNext]
    split
    · rename_i i s h1 h2; exact absurd ⟨h1, h2⟩ (hst i s)
    · split
      · rename_i i s h1 h2; exact absurd ⟨h1, h2⟩ (hst i s)
      · exact ⟨rfl, _, rfl, inv_reader hI (Or.inr hwm) rfl rfl rfl rfl⟩
  cases hcur : st.cur with
  | none => exact hidleCase (by simp [curWs, St.stream, hcur]) (Or.inl hcur)
  | some i =>
    cases hobj : st.objs[i]? with
    | none => exact hidleCase (by simp [curWs, St.stream, hcur, hobj]) (Or.inr fun j hj s => by rw [hcur] at hj; cases hj; rw [hobj]; simp)
    | some o =>
      cases o with
      | http s => exact hidleCase (by simp [curWs, St.stream, hcur, hobj]) (Or.inr fun j hj s' => by rw [hcur] at hj; cases hj; rw [hobj]; simp)
      | ws s =>
        have hcw : curWs st = some s := by simp [curWs, St.stream, hcur, hobj]
        have hdata : Ws.dataOk g s evs = true := by simpa [hcw] using hp2
        obtain ⟨hwm', hok⟩ := hI.wsObj i s hobj
        have hlast := hI.curLast i hcur
        have H := Ws.handle_data_total s g evs hok (hI.buf i s hcur hobj) hdata
        have hstream : st.stream = some (Stream.ws s) := by simp [St.stream, hcur, hobj]
        have hclient : s.closed = true ∨ st.lib.client ≠ .idle := by
          rcases hI.objs i _ hobj with h | h
          · exact Or.inl h
          · exact Or.inr h.2
        -- the flag and the final state
        have key : (runWsEvs cfg (st.setObj i (.ws (Ws.handle s (.data evs)).1)) (Ws.handle s (.data evs)).2.2.1).2.2 = false ∧
            Inv (runWsEvs cfg (st.setObj i (.ws (Ws.handle s (.data evs)).1)) (Ws.handle s (.data evs)).2.2.1).1 (Ws.evsNext g evs) := by
          rcases handle_data_cases s evs with ⟨hq, hcl⟩ | ⟨hcl, hacc, hst, hs', hev⟩
          · have hI2 : Inv (st.setObj i (.ws (Ws.handle s (.data evs)).1)) (Ws.evsNext g evs) := by
              have := inv_setWs (b' := true) hI i s (Ws.handle s (.data evs)).1 st.lib hobj hlast H.2.1 H.2.2.1 (fun h => by rw [← hcl]; exact h)
                (by rcases hclient with h | h; exact Or.inl (by rw [hcl]; exact h); exact Or.inr h) id
                (fun _ hc hst hcl' => hI.hand rfl i s hc hobj (by rw [← H.2.2.2.2]; exact hst) (by rw [← hcl]; exact hcl'))
              exact this
            exact runWs_quiet cfg _ true _ _ hq hI2
          · have hevs : evs = [] := by simpa [Ws.dataOk, hcl, hacc] using hdata
            subst hevs
            have h0 := hI.hand rfl i s hcur hobj hst hcl
            rw [hs', hev, runWsEvs_append, runWs_spawnClose]
            have hpl : ∀ e ∈ Ws.errorResponse 400, WPlain e := by simp [Ws.errorResponse, WPlain]
            have hp := runWs_plain cfg (Ws.errorResponse 400) (st.setObj i (.ws { s with closed := true })) hpl
            have hnr := runWs_errorResponse_ok cfg (st.setObj i (.ws { s with closed := true })) 400 h0.1 (by decide) (by omega)
            simp only [hnr, Bool.false_eq_true, if_false]
            refine ⟨trivial, ?_⟩
            rw [hp.shape]
            exact inv_setWs (b' := true) hI i s { s with closed := true } _ hobj hlast (fun h => hok h) (hI.buf i s hcur hobj)
              (fun h => by cases h) (Or.inl rfl) hp.step.idle (fun _ _ _ h => by cases h)
        simp only [onLibEvBody, escapeBody, hcur, hstream, H.1, key.1, Bool.false_eq_true, if_false]
        refine ⟨trivial, ?_⟩
        split
        · exact ⟨_, rfl, key.2⟩
        · exact ⟨_, rfl, key.2⟩

end body

end HC.Proto.H11
