import HC.Proto.H11
/-!
# Facts about `H11Protocol` that depend only on (`request_complete`, the h11 connection state)

`Closed P`: a predicate on the pair (`self.request_complete`, h11 state) that every library call the protocol makes
preserves (a `Request` event establishes `P false`, an `EndOfMessage` event `P true`).  `step_closed`: such a predicate
holds along every op sequence of the protocol model (one walk over the model, used for three instances in
`HC/Props/C06.lean`: keep-alive off is permanent; keep-alive off keeps h11's writer out of DONE; `request_complete`
implies the reader side is past the request body).
-/
namespace HC.Proto.H11Close
open HC HC.Stream HC.Lib HC.Proto.H11 HC.Extracted.H11Tables

structure Closed (P : Bool → H11M.St → Prop) : Prop where
  sendInfo : ∀ b s n s', P b s → H11M.sendInfo s n = some s' → P b s'
  sendResponse : ∀ b s r s', P b s → H11M.sendResponse s r = some s' → P b s'
  sendData : ∀ b s s', P b s → H11M.sendData s = some s' → P b s'
  sendEom : ∀ b s s', P b s → H11M.sendEom s = some s' → P b s'
  sendFailed : ∀ b s, P b s → P b (H11M.sendFailed s)
  startNextCycle : ∀ b s s', P b s → H11M.startNextCycle s = some s' → P b s'
  recvError : ∀ b s, P b s → P b (H11M.recvError s)
  recvClosed : ∀ b s s', P b s → H11M.recvClosed s = some s' → P b s'
  recvData : ∀ b s s', P b s → H11M.recvData s = some s' → P b s'
  recvEom : ∀ b s s', P b s → H11M.recvEom s = some s' → P true s' ∧ P b s'
  recvRequest : ∀ b s r s', P b s → H11M.recvRequest s r = some s' → P false s'

/-- the predicate on protocol states -/
def R (P : Bool → H11M.St → Prop) (st : St) : Prop := P st.requestComplete st.lib

variable {P : Bool → H11M.St → Prop}

theorem R_of_eq (st st' : St) (h : R P st) (h1 : st'.requestComplete = st.requestComplete) (h2 : st'.lib = st.lib) : R P st' := by
  unfold R at *; rw [h1, h2]; exact h

theorem libSend_R (hC : Closed P) (st : St) (e : LibSend) (h : R P st) : R P (libSend st e).1 := by
  unfold libSend
  cases e <;> simp only [] <;> split
  · exact hC.sendInfo _ _ _ _ h ‹_›
  · exact hC.sendFailed _ _ h
  · exact hC.sendResponse _ _ _ _ h ‹_›
  · exact hC.sendFailed _ _ h
  · exact hC.sendData _ _ _ h ‹_›
  · exact hC.sendFailed _ _ h
  · exact hC.sendEom _ _ _ h ‹_›
  · exact hC.sendFailed _ _ h

theorem closeStream_key (st : St) : (closeStream st).1.requestComplete = st.requestComplete ∧ (closeStream st).1.lib = st.lib := by
  unfold closeStream; (repeat' split) <;> simp [St.setObj]

theorem closeStream_R (st : St) (h : R P st) : R P (closeStream st).1 :=
  R_of_eq _ _ h (closeStream_key st).1 (closeStream_key st).2

theorem maybeRecycle_R (hC : Closed P) (st : St) (h : R P st) : R P (maybeRecycle st).1 := by
  have hc := closeStream_R st h
  unfold maybeRecycle
  simp only []
  split
  · split
    · rename_i lib' hl
      exact hC.startNextCycle _ _ _ hc hl
    · exact hc
  · exact hc

theorem httpStreamSend_R (hC : Closed P) (cfg : Cfg) (st : St) (e : Http.Ev) (h : R P st) : R P (httpStreamSend cfg st e).1 := by
  cases e <;> simp only [httpStreamSend]
  · split <;> exact libSend_R hC _ _ h
  · exact h
  · exact libSend_R hC _ _ h
  · exact libSend_R hC _ _ h
  · exact h
  · exact h
  · exact maybeRecycle_R hC st h
  · exact h
  · exact h

theorem wsStreamSend_R (hC : Closed P) (cfg : Cfg) (st : St) (e : Ws.Ev) (h : R P st) : R P (wsStreamSend cfg st e).1 := by
  cases e <;> simp only [wsStreamSend]
  · split <;> exact libSend_R hC _ _ h
  · exact libSend_R hC _ _ h
  · exact libSend_R hC _ _ h
  · exact h
  · exact h
  · exact maybeRecycle_R hC st h
  · exact h
  · exact h
  · exact h

theorem runHttpEvs_R (hC : Closed P) (cfg : Cfg) : ∀ (evs : List Http.Ev) (st : St), R P st → R P (runHttpEvs cfg st evs).1 := by
  intro evs
  induction evs with
  | nil => intro st h; exact h
  | cons e es ih =>
    intro st h
    simp only [runHttpEvs]
    have h1 := httpStreamSend_R hC cfg st e h
    split
    · exact h1
    · exact ih _ h1

theorem runWsEvs_R (hC : Closed P) (cfg : Cfg) : ∀ (evs : List Ws.Ev) (st : St), R P st → R P (runWsEvs cfg st evs).1 := by
  intro evs
  induction evs with
  | nil => intro st h; exact h
  | cons e es ih =>
    intro st h
    simp only [runWsEvs]
    have h1 := wsStreamSend_R hC cfg st e h
    split
    · exact h1
    · exact ih _ h1

theorem setObj_R (st : St) (i : Nat) (o : H11.Stream) (h : R P st) : R P (st.setObj i o) := h

theorem loopTop_R (hC : Closed P) (cfg : Cfg) (st : St) (h : R P st) : R P (loopTop cfg st).1 := by
  unfold loopTop
  split
  · exact libSend_R hC _ _ h
  · exact h

theorem onLibEvBody_R (hC : Closed P) (cfg : Cfg) (st : St) (o0 : List Out) (e : LibEv) (s1 : St) (o1 : List Out)
    (hI : R P st) (h : onLibEvBody cfg st o0 e = some (s1, o1)) : R P s1 := by
  cases e with
  | protoError hint =>
    simp only [onLibEvBody] at h
    have hc : R P { st with lib := H11M.recvError st.lib } := hC.recvError _ _ hI
    split at h
    · simp only [Option.some.injEq, Prod.mk.injEq] at h
      obtain ⟨rfl, _⟩ := h
      exact hc
    · split at h
      all_goals
        simp only [Option.some.injEq, Prod.mk.injEq] at h
        obtain ⟨rfl, _⟩ := h
      · exact libSend_R hC _ _ (libSend_R hC _ _ hc)
      · exact hc
  | request r =>
    simp only [onLibEvBody] at h
    split at h
    · cases h
    · rename_i lib' hl
      have hc : R P { st with lib := lib', requestComplete := false } := hC.recvRequest _ _ _ _ hI hl
      split at h
      · simp only [Option.some.injEq, Prod.mk.injEq] at h
        obtain ⟨rfl, _⟩ := h
        exact libSend_R hC _ _ hc
      · simp only [Option.some.injEq, Prod.mk.injEq] at h
        obtain ⟨rfl, _⟩ := h
        exact hc
      · split at h
        · split at h
          · cases h
          · simp only [Option.some.injEq, Prod.mk.injEq] at h
            obtain ⟨rfl, _⟩ := h
            exact runWsEvs_R hC cfg _ _ hc
        · simp only [Option.some.injEq, Prod.mk.injEq] at h
          obtain ⟨rfl, _⟩ := h
          show R P (_ : St × List Out × Bool).1
          split
          · exact hc
          · exact runHttpEvs_R hC cfg _ _ hc
  | paused =>
    simp only [onLibEvBody] at h
    split at h <;> (simp only [Option.some.injEq, Prod.mk.injEq] at h; obtain ⟨rfl, _⟩ := h; exact hI)
  | needData =>
    simp only [onLibEvBody, Option.some.injEq, Prod.mk.injEq] at h
    obtain ⟨rfl, _⟩ := h
    exact hI
  | connClosed =>
    simp only [onLibEvBody] at h
    split at h
    · cases h
    · rename_i lib' hl
      simp only [Option.some.injEq, Prod.mk.injEq] at h
      obtain ⟨rfl, _⟩ := h
      exact hC.recvClosed _ _ _ hI hl
  | data d =>
    simp only [onLibEvBody] at h
    split at h
    · cases h
    · rename_i lib' hl
      have hc : R P { st with lib := lib' } := hC.recvData _ _ _ hI hl
      (repeat' split at h) <;> (try (cases h; done)) <;>
        (simp only [Option.some.injEq, Prod.mk.injEq] at h; obtain ⟨rfl, _⟩ := h; exact hc)
  | eom =>
    simp only [onLibEvBody] at h
    split at h
    · cases h
    · rename_i lib' hl
      have hc := hC.recvEom _ _ _ hI hl
      (repeat' split at h) <;> (try (cases h; done)) <;>
        (simp only [Option.some.injEq, Prod.mk.injEq] at h; obtain ⟨rfl, _⟩ := h)
      · exact hc.1
      · exact hc.2
  | wsData d evs =>
    simp only [onLibEvBody] at h
    (repeat' split at h) <;> (try (cases h; done))
    · simp only [Option.some.injEq, Prod.mk.injEq] at h
      obtain ⟨rfl, _⟩ := h
      exact runWsEvs_R hC cfg _ _ (setObj_R _ _ _ hI)
    · simp only [Option.some.injEq, Prod.mk.injEq] at h
      obtain ⟨rfl, _⟩ := h
      exact runWsEvs_R hC cfg _ _ (setObj_R _ _ _ hI)
    · simp only [Option.some.injEq, Prod.mk.injEq] at h
      obtain ⟨rfl, _⟩ := h
      exact hI

/-- **a `Closed` predicate is preserved by every op** -/
theorem step_closed (hC : Closed P) (cfg : Cfg) (token : Bytes → Bytes) (ext : Option Bytes) (st st' : St) (op : Op) (outs : List Out)
    (err : Option PyErr) (hI : R P st) (hs : step cfg token ext st op = some (st', outs, err)) : R P st' := by
  cases op with
  | begin =>
    simp only [step] at hs
    split at hs <;> simp at hs
    obtain ⟨rfl, _, _⟩ := hs
    exact hI
  | terminate =>
    simp only [step, Option.some.injEq, Prod.mk.injEq] at hs
    obtain ⟨rfl, _, _⟩ := hs
    exact hI
  | closed =>
    simp only [step, Option.some.injEq, Prod.mk.injEq] at hs
    obtain ⟨rfl, _, _⟩ := hs
    exact closeStream_R st hI
  | sendHttp i m =>
    simp only [step, Option.some.injEq] at hs
    have : R P (appSendHttp cfg st i m).1 := by
      unfold appSendHttp
      split
      · simp only []
        split
        · exact setObj_R _ _ _ (runHttpEvs_R hC cfg _ _ (setObj_R _ _ _ hI))
        · exact runHttpEvs_R hC cfg _ _ (setObj_R _ _ _ hI)
      · exact hI
    rw [hs] at this; exact this
  | sendWs i m =>
    simp only [step, Option.some.injEq] at hs
    have : R P (appSendWs cfg token ext st i m).1 := by
      unfold appSendWs
      split
      · simp only []
        split
        · exact setObj_R _ _ _ (runWsEvs_R hC cfg _ _ (setObj_R _ _ _ hI))
        · exact runWsEvs_R hC cfg _ _ (setObj_R _ _ _ hI)
      · exact hI
    rw [hs] at this; exact this
  | ev e =>
    simp only [step, Option.map_eq_some_iff] at hs
    obtain ⟨⟨s1, o1⟩, hev, heq⟩ := hs
    simp only [Prod.mk.injEq] at heq
    obtain ⟨rfl, _, _⟩ := heq
    unfold onLibEv at hev
    split at hev
    · cases hev
    · exact onLibEvBody_R hC cfg _ _ e _ _ (loopTop_R hC cfg st hI) hev

/-! ### instances -/

/-- one pass of the state-triggered transitions leaves the keep-alive flag alone -/
theorem fire_keepAlive (s : H11M.St) : (H11M.fire s).keepAlive = s.keepAlive := rfl

/-- with keep-alive off, one pass of the state-triggered transitions leaves neither side in DONE -/
theorem firePair_off_server (pend : Bool) (c sv : HSt) : (H11M.firePair pend false c sv).2 ≠ .done := by
  cases pend <;> cases c <;> cases sv <;> decide

/-- "a side that may not keep the connection alive never rests in DONE" -/
def KA (s : H11M.St) : Prop := s.keepAlive = false → s.server ≠ .done

theorem fireOnce_KA (s : H11M.St) : KA (H11M.fireOnce s) := by
  intro hk
  have hk' : s.keepAlive = false := hk
  simp only [H11M.fireOnce, hk']
  exact firePair_off_server _ _ _

theorem fire_KA (s : H11M.St) : KA (H11M.fire s) := by
  unfold H11M.fire; exact fireOnce_KA _

theorem stepServer_KA (s s' : H11M.St) (k : EvKey) (h : H11M.stepServer s k = some s') : KA s' := by
  unfold H11M.stepServer at h
  split at h
  · cases h
  · split at h
    · cases h
    · simp only [Option.some.injEq] at h; subst h; exact fire_KA _

theorem stepClient_KA (s s' : H11M.St) (k : EvKey) (h : H11M.stepClient s k = some s') : KA s' := by
  unfold H11M.stepClient at h
  split at h
  · cases h
  · simp only [Option.some.injEq] at h; subst h; exact fire_KA _

theorem withWaiting_KA (s : H11M.St) (b : Bool) (h : KA s) : KA (s.withWaiting b) := h

theorem closed_KA : Closed (fun _ s => KA s) where
  sendInfo := by
    intro b s n s' _ h
    unfold H11M.sendInfo at h
    split at h
    · cases h
    · simp only [Option.map_eq_some_iff] at h
      obtain ⟨s1, h1, rfl⟩ := h
      exact withWaiting_KA _ _ (stepServer_KA _ _ _ h1)
  sendResponse := by
    intro b s r s' _ h
    unfold H11M.sendResponse at h
    split at h
    · cases h
    · split at h
      · cases h
      · rename_i s1 hs1
        simp only [Option.some.injEq] at h
        subst h
        split
        · exact fire_KA _
        · exact withWaiting_KA _ _ (stepServer_KA _ _ _ hs1)
  sendData := by
    intro b s s' _ h
    unfold H11M.sendData at h
    split at h
    · cases h
    · exact stepServer_KA _ _ _ h
  sendEom := by
    intro b s s' _ h
    unfold H11M.sendEom at h
    split at h
    · cases h
    · exact stepServer_KA _ _ _ h
  sendFailed := by intro b s _; exact fire_KA _
  startNextCycle := by
    intro b s s' _ h
    unfold H11M.startNextCycle at h
    split at h
    · simp only [Option.some.injEq] at h; subst h; intro _; simp
    · cases h
  recvError := by intro b s _; exact fire_KA _
  recvClosed := by intro b s s' _ h; exact stepClient_KA _ _ _ h
  recvData := by
    intro b s s' _ h
    simp only [H11M.recvData, Option.map_eq_some_iff] at h
    obtain ⟨x, hx, rfl⟩ := h
    exact withWaiting_KA _ _ (stepClient_KA _ _ _ hx)
  recvEom := by
    intro b s s' _ h
    simp only [H11M.recvEom, Option.map_eq_some_iff] at h
    obtain ⟨x, hx, rfl⟩ := h
    exact ⟨withWaiting_KA _ _ (stepClient_KA _ _ _ hx), withWaiting_KA _ _ (stepClient_KA _ _ _ hx)⟩
  recvRequest := by
    intro b s r s' _ h
    unfold H11M.recvRequest at h
    split at h
    · cases h
    · rename_i s1 hs1
      simp only [Option.some.injEq] at h
      subst h
      have h1 : KA s1 := by
        unfold H11M.stepRequest at hs1
        split at hs1
        · cases hs1
        · split at hs1
          · cases hs1
          · simp only [Option.some.injEq] at hs1; subst hs1; exact fire_KA _
      unfold H11M.afterRequest
      have h2 : KA (if r.keepAlive then s1.withReq r.isHead r.isConnect r.http10 else H11M.keepAliveDisabled (s1.withReq r.isHead r.isConnect r.http10)) := by
        split
        · exact h1
        · exact fire_KA _
      simp only []
      split
      · exact withWaiting_KA _ _ h2
      · exact h2

/-! #### keep-alive, once off, stays off (h11 never turns it back on, not even at `start_next_cycle`) -/

theorem clearPend_keepAlive (s : H11M.St) (b : Bool) : (s.clearPend b).keepAlive = s.keepAlive := by
  unfold H11M.St.clearPend; split <;> rfl

theorem set_keepAlive (s : H11M.St) (r : Role) (v : HSt) : (s.set r v).keepAlive = s.keepAlive := by
  cases r <;> rfl

theorem stepServer_keepAlive (s s' : H11M.St) (k : EvKey) (h : H11M.stepServer s k = some s') : s'.keepAlive = s.keepAlive := by
  unfold H11M.stepServer at h
  split at h
  · cases h
  · split at h
    · cases h
    · simp only [Option.some.injEq] at h; subst h
      rw [fire_keepAlive, set_keepAlive, clearPend_keepAlive]

theorem stepClient_keepAlive (s s' : H11M.St) (k : EvKey) (h : H11M.stepClient s k = some s') : s'.keepAlive = s.keepAlive := by
  unfold H11M.stepClient at h
  split at h
  · cases h
  · simp only [Option.some.injEq] at h; subst h
    rw [fire_keepAlive, set_keepAlive]

theorem proposals_keepAlive (s : H11M.St) (r : H11M.ReqInfo) : (H11M.proposals s r).keepAlive = s.keepAlive := by
  unfold H11M.proposals
  by_cases hu : r.hasUpgrade = true <;> by_cases hc : r.isConnect = true <;> simp only [hu, hc, if_true, if_false] <;> rfl

theorem closed_off : Closed (fun _ s => s.keepAlive = false) where
  sendInfo := by
    intro b s n s' hk h
    unfold H11M.sendInfo at h
    split at h
    · cases h
    · simp only [Option.map_eq_some_iff] at h
      obtain ⟨s1, h1, rfl⟩ := h
      show s1.keepAlive = false
      rw [stepServer_keepAlive _ _ _ h1]; exact hk
  sendResponse := by
    intro b s r s' hk h
    unfold H11M.sendResponse at h
    split at h
    · cases h
    · split at h
      · cases h
      · rename_i s1 hs1
        simp only [Option.some.injEq] at h
        subst h
        split
        · rfl
        · show s1.keepAlive = false
          rw [stepServer_keepAlive _ _ _ hs1]; exact hk
  sendData := by
    intro b s s' hk h
    unfold H11M.sendData at h
    split at h
    · cases h
    · rw [stepServer_keepAlive _ _ _ h]; exact hk
  sendEom := by
    intro b s s' hk h
    unfold H11M.sendEom at h
    split at h
    · cases h
    · rw [stepServer_keepAlive _ _ _ h]; exact hk
  sendFailed := by intro b s hk; exact hk
  startNextCycle := by
    intro b s s' hk h
    unfold H11M.startNextCycle at h
    split at h
    · simp only [Option.some.injEq] at h; subst h; exact hk
    · cases h
  recvError := by intro b s hk; exact hk
  recvClosed := by intro b s s' hk h; rw [stepClient_keepAlive _ _ _ h]; exact hk
  recvData := by
    intro b s s' hk h
    simp only [H11M.recvData, Option.map_eq_some_iff] at h
    obtain ⟨x, hx, rfl⟩ := h
    show x.keepAlive = false
    rw [stepClient_keepAlive _ _ _ hx]; exact hk
  recvEom := by
    intro b s s' hk h
    simp only [H11M.recvEom, Option.map_eq_some_iff] at h
    obtain ⟨x, hx, rfl⟩ := h
    have : x.keepAlive = false := by rw [stepClient_keepAlive _ _ _ hx]; exact hk
    exact ⟨this, this⟩
  recvRequest := by
    intro b s r s' hk h
    unfold H11M.recvRequest at h
    split at h
    · cases h
    · rename_i s1 hs1
      simp only [Option.some.injEq] at h
      subst h
      have h1 : s1.keepAlive = false := by
        unfold H11M.stepRequest at hs1
        split at hs1
        · cases hs1
        · split at hs1
          · cases hs1
          · simp only [Option.some.injEq] at hs1; subst hs1
            rw [fire_keepAlive, set_keepAlive, set_keepAlive, proposals_keepAlive]; exact hk
      unfold H11M.afterRequest
      by_cases he : r.expect100 = true <;> by_cases hka : r.keepAlive = true <;> simp only [he, hka, if_true, if_false]
      · exact h1
      · rfl
      · exact h1
      · rfl

/-- the application's (or the server's own) `connection: close` on a response head turns keep-alive off -/
theorem sendResponse_close_off (s s' : H11M.St) (r : H11M.RespInfo) (hc : r.connClose = true) (h : H11M.sendResponse s r = some s') :
    s'.keepAlive = false := by
  unfold H11M.sendResponse at h
  split at h
  · cases h
  · split at h
    · cases h
    · simp only [Option.some.injEq] at h
      subst h
      have : H11M.respAnnouncesClose s r = true := by simp [H11M.respAnnouncesClose, hc]
      rw [if_pos this]
      rfl

/-! #### `request_complete` implies h11's reader side is past the request body -/

theorem firePair_client_sb (pend ka : Bool) (c sv : HSt) : (H11M.firePair pend ka c sv).1 = .sendBody → c = .sendBody := by
  cases pend <;> cases ka <;> cases c <;> cases sv <;> decide

theorem fireOnce_client_sb (s : H11M.St) : (H11M.fireOnce s).client = .sendBody → s.client = .sendBody := by
  simp only [H11M.fireOnce]; exact firePair_client_sb _ _ _ _

theorem fire_client_sb (s : H11M.St) : (H11M.fire s).client = .sendBody → s.client = .sendBody := by
  intro h
  simp only [H11M.fire] at h
  exact fireOnce_client_sb _ (fireOnce_client_sb _ (fireOnce_client_sb _ (fireOnce_client_sb _
    (fireOnce_client_sb _ (fireOnce_client_sb _ h)))))

/-- of the client-side events only `Request` (from IDLE) and `Data` (staying there) lead to SEND_BODY -/
theorem client_event_sb (st : HSt) (k : EvKey) (hk : k ≠ .request) (h : H11M.lookupEvent .client st k = some .sendBody) :
    st = .sendBody ∧ k = .data := by
  revert hk h; cases st <;> cases k <;> decide

theorem stepServer_client_sb (s s' : H11M.St) (k : EvKey) (h : H11M.stepServer s k = some s') :
    s'.client = .sendBody → s.client = .sendBody := by
  unfold H11M.stepServer at h
  split at h
  · cases h
  · split at h
    · cases h
    · simp only [Option.some.injEq] at h
      subst h
      intro hi
      simpa using fire_client_sb _ hi

theorem stepClient_client_sb (s s' : H11M.St) (k : EvKey) (hk : k ≠ .request) (h : H11M.stepClient s k = some s') :
    s'.client = .sendBody → s.client = .sendBody ∧ k = .data := by
  unfold H11M.stepClient at h
  split at h
  · cases h
  · rename_i c hc
    simp only [Option.some.injEq] at h
    subst h
    intro hi
    have : c = .sendBody := by simpa using fire_client_sb _ hi
    subst this
    exact client_event_sb _ _ hk hc

/-- `request_complete → their_state is not SEND_BODY` -/
def RC (b : Bool) (s : H11M.St) : Prop := b = true → s.client ≠ .sendBody

theorem closed_RC : Closed RC where
  sendInfo := by
    intro b s n s' hp h hb
    unfold H11M.sendInfo at h
    split at h
    · cases h
    · simp only [Option.map_eq_some_iff] at h
      obtain ⟨s1, h1, rfl⟩ := h
      intro hi
      exact hp hb (stepServer_client_sb s s1 _ h1 (by simpa using hi))
  sendResponse := by
    intro b s r s' hp h hb
    unfold H11M.sendResponse at h
    split at h
    · cases h
    · split at h
      · cases h
      · rename_i s1 hs1
        simp only [Option.some.injEq] at h
        subst h
        intro hi
        have h0 : s1.client = .sendBody := by
          split at hi
          · have := fire_client_sb _ (by simpa [H11M.keepAliveDisabled] using hi); simpa using this
          · simpa using hi
        exact hp hb (stepServer_client_sb s s1 _ hs1 h0)
  sendData := by
    intro b s s' hp h hb
    unfold H11M.sendData at h
    split at h
    · cases h
    · intro hi; exact hp hb (stepServer_client_sb s s' _ h hi)
  sendEom := by
    intro b s s' hp h hb
    unfold H11M.sendEom at h
    split at h
    · cases h
    · intro hi; exact hp hb (stepServer_client_sb s s' _ h hi)
  sendFailed := by
    intro b s hp hb hi
    have := fire_client_sb _ (by simpa [H11M.sendFailed, H11M.processError] using hi)
    exact hp hb (by simpa using this)
  startNextCycle := by
    intro b s s' _ h _
    unfold H11M.startNextCycle at h
    split at h
    · simp only [Option.some.injEq] at h; subst h; simp
    · cases h
  recvError := by
    intro b s _ _ hi
    have := fire_client_sb _ (by simpa [H11M.recvError, H11M.processError] using hi)
    simp at this
  recvClosed := by
    intro b s s' hp h hb hi
    exact absurd (stepClient_client_sb s s' _ (by decide) h hi).2 (by decide)
  recvData := by
    intro b s s' hp h hb
    simp only [H11M.recvData, Option.map_eq_some_iff] at h
    obtain ⟨x, hx, rfl⟩ := h
    intro hi
    exact hp hb (stepClient_client_sb s x _ (by decide) hx (by simpa using hi)).1
  recvEom := by
    intro b s s' hp h
    simp only [H11M.recvEom, Option.map_eq_some_iff] at h
    obtain ⟨x, hx, rfl⟩ := h
    have hne : (x.withWaiting false).client ≠ .sendBody := by
      intro hi
      exact absurd (stepClient_client_sb s x _ (by decide) hx (by simpa using hi)).2 (by decide)
    exact ⟨fun _ => hne, fun _ => hne⟩
  recvRequest := by
    intro b s r s' _ _ hb
    cases hb

end HC.Proto.H11Close
