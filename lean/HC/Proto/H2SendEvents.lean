import HC.Proto.H2Send
/-!
# Event discipline of the HTTP/2 send path (lemmas shared by C09 and C16)

Two facts about the model `HC.Proto.H2Send` that do not depend on any source-shape assertion of C08/C09:
`handle(Closed)` is idempotent, and every `clear()` of an event is taken by the event's only possible waiter while it is not
waiting - which is why trio's replace-the-event-on-clear wrapper is indistinguishable from asyncio's on this code (C16).
-/
namespace HC.Proto.H2SendEvents
open HC HC.Proto.H2Send HC.Extracted

local macro "step_cases'" hs:ident : tactic =>
  `(tactic| (simp only [step] at $hs:ident <;> (repeat' split at $hs:ident) <;>
      (first | (simp at $hs:ident; done) | (simp only [Option.some.injEq] at $hs:ident; subst $hs:ident))))

/-- `H2Protocol.handle(Closed)` twice = once (streams are already popped, buffers already closed, `has_data` already set) -/
theorem closed_idempotent (s s1 s2 : St) (h1 : step s .closed = some s1) (h2 : step s1 .closed = some s2) :
    s2.closed = s1.closed ∧ s2.hasData = s1.hasData ∧ s2.connWin = s1.connWin ∧ s2.task = s1.task ∧ ∀ i, s2.str i = s1.str i := by
  simp only [step, Option.some.injEq] at h1 h2
  subst h1
  subst h2
  refine ⟨rfl, rfl, rfl, rfl, ?_⟩
  intro i
  simp only
  cases hb : (s.str i).hasBuf <;> simp [hb, Str.closeBuf]

/-- **every `clear()` of an event is taken by the event's only possible waiter, while it is not waiting**:
    `_is_empty.clear()` (in `push`, and in `drain` of a completed buffer) — by the stream's single sender, which is then not
    parked in `drain()`; `_paused.clear()` — by the sender itself after its own `wait()`; `has_data.clear()` — by the send task
    itself after its own `wait()`.  (This is what makes trio's replace-the-event-on-clear wrapper indistinguishable from
    asyncio's on this code.) -/
theorem clear_has_no_foreign_waiter (s s' : St) (o : Op) (h : step s o = some s') :
    (∀ i n, o = .push i n → (s.str i).pusher = .idle) ∧
    (∀ i, o = .end_ i → (s.str i).pusher = .idle) ∧
    (∀ i, o = .pushWake i → (s.str i).pusher = .inPush ∧ (s'.str i).pusher = .idle) ∧
    (o = .wake → s.task = .parked ∧ s'.task = .running) := by
  refine ⟨fun i n ho => ?_, fun i ho => ?_, fun i ho => ?_, fun ho => ?_⟩ <;> subst ho <;> step_cases' h <;> simp_all [upd]


end HC.Proto.H2SendEvents
