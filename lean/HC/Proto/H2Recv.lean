import HC.Prelude
import HC.Extracted.C04Sites
/-!
# H2Recv — the RECEIVE side of `hypercorn/protocol/h2.py` (`H2Protocol`) as an `Except`-valued machine

What is modelled, call by call: `handle(RawData)` (`receive_data` raising, `_handle_events` per event kind, `_flush`),
`handle(Closed)`, `_create_stream` (decode checks, the conditional local `raw_path`, the priority-tree entry, the
dictionaries `streams` / `stream_buffers`), `_priority_updated`, `_window_updated`, `_close_stream`, and – because they
share those dictionaries and the priority tree with the reader – `stream_send` (what the applications call),
`_reset_abandoned_response`, `send_task` / `_send_data`.

Python exceptions are values (`Exn`).  Every `try`/`except` of the source is a match against the class list that
`tools/extract.py` reads off the source (`HC.Extracted.C04Sites.*`), class membership being decided with the MRO table of
the installed libraries (`C04Sites.classMro`: e.g. `priority.MissingStreamError` *is a* `KeyError`).  An exception no
clause catches makes the step `.error e`: that is an uncaught exception in the connection handler (or in the send task,
which lives in the same task group) — C04's "internal error".

The libraries are *oracles*: whether a call into h2 / priority raises, and what, is part of the operation (resolved from
the tap log when a real run is replayed; universally quantified in the theorems, restricted by `LibWf`).  Stream objects
are opaque: `stream.handle(..)` of an existing stream does not raise (that is `total_ws` / the type of `Http.handle`), except
for the one thing the streams require of a `Request`: an ASCII path (`streamRequest`).
-/
namespace HC.Proto.H2Recv
open HC.Extracted

/-! ## exception classes -/

inductive Exn where
  | keyError | unboundLocalError | unicodeDecodeError | recursionError | typeError | attributeError
  | prioMissing | prioDuplicate | prioTooMany | prioLoop | prioBadWeight | prioPseudo | prioDeadlock
  | h2Protocol | h2StreamClosed | h2NoSuchStream | h2FlowControl | h2TooManyStreams | h2NoAvailableStreamID | h2FrameTooLarge
  | bufferComplete
deriving Repr, DecidableEq

/-- the qualified class name used by the extractor -/
def Exn.cls : Exn → String
  | .keyError => "KeyError" | .unboundLocalError => "UnboundLocalError" | .unicodeDecodeError => "UnicodeDecodeError"
  | .recursionError => "RecursionError" | .typeError => "TypeError" | .attributeError => "AttributeError"
  | .prioMissing => "priority.MissingStreamError" | .prioDuplicate => "priority.DuplicateStreamError"
  | .prioTooMany => "priority.TooManyStreamsError" | .prioLoop => "priority.PriorityLoop"
  | .prioBadWeight => "priority.BadWeightError" | .prioPseudo => "priority.PseudoStreamError"
  | .prioDeadlock => "priority.DeadlockError"
  | .h2Protocol => "h2.ProtocolError" | .h2StreamClosed => "h2.StreamClosedError" | .h2NoSuchStream => "h2.NoSuchStreamError"
  | .h2FlowControl => "h2.FlowControlError" | .h2TooManyStreams => "h2.TooManyStreamsError"
  | .h2NoAvailableStreamID => "h2.NoAvailableStreamIDError" | .h2FrameTooLarge => "h2.FrameTooLargeError"
  | .bufferComplete => "BufferCompleteError"

/-- the classes an instance belongs to: the MRO of the installed class (hypercorn's own classes have none but themselves) -/
def Exn.mro (e : Exn) : List String := (C04Sites.classMro.lookup e.cls).getD [e.cls]

/-- `except (A, B, …)` at a site catches `e` -/
def catches (site : List String) (e : Exn) : Bool := site.any (fun c => e.mro.contains c)

/-- `e` is one of h2's `ProtocolError`s / one of priority's `PriorityError`s (what those libraries document to raise) -/
def Exn.isH2 (e : Exn) : Bool := e.mro.contains "h2.ProtocolError"
def Exn.isPrio (e : Exn) : Bool := e.mro.contains "priority.PriorityError"

/-! ## state -/

structure St where
  streams : List Nat := []                 -- keys of `self.streams`
  buffers : List Nat := []                 -- keys of `self.stream_buffers`
  prio : List (Nat × Bool) := []           -- the priority tree (library state): member ↦ active (unblocked)
  kar : Nat := 0                           -- `self.keep_alive_requests`
  terminated : Bool := false               -- `self.context.terminated.is_set()`
  closed : Bool := false                   -- `self.closed`
deriving Repr, DecidableEq

/-- Python dictionaries keyed by stream id, as key lists: assignment and deletion -/
def keysAdd (l : List Nat) (sid : Nat) : List Nat := if l.contains sid then l else l ++ [sid]
def keysDel (l : List Nat) (sid : Nat) : List Nat := l.filter (· != sid)

def pmem (p : List (Nat × Bool)) (sid : Nat) : Bool := p.any (·.1 == sid)
def St.inPrio (s : St) (sid : Nat) : Bool := pmem s.prio sid
def St.isActive (s : St) (sid : Nat) : Bool := s.prio.any (fun p => p.1 == sid && p.2)
def prioSet (p : List (Nat × Bool)) (sid : Nat) (a : Bool) : List (Nat × Bool) := p.map (fun q => if q.1 == sid then (sid, a) else q)
def prioErase (p : List (Nat × Bool)) (sid : Nat) : List (Nat × Bool) := p.filter (fun q => q.1 != sid)
/-- a successful `insert_stream(sid, depends_on=dep)`: the stream, and a parent the tree did not know (`_get_or_insert_parent`,
    inserted blocked) -/
def prioInsert (p : List (Nat × Bool)) (sid dep : Nat) : List (Nat × Bool) :=
  let p1 := if dep != 0 && !(pmem p dep) then p ++ [(dep, false)] else p
  p1 ++ [(sid, true)]
/-- a successful `reprioritize(sid, depends_on=dep)`: membership grows by an unknown parent only -/
def prioParent (p : List (Nat × Bool)) (dep : Nat) : List (Nat × Bool) :=
  if dep != 0 && !(pmem p dep) then p ++ [(dep, false)] else p

/-! ## outputs -/

inductive Out where
  | toStream (sid : Nat) (what : String)                  -- `stream.handle(<what>)`: "request" | "body" | "endBody" | "streamClosed"
  | h2call (name : String) (sid : Nat) (raised : Bool)    -- a sending call into h2 for a stream (`send_headers`, `reset_stream`, `acknowledge`, …)
  | connCall (name : String) (raised : Bool)              -- a connection-level call into h2 (`close_connection`, `update_settings`)
  | prioCall (name : String) (sid : Nat) (raised : Option String)
  | spawnStream (sid : Nat) (ws : Bool)                   -- `self.streams[sid] = WSStream(…) | HTTPStream(…)`
  | flush
  | hasData
  | upClosed
  | upUpdated (idle : Option Bool)                        -- `some true`: no stream left; `none`: depends on the stream objects
deriving Repr, DecidableEq

/-- the stream an output belongs to (`none`: connection level) -/
def Out.tag : Out → Option Nat
  | .toStream sid _ => some sid
  | .h2call _ sid _ => some sid
  | .prioCall _ sid _ => some sid
  | .spawnStream sid _ => some sid
  | _ => none

/-! ## library calls with oracle outcomes -/

abbrev R := Except Exn (St × List Out)

/-- `self.priority.block(sid)` / `unblock(sid)` -/
def prioBlock (s : St) (sid : Nat) (active : Bool) : Except Exn (St × List Out) :=
  let name := if active then "unblock" else "block"
  if s.inPrio sid then .ok ({ s with prio := prioSet s.prio sid active }, [.prioCall name sid none])
  else .error .prioMissing

def prioRemove (s : St) (sid : Nat) : Except Exn (St × List Out) :=
  if s.inPrio sid then .ok ({ s with prio := prioErase s.prio sid }, [.prioCall "remove_stream" sid none])
  else .error .prioMissing

/-! ## the request as the glue sees it -/

structure Req where
  sid : Nat
  hasMethod : Bool := true          -- a `:method` pseudo header is present (h2 validates this)
  methodAscii : Bool := true
  isConnect : Bool := false         -- `method.upper() == "CONNECT"`
  hasPath : Bool := true            -- h2: absent only for an ordinary CONNECT
  pathAscii : Bool := true
deriving Repr, DecidableEq

/-- what `HTTPStream.handle(Request)` / `WSStream.handle(Request)` require: `path.decode("ascii")` -/
def streamRequest (r : Req) : Except Exn Unit := if r.pathAscii then .ok () else .error .unicodeDecodeError

/-- `_send_error_response(stream_id, status)`: `send_headers` inside `try … except <C04Sites.h2ErrorResponse>`, then `_flush` -/
def errorResponse (s : St) (sid : Nat) (lib : Option Exn) : R :=
  match lib with
  | none => .ok (s, [.h2call "send_headers" sid false, .flush])
  | some e => if catches C04Sites.h2ErrorResponse e then .ok (s, [.h2call "send_headers" sid true]) else .error e

/-- the header loop of `_create_stream`: decodes, leaves `method` / `raw_path` unbound when the header is absent.
    Returns `some rejected?`; `.error` is an exception escaping the loop. -/
def decodeHeaders (r : Req) : Except Exn Bool :=
  -- `method = value.decode("ascii").upper()`; `raw_path = value; value.decode("ascii")` (when the source checks the path here)
  let bad := (r.hasMethod && !r.methodAscii) || (C04Sites.h2CreateDecodeChecksPath && r.hasPath && !r.pathAscii)
  if bad then
    if catches C04Sites.h2CreateDecode .unicodeDecodeError && C04Sites.h2CreateDecodeReturns then .ok true
    else .error .unicodeDecodeError
  else .ok false

/-- `_create_stream(request)`.  `ins`: outcome of `priority.insert_stream(sid)`; `lib`: outcome of the one h2 sending
    call made when the request is answered / refused by the protocol itself. -/
def createStream (s : St) (r : Req) (ins lib : Option Exn) : R := do
  let rejected ← decodeHeaders r
  if rejected then errorResponse s r.sid lib else
  -- `if raw_path is None: …; return`
  if !r.hasPath && C04Sites.h2CreatePathDefault && C04Sites.h2CreatePathGuard then
    (if C04Sites.h2CreatePathGuardAnswers then errorResponse s r.sid lib else .ok (s, []))
  else
  -- `if method == "CONNECT"` reads `method`
  if !r.hasMethod then .error .unboundLocalError else
  -- the priority tree is entered (before or after the stream objects, as the source has it)
  let enter (s : St) : Except Exn (Option (St × List Out)) :=
    match ins with
    | none =>
      if s.inPrio r.sid then .error .prioDuplicate     -- (not a library behaviour: excluded by `LibWf`)
      else .ok (some ({ s with prio := prioSet (prioInsert s.prio r.sid 0) r.sid false },
                      [.prioCall "insert_stream" r.sid none, .prioCall "block" r.sid none]))
    | some e =>
      if catches C04Sites.h2CreateInsertPass e then .ok (some (s, [.prioCall "insert_stream" r.sid (some e.cls)]))
      else if catches C04Sites.h2CreateInsertRefuse e then .ok none
      else .error e
  let refuse (s : St) : R :=
    -- `reset_stream(REFUSED_STREAM)` inside `try … except <C04Sites.h2CreateRefuse>: return`, then `_flush`
    match lib with
    | none => .ok (s, [.prioCall "insert_stream" r.sid (some Exn.prioTooMany.cls), .h2call "reset_stream" r.sid false, .flush])
    | some e => if catches C04Sites.h2CreateRefuse e then .ok (s, [.prioCall "insert_stream" r.sid (some Exn.prioTooMany.cls), .h2call "reset_stream" r.sid true])
                else .error e
  let create (s : St) (o : List Out) : R := do
    -- `self.streams[sid] = …; self.stream_buffers[sid] = …; await stream.handle(Request(…, raw_path=raw_path))`
    if !r.hasPath then .error .unboundLocalError else
    let s1 := { s with streams := keysAdd s.streams r.sid, buffers := keysAdd s.buffers r.sid }
    match streamRequest r with
    | .error e => .error e
    | .ok () => .ok ({ s1 with kar := s1.kar + 1 }, o ++ [.spawnStream r.sid r.isConnect, .toStream r.sid "request"])
  if C04Sites.h2CreateInsertFirst then
    match ← enter s with
    | none => refuse s
    | some (s1, o1) => create s1 o1
  else
    -- (older order: objects first, then the tree; a refusal is then impossible to undo — kept for completeness)
    match ← enter s with
    | none => refuse { s with streams := keysAdd s.streams r.sid, buffers := keysAdd s.buffers r.sid }
    | some (s1, o1) => create s1 o1

/-- `_close_stream(sid)` -/
def closeStream (s : St) (sid : Nat) : St × List Out :=
  if s.streams.contains sid then ({ s with streams := keysDel s.streams sid }, [.toStream sid "streamClosed", .hasData]) else (s, [])

/-- `_window_updated(stream_id)`: `priority.unblock` for the stream / for every buffered stream, outside any `try` -/
def unblockAll : St → List Nat → List Out → R
  | s, [], o => .ok (s, o)
  | s, sid :: rest, o =>
    match prioBlock s sid true with
    | .error e => .error e
    | .ok (s1, o1) => unblockAll s1 rest (o ++ o1)

def windowUpdated (s : St) (sid : Nat) : R :=
  if sid == 0 then
    match unblockAll s s.buffers [] with
    | .error e => .error e
    | .ok (s1, o) => .ok (s1, o ++ [.hasData])
  else if s.buffers.contains sid then
    match prioBlock s sid true with
    | .error e => .error e
    | .ok (s1, o) => .ok (s1, o ++ [.hasData])
  else .ok (s, [.hasData])

/-! ## h2 events -/

inductive Ev where
  | request (r : Req) (ins lib : Option Exn)
  | data (sid : Nat)
  | ended (sid : Nat)
  | reset (sid : Nat)
  | window (sid : Nat)                                   -- WindowUpdated (0 = the connection)
  | priority (sid dep : Nat) (rep ins : Option Exn) (parentOnError : Bool)
      -- `rep`: outcome of `reprioritize`; `ins`: outcome of the fallback `insert_stream`; `parentOnError`: the tree inserted
      -- the unknown parent before it raised
  | settings (initialWindow : Bool)
  | terminated                                            -- ConnectionTerminated (the client's GOAWAY)
  | other                                                 -- every other event kind: no branch
deriving Repr, DecidableEq

/-- `_priority_updated(event)` -/
def priorityUpdated (s : St) (sid dep : Nat) (rep ins : Option Exn) (parentOnError : Bool) : R :=
  let withParent (s : St) : St := if parentOnError then { s with prio := prioParent s.prio dep } else s
  -- the outer `try … except <C04Sites.h2PrioOuter>: pass`
  let outer (e : Exn) (s : St) (o : List Out) : R :=
    if catches C04Sites.h2PrioOuter e then .ok (withParent s, o ++ [.hasData]) else .error e
  match rep with
  | none =>
    if s.inPrio sid then .ok ({ s with prio := prioParent s.prio dep }, [.prioCall "reprioritize" sid none, .hasData])
    else outer .prioMissing s []                          -- (not a library behaviour: excluded by `LibWf`)
  | some e =>
    let o0 := [Out.prioCall "reprioritize" sid (some e.cls)]
    if catches C04Sites.h2PrioReprioritize e then
      -- "Received PRIORITY frame before HEADERS frame": `insert_stream(…)`, `block(sid)`
      match ins with
      | none =>
        let s1 := { s with prio := prioSet (prioInsert s.prio sid dep) sid false }
        .ok (s1, o0 ++ [.prioCall "insert_stream" sid none, .prioCall "block" sid none, .hasData])
      | some e2 => outer e2 s (o0 ++ [.prioCall "insert_stream" sid (some e2.cls)])
    else outer e s o0

/-- one iteration of the `for event in events` loop of `_handle_events` -/
def onEvent (kaMax : Nat) (s : St) : Ev → R
  | .request r ins lib => do
    let (s1, o1) ←
      if s.terminated then
        -- `reset_stream`, `update_settings` inside `try … except <C04Sites.h2EventsTerminated>: pass`
        match lib with
        | none => pure (s, [Out.h2call "reset_stream" r.sid false, .connCall "update_settings" false])
        | some e => if catches C04Sites.h2EventsTerminated e then pure (s, [Out.h2call "reset_stream" r.sid true]) else throw e
      else do
        let (s1, o1) ← createStream s r ins lib
        pure (s1, o1 ++ [.upUpdated (if s1.streams.isEmpty then some true else none)])
    -- `if self.keep_alive_requests > self.config.keep_alive_max_requests: close_connection()`
    pure (s1, o1 ++ (if s1.kar > kaMax then [.connCall "close_connection" false] else []))
  | .data sid =>
    -- `await self.streams[sid].handle(Body…)` inside `try … except <C04Sites.h2EventsData>: pass`, then acknowledge
    if s.streams.contains sid then .ok (s, [.toStream sid "body", .h2call "acknowledge_received_data" sid false])
    else if catches C04Sites.h2EventsData .keyError then .ok (s, [.h2call "acknowledge_received_data" sid false])
    else .error .keyError
  | .ended sid =>
    if s.streams.contains sid then .ok (s, [.toStream sid "endBody"])
    else if catches C04Sites.h2EventsEnded .keyError then .ok (s, [])
    else .error .keyError
  | .reset sid =>
    let (s1, o1) := closeStream s sid
    match windowUpdated s1 sid with
    | .error e => .error e
    | .ok (s2, o2) => .ok (s2, o1 ++ o2)
  | .window sid => windowUpdated s sid
  | .priority sid dep rep ins pe => priorityUpdated s sid dep rep ins pe
  | .settings iw => if iw then windowUpdated s 0 else .ok (s, [])
  | .terminated => .ok (s, [.upClosed])
  | .other => .ok (s, [])

/-! ## what the applications and the send task do to the shared state -/

structure SendOracle where
  window : Option Exn := none        -- `local_flow_control_window(sid)` raised
  dataEmpty : Bool := false          -- nothing could be popped: `priority.block(sid)`
  send : Option Exn := none          -- `send_data` raised
  complete : Bool := false           -- the buffer is complete (and empty)
  endStream : Option Exn := none     -- `end_stream` raised
deriving Repr, DecidableEq

/-- a protected block: the state reached and the calls made when it ended, and the exception that ended it (if any) -/
abbrev Partial := St × List Out × Option Exn

def raisedName : Option Exn → Bool
  | none => false
  | some _ => true

/-- the protected body of `_send_data(sid)` -/
def sendBody (s : St) (sid : Nat) (o : SendOracle) : Partial :=
  match o.window with
  | some e => (s, [], some e)
  | none =>
    if !s.buffers.contains sid then (s, [], some .keyError) else
    -- `if data: send_data; flush  else: priority.block(sid)`
    let first : Partial :=
      if o.dataEmpty then
        (if s.inPrio sid then ({ s with prio := prioSet s.prio sid false }, [.prioCall "block" sid none], none)
         else (s, [.prioCall "block" sid (some Exn.prioMissing.cls)], some .prioMissing))
      else match o.send with
        | some e => (s, [.h2call "send_data" sid true], some e)
        | none => (s, [.h2call "send_data" sid false, .flush], none)
    match first with
    | (s1, o1, some e) => (s1, o1, some e)
    | (s1, o1, none) =>
      -- `if self.stream_buffers[sid].complete and not self.closed`
      if o.complete && !s.closed then
        match o.endStream with
        | some e => (s1, o1 ++ [.h2call "end_stream" sid true], some e)
        | none =>
          let s2 := { s1 with buffers := keysDel s1.buffers sid }
          if s2.inPrio sid then
            ({ s2 with prio := prioErase s2.prio sid }, o1 ++ [.h2call "end_stream" sid false, .flush, .prioCall "remove_stream" sid none], none)
          else (s2, o1 ++ [.h2call "end_stream" sid false, .flush, .prioCall "remove_stream" sid (some Exn.prioMissing.cls)], some .prioMissing)
      else (s1, o1, none)

/-- the `except` branch of `_send_data`: `stream_buffers.pop(sid, None)`; `remove_stream(sid)` inside
    `try … except <C04Sites.h2SendDataCleanup>`.  When the tree does not know the stream it just scheduled, the handler
    starts a fresh tree with every buffered stream in it (`insert_stream` leaves them unblocked). -/
def sendCleanup (s : St) (sid : Nat) (o0 : List Out) : R :=
  let s1 := { s with buffers := keysDel s.buffers sid }
  if s1.inPrio sid then .ok ({ s1 with prio := prioErase s1.prio sid }, o0 ++ [.prioCall "remove_stream" sid none])
  else if catches C04Sites.h2SendDataCleanup .prioMissing then
    .ok ({ s1 with prio := s1.buffers.map (fun b => (b, true)) },
         o0 ++ [.prioCall "remove_stream" sid (some Exn.prioMissing.cls)] ++ s1.buffers.map (fun b => Out.prioCall "insert_stream" b none))
  else .error .prioMissing

/-- `_send_data(sid)` (one atomic action; the awaits inside it are not interleaved here) -/
def sendData (s : St) (sid : Nat) (o : SendOracle) : R :=
  match sendBody s sid o with
  | (s1, o1, none) => .ok (s1, o1)
  | (s1, o1, some e) => if catches C04Sites.h2SendData e then sendCleanup s1 sid o1 else .error e

inductive NextRes where
  | deadlock
  | stream (sid : Nat) (o : SendOracle)
  | raised (e : Exn)
deriving Repr, DecidableEq

/-- one iteration of `send_task`: `next(self.priority)` inside `try … except <C04Sites.h2SendTaskNext>` -/
def sendTask (s : St) : NextRes → R
  | .deadlock => if catches C04Sites.h2SendTaskNext .prioDeadlock then .ok (s, []) else .error .prioDeadlock
  | .raised e => if catches C04Sites.h2SendTaskNext e then .ok (s, []) else .error e
  | .stream sid o => sendData s sid o

inductive AppOp where
  | headers (lib : Option Exn)                 -- Response / InformationalResponse / Trailers: `send_headers`
  | body (push : Option Exn)                   -- Body / Data: `unblock`, `stream_buffers[sid].push`
  | endBody                                    -- EndBody / EndData: `set_complete`, `unblock`
  | streamClosed (abandon : Bool) (lib : Option Exn)
      -- StreamClosed; `abandon`: `_reset_abandoned_response` finds an incomplete HTTP response; `lib`: its `reset_stream`
deriving Repr, DecidableEq

/-- `_reset_abandoned_response(sid)` (only called with `abandon`: an incomplete response of an HTTP stream): `reset_stream`
    inside `try … except <C04Sites.h2AbandonReset>: return`, then the buffer and the tree entry are dropped -/
def resetAbandoned (s : St) (sid : Nat) (lib : Option Exn) : Partial :=
  match lib with
  | some e => if catches C04Sites.h2AbandonReset e then (s, [.h2call "reset_stream" sid true], none) else (s, [.h2call "reset_stream" sid true], some e)
  | none =>
    let s1 := { s with buffers := keysDel s.buffers sid }
    if s1.inPrio sid then ({ s1 with prio := prioErase s1.prio sid }, [.h2call "reset_stream" sid false, .flush, .prioCall "remove_stream" sid none], none)
    else if catches C04Sites.h2AbandonRemove .prioMissing then
      (s1, [.h2call "reset_stream" sid false, .flush, .prioCall "remove_stream" sid (some Exn.prioMissing.cls)], none)
    else (s1, [.h2call "reset_stream" sid false, .flush, .prioCall "remove_stream" sid (some Exn.prioMissing.cls)], some .prioMissing)

/-- `priority.unblock(sid)` as a protected step -/
def unblockP (s : St) (sid : Nat) : Partial :=
  if s.inPrio sid then ({ s with prio := prioSet s.prio sid true }, [.prioCall "unblock" sid none], none)
  else (s, [.prioCall "unblock" sid (some Exn.prioMissing.cls)], some .prioMissing)

/-- the protected body of `stream_send(event)` for stream `sid` -/
def streamBody (s : St) (sid : Nat) : AppOp → Partial
  | .headers lib =>
    match lib with
    | none => (s, [.h2call "send_headers" sid false, .flush], none)
    | some e => (s, [.h2call "send_headers" sid true], some e)
  | .body push =>
    -- `priority.unblock(sid)`, `has_data.set()`, `stream_buffers[sid].push(data)`
    match unblockP s sid with
    | (s1, o1, some e) => (s1, o1, some e)
    | (s1, o1, none) =>
      if !s1.buffers.contains sid then (s1, o1 ++ [.hasData], some .keyError) else
      match push with
      | some e => (s1, o1 ++ [.hasData], some e)
      | none => (s1, o1 ++ [.hasData], none)
  | .endBody =>
    -- `stream_buffers[sid].set_complete()`, `priority.unblock(sid)`
    if !s.buffers.contains sid then (s, [], some .keyError) else
    match unblockP s sid with
    | (s1, o1, some e) => (s1, o1, some e)
    | (s1, o1, none) => (s1, o1 ++ [.hasData], none)
  | .streamClosed abandon lib =>
    -- `if event.stream_id not in self.streams: return` (already closed: reset by the client, or the connection closed)
    if !s.streams.contains sid then (s, [], none) else
    match (if abandon && s.buffers.contains sid && s.streams.contains sid then resetAbandoned s sid lib else (s, [], none)) with
    | (s1, o1, some e) => (s1, o1, some e)
    | (s1, o1, none) =>
      let s2 := (closeStream s1 sid).1
      let idle := s2.streams.isEmpty
      (s2, o1 ++ (closeStream s1 sid).2 ++ (if idle && s2.terminated then [.connCall "close_connection" false, .flush] else [])
            ++ (if s2.closed then [] else [.upUpdated (if idle then some true else none)]), none)

/-- `stream_send(event)` for stream `sid`: the body inside `try … except <C04Sites.h2StreamSend>: return`.
    What the body did before it raised stays done. -/
def streamSend (s : St) (sid : Nat) (op : AppOp) : R :=
  match streamBody s sid op with
  | (s1, o1, none) => .ok (s1, o1)
  | (s1, o1, some e) => if catches C04Sites.h2StreamSend e then .ok (s1, o1) else .error e

/-! ## operations and runs -/

inductive Op where
  | ev (e : Ev)                        -- one event of the list `receive_data` returned
  | batchEnd                           -- the `_flush()` that ends `_handle_events`
  | recvRaised (e : Exn)               -- `receive_data` raised
  | closed                             -- `handle(Closed)`
  | terminate                          -- `context.terminated` gets set
  | app (sid : Nat) (op : AppOp)       -- an application (or a stream on its behalf) calls `stream_send`
  | sendTask (n : NextRes)             -- the send task runs one iteration
deriving Repr, DecidableEq

def step (kaMax : Nat) (s : St) : Op → R
  | .ev e => onEvent kaMax s e
  | .batchEnd => .ok (s, [.flush])
  | .recvRaised e =>
    -- `except <C04Sites.h2Handle>: await self._flush(); await self.send(Closed())`
    if catches C04Sites.h2Handle e then .ok (s, [.flush, .upClosed]) else .error e
  | .closed =>
    -- every stream is closed; the buffers are closed (emptied, completed) but stay in the dictionary
    .ok ({ s with closed := true, streams := [] }, s.streams.flatMap (fun sid => [Out.toStream sid "streamClosed", .hasData]) ++ [.hasData])
  | .terminate => .ok ({ s with terminated := true }, [])
  | .app sid op => streamSend s sid op
  | .sendTask n => sendTask s n

def run (kaMax : Nat) : St → List Op → R
  | s, [] => .ok (s, [])
  | s, op :: rest =>
    match step kaMax s op with
    | .error e => .error e
    | .ok (s1, o1) =>
      match run kaMax s1 rest with
      | .error e => .error e
      | .ok (s2, o2) => .ok (s2, o1 ++ o2)

/-! ## library well-formedness: what h2 and priority can answer in a given state -/

def optAll (p : Exn → Bool) : Option Exn → Bool
  | none => true
  | some e => p e

/-- h2 (4.x) emits `RequestReceived` only for a header block with `:method`, and with `:path` unless the method is
    exactly `CONNECT` without `:protocol` (`_check_pseudo_header_field_acceptability`) -/
def Req.wf (r : Req) : Bool := r.hasMethod && (r.hasPath || r.isConnect)

def Ev.wf (s : St) : Ev → Bool
  | .request r ins lib =>
    r.wf && optAll Exn.isH2 lib &&
    -- `insert_stream(sid)` (no dependency, default weight): `DuplicateStreamError` iff present, else `TooManyStreamsError` or success
    (match ins with
     | none => !s.inPrio r.sid
     | some e => (e == .prioDuplicate && s.inPrio r.sid) || (e == .prioTooMany && !s.inPrio r.sid))
  | .priority sid _ rep ins _ =>
    -- `reprioritize`: `MissingStreamError` iff absent; any other refusal is a `PriorityError`
    (match rep with
     | none => s.inPrio sid
     | some e => e.isPrio && ((e == .prioMissing) == !s.inPrio sid)) &&
    optAll (fun e => e.isPrio && e != .prioMissing) ins
  | _ => true

def SendOracle.wf (o : SendOracle) : Bool :=
  optAll Exn.isH2 o.window && optAll Exn.isH2 o.send && optAll Exn.isH2 o.endStream

def AppOp.wf : AppOp → Bool
  | .headers lib => optAll Exn.isH2 lib
  | .body push => optAll (· == .bufferComplete) push
  | .endBody => true
  | .streamClosed _ lib => optAll Exn.isH2 lib

/-- `allowRecursion`: the installed priority library recurses once per tree level in `next()`; a dependency chain of
    about a thousand blocked streams (built from PRIORITY frames) makes it raise `RecursionError` (finding F44) -/
def NextRes.wf (allowRecursion : Bool) (s : St) : NextRes → Bool
  | .deadlock => true
  | .stream sid o => s.isActive sid && o.wf
  | .raised e => allowRecursion && e == .recursionError

def Op.wf (allowRecursion : Bool) (s : St) : Op → Bool
  | .ev e => e.wf s
  | .recvRaised e => e.isH2
  | .app _ op => op.wf
  | .sendTask n => n.wf allowRecursion s
  | _ => true

/-- the whole run is one the libraries can produce -/
def LibWf (allowRecursion : Bool) (kaMax : Nat) : St → List Op → Prop
  | _, [] => True
  | s, op :: rest =>
    op.wf allowRecursion s = true ∧
    (∀ s1 o1, step kaMax s op = .ok (s1, o1) → LibWf allowRecursion kaMax s1 rest)

/-- executable form of `LibWf` (used by the driver on tap logs and by `decide` in examples) -/
def libWfB (allowRecursion : Bool) (kaMax : Nat) : St → List Op → Bool
  | _, [] => true
  | s, op :: rest =>
    op.wf allowRecursion s &&
    (match step kaMax s op with
     | .ok (s1, _) => libWfB allowRecursion kaMax s1 rest
     | .error _ => true)

theorem libWfB_sound (ar : Bool) (kaMax : Nat) : ∀ (ops : List Op) (s : St), libWfB ar kaMax s ops = true → LibWf ar kaMax s ops := by
  intro ops
  induction ops with
  | nil => intro s _; trivial
  | cons op rest ih =>
    intro s h
    simp only [libWfB, Bool.and_eq_true] at h
    refine ⟨h.1, ?_⟩
    intro s1 o1 hs
    have h2 := h.2
    simp only [hs] at h2
    exact ih s1 h2

/-- the invariant the reader relies on: every buffered stream is in the priority tree -/
def Inv (s : St) : Prop := ∀ sid, sid ∈ s.buffers → s.inPrio sid = true

/-! ## the "merely unusual" events (class U of the property) and runs without them -/

/-- `some sid`: in state `s` this operation is an odd event of stream `sid`: DATA / END_STREAM for a stream hypercorn
    has forgotten (its response completed), or a request the protocol answers itself (CONNECT without `:path`, non-ASCII
    `:method` / `:path`) -/
def oddSid (s : St) : Op → Option Nat
  | .ev (.data sid) => if s.streams.contains sid then none else some sid
  | .ev (.ended sid) => if s.streams.contains sid then none else some sid
  | .ev (.request r _ _) =>
    if !s.terminated && r.wf && (!r.hasPath || !r.methodAscii || !r.pathAscii) then some r.sid else none
  | _ => none

/-- the run with the odd events of stream `i` left out -/
def runDrop (kaMax : Nat) (i : Nat) : St → List Op → R
  | s, [] => .ok (s, [])
  | s, op :: rest =>
    if oddSid s op = some i then runDrop kaMax i s rest
    else
      match step kaMax s op with
      | .error e => .error e
      | .ok (s1, o1) =>
        match runDrop kaMax i s1 rest with
        | .error e => .error e
        | .ok (s2, o2) => .ok (s2, o1 ++ o2)

/-- what stream `j` can observe: the outputs that carry its id -/
def obs (j : Nat) (o : List Out) : List Out := o.filter (fun x => x.tag == some j)

end HC.Proto.H2Recv
