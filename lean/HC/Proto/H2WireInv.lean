import HC.Props.C09
import HC.Proto.H2Wire
/-!
# H2WireInv — invariants of the send path with contents (`HC.Proto.H2Wire`), used by `HC.Props.C02.h2_response_delivered`

For one stream `i` whose stream events arrive in the order `HTTPStream` produces (head, body*, trailers*, end, closed) and
as long as the stream is not reset and the connection not closed (`Good`), the frames written for `i` are: the response
head, then DATA frames holding — together with what is still buffered — exactly the body bytes handed over so far, then
(once `ended`) the one frame that ends the stream, carrying the pending trailers.
-/
namespace HC.Proto.H2Wire
open HC HC.Proto.H2Send HC.Proto.Heads HC.Props.C09 HC.Extracted

/-! ### lists -/

theorem wireOf_append (i : Nat) (a b : List (Nat × Frame)) : wireOf i (a ++ b) = wireOf i a ++ wireOf i b := by
  simp [wireOf, List.filter_append]

theorem wireOf_tagged (i j : Nat) (l : List Frame) : wireOf i (l.map (fun f => (j, f))) = if j = i then l else [] := by
  induction l with
  | nil => simp [wireOf]
  | cons a t ih =>
    simp only [wireOf, List.map_cons, List.filter_cons] at *
    by_cases h : j = i <;> simp_all

@[simp] theorem dataOf_append (a b : List Frame) : dataOf (a ++ b) = dataOf a ++ dataOf b := by
  induction a with
  | nil => rfl
  | cons x xs ih => cases x <;> simp [dataOf, ih]

theorem filter_isData (w : List Frame) : w.filter Frame.isData = (payloads w).map Frame.data ∧ (payloads w).flatten = dataOf w := by
  induction w with
  | nil => simp [payloads, dataOf]
  | cons x xs ih => cases x <;> simp [payloads, dataOf, Frame.isData, List.filter_cons, ih.1, ih.2]

/-- head frames first, then DATA, then the frame that ends the stream — and nothing else (no RST_STREAM) -/
def Sorted (w : List Frame) : Prop := w = w.filter Frame.isHead ++ w.filter Frame.isData ++ w.filter Frame.isEnd

theorem sorted_nil : Sorted [] := by simp [Sorted]

theorem sorted_snoc_head (w : List Frame) (hs : Headers) (hd : w = []) : Sorted (w ++ [.headers hs]) := by
  subst hd; simp [Sorted, List.filter_cons, Frame.isHead, Frame.isData, Frame.isEnd]

theorem sorted_snoc_data (w : List Frame) (d : Bytes) (h : Sorted w) (he : w.filter Frame.isEnd = []) : Sorted (w ++ [.data d]) := by
  unfold Sorted at *
  rw [he, List.append_nil] at h
  simp only [List.filter_append, he, List.filter_cons, Frame.isHead, Frame.isData, Frame.isEnd, List.filter_nil, List.append_nil,
    Bool.false_eq_true, if_false, if_true]
  rw [← List.append_assoc, ← h]

theorem sorted_snoc_end (w : List Frame) (f : Frame) (h : Sorted w) (hf : f.isEnd = true) (hh : f.isHead = false) (hd : f.isData = false) :
    Sorted (w ++ [f]) := by
  unfold Sorted at *
  simp only [List.filter_append, List.filter_cons, hf, hh, hd, List.filter_nil, List.append_nil, Bool.false_eq_true, if_false, if_true]
  rw [← List.append_assoc, ← h]

theorem endFrame_kind (t : Headers) : (endFrame t).isEnd = true ∧ (endFrame t).isHead = false ∧ (endFrame t).isData = false ∧ dataOf [endFrame t] = [] := by
  unfold endFrame; split <;> simp [Frame.isEnd, Frame.isHead, Frame.isData, dataOf]

/-! ### phases -/

theorem tr_ne_zero (p : Nat) (o : AOp) : tr p o ≠ 0 := by
  cases o <;> simp only [tr] <;> split <;> omega

theorem ph_zero (h : List AOp) : ph h = 0 ↔ h = [] := by
  cases h with
  | nil => simp [ph]
  | cons o r => simp [ph, tr_ne_zero]

theorem ph_range (h : List AOp) : ph h ≤ 4 ∨ ph h = 9 := by
  induction h with
  | nil => simp [ph]
  | cons o r ih => cases o <;> simp only [ph, tr] <;> split <;> omega

/-! ### one step of `H2Send`, seen from one stream -/

def isAppOp : Op → Bool
  | .push _ _ | .end_ _ | .abandon _ => true
  | _ => false

macro "fin_upd" : tactic =>
  `(tactic| ((try simp only [upd, Str.closeBuf, Str.discard, Str.gone, unblockAll]) <;> (repeat' split) <;> (try simp_all) <;> (try omega)))

theorem buf_le (s s' : St) (o : Op) (hs : step s o = some s') (hp : ∀ i n, o ≠ .push i n) (j : Nat) :
    (s'.str j).buf ≤ (s.str j).buf := by
  cases o <;> step_cases hs <;> first | (exact absurd rfl (hp _ _)) | fin_upd

theorem libClosed_mono (s s' : St) (o : Op) (hs : step s o = some s') (j : Nat) (h : (s.str j).libClosed = true) :
    (s'.str j).libClosed = true := by
  cases o <;> step_cases hs <;> fin_upd

theorem closed_mono (s s' : St) (o : Op) (hs : step s o = some s') (h : s.closed = true) : s'.closed = true := by
  cases o <;> step_cases hs <;> simp_all

/-- nothing that matters to the wire changed for the stream -/
def Same (x x' : Str) : Prop :=
  x'.opened = x.opened ∧ x'.complete = x.complete ∧ x'.ended = x.ended ∧ x'.hasBuf = x.hasBuf ∧ x'.buf = x.buf ∧ x'.sent = x.sent ∧
  x'.libClosed = x.libClosed ∧ (x'.pusher = .inAbandon → x.pusher = .inAbandon)

/-- `_create_stream` -/
def KOpen (x x' : Str) : Prop :=
  x.opened = false ∧ x'.opened = true ∧ x'.hasBuf = true ∧ x'.complete = false ∧ x'.ended = false ∧ x'.buf = 0 ∧ x'.sent = 0 ∧
  x'.libClosed = false ∧ x'.pusher = .idle

/-- `_send_data` took `sent' − sent > 0` bytes from the front of the buffer and handed them to `send_data` -/
def KData (x x' : Str) : Prop :=
  x.sent < x'.sent ∧ x'.sent - x.sent ≤ x.buf ∧ x'.buf = x.buf - (x'.sent - x.sent) ∧ x.hasBuf = true ∧ x'.hasBuf = true ∧
  x'.ended = x.ended ∧ x'.complete = x.complete ∧ x'.opened = x.opened ∧ x'.libClosed = x.libClosed ∧ x'.pusher = x.pusher

/-- `_send_data` found the buffer complete and empty: `_end_stream` -/
def KEnd (x x' : Str) : Prop :=
  x.hasBuf = true ∧ x'.hasBuf = true ∧ x.ended = false ∧ x'.ended = true ∧ x.complete = true ∧ x'.complete = true ∧ x.buf = 0 ∧ x'.buf = 0 ∧
  x'.sent = x.sent ∧ x'.opened = x.opened ∧ x'.libClosed = x.libClosed ∧ x'.pusher = x.pusher

/-- the buffer of an ended stream (or no buffer at all) is forgotten -/
def KDiscard (x x' : Str) : Prop :=
  x'.hasBuf = false ∧ x'.buf = 0 ∧ x.buf = 0 ∧ x'.sent = x.sent ∧ x'.ended = x.ended ∧ x'.opened = x.opened ∧ x'.libClosed = x.libClosed ∧
  x'.pusher = x.pusher ∧ (x.hasBuf = true → x.ended = true ∧ x'.complete = true) ∧ (x.hasBuf = false → x'.complete = x.complete)

/-- **what one step of the send path can do to one stream** (every op but the three stream events `push` / `end_` /
    `abandon`): close the connection, reset the stream, nothing that matters, or — only when the op serves this very stream —
    open it, send DATA from the front of its buffer, end it, forget its buffer after the end -/
theorem step_kind (s s' : St) (o : Op) (hI : Inv s) (hs : step s o = some s') (hno : isAppOp o = false) (i : Nat) :
    s'.closed = true ∨ (s'.str i).libClosed = true ∨ Same (s.str i) (s'.str i) ∨
    (opSid o = some i ∧ (KOpen (s.str i) (s'.str i) ∨ KData (s.str i) (s'.str i) ∨ KEnd (s.str i) (s'.str i) ∨ KDiscard (s.str i) (s'.str i))) := by
  have hE := hI.ending i
  have hA := hI.aband i
  have hN := hI.nobuf i
  have hF := hI.fin i
  unfold Same KOpen KData KEnd KDiscard
  cases o <;> simp only [isAppOp, Bool.true_eq_false] at hno <;> step_cases hs <;>
    (try simp only [upd, Str.closeBuf, Str.discard, Str.gone, unblockAll, opSid, Guards.sendDataEnds, Guards.bufferComplete, Guards.bufferPopEmpty] at *) <;>
    (repeat' split) <;> (try subst_vars) <;> (try simp_all) <;> (first | done | omega | grind)

/-! ### the invariant -/

/-- the contents model agrees with the byte counter of every buffer -/
def L (g : G) : Prop := ∀ j, (g.bufB j).length = (g.s.str j).buf

structure JJ (srv : Headers) (g : G) (i : Nat) : Prop where
  jopen : (g.s.str i).opened = false → g.hist i = []
  j0 : g.hist i = [] → wireOf i g.out = [] ∧ g.bufB i = []
  jc : (g.s.str i).complete = true ↔ 3 ≤ ph (g.hist i)
  jh : (wireOf i g.out).filter Frame.isHead = headsOf srv (g.hist i)
  jd : dataOf (wireOf i g.out) ++ g.bufB i = bodyOf (g.hist i)
  jt : (g.s.str i).hasBuf = true → g.trl i = trlOf (g.hist i)
  je : (wireOf i g.out).filter Frame.isEnd = if (g.s.str i).ended then [endFrame (trlOf (g.hist i))] else []
  js : Sorted (wireOf i g.out)

/-- the runs the statement speaks about: connection open, stream not reset, stream events in `HTTPStream`'s order -/
def Good (g : G) (i : Nat) : Prop := g.s.closed = false ∧ (g.s.str i).libClosed = false ∧ ph (g.hist i) ≠ 9

def J (srv : Headers) (g : G) (i : Nat) : Prop := Good g i → JJ srv g i

theorem jj_congr (srv : Headers) (g g' : G) (i : Nat)
    (h1 : (g'.s.str i).opened = (g.s.str i).opened) (h2 : (g'.s.str i).complete = (g.s.str i).complete)
    (h3 : (g'.s.str i).ended = (g.s.str i).ended) (h4 : (g'.s.str i).hasBuf = (g.s.str i).hasBuf)
    (h5 : wireOf i g'.out = wireOf i g.out) (h6 : g'.bufB i = g.bufB i) (h7 : g'.trl i = g.trl i) (h8 : g'.hist i = g.hist i)
    (h : JJ srv g i) : JJ srv g' i := by
  constructor <;> simp only [h1, h2, h3, h4, h5, h6, h7, h8]
  · exact h.jopen
  · exact h.j0
  · exact h.jc
  · exact h.jh
  · exact h.jd
  · exact h.jt
  · exact h.je
  · exact h.js

theorem gstep_low (srv : Headers) (g : G) (o : Op) (hno : ∀ i n, o ≠ .push i n) :
    gstep srv g (.low o) = (step g.s o).map (afterLow g o) := by
  cases o <;> first | (exact absurd rfl (hno _ _)) | (simp only [gstep]; cases step g.s _ <;> rfl)

/-- the wrapped step *is* the `H2Send` step (of the ops `proj` names) on the `H2Send` component -/
theorem gstep_proj (srv : Headers) (g g' : G) (o : GOp) (h : gstep srv g o = some g') : runOk g.s (proj o) = some g'.s := by
  cases o with
  | head i st hs => simp only [gstep] at h; split at h <;> simp at h; subst h; simp [proj, runOk]
  | trailers i hs => simp only [gstep] at h; split at h <;> simp at h; subst h; simp [proj, runOk]
  | body i d =>
    simp only [gstep] at h
    split at h
    · simp at h
    · split at h
      · simp at h
      · rename_i s' hs'
        simp at h; subst h; simp [proj, runOk, hs']
  | low o =>
    by_cases hp : ∃ i n, o = .push i n
    · obtain ⟨i, n, rfl⟩ := hp; simp [gstep] at h
    · have hno : ∀ i n, o ≠ .push i n := fun i n e => hp ⟨i, n, e⟩
      rw [gstep_low srv g o hno] at h
      cases hs : step g.s o with
      | none => simp [hs] at h
      | some s' => simp [hs] at h; subst h; simp [proj, runOk, hs, afterLow]


theorem inv_gstep (srv : Headers) (g g' : G) (o : GOp) (hI : Inv g.s) (hok : gOk g o) (h : gstep srv g o = some g') : Inv g'.s := by
  have hp := gstep_proj srv g g' o h
  cases o with
  | head i st hs => simp [proj, runOk] at hp; rw [← hp]; exact hI
  | trailers i hs => simp [proj, runOk] at hp; rw [← hp]; exact hI
  | body i d =>
    simp only [proj, runOk] at hp
    split at hp
    · cases hp
    · rename_i s1 hs1
      simp at hp; subst hp
      exact inv_step _ _ _ hI (by simp [opOk]) hs1
  | low o =>
    simp only [proj, runOk] at hp
    split at hp
    · cases hp
    · rename_i s1 hs1
      simp at hp; subst hp
      exact inv_step _ _ _ hI hok hs1

theorem l_gstep (srv : Headers) (g g' : G) (o : GOp) (hL : L g) (h : gstep srv g o = some g') : L g' := by
  intro j
  have hj := hL j
  cases o with
  | head i st hs => simp only [gstep] at h; split at h <;> simp at h; subst h; exact hj
  | trailers i hs => simp only [gstep] at h; split at h <;> simp at h; subst h; exact hj
  | body i d =>
    simp only [gstep] at h
    split at h
    · simp at h
    · split at h
      · simp at h
      · rename_i s' hs'
        simp at h; subst h
        simp only
        step_cases hs' <;> ((try simp only [updF, upd]) <;> (repeat' split) <;> (try simp_all) <;> (try omega))
  | low o =>
    by_cases hp : ∃ i n, o = .push i n
    · obtain ⟨i, n, rfl⟩ := hp; simp [gstep] at h
    · have hno : ∀ i n, o ≠ .push i n := fun i n e => hp ⟨i, n, e⟩
      rw [gstep_low srv g o hno] at h
      cases hs : step g.s o with
      | none => simp [hs] at h
      | some s' =>
        simp [hs] at h; subst h
        have := buf_le _ _ _ hs hno j
        simp only [afterLow, List.length_drop]
        omega

theorem hist_gstep (srv : Headers) (g g' : G) (o : GOp) (i : Nat) (h : gstep srv g o = some g') :
    g'.hist i = (match appOf i o with | some a => [a] | none => []) ++ g.hist i := by
  cases o with
  | head j st hs =>
    simp only [gstep] at h; split at h <;> simp at h; subst h
    by_cases hji : j = i <;> simp [appOf, hji, updF]
    intro h2; exact absurd h2.symm hji
  | trailers j hs =>
    simp only [gstep] at h; split at h <;> simp at h; subst h
    by_cases hji : j = i <;> simp [appOf, hji, updF]
    intro h2; exact absurd h2.symm hji
  | body j d =>
    simp only [gstep] at h
    split at h
    · simp at h
    · split at h
      · simp at h
      · simp at h; subst h
        by_cases hji : j = i <;> simp [appOf, hji, updF]
        intro h2; exact absurd h2.symm hji
  | low o =>
    by_cases hp : ∃ i n, o = .push i n
    · obtain ⟨i, n, rfl⟩ := hp; simp [gstep] at h
    · have hno : ∀ i n, o ≠ .push i n := fun i n e => hp ⟨i, n, e⟩
      rw [gstep_low srv g o hno] at h
      cases hs : step g.s o with
      | none => simp [hs] at h
      | some s' =>
        simp [hs] at h; subst h
        cases o <;> simp only [afterLow, appOf, List.nil_append] <;>
          (try (rename_i j; by_cases hji : j = i <;> simp [hji, updF]; intro h2; exact absurd h2.symm hji))


theorem gstep_s (srv : Headers) (g g' : G) (o : GOp) (h : gstep srv g o = some g') : g'.s = g.s ∨ ∃ op, step g.s op = some g'.s := by
  have hp := gstep_proj srv g g' o h
  cases o <;> simp only [proj, runOk] at hp
  · left; simpa using hp.symm
  · right; split at hp
    · cases hp
    · rename_i s1 hs1; simp at hp; subst hp; exact ⟨_, hs1⟩
  · left; simpa using hp.symm
  · right; split at hp
    · cases hp
    · rename_i s1 hs1; simp at hp; subst hp; exact ⟨_, hs1⟩

theorem tr_nine (a : AOp) : tr 9 a = 9 := by cases a <;> simp [tr]

theorem good_mono (srv : Headers) (g g' : G) (o : GOp) (i : Nat) (h : gstep srv g o = some g') (hg : Good g' i) : Good g i := by
  obtain ⟨h1, h2, h3⟩ := hg
  have hh := hist_gstep srv g g' o i h
  refine ⟨?_, ?_, ?_⟩
  · rcases gstep_s srv g g' o h with e | ⟨op, hs⟩
    · rw [← e]; exact h1
    · cases hc : g.s.closed
      · rfl
      · have := closed_mono _ _ _ hs hc; simp [h1] at this
  · rcases gstep_s srv g g' o h with e | ⟨op, hs⟩
    · rw [← e]; exact h2
    · cases hc : (g.s.str i).libClosed
      · rfl
      · have := libClosed_mono _ _ _ hs i hc; simp [h2] at this
  · intro h9
    apply h3
    rw [hh]
    cases appOf i o with
    | none => simpa using h9
    | some a => simp [ph, h9, tr_nine]


theorem wireOf_single (i j : Nat) (f : Frame) : wireOf i [(j, f)] = if j = i then [f] else [] := by
  by_cases h : j = i <;> simp [wireOf, h]

theorem not_ended_of_phase (g : G) (i : Nat) (hI : Inv g.s) (srv : Headers) (jj : JJ srv g i) (hp : ph (g.hist i) < 3) :
    (g.s.str i).complete = false ∧ (g.s.str i).ended = false := by
  have hc : (g.s.str i).complete = false := by
    cases hcc : (g.s.str i).complete
    · rfl
    · have := jj.jc.mp hcc; omega
  refine ⟨hc, ?_⟩
  cases he : (g.s.str i).ended
  · rfl
  · have := (hI.fin i he).1; simp [hc] at this

theorem jj_head (srv : Headers) (g g' : G) (j st : Nat) (hs : Headers) (i : Nat) (hI : Inv g.s) (hJ : J srv g i)
    (h : gstep srv g (.head j st hs) = some g') : J srv g' i := by
  intro hgood'
  have hgood := good_mono srv g g' _ i h hgood'
  have jj := hJ hgood
  obtain ⟨hc', hl', hp'⟩ := hgood'
  obtain ⟨hc, hl, hp⟩ := hgood
  simp only [gstep] at h
  split at h
  · simp at h
  · rename_i hop
    simp only [Option.some.injEq] at h
    subst h
    by_cases hji : j = i
    · subst hji
      simp only [updF_same, ph, tr] at hp'
      have hp0 : ph (g.hist j) = 0 := by
        by_cases h0 : ph (g.hist j) = 0
        · exact h0
        · simp [h0] at hp'
      have hh0 : g.hist j = [] := (ph_zero _).mp hp0
      obtain ⟨hw, hb⟩ := jj.j0 hh0
      obtain ⟨hcf, hef⟩ := not_ended_of_phase g j hI srv jj (by omega)
      have hout : wireOf j (if (!(g.s.str j).libClosed && !(g.s.str j).ended) = true then g.out ++ [(j, Frame.headers (h2Headers st hs srv))] else g.out)
          = [Frame.headers (h2Headers st hs srv)] := by
        simp [hl, hef, wireOf_append, hw, wireOf_single]
      constructor
      · intro ho; simp at hop; simp [hop] at ho
      · intro hh; simp at hh
      · simp only [updF_same, ph, tr, hp0]; simp [hcf]
      · simp only [hout, updF_same, hh0, headsOf]; simp [List.filter_cons, Frame.isHead]
      · simp only [hout, updF_same, hh0, bodyOf, dataOf]; simp [hb]
      · intro hb2; simp only [updF_same, trlOf]; exact jj.jt hb2
      · dsimp only; rw [hout]; simp [hef, List.filter_cons, Frame.isEnd]
      · dsimp only; rw [hout]; exact sorted_snoc_head [] _ rfl
    · refine jj_congr srv g _ i ?_ ?_ ?_ ?_ ?_ ?_ ?_ ?_ jj <;> try rfl
      · dsimp only; split
        · simp [wireOf_append, wireOf_single, hji]
        · rfl
      · simp [updF, Ne.symm hji]


theorem push_fields (s s' : St) (i n : Nat) (hs : step s (.push i n) = some s') :
    (s'.str i).opened = (s.str i).opened ∧ (s'.str i).complete = (s.str i).complete ∧ (s'.str i).ended = (s.str i).ended ∧
    (s'.str i).hasBuf = (s.str i).hasBuf ∧ (s'.str i).libClosed = (s.str i).libClosed := by
  step_cases hs <;> fin_upd

theorem end_fields (s s' : St) (i : Nat) (hs : step s (.end_ i) = some s') :
    (s'.str i).opened = (s.str i).opened ∧ (s'.str i).complete = ((s.str i).complete || (s.str i).hasBuf) ∧ (s'.str i).ended = (s.str i).ended ∧
    (s'.str i).hasBuf = (s.str i).hasBuf ∧ (s'.str i).buf = (s.str i).buf ∧ (s'.str i).sent = (s.str i).sent ∧
    (s'.str i).pusher ≠ .inAbandon := by
  step_cases hs <;> fin_upd

theorem abandon_fields (s s' : St) (i : Nat) (hs : step s (.abandon i) = some s') (hc : (s.str i).complete = true) :
    (s'.str i).opened = (s.str i).opened ∧ (s'.str i).complete = (s.str i).complete ∧ (s'.str i).ended = (s.str i).ended ∧
    (s'.str i).hasBuf = (s.str i).hasBuf ∧ (s'.str i).buf = (s.str i).buf ∧ (s'.str i).sent = (s.str i).sent ∧
    (s'.str i).pusher ≠ .inAbandon := by
  step_cases hs <;> fin_upd

theorem has_buf (g : G) (i : Nat) (hI : Inv g.s) (srv : Headers) (jj : JJ srv g i) (hl : (g.s.str i).libClosed = false)
    (hp : ph (g.hist i) < 3) (hne : g.hist i ≠ []) : (g.s.str i).hasBuf = true ∧ (g.s.str i).inTree = true ∧ (g.s.str i).opened = true := by
  obtain ⟨hcf, hef⟩ := not_ended_of_phase g i hI srv jj hp
  have ho : (g.s.str i).opened = true := by
    cases h : (g.s.str i).opened
    · exact absurd (jj.jopen h) hne
    · rfl
  have hb : (g.s.str i).hasBuf = true := by
    cases h : (g.s.str i).hasBuf
    · rcases hI.gone i ho h with h1 | h1 <;> simp_all
    · rfl
  exact ⟨hb, hI.tree.1 i hb, ho⟩

theorem jj_trailers (srv : Headers) (g g' : G) (j : Nat) (hs : Headers) (i : Nat) (hI : Inv g.s) (hJ : J srv g i)
    (h : gstep srv g (.trailers j hs) = some g') : J srv g' i := by
  intro hgood'
  have hgood := good_mono srv g g' _ i h hgood'
  have jj := hJ hgood
  obtain ⟨hc', hl', hp'⟩ := hgood'
  obtain ⟨hc, hl, hp⟩ := hgood
  simp only [gstep] at h
  split at h
  · simp at h
  · rename_i hop
    simp only [Option.some.injEq] at h
    subst h
    by_cases hji : j = i
    · subst hji
      simp only [updF_same, ph, tr] at hp'
      have hp12 : ph (g.hist j) = 1 ∨ ph (g.hist j) = 2 := by
        by_cases h0 : ph (g.hist j) = 1 ∨ ph (g.hist j) = 2
        · exact h0
        · simp [h0] at hp'
      obtain ⟨hcf, hef⟩ := not_ended_of_phase g j hI srv jj (by omega)
      constructor
      · intro ho; simp at hop; simp [hop] at ho
      · intro hh; simp at hh
      · simp only [updF_same, ph, tr, hp12]; simp [hcf]
      · simp only [updF_same, headsOf]; exact jj.jh
      · simp only [updF_same, bodyOf]; exact jj.jd
      · intro hb2; simp only [updF_same, trlOf]; simp only at hb2; simp [hb2, jj.jt hb2]
      · simp only [updF_same, trlOf]; simp only [hef]; have := jj.je; simpa [hef] using this
      · exact jj.js
    · refine jj_congr srv g _ i ?_ ?_ ?_ ?_ ?_ ?_ ?_ ?_ jj <;> try rfl
      · dsimp only; split
        · simp [updF, Ne.symm hji]
        · rfl
      · simp [updF, Ne.symm hji]


theorem jj_body (srv : Headers) (g g' : G) (j : Nat) (d : Bytes) (i : Nat) (hI : Inv g.s) (hJ : J srv g i)
    (h : gstep srv g (.body j d) = some g') : J srv g' i := by
  intro hgood'
  have hgood := good_mono srv g g' _ i h hgood'
  have jj := hJ hgood
  obtain ⟨hc', hl', hp'⟩ := hgood'
  obtain ⟨hc, hl, hp⟩ := hgood
  simp only [gstep] at h
  split at h
  · simp at h
  · split at h
    · simp at h
    · rename_i hop s' hs'
      simp only [Option.some.injEq] at h
      subst h
      by_cases hji : j = i
      · subst hji
        simp only [updF_same, ph, tr] at hp'
        have hp1 : ph (g.hist j) = 1 := by
          by_cases h0 : ph (g.hist j) = 1
          · exact h0
          · simp [h0] at hp'
        have hne : g.hist j ≠ [] := by intro h0; rw [h0] at hp1; simp [ph] at hp1
        obtain ⟨hcf, hef⟩ := not_ended_of_phase g j hI srv jj (by omega)
        obtain ⟨hb, ht, ho⟩ := has_buf g j hI srv jj hl (by omega) hne
        obtain ⟨f1, f2, f3, f4, f5⟩ := push_fields _ _ _ _ hs'
        constructor
        · intro ho2; simp only [f1, ho] at ho2; cases ho2
        · intro hh; simp at hh
        · simp only [updF_same, ph, tr, hp1, f2, hcf]; simp
        · simp only [updF_same, headsOf]; exact jj.jh
        · simp only [updF_same, bodyOf, ht, hb, hcf]; simp [← jj.jd]
        · intro hb2; simp only [updF_same, trlOf]; exact jj.jt hb
        · simp only [updF_same, trlOf, f3]; exact jj.je
        · exact jj.js
      · have hfr : s'.str i = g.s.str i := stream_op_frame _ _ _ j i rfl (Ne.symm hji) hs'
        refine jj_congr srv g _ i ?_ ?_ ?_ ?_ ?_ ?_ ?_ ?_ jj <;> (try rfl) <;> (try (simp only [hfr]; done))
        · dsimp only; split
          · simp [updF, Ne.symm hji]
          · rfl
        · simp [updF, Ne.symm hji]


theorem wire_afterLow (g : G) (o : Op) (s' : St) (i : Nat) :
    wireOf i (afterLow g o s').out = wireOf i g.out ++ (if opSid o = some i then emitF g s' i else []) := by
  simp only [afterLow, wireOf_append]
  cases hsid : opSid o with
  | none => simp [wireOf]
  | some j =>
    simp only [wireOf_tagged]
    by_cases hji : j = i
    · subst hji; simp
    · simp [hji]

theorem emitF_nil (g : G) (s' : St) (i : Nat) (h1 : (s'.str i).sent = (g.s.str i).sent) (h2 : (s'.str i).ended = (g.s.str i).ended)
    (h3 : (s'.str i).pusher = .inAbandon → (g.s.str i).pusher = .inAbandon) : emitF g s' i = [] := by
  simp only [emitF, h1, h2, Nat.lt_irrefl, if_false, List.nil_append]
  cases he : (g.s.str i).ended <;> simp
  all_goals (intro h4; exact h3 h4)

/-- a step of the send path that changes nothing that matters for stream `i` keeps its invariant -/
theorem jj_same (srv : Headers) (g : G) (o : Op) (s' : St) (i : Nat) (jj : JJ srv g i) (hsame : Same (g.s.str i) (s'.str i))
    (hh : (afterLow g o s').hist i = g.hist i) : JJ srv (afterLow g o s') i := by
  obtain ⟨h1, h2, h3, h4, h5, h6, h7, h8⟩ := hsame
  refine jj_congr srv g _ i h1 h2 h3 h4 ?_ ?_ ?_ hh jj
  · rw [wire_afterLow, emitF_nil g s' i h6 h3 h8]; simp
  · simp [afterLow, h5]
  · simp [afterLow, h1]

theorem jj_end (srv : Headers) (g g' : G) (j : Nat) (i : Nat) (hI : Inv g.s) (hJ : J srv g i)
    (h : gstep srv g (.low (.end_ j)) = some g') : J srv g' i := by
  intro hgood'
  have hgood := good_mono srv g g' _ i h hgood'
  have jj := hJ hgood
  obtain ⟨hc', hl', hp'⟩ := hgood'
  obtain ⟨hc, hl, hp⟩ := hgood
  rw [gstep_low srv g _ (by intro a b e; cases e)] at h
  cases hs : step g.s (.end_ j) with
  | none => simp [hs] at h
  | some s' =>
    simp only [hs, Option.map_some, Option.some.injEq] at h
    subst h
    by_cases hji : j = i
    · subst hji
      have hhist : (afterLow g (.end_ j) s').hist j = .end_ :: g.hist j := by simp [afterLow]
      rw [hhist] at hp'
      simp only [ph, tr] at hp'
      have hp12 : ph (g.hist j) = 1 ∨ ph (g.hist j) = 2 := by
        by_cases h0 : ph (g.hist j) = 1 ∨ ph (g.hist j) = 2
        · exact h0
        · simp [h0] at hp'
      have hne : g.hist j ≠ [] := by intro h0; rw [h0] at hp12; simp [ph] at hp12
      obtain ⟨hcf, hef⟩ := not_ended_of_phase g j hI srv jj (by omega)
      obtain ⟨hb, ht, ho⟩ := has_buf g j hI srv jj hl (by omega) hne
      obtain ⟨f1, f2, f3, f4, f5, f6, f7⟩ := end_fields _ _ _ hs
      have hw : wireOf j (afterLow g (.end_ j) s').out = wireOf j g.out := by
        rw [wire_afterLow, emitF_nil g s' j f6 f3 (fun h => absurd h f7)]; simp
      have hbb : (afterLow g (.end_ j) s').bufB j = g.bufB j := by simp [afterLow, f5]
      have htt : (afterLow g (.end_ j) s').trl j = g.trl j := by simp [afterLow, f1]
      have hss : (afterLow g (.end_ j) s').s = s' := rfl
      constructor
      · rw [hss, f1, ho]; intro h2; cases h2
      · rw [hhist]; intro hh; cases hh
      · rw [hss, hhist, f2, hb]; simp only [ph, tr, hp12]; simp
      · rw [hw, hhist]; simp only [headsOf]; exact jj.jh
      · rw [hw, hbb, hhist]; simp only [bodyOf]; exact jj.jd
      · rw [hss, htt, hhist]; intro _; simp only [trlOf]; exact jj.jt hb
      · rw [hw, hss, hhist, f3]; simp only [trlOf]; exact jj.je
      · rw [hw]; exact jj.js
    · have hfr : s'.str i = g.s.str i := stream_op_frame _ _ _ j i rfl (Ne.symm hji) hs
      apply jj_same srv g _ s' i jj
      · rw [hfr]; simp [Same]
      · simp [afterLow, updF, Ne.symm hji]

theorem jj_abandon (srv : Headers) (g g' : G) (j : Nat) (i : Nat) (hJ : J srv g i)
    (h : gstep srv g (.low (.abandon j)) = some g') : J srv g' i := by
  intro hgood'
  have hgood := good_mono srv g g' _ i h hgood'
  have jj := hJ hgood
  obtain ⟨hc', hl', hp'⟩ := hgood'
  obtain ⟨hc, hl, hp⟩ := hgood
  rw [gstep_low srv g _ (by intro a b e; cases e)] at h
  cases hs : step g.s (.abandon j) with
  | none => simp [hs] at h
  | some s' =>
    simp only [hs, Option.map_some, Option.some.injEq] at h
    subst h
    by_cases hji : j = i
    · subst hji
      have hhist : (afterLow g (.abandon j) s').hist j = .closed :: g.hist j := by simp [afterLow]
      rw [hhist] at hp'
      simp only [ph, tr] at hp'
      have hp3 : ph (g.hist j) = 3 := by
        by_cases h0 : ph (g.hist j) = 3
        · exact h0
        · simp [h0] at hp'
      have hne : g.hist j ≠ [] := by intro h0; rw [h0] at hp3; simp [ph] at hp3
      have hcpl : (g.s.str j).complete = true := jj.jc.mpr (by omega)
      obtain ⟨f1, f2, f3, f4, f5, f6, f7⟩ := abandon_fields _ _ _ hs hcpl
      have hw : wireOf j (afterLow g (.abandon j) s').out = wireOf j g.out := by
        rw [wire_afterLow, emitF_nil g s' j f6 f3 (fun h => absurd h f7)]; simp
      have hbb : (afterLow g (.abandon j) s').bufB j = g.bufB j := by simp [afterLow, f5]
      have htt : (afterLow g (.abandon j) s').trl j = g.trl j := by simp [afterLow, f1]
      have hss : (afterLow g (.abandon j) s').s = s' := rfl
      constructor
      · rw [hss, f1, hhist]; intro h2; exact absurd (jj.jopen h2) hne
      · rw [hhist]; intro hh; cases hh
      · rw [hss, hhist, f2, hcpl]; simp only [ph, tr, hp3]; simp
      · rw [hw, hhist]; simp only [headsOf]; exact jj.jh
      · rw [hw, hbb, hhist]; simp only [bodyOf]; exact jj.jd
      · rw [hss, htt, hhist, f4]; simp only [trlOf]; exact jj.jt
      · rw [hw, hss, hhist, f3]; simp only [trlOf]; exact jj.je
      · rw [hw]; exact jj.js
    · have hfr : s'.str i = g.s.str i := stream_op_frame _ _ _ j i rfl (Ne.symm hji) hs
      apply jj_same srv g _ s' i jj
      · rw [hfr]; simp [Same]
      · simp [afterLow, updF, Ne.symm hji]


theorem hist_afterLow (g : G) (o : Op) (s' : St) (i : Nat) (hno : isAppOp o = false) : (afterLow g o s').hist i = g.hist i := by
  cases o <;> simp [isAppOp] at hno <;> rfl

theorem jj_low (srv : Headers) (g g' : G) (o : Op) (i : Nat) (hI : Inv g.s) (hL : L g) (hJ : J srv g i) (hno : isAppOp o = false)
    (h : gstep srv g (.low o) = some g') : J srv g' i := by
  intro hgood'
  have hgood := good_mono srv g g' _ i h hgood'
  have jj := hJ hgood
  obtain ⟨hc', hl', hp'⟩ := hgood'
  obtain ⟨hc, hl, hp⟩ := hgood
  rw [gstep_low srv g _ (by intro a b e; subst e; simp [isAppOp] at hno)] at h
  cases hs : step g.s o with
  | none => simp [hs] at h
  | some s' =>
    simp only [hs, Option.map_some, Option.some.injEq] at h
    subst h
    have hhist := hist_afterLow g o s' i hno
    have hss : (afterLow g o s').s = s' := rfl
    have hLi := hL i
    rcases step_kind _ _ _ hI hs hno i with hk | hk | hk | ⟨hsid, hk | hk | hk | hk⟩
    · rw [hss] at hc'; simp [hc'] at hk
    · rw [hss] at hl'; simp [hl'] at hk
    · exact jj_same srv g o s' i jj hk hhist
    · -- the stream is opened: nothing was written before, nothing is written now
      obtain ⟨k1, k2, k3, k4, k5, k6, k7, k8, k9⟩ := hk
      have hh0 := jj.jopen k1
      obtain ⟨hw0, hb0⟩ := jj.j0 hh0
      have hw : wireOf i (afterLow g o s').out = [] := by
        rw [wire_afterLow, hw0, if_pos hsid]
        simp [emitF, k7, k5, k9]
      have hbb : (afterLow g o s').bufB i = [] := by simp [afterLow, hb0]
      have htt : (afterLow g o s').trl i = [] := by simp [afterLow, k1, k2]
      constructor
      · rw [hss, k2]; intro h2; cases h2
      · intro _; exact ⟨hw, hbb⟩
      · rw [hss, hhist, hh0, k4]; simp [ph]
      · rw [hw, hhist, hh0]; simp [headsOf]
      · rw [hw, hbb, hhist, hh0]; simp [dataOf, bodyOf]
      · intro _; rw [htt, hhist, hh0]; simp [trlOf]
      · rw [hw, hss, k5]; simp
      · rw [hw]; exact sorted_nil
    · -- a DATA frame: the first `sent' − sent` buffered bytes
      obtain ⟨k1, k2, k3, k4, k5, k6, k7, k8, k9, k10⟩ := hk
      have hbpos : 0 < (g.s.str i).buf := by omega
      have hef : (g.s.str i).ended = false := by
        cases he : (g.s.str i).ended
        · rfl
        · have := (hI.fin i he).2.1; omega
      have hw : wireOf i (afterLow g o s').out = wireOf i g.out ++ [Frame.data ((g.bufB i).take ((s'.str i).sent - (g.s.str i).sent))] := by
        rw [wire_afterLow, if_pos hsid]
        simp [emitF, k1, k6, k10, hef]
      have hbb : (afterLow g o s').bufB i = (g.bufB i).drop ((s'.str i).sent - (g.s.str i).sent) := by
        simp only [afterLow, k3]
        congr 1
        omega
      have htt : (afterLow g o s').trl i = g.trl i := by simp [afterLow, k8]
      have hend0 : (wireOf i g.out).filter Frame.isEnd = [] := by have := jj.je; simpa [hef] using this
      constructor
      · rw [hss, k8, hhist]; exact jj.jopen
      · rw [hhist]; intro h0
        have := (jj.j0 h0).2
        rw [this] at hLi; simp at hLi; omega
      · rw [hss, hhist, k7]; exact jj.jc
      · rw [hw, hhist]; simp [List.filter_append, List.filter_cons, Frame.isHead, jj.jh]
      · rw [hw, hbb, hhist, ← jj.jd]; simp [dataOf, List.append_assoc]
      · rw [hss, htt, hhist]; intro _; exact jj.jt k4
      · rw [hw, hss, hhist, k6, hef]; simp [List.filter_append, List.filter_cons, Frame.isEnd, hend0]
      · rw [hw]; exact sorted_snoc_data _ _ jj.js hend0
    · -- the end of the stream: the frame `_end_stream` writes, with the pending trailers
      obtain ⟨k1, k2, k3, k4, k5, k6, k7, k8, k9, k10, k11, k12⟩ := hk
      have hw : wireOf i (afterLow g o s').out = wireOf i g.out ++ [endFrame (trlOf (g.hist i))] := by
        rw [wire_afterLow, if_pos hsid]
        simp [emitF, k9, k3, k4, k12, jj.jt k1]
      have hbb : (afterLow g o s').bufB i = g.bufB i := by simp [afterLow, k7, k8]
      have htt : (afterLow g o s').trl i = g.trl i := by simp [afterLow, k10]
      have hend0 : (wireOf i g.out).filter Frame.isEnd = [] := by have := jj.je; simpa [k3] using this
      obtain ⟨e1, e2, e3, e4⟩ := endFrame_kind (trlOf (g.hist i))
      constructor
      · rw [hss, k10, hhist]; exact jj.jopen
      · rw [hhist]; intro h0
        have := jj.jc.mp k5
        rw [h0] at this; simp [ph] at this
      · rw [hss, hhist]; exact ⟨fun _ => jj.jc.mp k5, fun _ => k6⟩
      · rw [hw, hhist]; simp [List.filter_append, List.filter_cons, e2, jj.jh]
      · rw [hw, hbb, hhist, ← jj.jd]; simp [e4]
      · rw [hss, htt, hhist]; intro _; exact jj.jt k1
      · rw [hw, hss, hhist, k4]; simp [List.filter_append, List.filter_cons, e1, hend0]
      · rw [hw]; exact sorted_snoc_end _ _ jj.js e1 e2 e3
    · -- the buffer of the ended stream is forgotten
      obtain ⟨k1, k2, k3, k4, k5, k6, k7, k8, k9, k10⟩ := hk
      have hw : wireOf i (afterLow g o s').out = wireOf i g.out := by
        rw [wire_afterLow, emitF_nil g s' i k4 k5 (by rw [k8]; exact id)]; simp
      have hbb : (afterLow g o s').bufB i = g.bufB i := by simp [afterLow, k2, k3]
      have htt : (afterLow g o s').trl i = g.trl i := by simp [afterLow, k6]
      constructor
      · rw [hss, k6, hhist]; exact jj.jopen
      · rw [hhist, hw, hbb]; exact jj.j0
      · rw [hss, hhist]
        cases hb : (g.s.str i).hasBuf
        · rw [k10 hb]; exact jj.jc
        · obtain ⟨he, hc2⟩ := k9 hb
          rw [hc2]
          have := jj.jc.mp (hI.fin i he).1
          simp [this]
      · rw [hw, hhist]; exact jj.jh
      · rw [hw, hbb, hhist]; exact jj.jd
      · rw [hss, k1]; intro h2; cases h2
      · rw [hw, hss, hhist, k5]; exact jj.je
      · rw [hw]; exact jj.js


/-- **one step keeps the per-stream invariant**, whatever the step is -/
theorem jj_step (srv : Headers) (g g' : G) (o : GOp) (i : Nat) (hI : Inv g.s) (hL : L g) (hJ : J srv g i)
    (h : gstep srv g o = some g') : J srv g' i := by
  cases o with
  | head j st hs => exact jj_head srv g g' j st hs i hI hJ h
  | body j d => exact jj_body srv g g' j d i hI hJ h
  | trailers j hs => exact jj_trailers srv g g' j hs i hI hJ h
  | low o =>
    cases o
    case push => simp [gstep] at h
    case end_ j => exact jj_end srv g g' j i hI hJ h
    case abandon j => exact jj_abandon srv g g' j i hJ h
    all_goals exact jj_low srv g g' _ i hI hL hJ rfl h

/-- everything that holds of every reachable wrapped state -/
structure P (srv : Headers) (g : G) : Prop where
  inv : Inv g.s
  len : L g
  str : ∀ i, J srv g i

theorem p_init (srv : Headers) (cw : Int) (mf : Nat) (hmf : 0 < mf) : P srv (ginit cw mf) := by
  refine ⟨inv_init cw mf hmf, ?_, ?_⟩
  · intro j; simp [ginit, init]
  · intro i _
    constructor <;> simp [ginit, init, wireOf, ph, headsOf, dataOf, bodyOf, trlOf, sorted_nil]

theorem p_step (srv : Headers) (g g' : G) (o : GOp) (hp : P srv g) (hok : gOk g o) (h : gstep srv g o = some g') : P srv g' :=
  ⟨inv_gstep srv g g' o hp.inv hok h, l_gstep srv g g' o hp.len h, fun i => jj_step srv g g' o i hp.inv hp.len (hp.str i) h⟩

theorem p_run (srv : Headers) (ops : List GOp) : ∀ (g g' : G), P srv g → gAllOk srv g ops → grun srv g ops = some g' → P srv g' := by
  induction ops with
  | nil => intro g g' hp _ hr; simp [grun] at hr; subst hr; exact hp
  | cons o os ih =>
    intro g g' hp hok hr
    simp only [grun] at hr
    simp only [gAllOk] at hok
    split at hr
    · cases hr
    · rename_i g1 hg1
      rw [hg1] at hok
      exact ih g1 g' (p_step srv g g1 o hp hok.1 hg1) hok.2 hr

/-- **the wrapped run is an `H2Send` run** (of the ops `proj` names) that meets `opOk`: every theorem about the reachable states
    of `H2Send` (C08, C09) holds of the `H2Send` component of every reachable wrapped state -/
theorem run_proj (srv : Headers) (ops : List GOp) : ∀ (g g' : G), gAllOk srv g ops → grun srv g ops = some g' →
    runOk g.s (ops.flatMap proj) = some g'.s ∧ allOk g.s (ops.flatMap proj) := by
  induction ops with
  | nil => intro g g' _ hr; simp [grun] at hr; subst hr; simp [runOk, allQ]
  | cons o os ih =>
    intro g g' hok hr
    simp only [grun] at hr
    simp only [gAllOk] at hok
    split at hr
    · cases hr
    · rename_i g1 hg1
      rw [hg1] at hok
      obtain ⟨ih1, ih2⟩ := ih g1 g' hok.2 hr
      have hp := gstep_proj srv g g1 o hg1
      cases o with
      | head i st hs => simp [proj, runOk] at hp; simp only [List.flatMap_cons, proj, List.nil_append]; rw [hp]; exact ⟨ih1, ih2⟩
      | trailers i hs => simp [proj, runOk] at hp; simp only [List.flatMap_cons, proj, List.nil_append]; rw [hp]; exact ⟨ih1, ih2⟩
      | body i d =>
        simp only [proj, runOk] at hp
        split at hp
        · cases hp
        · rename_i s1 hs1
          simp at hp; subst hp
          simp only [List.flatMap_cons, proj, List.singleton_append, runOk, allQ, hs1]
          exact ⟨ih1, by simp [opOk], ih2⟩
      | low op =>
        simp only [proj, runOk] at hp
        split at hp
        · cases hp
        · rename_i s1 hs1
          simp at hp; subst hp
          simp only [List.flatMap_cons, proj, List.singleton_append, runOk, allQ, hs1]
          exact ⟨ih1, hok.1, ih2⟩

theorem run_reachable (srv : Headers) (cw : Int) (mf : Nat) (hmf : 0 < mf) (ops : List GOp) (g : G)
    (hok : gAllOk srv (ginit cw mf) ops) (hr : grun srv (ginit cw mf) ops = some g) : Reachable g.s := by
  obtain ⟨h1, h2⟩ := run_proj srv ops _ _ hok hr
  exact HC.Props.C09.reachable_of_run cw mf _ g.s hmf h2 h1

/-- the history of a stream is the stream events of the schedule, newest first -/
theorem run_hist (srv : Headers) (i : Nat) (ops : List GOp) : ∀ (g g' : G), grun srv g ops = some g' →
    g'.hist i = (appOps i ops).reverse ++ g.hist i := by
  induction ops with
  | nil => intro g g' hr; simp [grun] at hr; subst hr; simp [appOps]
  | cons o os ih =>
    intro g g' hr
    simp only [grun] at hr
    split at hr
    · cases hr
    · rename_i g1 hg1
      rw [ih g1 g' hr, hist_gstep srv g g1 o i hg1]
      simp only [appOps, List.filterMap_cons]
      cases appOf i o <;> simp

/-! ### reading the history of a whole response -/

theorem bodyOf_append (x y : List AOp) : bodyOf (x ++ y) = bodyOf y ++ bodyOf x := by
  induction x with
  | nil => simp [bodyOf]
  | cons a t ih => cases a <;> simp [bodyOf, ih]

theorem trlOf_append (x y : List AOp) : trlOf (x ++ y) = trlOf y ++ trlOf x := by
  induction x with
  | nil => simp [trlOf]
  | cons a t ih => cases a <;> simp [trlOf, ih]

theorem headsOf_append (srv : Headers) (x y : List AOp) : headsOf srv (x ++ y) = headsOf srv y ++ headsOf srv x := by
  induction x with
  | nil => simp [headsOf]
  | cons a t ih => cases a <;> simp [headsOf, ih]

/-- the stream events of one whole response, in order: head, body chunks, trailers, end of body, (stream closed) -/
def script (status : Nat) (vh : Headers) (ds : List Bytes) (ts : List Headers) (closed : Bool) : List AOp :=
  [.head status vh] ++ ds.map .body ++ ts.map .trailers ++ [.end_] ++ (if closed then [.closed] else [])

theorem bodyOf_bodies (ds : List Bytes) : bodyOf (ds.map AOp.body).reverse = ds.flatten := by
  induction ds with
  | nil => rfl
  | cons d t ih => simp [bodyOf_append, bodyOf, ih]

theorem bodyOf_trailers (ts : List Headers) : bodyOf (ts.map AOp.trailers).reverse = [] := by
  induction ts with
  | nil => rfl
  | cons d t ih => simp [bodyOf_append, bodyOf, ih]

theorem trlOf_trailers (ts : List Headers) : trlOf (ts.map AOp.trailers).reverse = ts.flatten := by
  induction ts with
  | nil => rfl
  | cons d t ih => simp [trlOf_append, trlOf, ih]

theorem trlOf_bodies (ds : List Bytes) : trlOf (ds.map AOp.body).reverse = [] := by
  induction ds with
  | nil => rfl
  | cons d t ih => simp [trlOf_append, trlOf, ih]

theorem headsOf_bodies (srv : Headers) (ds : List Bytes) : headsOf srv (ds.map AOp.body).reverse = [] := by
  induction ds with
  | nil => rfl
  | cons d t ih => simp [headsOf_append, headsOf, ih]

theorem headsOf_trailers (srv : Headers) (ts : List Headers) : headsOf srv (ts.map AOp.trailers).reverse = [] := by
  induction ts with
  | nil => rfl
  | cons d t ih => simp [headsOf_append, headsOf, ih]

theorem ph_bodies (l : List Bytes) (r : List AOp) (h : ph r = 1) : ph ((l.map AOp.body) ++ r) = 1 := by
  induction l with
  | nil => simpa using h
  | cons d t ih => simp [ph, tr, ih]

theorem ph_trailers (l : List Headers) (r : List AOp) (h : ph r = 1 ∨ ph r = 2) : ph ((l.map AOp.trailers) ++ r) = 1 ∨ ph ((l.map AOp.trailers) ++ r) = 2 := by
  induction l with
  | nil => simpa using h
  | cons d t ih => simp [ph, tr, ih]

theorem script_read (srv : Headers) (status : Nat) (vh : Headers) (ds : List Bytes) (ts : List Headers) (closed : Bool) :
    3 ≤ ph (script status vh ds ts closed).reverse ∧ ph (script status vh ds ts closed).reverse ≠ 9 ∧
    bodyOf (script status vh ds ts closed).reverse = ds.flatten ∧ trlOf (script status vh ds ts closed).reverse = ts.flatten ∧
    headsOf srv (script status vh ds ts closed).reverse = [.headers (h2Headers status vh srv)] := by
  have h1 : ph ((ds.reverse.map AOp.body) ++ [AOp.head status vh]) = 1 := ph_bodies _ _ (by simp [ph, tr])
  have h2 := ph_trailers ts.reverse _ (Or.inl h1)
  have hb := bodyOf_bodies ds
  have ht := trlOf_trailers ts
  simp only [List.map_reverse] at h1 h2
  refine ⟨?_, ?_, ?_, ?_, ?_⟩ <;> cases closed <;>
    simp [script, ph, tr, h2, bodyOf_append, trlOf_append, headsOf_append, bodyOf, trlOf, headsOf, hb, ht, bodyOf_trailers, trlOf_bodies,
      headsOf_bodies, headsOf_trailers]

end HC.Proto.H2Wire
