import HC.Proto.H11
import HC.Lib.H11MDead
/-!
# H11Dead — once h11 can accept no further request, `H11Protocol` starts no further application instance

`Gone n st`: the library machine is `Dead` and `n` application instances have been started.  Every op of the protocol
model preserves it (library events, sends of any stream object, `Closed`, termination), and a `Request` event is not
enabled.  Used by C18 for "rejected without reaching the application" and "no later request is served".
-/
namespace HC.Proto.H11
open HC HC.Stream HC.Lib

def Gone (n : Nat) (st : St) : Prop := H11M.Dead st.lib ∧ st.spawns = n

theorem libSend_gone (n : Nat) (st : St) (e : LibSend) (h : Gone n st) : Gone n (libSend st e).1 := by
  obtain ⟨hd, hs⟩ := h
  unfold libSend
  cases e <;> simp only [] <;> split <;> refine ⟨?_, hs⟩
  · exact H11M.sendInfo_dead _ _ _ ‹_› hd
  · exact H11M.sendFailed_dead _ hd
  · exact H11M.sendResponse_dead _ _ _ ‹_› hd
  · exact H11M.sendFailed_dead _ hd
  · exact H11M.sendData_dead _ _ ‹_› hd
  · exact H11M.sendFailed_dead _ hd
  · exact H11M.sendEom_dead _ _ ‹_› hd
  · exact H11M.sendFailed_dead _ hd

theorem libSend_spawns (st : St) (e : LibSend) : (libSend st e).1.spawns = st.spawns ∧ (libSend st e).1.cur = st.cur := by
  unfold libSend
  cases e <;> simp only [] <;> split <;> exact ⟨rfl, rfl⟩

theorem closeStream_same (st : St) : (closeStream st).1.lib = st.lib ∧ (closeStream st).1.spawns = st.spawns ∧
    (closeStream st).1.terminated = st.terminated ∧ (closeStream st).1.wsMode = st.wsMode := by
  unfold closeStream; (repeat' split) <;> simp [St.setObj]

theorem closeStream_gone (n : Nat) (st : St) (h : Gone n st) : Gone n (closeStream st).1 := by
  obtain ⟨a, b, _, _⟩ := closeStream_same st
  exact ⟨by rw [a]; exact h.1, by rw [b]; exact h.2⟩

theorem maybeRecycle_gone (n : Nat) (st : St) (h : Gone n st) : Gone n (maybeRecycle st).1 := by
  have hc := closeStream_gone n st h
  unfold maybeRecycle
  simp only []
  split
  · split
    · rename_i lib' hl
      exact absurd hc.1 (H11M.startNextCycle_not_dead _ _ hl)
    · exact hc
  · exact hc

theorem httpStreamSend_gone (n : Nat) (cfg : Cfg) (st : St) (e : Http.Ev) (h : Gone n st) : Gone n (httpStreamSend cfg st e).1 := by
  cases e <;> simp only [httpStreamSend]
  · split <;> exact libSend_gone n _ _ h
  · exact h
  · exact libSend_gone n _ _ h
  · exact libSend_gone n _ _ h
  · exact h
  · exact h
  · exact maybeRecycle_gone n st h
  · exact h
  · exact h

theorem wsStreamSend_gone (n : Nat) (cfg : Cfg) (st : St) (e : Ws.Ev) (h : Gone n st) : Gone n (wsStreamSend cfg st e).1 := by
  cases e <;> simp only [wsStreamSend]
  · split <;> exact libSend_gone n _ _ h
  · exact libSend_gone n _ _ h
  · exact libSend_gone n _ _ h
  · exact h
  · exact h
  · exact maybeRecycle_gone n st h
  · exact h
  · exact h
  · exact h

theorem runHttpEvs_gone (n : Nat) (cfg : Cfg) : ∀ (evs : List Http.Ev) (st : St), Gone n st → Gone n (runHttpEvs cfg st evs).1 := by
  intro evs
  induction evs with
  | nil => intro st h; exact h
  | cons e es ih =>
    intro st h
    simp only [runHttpEvs]
    have h1 := httpStreamSend_gone n cfg st e h
    split
    · exact h1
    · exact ih _ h1

theorem runWsEvs_gone (n : Nat) (cfg : Cfg) : ∀ (evs : List Ws.Ev) (st : St), Gone n st → Gone n (runWsEvs cfg st evs).1 := by
  intro evs
  induction evs with
  | nil => intro st h; exact h
  | cons e es ih =>
    intro st h
    simp only [runWsEvs]
    have h1 := wsStreamSend_gone n cfg st e h
    split
    · exact h1
    · exact ih _ h1

theorem setObj_gone (n : Nat) (st : St) (i : Nat) (o : Stream) (h : Gone n st) : Gone n (st.setObj i o) := h

theorem appSendHttp_gone (n : Nat) (cfg : Cfg) (st : St) (i : Nat) (m : Option Http.Msg) (h : Gone n st) :
    Gone n (appSendHttp cfg st i m).1 := by
  unfold appSendHttp
  split
  · simp only []
    split
    · exact setObj_gone n _ _ _ (runHttpEvs_gone n cfg _ _ (setObj_gone n _ _ _ h))
    · exact runHttpEvs_gone n cfg _ _ (setObj_gone n _ _ _ h)
  · exact h

theorem appSendWs_gone (n : Nat) (cfg : Cfg) (token : Bytes → Bytes) (ext : Option Bytes) (st : St) (i : Nat) (m : Option Ws.Msg)
    (h : Gone n st) : Gone n (appSendWs cfg token ext st i m).1 := by
  unfold appSendWs
  split
  · simp only []
    split
    · exact setObj_gone n _ _ _ (runWsEvs_gone n cfg _ _ (setObj_gone n _ _ _ h))
    · exact runWsEvs_gone n cfg _ _ (setObj_gone n _ _ _ h)
  · exact h

theorem loopTop_gone (n : Nat) (cfg : Cfg) (st : St) (h : Gone n st) : Gone n (loopTop cfg st).1 := by
  unfold loopTop
  split
  · exact libSend_gone n _ _ h
  · exact h

/-- a `Request` event is never enabled in a `Gone` state -/
theorem no_request_when_gone (n : Nat) (cfg : Cfg) (st : St) (r : ReqEv) (h : Gone n st) : onLibEv cfg st (.request r) = none := by
  unfold onLibEv
  split
  · rfl
  · simp only [onLibEvBody]
    split
    · rfl
    · rename_i lib' hl
      exact absurd (loopTop_gone n cfg st h).1 (H11M.recvRequest_not_dead _ _ _ hl)

theorem onLibEvBody_gone (n : Nat) (cfg : Cfg) (st : St) (o0 : List Out) (e : LibEv) (s1 : St) (o1 : List Out)
    (h : Gone n st) (hs : onLibEvBody cfg st o0 e = some (s1, o1)) : Gone n s1 := by
  cases e with
  | protoError hint =>
    simp only [onLibEvBody] at hs
    have hg : Gone n { st with lib := H11M.recvError st.lib } := ⟨H11M.recvError_dead _, h.2⟩
    split at hs
    · simp only [Option.some.injEq, Prod.mk.injEq] at hs
      obtain ⟨rfl, _⟩ := hs
      exact hg
    · split at hs
      all_goals
        simp only [Option.some.injEq, Prod.mk.injEq] at hs
        obtain ⟨rfl, _⟩ := hs
      · exact libSend_gone n _ _ (libSend_gone n _ _ hg)
      · exact hg
  | request r =>
    simp only [onLibEvBody] at hs
    split at hs
    · cases hs
    · rename_i lib' hl
      exact absurd h.1 (H11M.recvRequest_not_dead _ _ _ hl)
  | paused =>
    simp only [onLibEvBody] at hs
    (repeat' split at hs) <;> (simp only [Option.some.injEq, Prod.mk.injEq] at hs; obtain ⟨rfl, _⟩ := hs; exact h)
  | needData =>
    simp only [onLibEvBody, Option.some.injEq, Prod.mk.injEq] at hs
    obtain ⟨rfl, _⟩ := hs
    exact h
  | connClosed =>
    simp only [onLibEvBody] at hs
    split at hs
    · cases hs
    · rename_i lib' hl
      simp only [Option.some.injEq, Prod.mk.injEq] at hs
      obtain ⟨rfl, _⟩ := hs
      exact ⟨H11M.recvClosed_dead _ _ hl h.1, h.2⟩
  | data d =>
    simp only [onLibEvBody] at hs
    split at hs
    · cases hs
    · rename_i lib' hl
      have hg : Gone n { st with lib := lib' } := ⟨H11M.recvData_dead _ _ hl h.1, h.2⟩
      (repeat' split at hs) <;> (try (cases hs; done)) <;>
        (simp only [Option.some.injEq, Prod.mk.injEq] at hs; obtain ⟨rfl, _⟩ := hs; exact hg)
  | eom =>
    simp only [onLibEvBody] at hs
    split at hs
    · cases hs
    · rename_i lib' hl
      have hg : Gone n { st with lib := lib' } := ⟨H11M.recvEom_dead _ _ hl h.1, h.2⟩
      (repeat' split at hs) <;> (try (cases hs; done)) <;>
        (simp only [Option.some.injEq, Prod.mk.injEq] at hs; obtain ⟨rfl, _⟩ := hs; exact hg)
  | wsData d evs =>
    simp only [onLibEvBody] at hs
    (repeat' split at hs) <;> (try (cases hs; done))
    · simp only [Option.some.injEq, Prod.mk.injEq] at hs
      obtain ⟨rfl, _⟩ := hs
      exact runWsEvs_gone n cfg _ _ (setObj_gone n _ _ _ h)
    · simp only [Option.some.injEq, Prod.mk.injEq] at hs
      obtain ⟨rfl, _⟩ := hs
      exact runWsEvs_gone n cfg _ _ (setObj_gone n _ _ _ h)
    · simp only [Option.some.injEq, Prod.mk.injEq] at hs
      obtain ⟨rfl, _⟩ := hs
      exact h

/-- every op preserves `Gone` -/
theorem step_gone (n : Nat) (cfg : Cfg) (token : Bytes → Bytes) (ext : Option Bytes) (st st' : St) (op : Op) (outs : List Out)
    (err : Option PyErr) (h : Gone n st) (hs : step cfg token ext st op = some (st', outs, err)) : Gone n st' := by
  cases op with
  | begin =>
    simp only [step] at hs
    split at hs <;> simp at hs
    obtain ⟨rfl, _, _⟩ := hs
    exact h
  | terminate =>
    simp only [step, Option.some.injEq, Prod.mk.injEq] at hs
    obtain ⟨rfl, _, _⟩ := hs
    exact h
  | closed =>
    simp only [step, Option.some.injEq, Prod.mk.injEq] at hs
    obtain ⟨rfl, _, _⟩ := hs
    exact closeStream_gone n st h
  | sendHttp i m =>
    simp only [step, Option.some.injEq] at hs
    have := appSendHttp_gone n cfg st i m h
    rw [hs] at this; exact this
  | sendWs i m =>
    simp only [step, Option.some.injEq] at hs
    have := appSendWs_gone n cfg token ext st i m h
    rw [hs] at this; exact this
  | ev e =>
    simp only [step, Option.map_eq_some_iff] at hs
    obtain ⟨⟨s1, o1⟩, hev, heq⟩ := hs
    simp only [Prod.mk.injEq] at heq
    obtain ⟨rfl, _, _⟩ := heq
    unfold onLibEv at hev
    split at hev
    · cases hev
    · exact onLibEvBody_gone n cfg _ _ e _ _ (loopTop_gone n cfg st h) hev

end HC.Proto.H11
