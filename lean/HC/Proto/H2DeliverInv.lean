import HC.Proto.H2Deliver
/-!
# H2DeliverInv — frame conditions of `HC.Proto.H2Recv.step` and the delivery lemmas behind `HC.Props.C01.h2_request_delivered`

For every operation of the receive-side model: which stream objects it can hand something to, whether it can return
flow-control credit, and what it does to the membership of `self.streams` — then, per wrapped step (`rxStep_spec`) and per run
(`deliveries`, `run_acks`).
-/
namespace HC.Proto.H2Deliver
open HC HC.Proto.H2Recv HC.Extracted

/-- the outputs that get decorated: something handed to a stream object, credit returned to h2 -/
def isDeliv : Out → Bool
  | .toStream _ _ => true
  | .h2call name _ _ => name == "acknowledge_received_data"
  | _ => false

def Quiet (o : List Out) : Prop := ∀ x ∈ o, isDeliv x = false
/-- the only outputs that get decorated are addressed to stream `j`'s object -/
def OnlyTo (j : Nat) (o : List Out) : Prop := ∀ x ∈ o, isDeliv x = true → ∃ w, x = Out.toStream j w

theorem quiet_nil : Quiet [] := by intro x hx; cases hx
theorem quiet_append {a b : List Out} (ha : Quiet a) (hb : Quiet b) : Quiet (a ++ b) := by
  intro x hx; rcases List.mem_append.mp hx with h | h; exact ha x h; exact hb x h
theorem quiet_onlyTo {o : List Out} (j : Nat) (h : Quiet o) : OnlyTo j o := by
  intro x hx hd; rw [h x hx] at hd; cases hd
theorem onlyTo_append {j : Nat} {a b : List Out} (ha : OnlyTo j a) (hb : OnlyTo j b) : OnlyTo j (a ++ b) := by
  intro x hx; rcases List.mem_append.mp hx with h | h; exact ha x h; exact hb x h

theorem decorate_quiet (op : RxOp) (x : Out) (h : isDeliv x = false) : decorate op x = none := by
  cases x <;> simp_all [isDeliv, decorate]

theorem filterMap_quiet (op : RxOp) (o : List Out) (h : Quiet o) : o.filterMap (decorate op) = [] := by
  simp only [List.filterMap_eq_nil_iff]
  intro x hx; exact decorate_quiet op x (h x hx)

macro "quiet_list" : tactic => `(tactic| (intro x hx; simp at hx; (try (rcases hx with rfl | rfl | rfl | rfl | rfl | rfl)) <;> simp_all [isDeliv]))

theorem unblockAll_frame : ∀ (l : List Nat) (s : St) (o : List Out) (s' : St) (o' : List Out),
    unblockAll s l o = .ok (s', o') → Quiet o → s'.streams = s.streams ∧ Quiet o' := by
  intro l
  induction l with
  | nil => intro s o s' o' h ho; simp [unblockAll] at h; obtain ⟨rfl, rfl⟩ := h; exact ⟨rfl, ho⟩
  | cons sid rest ih =>
    intro s o s' o' h ho
    simp only [unblockAll, prioBlock] at h
    split at h
    · cases h
    · rename_i s1 o1 h1
      split at h1
      · simp at h1; obtain ⟨rfl, rfl⟩ := h1
        obtain ⟨e1, e2⟩ := ih _ _ _ _ h (quiet_append ho (by intro x hx; simp at hx; subst hx; simp [isDeliv]))
        exact ⟨e1, e2⟩
      · cases h1

theorem windowUpdated_frame (s : St) (sid : Nat) (s' : St) (o' : List Out) (h : windowUpdated s sid = .ok (s', o')) :
    s'.streams = s.streams ∧ Quiet o' := by
  simp only [windowUpdated, prioBlock] at h
  split at h
  · split at h
    · cases h
    · rename_i s1 o1 h1
      simp at h; obtain ⟨rfl, rfl⟩ := h
      obtain ⟨e1, e2⟩ := unblockAll_frame _ _ _ _ _ h1 quiet_nil
      exact ⟨e1, quiet_append e2 (by intro x hx; simp at hx; subst hx; simp [isDeliv])⟩
  · split at h
    · split at h
      · cases h
      · rename_i s1 o1 h1
        split at h1
        · simp at h1 h; obtain ⟨rfl, rfl⟩ := h1; obtain ⟨rfl, rfl⟩ := h
          exact ⟨rfl, by intro x hx; simp at hx; rcases hx with rfl | rfl <;> simp [isDeliv]⟩
        · cases h1
    · simp at h; obtain ⟨rfl, rfl⟩ := h
      exact ⟨rfl, by intro x hx; simp at hx; subst hx; simp [isDeliv]⟩

theorem quiet_cons {x : Out} {o : List Out} (hx : isDeliv x = false) (ho : Quiet o) : Quiet (x :: o) := by
  intro y hy; rcases List.mem_cons.mp hy with rfl | h; exact hx; exact ho y h

theorem sendBody_frame (s : St) (sid : Nat) (o : SendOracle) :
    (sendBody s sid o).1.streams = s.streams ∧ Quiet (sendBody s sid o).2.1 := by
  unfold sendBody Quiet
  cases hp : s.inPrio sid <;> cases o.window <;> cases s.buffers.contains sid <;> cases o.dataEmpty <;> cases o.send <;>
    cases (o.complete && !s.closed) <;> cases o.endStream <;>
    (try simp only [Bool.not_true, Bool.not_false, Bool.false_eq_true, if_true, if_false]) <;> (repeat' split) <;> simp_all [isDeliv]

theorem sendCleanup_frame (s : St) (sid : Nat) (o0 : List Out) (s' : St) (o' : List Out) (h0 : Quiet o0)
    (h : sendCleanup s sid o0 = .ok (s', o')) : s'.streams = s.streams ∧ Quiet o' := by
  simp only [sendCleanup] at h
  split at h
  · simp at h; obtain ⟨rfl, rfl⟩ := h
    exact ⟨rfl, quiet_append h0 (by quiet_list)⟩
  · split at h
    · simp at h; obtain ⟨rfl, rfl⟩ := h
      refine ⟨rfl, ?_⟩
      intro x hx
      simp at hx
      rcases hx with hx | hx | hx
      · exact h0 x hx
      · subst hx; simp [isDeliv]
      · obtain ⟨b, _, rfl⟩ := hx; simp [isDeliv]
    · cases h

theorem sendTask_frame (s : St) (n : NextRes) (s' : St) (o' : List Out) (h : sendTask s n = .ok (s', o')) :
    s'.streams = s.streams ∧ Quiet o' := by
  cases n with
  | deadlock => simp only [sendTask] at h; split at h <;> simp at h; obtain ⟨rfl, rfl⟩ := h; exact ⟨rfl, quiet_nil⟩
  | raised e => simp only [sendTask] at h; split at h <;> simp at h; obtain ⟨rfl, rfl⟩ := h; exact ⟨rfl, quiet_nil⟩
  | stream sid o =>
    have hb := sendBody_frame s sid o
    simp only [sendTask, sendData] at h
    split at h
    · rename_i s1 o1 heq
      simp at h; obtain ⟨rfl, rfl⟩ := h
      rw [heq] at hb; exact hb
    · rename_i s1 o1 e heq
      rw [heq] at hb
      split at h
      · obtain ⟨e1, e2⟩ := sendCleanup_frame _ _ _ _ _ hb.2 h
        exact ⟨e1.trans hb.1, e2⟩
      · cases h

theorem priorityUpdated_frame (s : St) (sid dep : Nat) (rep ins : Option Exn) (pe : Bool) (s' : St) (o' : List Out)
    (h : priorityUpdated s sid dep rep ins pe = .ok (s', o')) : s'.streams = s.streams ∧ Quiet o' := by
  unfold Quiet
  simp only [priorityUpdated] at h
  (repeat' split at h) <;> (try (simp at h; done)) <;> (try simp only [Except.ok.injEq, Prod.mk.injEq] at h) <;>
    (try (obtain ⟨rfl, rfl⟩ := h)) <;> simp_all [isDeliv] <;> grind [isDeliv]


theorem errorResponse_frame (s : St) (sid : Nat) (lib : Option Exn) (s' : St) (o' : List Out) (h : errorResponse s sid lib = .ok (s', o')) :
    s' = s ∧ Quiet o' := by
  unfold Quiet
  simp only [errorResponse] at h
  (repeat' split at h) <;> (try (simp at h; done)) <;> (simp only [Except.ok.injEq, Prod.mk.injEq] at h; obtain ⟨rfl, rfl⟩ := h; simp [isDeliv])

theorem mem_keysDel (l : List Nat) (sid x : Nat) : x ∈ keysDel l sid ↔ x ∈ l ∧ x ≠ sid := by
  simp [keysDel]

theorem mem_keysAdd (l : List Nat) (sid x : Nat) : x ∈ keysAdd l sid ↔ x ∈ l ∨ x = sid := by
  unfold keysAdd
  split
  · rename_i h
    constructor
    · exact Or.inl
    · rintro (h1 | h1)
      · exact h1
      · subst h1; simpa using h
  · simp

theorem catches_decode : catches C04Sites.h2CreateDecode .unicodeDecodeError = true := by decide

/-- `_create_stream`, whatever becomes of the request: only stream `r.sid` can be created, only its object is handed anything -/
theorem createStream_frame (s : St) (r : Req) (ins lib : Option Exn) (s' : St) (o' : List Out) (h : createStream s r ins lib = .ok (s', o')) :
    OnlyTo r.sid o' ∧ (∀ i, i ≠ r.sid → (i ∈ s'.streams ↔ i ∈ s.streams)) ∧ s'.terminated = s.terminated := by
  have herr : ∀ s' o', errorResponse s r.sid lib = .ok (s', o') →
      OnlyTo r.sid o' ∧ (∀ i, i ≠ r.sid → (i ∈ s'.streams ↔ i ∈ s.streams)) ∧ s'.terminated = s.terminated := by
    intro s' o' h'
    obtain ⟨rfl, hq⟩ := errorResponse_frame _ _ _ _ _ h'
    exact ⟨quiet_onlyTo _ hq, fun _ _ => Iff.rfl, rfl⟩
  unfold createStream at h
  simp only [bind, Except.bind, C04Sites.h2CreatePathDefault, C04Sites.h2CreatePathGuard, C04Sites.h2CreatePathGuardAnswers,
    C04Sites.h2CreateInsertFirst, Bool.and_true, if_true] at h
  cases hd : decodeHeaders r with
  | error e => rw [hd] at h; cases h
  | ok rej =>
    rw [hd] at h
    simp only at h
    cases rej with
    | true => simp only [if_true] at h; exact herr _ _ h
    | false =>
      simp only [Bool.false_eq_true, if_false] at h
      split at h
      · exact herr _ _ h
      · split at h
        · cases h
        · split at h
          · cases h
          · rename_i v hE
            have hfact : ∀ s1 o1, v = some (s1, o1) → s1.streams = s.streams ∧ s1.terminated = s.terminated ∧ Quiet o1 := by
              intro s1 o1 hv
              subst hv
              cases ins with
              | none =>
                simp only at hE
                split at hE
                · cases hE
                · simp only [Except.ok.injEq, Option.some.injEq, Prod.mk.injEq] at hE
                  obtain ⟨rfl, rfl⟩ := hE
                  exact ⟨rfl, rfl, by quiet_list⟩
              | some e =>
                simp only at hE
                split at hE
                · simp only [Except.ok.injEq, Option.some.injEq, Prod.mk.injEq] at hE
                  obtain ⟨rfl, rfl⟩ := hE
                  exact ⟨rfl, rfl, by quiet_list⟩
                · split at hE <;> cases hE
            cases v with
            | none =>
              simp only at h
              split at h
              · simp only [Except.ok.injEq, Prod.mk.injEq] at h
                obtain ⟨rfl, rfl⟩ := h
                exact ⟨quiet_onlyTo _ (by quiet_list), fun _ _ => Iff.rfl, rfl⟩
              · split at h
                · simp only [Except.ok.injEq, Prod.mk.injEq] at h
                  obtain ⟨rfl, rfl⟩ := h
                  exact ⟨quiet_onlyTo _ (by quiet_list), fun _ _ => Iff.rfl, rfl⟩
                · cases h
            | some p =>
              obtain ⟨s1, o1⟩ := p
              obtain ⟨f1, f2, f3⟩ := hfact s1 o1 rfl
              simp only at h
              split at h
              · cases h
              · simp only [Except.ok.injEq, Prod.mk.injEq] at h
                obtain ⟨rfl, rfl⟩ := h
                refine ⟨onlyTo_append (quiet_onlyTo _ f3) ?_, ?_, f2⟩
                · intro x hx hd2
                  simp at hx
                  rcases hx with rfl | rfl
                  · simp [isDeliv] at hd2
                  · exact ⟨_, rfl⟩
                · intro i hi
                  simp only [mem_keysAdd, f1]
                  constructor
                  · rintro (h1 | h1); exact h1; exact absurd h1 hi
                  · exact Or.inl

/-- … and when the request is one `_create_stream` accepts: the stream exists afterwards and its object was handed exactly the
    `Request` event -/
theorem createStream_accepted (s : St) (r : Req) (ins lib : Option Exn) (ha : accepts s r ins = true) :
    ∃ s' o', createStream s r ins lib = .ok (s', o') ∧ r.sid ∈ s'.streams ∧
      o'.filter isDeliv = [Out.toStream r.sid "request"] := by
  simp only [accepts, Bool.and_eq_true, Bool.not_eq_true', Bool.or_eq_true, beq_iff_eq] at ha
  obtain ⟨⟨⟨⟨⟨ht, hm⟩, hma⟩, hp⟩, hpa⟩, hins⟩ := ha
  unfold createStream
  simp only [decodeHeaders, C04Sites.h2CreateDecodeChecksPath, C04Sites.h2CreateDecodeReturns, hm, hma, hp, hpa,
    C04Sites.h2CreatePathDefault, C04Sites.h2CreatePathGuard, C04Sites.h2CreatePathGuardAnswers, C04Sites.h2CreateInsertFirst,
    Bool.true_and, Bool.and_true, Bool.and_self, if_true, bind, Except.bind, Bool.not_true, Bool.false_eq_true, if_false, Bool.or_self,
    Bool.false_and, streamRequest]
  rcases hins with ⟨h1, h2⟩ | h1
  · subst h1
    simp only [h2, Bool.false_eq_true, if_false]
    exact ⟨_, _, rfl, by simp [mem_keysAdd], by simp [List.filter_cons, isDeliv]⟩
  · subst h1
    have : catches C04Sites.h2CreateInsertPass .prioDuplicate = true := by decide
    simp only [this, if_true]
    exact ⟨_, _, rfl, by simp [mem_keysAdd], by simp [List.filter_cons, isDeliv]⟩


theorem closeStream_frame (s : St) (sid : Nat) :
    OnlyTo sid (closeStream s sid).2 ∧ (∀ i, i ≠ sid → (i ∈ (closeStream s sid).1.streams ↔ i ∈ s.streams)) ∧
    (closeStream s sid).1.terminated = s.terminated := by
  unfold closeStream
  split
  · refine ⟨?_, ?_, rfl⟩
    · intro x hx hd
      simp at hx
      rcases hx with rfl | rfl
      · exact ⟨_, rfl⟩
      · simp [isDeliv] at hd
    · intro i hi; simp only [mem_keysDel]; exact ⟨fun h => h.1, fun h => ⟨h, hi⟩⟩
  · exact ⟨quiet_onlyTo _ quiet_nil, fun _ _ => Iff.rfl, rfl⟩

theorem resetAbandoned_frame (s : St) (sid : Nat) (lib : Option Exn) :
    (resetAbandoned s sid lib).1.streams = s.streams ∧ (resetAbandoned s sid lib).1.terminated = s.terminated ∧
    Quiet (resetAbandoned s sid lib).2.1 := by
  unfold resetAbandoned Quiet
  cases lib <;> simp only [] <;> (repeat' split) <;> simp [isDeliv]

theorem streamBody_frame (s : St) (sid : Nat) (op : AppOp) :
    OnlyTo sid (streamBody s sid op).2.1 ∧ (∀ i, i ≠ sid → (i ∈ (streamBody s sid op).1.streams ↔ i ∈ s.streams)) := by
  cases op with
  | headers lib =>
    simp only [streamBody]
    cases lib <;> exact ⟨quiet_onlyTo _ (by quiet_list), fun _ _ => Iff.rfl⟩
  | body push =>
    unfold OnlyTo
    simp only [streamBody, unblockP]
    by_cases hp : s.inPrio sid = true <;> by_cases hb : sid ∈ s.buffers <;> cases push <;>
      simp [hp, hb, isDeliv]
  | endBody =>
    unfold OnlyTo
    simp only [streamBody, unblockP]
    by_cases hp : s.inPrio sid = true <;> by_cases hb : sid ∈ s.buffers <;>
      simp [hp, hb, isDeliv]
  | streamClosed abandon lib =>
    simp only [streamBody]
    split
    · exact ⟨quiet_onlyTo _ quiet_nil, fun _ _ => Iff.rfl⟩
    · have hra := resetAbandoned_frame s sid lib
      split
      · rename_i s1 o1 e heq
        split at heq
        · rw [heq] at hra
          exact ⟨quiet_onlyTo _ hra.2.2, fun i _ => by rw [hra.1]⟩
        · simp only [Prod.mk.injEq] at heq; obtain ⟨rfl, rfl, _⟩ := heq
          exact ⟨quiet_onlyTo _ quiet_nil, fun _ _ => Iff.rfl⟩
      · rename_i s1 o1 heq
        have hs1 : s1.streams = s.streams ∧ Quiet o1 := by
          split at heq
          · rw [heq] at hra; exact ⟨hra.1, hra.2.2⟩
          · simp only [Prod.mk.injEq] at heq; obtain ⟨rfl, rfl, _⟩ := heq; exact ⟨rfl, quiet_nil⟩
        obtain ⟨c1, c2, c3⟩ := closeStream_frame s1 sid
        refine ⟨onlyTo_append (onlyTo_append (onlyTo_append (quiet_onlyTo _ hs1.2) c1) ?_) ?_, ?_⟩
        · split
          · exact quiet_onlyTo _ (by quiet_list)
          · exact quiet_onlyTo _ quiet_nil
        · split
          · exact quiet_onlyTo _ quiet_nil
          · exact quiet_onlyTo _ (by quiet_list)
        · intro i hi; rw [c2 i hi, hs1.1]

theorem streamBody_quiet (s : St) (sid : Nat) (op : AppOp) (hop : ∀ a l, op ≠ .streamClosed a l) :
    (streamBody s sid op).1.streams = s.streams ∧ Quiet (streamBody s sid op).2.1 := by
  unfold Quiet
  cases op with
  | headers lib => simp only [streamBody]; cases lib <;> simp [isDeliv]
  | body push =>
    simp only [streamBody, unblockP]
    by_cases hp : s.inPrio sid = true <;> by_cases hb : sid ∈ s.buffers <;> cases push <;> simp [hp, hb, isDeliv]
  | endBody =>
    simp only [streamBody, unblockP]
    by_cases hp : s.inPrio sid = true <;> by_cases hb : sid ∈ s.buffers <;> simp [hp, hb, isDeliv]
  | streamClosed a l => exact absurd rfl (hop a l)

theorem streamSend_quiet (s : St) (sid : Nat) (op : AppOp) (s' : St) (o' : List Out) (hop : ∀ a l, op ≠ .streamClosed a l)
    (h : streamSend s sid op = .ok (s', o')) : s'.streams = s.streams ∧ Quiet o' := by
  have hb := streamBody_quiet s sid op hop
  simp only [streamSend] at h
  split at h
  · rename_i s1 o1 heq
    simp only [Except.ok.injEq, Prod.mk.injEq] at h; obtain ⟨rfl, rfl⟩ := h
    rw [heq] at hb; exact hb
  · rename_i s1 o1 e heq
    split at h
    · simp only [Except.ok.injEq, Prod.mk.injEq] at h; obtain ⟨rfl, rfl⟩ := h
      rw [heq] at hb; exact hb
    · cases h

theorem streamSend_frame (s : St) (sid : Nat) (op : AppOp) (s' : St) (o' : List Out) (h : streamSend s sid op = .ok (s', o')) :
    OnlyTo sid o' ∧ (∀ i, i ≠ sid → (i ∈ s'.streams ↔ i ∈ s.streams)) := by
  have hb := streamBody_frame s sid op
  simp only [streamSend] at h
  split at h
  · rename_i s1 o1 heq
    simp only [Except.ok.injEq, Prod.mk.injEq] at h; obtain ⟨rfl, rfl⟩ := h
    rw [heq] at hb; exact hb
  · rename_i s1 o1 e heq
    split at h
    · simp only [Except.ok.injEq, Prod.mk.injEq] at h; obtain ⟨rfl, rfl⟩ := h
      rw [heq] at hb; exact hb
    · cases h


/-! ### one wrapped step, seen from stream `i` -/

theorem filterMap_decorate (op : RxOp) (o : List Out) : o.filterMap (decorate op) = (o.filter isDeliv).filterMap (decorate op) := by
  induction o with
  | nil => rfl
  | cons x t ih =>
    cases hx : isDeliv x
    · rw [List.filter_cons_of_neg (by simp [hx]), List.filterMap_cons, decorate_quiet op x hx]; exact ih
    · rw [List.filter_cons_of_pos hx, List.filterMap_cons, List.filterMap_cons, ih]

theorem decorate_toStream (op : RxOp) (j : Nat) (w : String) (d : Dlv) (h : decorate op (Out.toStream j w) = some d) :
    (∃ ws r, d = .start j ws r) ∨ (∃ b, d = .body j b) ∨ d = .endBody j ∨ d = .closed j := by
  simp only [decorate] at h
  (repeat' split at h) <;> (first | cases h | (simp only [Option.some.injEq] at h; subst h))
  · exact Or.inl ⟨_, _, rfl⟩
  · exact Or.inr (Or.inl ⟨_, rfl⟩)
  · exact Or.inr (Or.inr (Or.inl rfl))
  · exact Or.inr (Or.inr (Or.inr rfl))

theorem onlyTo_dlv (op : RxOp) (i j : Nat) (hji : j ≠ i) (o : List Out) (h : OnlyTo j o) :
    dlvFor i (o.filterMap (decorate op)) = [] ∧ acksOf (o.filterMap (decorate op)) = [] := by
  induction o with
  | nil => simp [dlvFor, acksOf]
  | cons x t ih =>
    have ht : OnlyTo j t := fun y hy => h y (List.mem_cons_of_mem _ hy)
    obtain ⟨i1, i2⟩ := ih ht
    cases hx : isDeliv x
    · simp only [List.filterMap_cons, decorate_quiet op x hx]; exact ⟨i1, i2⟩
    · obtain ⟨w, rfl⟩ := h x (List.mem_cons_self ..) hx
      simp only [List.filterMap_cons]
      cases hd : decorate op (Out.toStream j w) with
      | none => exact ⟨i1, i2⟩
      | some d =>
        have hne : (j == i) = false := by simpa using hji
        simp only [dlvFor, acksOf] at i1 i2 ⊢
        rcases decorate_toStream op j w d hd with ⟨ws, r, rfl⟩ | ⟨b, rfl⟩ | rfl | rfl <;>
          simp only [List.filter_cons, List.filterMap_cons, hne, Bool.false_eq_true, if_false] <;> exact ⟨i1, i2⟩

theorem quiet_dlv (op : RxOp) (o : List Out) (h : Quiet o) : o.filterMap (decorate op) = [] := filterMap_quiet op o h

def isReqFor (i : Nat) : RxOp → Prop
  | .request j _ _ _ => j = i
  | _ => False

/-- the three conclusions about one step -/
def StepSpec (i : Nat) (s : St) (op : RxOp) (s1 : St) (d1 : List Dlv) : Prop :=
  (i ∈ s1.streams ↔ (i ∈ s.streams ∨ isReqFor i op)) ∧
  dlvFor i d1 = expectR i (decide (i ∈ s.streams)) ([op].filter (rxFor i)) ∧ acksOf d1 = flowsOf [op]

theorem spec_quiet (i : Nat) (s : St) (op : RxOp) (s1 : St) (o : List Out) (hs : s1.streams = s.streams)
    (hq : Quiet o) (hrx : rxFor i op = false) (hfl : flowsOf [op] = []) (hreq : ¬ isReqFor i op) :
    StepSpec i s op s1 (o.filterMap (decorate op)) := by
  refine ⟨by rw [hs]; simp [hreq], ?_, ?_⟩
  · rw [quiet_dlv op o hq]; simp [List.filter_cons, hrx, dlvFor, expectR]
  · rw [quiet_dlv op o hq, hfl]; rfl

theorem spec_other (i j : Nat) (hji : j ≠ i) (s : St) (op : RxOp) (s1 : St) (o : List Out) (hs : i ∈ s1.streams ↔ i ∈ s.streams)
    (hq : OnlyTo j o) (hrx : rxFor i op = false) (hfl : flowsOf [op] = []) (hreq : ¬ isReqFor i op) :
    StepSpec i s op s1 (o.filterMap (decorate op)) := by
  obtain ⟨e1, e2⟩ := onlyTo_dlv op i j hji o hq
  refine ⟨by rw [hs]; simp [hreq], ?_, ?_⟩
  · rw [e1]; simp [List.filter_cons, hrx, expectR]
  · rw [e2, hfl]


theorem catches_data_keyError : catches C04Sites.h2EventsData .keyError = true := by decide
theorem catches_ended_keyError : catches C04Sites.h2EventsEnded .keyError = true := by decide

theorem filter_tail (a : List Out) (x : Option Bool) (c : Prop) [Decidable c] :
    List.filter isDeliv (a ++ [Out.upUpdated x] ++ (if c then [Out.connCall "close_connection" false] else [])) = List.filter isDeliv a := by
  split <;> simp [List.filter_append, isDeliv]

theorem quiet_kar (c : Prop) [Decidable c] : Quiet (if c then [Out.connCall "close_connection" false] else []) := by
  split
  · quiet_list
  · exact quiet_nil

theorem rxStep_spec (i kaMax : Nat) (s : St) (op : RxOp) (s1 : St) (d1 : List Dlv)
    (h : rxStep kaMax s op = .ok (s1, d1)) (ha : opAdm i s op = true) : StepSpec i s op s1 d1 := by
  simp only [rxStep] at h
  split at h
  · cases h
  · rename_i s1' o hstep
    simp only [Except.ok.injEq, Prod.mk.injEq] at h
    obtain ⟨rfl, rfl⟩ := h
    simp only [opAdm, Bool.and_eq_true] at ha
    obtain ⟨⟨hok, hkeep⟩, hacc⟩ := ha
    cases op with
    | request j hs ins lib =>
      simp only [RxOp.abs, step, onEvent, bind, Except.bind, pure, Except.pure] at hstep
      have hsid : (reqOf j hs).sid = j := rfl
      by_cases hji : j = i
      · subst hji
        have hac : accepts s (reqOf j hs) ins = true := by simpa using hacc
        have hterm : s.terminated = false := by
          simp only [accepts, Bool.and_eq_true, Bool.not_eq_true'] at hac; exact hac.1.1.1.1.1
        obtain ⟨s2, o2, hcs, hmem, hfil⟩ := createStream_accepted s (reqOf j hs) ins lib hac
        rw [hsid] at hmem hfil
        simp only [hterm, Bool.false_eq_true, if_false, hcs, Except.ok.injEq, Prod.mk.injEq] at hstep
        obtain ⟨e1, e2⟩ := hstep
        subst e1 e2
        refine ⟨by simp [hmem, isReqFor], ?_, ?_⟩
        · rw [filterMap_decorate, filter_tail, hfil]
          simp [decorate, dlvFor, List.filter_cons, rxFor, expectR]
        · rw [filterMap_decorate, filter_tail, hfil]
          simp [decorate, acksOf, flowsOf]
      · have hrx : rxFor i (.request j hs ins lib) = false := by simp [rxFor, hji]
        have hreq : ¬ isReqFor i (.request j hs ins lib) := by simp [isReqFor, hji]
        by_cases hterm : s.terminated = true
        · simp only [hterm, if_true] at hstep
          cases lib with
          | none =>
            simp only [Except.ok.injEq, Prod.mk.injEq] at hstep
            obtain ⟨e1, e2⟩ := hstep
            subst e1 e2
            exact spec_quiet i _ _ _ _ rfl (quiet_append (by quiet_list) (quiet_kar _)) hrx rfl hreq
          | some e =>
            simp only at hstep
            split at hstep
            · simp only [Except.ok.injEq, Prod.mk.injEq] at hstep
              obtain ⟨e1, e2⟩ := hstep
              subst e1 e2
              exact spec_quiet i _ _ _ _ rfl (quiet_append (by quiet_list) (quiet_kar _)) hrx rfl hreq
            · simp [throw, throwThe, MonadExceptOf.throw] at hstep
        · simp only [hterm, Bool.false_eq_true, if_false] at hstep
          split at hstep
          · cases hstep
          · rename_i q hq
            simp only [Except.ok.injEq, Prod.mk.injEq] at hstep
            obtain ⟨e1, e2⟩ := hstep
            subst e1 e2
            obtain ⟨c1, c2, c3⟩ := createStream_frame _ _ _ _ _ _ hq
            rw [hsid] at c1 c2
            refine spec_other i j hji s _ _ _ (c2 i (Ne.symm hji)) ?_ hrx rfl hreq
            exact onlyTo_append (onlyTo_append c1 (quiet_onlyTo _ (by quiet_list))) (quiet_onlyTo _ (quiet_kar _))
    | data j d f =>
      simp only [RxOp.abs, step, onEvent] at hstep
      by_cases hlive : s.streams.contains j = true
      · simp only [hlive, if_true, Except.ok.injEq, Prod.mk.injEq] at hstep
        obtain ⟨e1, e2⟩ := hstep
        subst e1 e2
        have hm : j ∈ s.streams := by simpa using hlive
        refine ⟨by simp [isReqFor], ?_, by simp [decorate, acksOf, flowsOf]⟩
        by_cases hji : j = i
        · subst hji; simp [decorate, dlvFor, List.filter_cons, rxFor, expectR, hm]
        · have : (j == i) = false := by simpa using hji
          simp [decorate, dlvFor, List.filter_cons, rxFor, expectR, this]
      · simp only [hlive, Bool.false_eq_true, if_false, catches_data_keyError, if_true, Except.ok.injEq, Prod.mk.injEq] at hstep
        obtain ⟨e1, e2⟩ := hstep
        subst e1 e2
        have hm : ¬ j ∈ s.streams := by simpa using hlive
        refine ⟨by simp [isReqFor], ?_, by simp [decorate, acksOf, flowsOf]⟩
        by_cases hji : j = i
        · subst hji; simp [decorate, dlvFor, List.filter_cons, rxFor, expectR, hm]
        · have : (j == i) = false := by simpa using hji
          simp [decorate, dlvFor, List.filter_cons, rxFor, expectR, this]
    | low o =>
      cases o with
      | ev e =>
        cases e with
        | request r ins lib => simp [RxOp.ok] at hok
        | data j => simp [RxOp.ok] at hok
        | ended j =>
          simp only [RxOp.abs, step, onEvent] at hstep
          by_cases hlive : s.streams.contains j = true
          · simp only [hlive, if_true, Except.ok.injEq, Prod.mk.injEq] at hstep
            obtain ⟨e1, e2⟩ := hstep
            subst e1 e2
            have hm : j ∈ s.streams := by simpa using hlive
            refine ⟨by simp [isReqFor], ?_, by simp [decorate, acksOf, flowsOf]⟩
            by_cases hji : j = i
            · subst hji; simp [decorate, dlvFor, rxFor, expectR, hm]
            · have : (j == i) = false := by simpa using hji
              simp [decorate, dlvFor, rxFor, expectR, this]
          · simp only [hlive, Bool.false_eq_true, if_false, catches_ended_keyError, if_true, Except.ok.injEq, Prod.mk.injEq] at hstep
            obtain ⟨e1, e2⟩ := hstep
            subst e1 e2
            have hm : ¬ j ∈ s.streams := by simpa using hlive
            refine ⟨by simp [isReqFor], ?_, by simp [acksOf, flowsOf]⟩
            by_cases hji : j = i
            · subst hji; simp [dlvFor, rxFor, expectR, hm]
            · have : (j == i) = false := by simpa using hji
              simp [dlvFor, rxFor, expectR, this]
        | reset j =>
          have hji : j ≠ i := by simpa [keeps] using hkeep
          simp only [RxOp.abs, step, onEvent] at hstep
          obtain ⟨c1, c2, _⟩ := closeStream_frame s j
          split at hstep
          · cases hstep
          · rename_i s2 o2 hw
            simp only [Except.ok.injEq, Prod.mk.injEq] at hstep
            obtain ⟨e1, e2⟩ := hstep
            subst e1 e2
            obtain ⟨w1, w2⟩ := windowUpdated_frame _ _ _ _ hw
            exact spec_other i j hji s _ _ _ (by rw [w1]; exact c2 i (Ne.symm hji)) (onlyTo_append c1 (quiet_onlyTo _ w2)) rfl rfl (by simp [isReqFor])
        | window j =>
          simp only [RxOp.abs, step, onEvent] at hstep
          obtain ⟨w1, w2⟩ := windowUpdated_frame _ _ _ _ hstep
          exact spec_quiet i s _ _ _ w1 w2 rfl rfl (by simp [isReqFor])
        | priority j dep rep ins pe =>
          simp only [RxOp.abs, step, onEvent] at hstep
          obtain ⟨w1, w2⟩ := priorityUpdated_frame _ _ _ _ _ _ _ _ hstep
          exact spec_quiet i s _ _ _ w1 w2 rfl rfl (by simp [isReqFor])
        | settings iw =>
          simp only [RxOp.abs, step, onEvent] at hstep
          split at hstep
          · obtain ⟨w1, w2⟩ := windowUpdated_frame _ _ _ _ hstep
            exact spec_quiet i s _ _ _ w1 w2 rfl rfl (by simp [isReqFor])
          · simp only [Except.ok.injEq, Prod.mk.injEq] at hstep
            obtain ⟨e1, e2⟩ := hstep
            subst e1 e2
            exact spec_quiet i s _ _ _ rfl quiet_nil rfl rfl (by simp [isReqFor])
        | terminated =>
          simp only [RxOp.abs, step, onEvent, Except.ok.injEq, Prod.mk.injEq] at hstep
          obtain ⟨e1, e2⟩ := hstep
          subst e1 e2
          exact spec_quiet i s _ _ _ rfl (by quiet_list) rfl rfl (by simp [isReqFor])
        | other =>
          simp only [RxOp.abs, step, onEvent, Except.ok.injEq, Prod.mk.injEq] at hstep
          obtain ⟨e1, e2⟩ := hstep
          subst e1 e2
          exact spec_quiet i s _ _ _ rfl quiet_nil rfl rfl (by simp [isReqFor])
      | batchEnd =>
        simp only [RxOp.abs, step, Except.ok.injEq, Prod.mk.injEq] at hstep
        obtain ⟨e1, e2⟩ := hstep
        subst e1 e2
        exact spec_quiet i s _ _ _ rfl (by quiet_list) rfl rfl (by simp [isReqFor])
      | recvRaised e =>
        simp only [RxOp.abs, step] at hstep
        split at hstep
        · simp only [Except.ok.injEq, Prod.mk.injEq] at hstep
          obtain ⟨e1, e2⟩ := hstep
          subst e1 e2
          exact spec_quiet i s _ _ _ rfl (by quiet_list) rfl rfl (by simp [isReqFor])
        · cases hstep
      | closed => simp [keeps] at hkeep
      | terminate =>
        simp only [RxOp.abs, step, Except.ok.injEq, Prod.mk.injEq] at hstep
        obtain ⟨e1, e2⟩ := hstep
        subst e1 e2
        exact spec_quiet i s _ _ _ rfl quiet_nil rfl rfl (by simp [isReqFor])
      | app j aop =>
        simp only [RxOp.abs, step] at hstep
        by_cases hji : j = i
        · subst hji
          have hop : ∀ a l, aop ≠ .streamClosed a l := by
            intro a l e; subst e; simp [keeps] at hkeep
          obtain ⟨w1, w2⟩ := streamSend_quiet _ _ _ _ _ hop hstep
          exact spec_quiet j s _ _ _ w1 w2 rfl rfl (by simp [isReqFor])
        · obtain ⟨w1, w2⟩ := streamSend_frame _ _ _ _ _ hstep
          exact spec_other i j hji s _ _ _ (w2 i (Ne.symm hji)) w1 rfl rfl (by simp [isReqFor])
      | sendTask n =>
        simp only [RxOp.abs, step] at hstep
        obtain ⟨w1, w2⟩ := sendTask_frame _ _ _ _ hstep
        exact spec_quiet i s _ _ _ w1 w2 rfl rfl (by simp [isReqFor])


/-! ### runs -/

def isReqB (i : Nat) : RxOp → Bool
  | .request j _ _ _ => j == i
  | _ => false

theorem expectR_split (i : Nat) (live : Bool) (op : RxOp) (rest : List RxOp) :
    expectR i live ((op :: rest).filter (rxFor i)) =
      expectR i live ([op].filter (rxFor i)) ++
        expectR i (live || isReqB i op) (rest.filter (rxFor i)) := by
  cases op with
  | request j hs ins lib =>
    by_cases hji : (j == i) = true
    · simp [List.filter_cons, rxFor, hji, expectR, isReqB]
    · simp [List.filter_cons, rxFor, hji, expectR, isReqB]
  | data j d f =>
    by_cases hji : (j == i) = true
    · simp [List.filter_cons, rxFor, hji, expectR, isReqB]
    · simp [List.filter_cons, rxFor, hji, expectR, isReqB]
  | low o =>
    by_cases hr : rxFor i (.low o) = true
    · simp [List.filter_cons, hr, expectR, isReqB]
    · simp [List.filter_cons, hr, expectR, isReqB]

theorem dlvFor_append (i : Nat) (a b : List Dlv) : dlvFor i (a ++ b) = dlvFor i a ++ dlvFor i b := by simp [dlvFor]
theorem acksOf_append (a b : List Dlv) : acksOf (a ++ b) = acksOf a ++ acksOf b := by simp [acksOf]

/-- **what stream `i`'s object is handed over a whole run is what its receive events must deliver**, whatever else happens
    on the connection in between; and every DATA event of the run is acknowledged -/
theorem deliveries (i kaMax : Nat) : ∀ (ops : List RxOp) (s s' : St) (dl : List Dlv),
    rxRun kaMax s ops = .ok (s', dl) → Adm i kaMax s ops →
    dlvFor i dl = expectR i (decide (i ∈ s.streams)) (ops.filter (rxFor i)) ∧ acksOf dl = flowsOf ops := by
  intro ops
  induction ops with
  | nil => intro s s' dl h _; simp [rxRun] at h; obtain ⟨_, rfl⟩ := h; simp [dlvFor, acksOf, flowsOf, expectR]
  | cons op rest ih =>
    intro s s' dl h hadm
    simp only [rxRun] at h
    split at h
    · cases h
    · rename_i s1 d1 h1
      split at h
      · cases h
      · rename_i s2 d2 h2
        simp only [Except.ok.injEq, Prod.mk.injEq] at h
        obtain ⟨e1, e2⟩ := h
        subst e1 e2
        obtain ⟨a1, a2⟩ := hadm
        obtain ⟨p1, p2, p3⟩ := rxStep_spec i kaMax s op s1 d1 h1 a1
        obtain ⟨q1, q2⟩ := ih s1 _ d2 h2 (a2 s1 d1 h1)
        have hl : decide (i ∈ s1.streams) = (decide (i ∈ s.streams) || isReqB i op) := by
          cases op <;> simp only [isReqFor] at p1 <;> simp [p1, isReqB]
          rename_i sid _ _ _
          by_cases hsi : sid = i <;> simp [hsi]
        refine ⟨?_, ?_⟩
        · rw [dlvFor_append, expectR_split, p2, q1, hl]
        · rw [acksOf_append, p3, q2]; cases op <;> simp [flowsOf]

theorem expectR_live (i : Nat) (ds : List (Bytes × Nat)) (tail : List RxOp) :
    expectR i true (ds.map (fun p => RxOp.data i p.1 p.2) ++ tail) = ds.map (fun p => Dlv.body i p.1) ++ expectR i true tail := by
  induction ds with
  | nil => rfl
  | cons p t ih => simp [expectR, ih]


/-! ### every DATA event is acknowledged, in every run (reset streams, closed connection, finished applications included) -/

def sidOf : RxOp → Nat
  | .request j _ _ _ => j
  | .data j _ _ => j
  | .low (.ev (.reset j)) => j
  | .low (.app j _) => j
  | _ => 0

theorem rxStep_acks (kaMax : Nat) (s : St) (op : RxOp) (s1 : St) (d1 : List Dlv)
    (h : rxStep kaMax s op = .ok (s1, d1)) (hok : op.ok = true) : acksOf d1 = flowsOf [op] := by
  by_cases hcl : op = .low .closed
  · subst hcl
    simp only [rxStep, RxOp.abs, step] at h
    simp only [Except.ok.injEq, Prod.mk.injEq] at h
    obtain ⟨_, rfl⟩ := h
    have : ∀ l : List Nat, acksOf (List.filterMap (decorate (.low .closed)) (l.flatMap (fun sid => [Out.toStream sid "streamClosed", Out.hasData]) ++ [Out.hasData])) = [] := by
      intro l
      induction l with
      | nil => simp [decorate, acksOf]
      | cons a t ih => simp only [List.flatMap_cons, List.cons_append, List.nil_append, List.filterMap_cons, decorate] at ih ⊢; simpa [acksOf] using ih
    rw [this]; rfl
  · have hadm : opAdm (sidOf op + 1) s op = true := by
      simp only [opAdm, hok, Bool.true_and, Bool.and_eq_true]
      constructor
      · cases op with
        | request => rfl
        | data => rfl
        | low o =>
          cases o with
          | ev e => cases e <;> simp [keeps, sidOf]
          | app j a => cases a <;> simp [keeps, sidOf]
          | closed => exact absurd rfl hcl
          | _ => rfl
      · cases op <;> simp [sidOf]
    exact (rxStep_spec (sidOf op + 1) kaMax s op s1 d1 h hadm).2.2

/-- **every DATA frame is acknowledged exactly once, with its flow-controlled length, in order** — in every run, whether or not the
    stream the frame belongs to still exists -/
theorem run_acks (kaMax : Nat) : ∀ (ops : List RxOp) (s s' : St) (dl : List Dlv),
    rxRun kaMax s ops = .ok (s', dl) → (∀ op ∈ ops, op.ok = true) → acksOf dl = flowsOf ops := by
  intro ops
  induction ops with
  | nil => intro s s' dl h _; simp [rxRun] at h; obtain ⟨_, rfl⟩ := h; rfl
  | cons op rest ih =>
    intro s s' dl h hok
    simp only [rxRun] at h
    split at h
    · cases h
    · rename_i s1 d1 h1
      split at h
      · cases h
      · rename_i s2 d2 h2
        simp only [Except.ok.injEq, Prod.mk.injEq] at h
        obtain ⟨e1, e2⟩ := h
        subst e1 e2
        rw [acksOf_append, rxStep_acks kaMax s op s1 d1 h1 (hok op (List.mem_cons_self ..)),
          ih s1 _ d2 h2 (fun o ho => hok o (List.mem_cons_of_mem _ ho))]
        cases op <;> simp [flowsOf]

end HC.Proto.H2Deliver
