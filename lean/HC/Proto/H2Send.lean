import HC.Prelude
import HC.Extracted.Guards
import HC.Extracted.Consts
/-!
# Model of the HTTP/2 send path of `hypercorn/protocol/h2.py`

`StreamBuffer` (push / pop / drain / close with its two events), `H2Protocol.stream_send` for body events,
`send_task` / `_send_data`, `_window_updated`, stream reset and connection close — for unboundedly many streams and
every interleaving of the applications (one sequential sender per stream), the send task and the reader.

Library (`h2`, `priority`) as assumed: `local_flow_control_window(i) = min(stream window, connection window)`;
calls on a stream the library considers closed raise `StreamClosedError`; `next(priority)` returns *some* unblocked
member of the tree (any of them: the model quantifies over the choice) and raises `DeadlockError` iff there is none.
-/
namespace HC.Proto.H2Send
open HC.Extracted

inductive PPc where | idle | inPush | inDrain
deriving Repr, DecidableEq

structure Str where
  hasBuf : Bool := false         -- `stream_buffers` has an entry
  buf : Nat := 0                 -- len(buffer)
  complete : Bool := false       -- `_complete`
  pausedEv : Bool := false       -- `_paused` is set
  emptyEv : Bool := false        -- `_is_empty` is set
  pusher : PPc := .idle          -- where the application's pending send() is waiting
  inTree : Bool := false         -- priority tree membership
  blocked : Bool := false
  window : Int := 0              -- stream flow-control window
  libClosed : Bool := false      -- h2 regards the stream as closed / reset
  live : Bool := false           -- `self.streams` has an entry
  -- ghosts
  pushed : Nat := 0
  sent : Nat := 0
  dropped : Nat := 0             -- bytes discarded by `StreamBuffer.close()`
  ended : Bool := false          -- END_STREAM sent
  appDone : Bool := false        -- the stream layer has passed EndBody/EndData down (it sends nothing after that)
  credit : Int := 0              -- total stream-level credit granted (initial window + updates + settings deltas)
deriving Repr, DecidableEq

inductive TaskPc where | running | parked | exited
deriving Repr, DecidableEq

structure St where
  str : Nat → Str
  connWin : Int
  connCredit : Int               -- ghost: total connection credit granted
  connSent : Nat := 0            -- ghost
  maxFrame : Nat
  hasData : Bool := false
  task : TaskPc := .running
  closed : Bool := false

def upd (f : Nat → Str) (i : Nat) (v : Str) : Nat → Str := fun j => if j = i then v else f j

@[simp] theorem upd_same (f : Nat → Str) (i : Nat) (v : Str) : upd f i v i = v := by simp [upd]
@[simp] theorem upd_other (f : Nat → Str) (i j : Nat) (v : Str) (h : j ≠ i) : upd f i v j = f j := by simp [upd, h]

def HIGH : Nat := Consts.h2_BUFFER_HIGH_WATER

/-- `StreamBuffer.close()` -/
def Str.closeBuf (x : Str) : Str :=
  { x with complete := true, dropped := x.dropped + x.buf, buf := 0, emptyEv := true, pausedEv := true }

inductive Op where
  | open_ (i : Nat) (w : Int)        -- RequestReceived → `_create_stream`
  | push (i n : Nat)                 -- the application's `send` reaches `stream_send(Body)` with `n > 0` bytes
  | pushWake (i : Nat)               -- a sender parked in `push` sees `_paused`, clears it and returns
  | end_ (i : Nat)                   -- `stream_send(EndBody)`
  | drainWake (i : Nat)              -- a sender parked in `drain` sees `_is_empty` and returns
  | pick (i : Nat)                   -- send task: `next(priority) = i`, `_send_data(i)`
  | consume                          -- send task at deadlock with `has_data` set: `wait()` returns, `clear()`
  | park                             -- send task at deadlock, `has_data` not set: waits
  | wake                             -- parked send task resumes: `clear()`
  | exit                             -- send task observes `self.closed`
  | winStream (i : Nat) (k : Nat)    -- WINDOW_UPDATE on a stream
  | winConn (k : Nat)                -- WINDOW_UPDATE on the connection
  | settings (d : Int)               -- SETTINGS changing INITIAL_WINDOW_SIZE by `d`
  | rst (i : Nat)                    -- RST_STREAM from the client
  | prio (i : Nat)                   -- PRIORITY frame (any stream id, in any state)
  | abandon (i : Nat)                -- the application finished without completing the response (reset by the server)
  | closed                           -- `handle(Closed)`
deriving Repr, DecidableEq

/-- bytes `_send_data` may take: `max(0, min(local_flow_control_window, max_outbound_frame_size))` -/
def chunk (s : St) (i : Nat) : Nat :=
  (max 0 (min (min (s.str i).window s.connWin) (s.maxFrame : Int))).toNat

/-- `DeadlockError`: no unblocked member -/
def deadlock (s : St) : Prop := ∀ j, (s.str j).inTree = true → (s.str j).blocked = true

def unblockAll (f : Nat → Str) : Nat → Str := fun j => let x := f j; { x with blocked := if x.hasBuf then false else x.blocked }

def step (s : St) : Op → Option St
  | .open_ i w =>
    let x := s.str i
    -- (after `handle(Closed)` the reader has stopped: no request is ever received on a closed connection)
    if s.closed || x.hasBuf || x.live || x.libClosed || x.ended then none else
    -- a fresh stream: new StreamBuffer (both events clear), inserted blocked into the tree
    -- (`DuplicateStreamError` when a PRIORITY frame came first: the entry is kept as it is)
    some { s with str := upd s.str i { hasBuf := true, inTree := true, blocked := if x.inTree then x.blocked else true,
                                       window := w, credit := w, live := true } }
  | .push i n =>
    let x := s.str i
    if x.pusher != .idle || n = 0 then none
    else if !x.inTree then some s                                     -- MissingStreamError: swallowed
    else if !x.hasBuf then some { s with hasData := true, str := upd s.str i { x with blocked := false } }   -- KeyError: swallowed
    else if x.complete then some { s with hasData := true, str := upd s.str i { x with blocked := false } }  -- BufferCompleteError
    else
      let b := x.buf + n
      let x1 := { x with blocked := false, buf := b, pushed := x.pushed + n, emptyEv := false }
      if Guards.bufferPushCmp.eval b HIGH then
        if x.pausedEv then some { s with hasData := true, str := upd s.str i { x1 with pausedEv := false } }
        else some { s with hasData := true, str := upd s.str i { x1 with pusher := .inPush } }
      else some { s with hasData := true, str := upd s.str i x1 }
  | .pushWake i =>
    let x := s.str i
    if x.pusher == .inPush && x.pausedEv then some { s with str := upd s.str i { x with pusher := .idle, pausedEv := false } } else none
  | .end_ i =>
    let x := s.str i
    if x.pusher != .idle then none
    else if !x.hasBuf then some { s with str := upd s.str i { x with appDone := true } }   -- KeyError on `stream_buffers[…].set_complete()`
    else
      let x1 := { x with complete := true, appDone := true }
      if !x.inTree then some { s with str := upd s.str i x1 }         -- MissingStreamError after set_complete
      else
        let x2 := { x1 with blocked := false }
        some { s with hasData := true, str := upd s.str i (if x.emptyEv then x2 else { x2 with pusher := .inDrain }) }
  | .drainWake i =>
    let x := s.str i
    if x.pusher == .inDrain && x.emptyEv then some { s with str := upd s.str i { x with pusher := .idle } } else none
  | .pick i =>
    let x := s.str i
    if s.task != .running || s.closed || !x.inTree || x.blocked then none
    else if !x.hasBuf then none                                       -- KeyError inside the handler: the send task would die
    else if x.libClosed then
      -- StreamClosedError → `buffer.close()`, forget buffer and tree entry
      some { s with str := upd s.str i { x.closeBuf with hasBuf := false, inTree := false } }
    else
      let n := min x.buf (chunk s i)
      let r := x.buf - n
      let x1 := { x with buf := r, sent := x.sent + n, window := x.window - n,
                         pausedEv := x.pausedEv || Guards.bufferPopRelease n r, emptyEv := x.emptyEv || (r == 0),
                         blocked := (n == 0) }
      let x2 := if x1.complete && r == 0 then { x1 with ended := true, hasBuf := false, inTree := false } else x1
      some { s with connWin := s.connWin - n, connSent := s.connSent + n, str := upd s.str i x2 }
  | .consume => if s.task == .running && !s.closed && s.hasData then some { s with hasData := false } else none
  | .park => if s.task == .running && !s.closed && !s.hasData then some { s with task := .parked } else none
  | .wake => if s.task == .parked && s.hasData then some { s with task := .running, hasData := false } else none
  | .exit => if s.task == .running && s.closed then some { s with task := .exited } else none
  | .winStream i k =>
    let x := s.str i
    some { s with hasData := true,
                  str := upd s.str i { x with window := x.window + k, credit := x.credit + k, blocked := if x.hasBuf then false else x.blocked } }
  | .winConn k =>
    some { s with hasData := true, connWin := s.connWin + k, connCredit := s.connCredit + k, str := unblockAll s.str }
  | .settings d =>
    some { s with hasData := true,
                  str := fun j => let x := s.str j
                                  { x with window := x.window + d, credit := x.credit + d, blocked := if x.hasBuf then false else x.blocked } }
  | .rst i =>
    let x := s.str i
    some { s with hasData := true, str := upd s.str i { x with libClosed := true, live := false, blocked := if x.hasBuf then false else x.blocked } }
  | .prio i =>
    let x := s.str i
    -- `reprioritize`, or on MissingStreamError `insert_stream` + `block`
    some { s with hasData := true, str := upd s.str i (if x.inTree then x else { x with inTree := true, blocked := true }) }
  | .abandon i =>
    let x := s.str i
    if x.pusher != .idle then none
    else if x.hasBuf && !x.complete && !x.libClosed then
      some { s with hasData := s.hasData || x.live, str := upd s.str i { x.closeBuf with hasBuf := false, inTree := false, libClosed := true, live := false } }
    else some { s with hasData := s.hasData || x.live, str := upd s.str i { x with live := false } }
  | .closed =>
    some { s with closed := true, hasData := true,
                  str := fun j => let x := s.str j; if x.hasBuf then { x.closeBuf with live := false } else { x with live := false } }

def LOW : Nat := Consts.h2_BUFFER_LOW_WATER

def init (connWin : Int) (maxFrame : Nat) : St :=
  { str := fun _ => {}, connWin := connWin, connCredit := connWin, maxFrame := maxFrame }

/-- what the environment of the send path guarantees about an op:
    `park`/`consume` stand for `DeadlockError`, so they are only taken when no member is unblocked;
    body events come from a stream object that is still registered and has not ended its body (the stream layer's
    state machine, C12 `nothing_after_end`; `_close_stream` pops the stream and marks it closed before anything else) -/
def opOk (s : St) : Op → Prop
  | .park => deadlock s
  | .consume => deadlock s
  | .push i _ => (s.str i).live = true ∧ (s.str i).appDone = false
  | .end_ i => (s.str i).live = true ∧ (s.str i).appDone = false
  | _ => True

/-- a run: `none` as soon as an op is not enabled -/
def runOk : St → List Op → Option St
  | s, [] => some s
  | s, o :: os => match step s o with
    | none => none
    | some s' => runOk s' os

/-- every op of the run satisfies `Q` in the state it is taken from -/
def allQ (Q : St → Op → Prop) : St → List Op → Prop
  | _, [] => True
  | s, o :: os => Q s o ∧ match step s o with | none => True | some s' => allQ Q s' os

theorem run_invariant (P : St → Prop) (Q : St → Op → Prop)
    (hstep : ∀ s s' o, P s → Q s o → step s o = some s' → P s') (ops : List Op) :
    ∀ (s s' : St), P s → allQ Q s ops → runOk s ops = some s' → P s' := by
  induction ops with
  | nil => intro s s' h _ hr; simp [runOk] at hr; subst hr; exact h
  | cons o os ih =>
    intro s s' h hok hr
    simp only [runOk] at hr
    simp only [allQ] at hok
    split at hr
    · cases hr
    · rename_i s1 hs1
      rw [hs1] at hok
      exact ih s1 s' (hstep s s1 o h hok.1 hs1) hok.2 hr

end HC.Proto.H2Send
