import HC.Prelude
import HC.Extracted.Guards
import HC.Extracted.Consts
import HC.Extracted.Atomic
/-!
# Model of the HTTP/2 send path of `hypercorn/protocol/h2.py`

`StreamBuffer` (push / pop / drain / close with its two events), `H2Protocol.stream_send` for body events and
`StreamClosed` (`_reset_abandoned_response`, `_close_stream`), `send_task` / `_send_data`, `_window_updated`,
`_priority_updated`, stream reset and connection close — for unboundedly many streams and every interleaving of the
applications (one sequential sender per stream), the send task and the reader.

Granularity: one op = the code between two suspension points of the real workers.  The suspension points are
`Event.wait()` (S4 `_paused` / `_is_empty`, S5 `has_data`) and the transport write inside `_flush()` (S6); `Event.set()`
and `Event.clear()` never suspend in either worker (`HC.Extracted.Atomic`, checked by the extractor).  So
* `_send_data` is three ops: `pick` (window, pop, `send_data` or `block`), `sent` (after the DATA flush: the
  `complete` test, `end_stream`), `endSent` (after the END_STREAM flush: forget buffer and tree entry);
* `push` / `end_` leave the sender in `inPush` / `inDrain` and `pushWake` / `drainWake` is the resumption (on asyncio an
  already set event resumes in the same loop turn; the op sequence is the same);
* an abandoned response is `abandon` (`reset_stream`, flush) then `abandonFin` (`buffer.close()`, forget, `_close_stream`).

Library (`h2`, `priority`) as assumed: `local_flow_control_window(i) = min(stream window, connection window)`;
calls on a stream the library considers closed raise `StreamClosedError`; `next(priority)` returns *some* unblocked
member of the tree (any of them: the model quantifies over the choice) and raises `DeadlockError` iff there is none;
`MissingStreamError` is a `KeyError`.
-/
namespace HC.Proto.H2Send
open HC.Extracted

inductive PPc where | idle | inPush | inDrain | inAbandon
deriving Repr, DecidableEq

structure Str where
  hasBuf : Bool := false         -- `stream_buffers` has an entry
  buf : Nat := 0                 -- len(buffer)   (of the buffer object last created for the stream)
  complete : Bool := false       -- `_complete`
  pausedEv : Bool := false       -- `_paused` is set
  emptyEv : Bool := false        -- `_is_empty` is set
  bufClosed : Bool := false      -- `_closed`: `close()` was called on the buffer
  pusher : PPc := .idle          -- where the application's pending send() is waiting
  inTree : Bool := false         -- priority tree membership
  blocked : Bool := false
  window : Int := 0              -- stream flow-control window
  libClosed : Bool := false      -- h2 regards the stream as reset (by the peer or by us)
  live : Bool := false           -- `self.streams` has an entry
  -- ghosts
  opened : Bool := false         -- `_create_stream` ran for this id (an application exists)
  pushed : Nat := 0
  sent : Nat := 0
  dropped : Nat := 0             -- bytes discarded by `StreamBuffer.close()`
  ended : Bool := false          -- END_STREAM sent
  credit : Int := 0              -- total stream-level credit granted (initial window + updates + settings deltas)
deriving Repr, DecidableEq

inductive TaskPc where
  | running                      -- at the top of the `while not self.closed` loop
  | sending (i : Nat)            -- in `_send_data(i)`, DATA handed to h2, waiting for the flush
  | ending (i : Nat)             -- in `_send_data(i)`, END_STREAM handed to h2, waiting for the flush
  | parked                       -- in `has_data.wait()`
  | exited
deriving Repr, DecidableEq

structure St where
  str : Nat → Str
  connWin : Int
  connCredit : Int               -- ghost: total connection credit granted
  connSent : Nat := 0            -- ghost
  maxFrame : Nat
  hasData : Bool := false
  task : TaskPc := .running
  closed : Bool := false

def upd (f : Nat → Str) (i : Nat) (v : Str) : Nat → Str := fun j => if j = i then v else f j

@[simp] theorem upd_same (f : Nat → Str) (i : Nat) (v : Str) : upd f i v i = v := by simp [upd]
@[simp] theorem upd_other (f : Nat → Str) (i j : Nat) (v : Str) (h : j ≠ i) : upd f i v j = f j := by simp [upd, h]

def HIGH : Nat := Consts.h2_BUFFER_HIGH_WATER
def LOW : Nat := Consts.h2_BUFFER_LOW_WATER

/-- `StreamBuffer.close()` -/
def Str.closeBuf (x : Str) : Str :=
  { x with complete := true, bufClosed := true, dropped := x.dropped + x.buf, buf := 0, emptyEv := true, pausedEv := true }

/-- the `except` clause of `_send_data`: `stream_buffers.pop(i, None)`, `close()` it if there was one, forget the tree
    entry if there is one -/
def Str.discard (x : Str) : Str :=
  { (if x.hasBuf then x.closeBuf else x) with hasBuf := false, inTree := false }

/-- `_close_stream`: forget the stream object (it is told `StreamClosed`) -/
def Str.gone (x : Str) : Str := { x with live := false }

inductive Op where
  | open_ (i : Nat) (w : Int)        -- RequestReceived → `_create_stream`
  | push (i n : Nat)                 -- the application's `send` reaches `stream_send(Body)` with `n > 0` bytes
  | pushWake (i : Nat)               -- a sender parked in `push` sees `_paused`, clears it and returns
  | end_ (i : Nat)                   -- `stream_send(EndBody)`
  | drainWake (i : Nat)              -- a sender parked in `drain` sees `_is_empty` and returns
  | pick (i : Nat)                   -- send task: `next(priority) = i`, `_send_data(i)` up to its first suspension
  | pickRaise (i : Nat)              -- … when h2 has already forgotten stream `i` (`local_flow_control_window` raises)
  | sent (i : Nat)                   -- send task: the DATA frame is flushed; `complete` test, `end_stream`
  | endSent (i : Nat)                -- send task: END_STREAM is flushed; buffer and tree entry forgotten
  | park                             -- send task at `DeadlockError`: `has_data.wait()`
  | wake                             -- parked send task resumes: `clear()`
  | exit                             -- send task observes `self.closed`
  | winStream (i : Nat) (k : Nat)    -- WINDOW_UPDATE on a stream
  | winConn (k : Nat)                -- WINDOW_UPDATE on the connection
  | settings (d : Int)               -- SETTINGS changing INITIAL_WINDOW_SIZE by `d`
  | maxFrame (m : Nat)               -- SETTINGS changing MAX_FRAME_SIZE
  | rst (i : Nat)                    -- RST_STREAM from the client
  | prio (i p : Nat)                 -- PRIORITY frame for stream `i` (any id, any state) depending on `p` (0 = none)
  | abandon (i : Nat)                -- `stream_send(StreamClosed)`: the application is finished with the stream
  | abandonFin (i : Nat)             -- … after the RST_STREAM of an abandoned response is flushed
  | closed                           -- `handle(Closed)`
deriving Repr, DecidableEq

/-- bytes `_send_data` may take: `max(0, min(local_flow_control_window, max_outbound_frame_size))` -/
def chunk (s : St) (i : Nat) : Nat :=
  (max 0 (min (min (s.str i).window s.connWin) (s.maxFrame : Int))).toNat

/-- `DeadlockError`: no unblocked member -/
def deadlock (s : St) : Prop := ∀ j, (s.str j).inTree = true → (s.str j).blocked = true

def unblockAll (f : Nat → Str) : Nat → Str := fun j => let x := f j; { x with blocked := if x.hasBuf then false else x.blocked }

def step (s : St) : Op → Option St
  | .open_ i w =>
    let x := s.str i
    -- (after `handle(Closed)` the reader has stopped: no request is received on a closed connection; ids are fresh)
    if s.closed || x.opened || x.hasBuf || x.live || x.libClosed || x.ended || x.pusher != .idle then none else
    -- a fresh stream: new StreamBuffer (both events clear), inserted blocked into the tree
    -- (`DuplicateStreamError` when a PRIORITY frame came first: the entry is kept as it is)
    some { s with str := upd s.str i { hasBuf := true, inTree := true, blocked := if x.inTree then x.blocked else true,
                                       window := w, credit := w, live := true, opened := true } }
  | .push i n =>
    let x := s.str i
    if x.pusher != .idle || n = 0 then none
    else if !x.inTree then some s                                     -- MissingStreamError: swallowed
    else if !x.hasBuf then some { s with hasData := true, str := upd s.str i { x with blocked := false } }   -- KeyError: swallowed
    else if x.complete then some { s with hasData := true, str := upd s.str i { x with blocked := false } }  -- BufferCompleteError
    else
      let b := x.buf + n
      let x1 := { x with blocked := false, buf := b, pushed := x.pushed + n, emptyEv := false }
      some { s with hasData := true, str := upd s.str i (if Guards.bufferPushCmp.eval b HIGH then { x1 with pusher := .inPush } else x1) }
  | .pushWake i =>
    let x := s.str i
    if x.pusher == .inPush && x.pausedEv then some { s with str := upd s.str i { x with pusher := .idle, pausedEv := false } } else none
  | .end_ i =>
    let x := s.str i
    if x.pusher != .idle then none
    else if !x.hasBuf then some s                                    -- KeyError on `stream_buffers[…].set_complete()`: swallowed
    else
      let x1 := { x with complete := true }
      if !x.inTree then some { s with str := upd s.str i x1 }         -- MissingStreamError after set_complete
      -- `drain()`: a complete buffer that is not closed has not drained yet, whatever `_is_empty` says
      else some { s with hasData := true,
                         str := upd s.str i { x1 with blocked := false, pusher := .inDrain,
                                                      emptyEv := if Guards.bufferDrainClears true x.bufClosed then false else x.emptyEv } }
  | .drainWake i =>
    let x := s.str i
    if x.pusher == .inDrain && x.emptyEv then some { s with str := upd s.str i { x with pusher := .idle } } else none
  | .pick i =>
    -- `_send_data(i)` in which `local_flow_control_window(i)` answers (h2 still has the stream object, reset or not)
    let x := s.str i
    if s.task != .running || s.closed || !x.inTree || x.blocked then none
    else if !x.hasBuf then some { s with str := upd s.str i x.discard }      -- KeyError → the `except` clause
    else
      let n := min x.buf (chunk s i)
      let r := x.buf - n
      let x1 := { x with buf := r, sent := x.sent + n, window := x.window - n,
                         pausedEv := x.pausedEv || Guards.bufferPopRelease n r, emptyEv := x.emptyEv || Guards.bufferPopEmpty r x.complete }
      if n > 0 then
        if x.libClosed then some { s with str := upd s.str i x.discard }      -- `send_data` raises StreamClosedError: what was popped is lost too
        else some { s with connWin := s.connWin - n, connSent := s.connSent + n, task := .sending i, str := upd s.str i x1 }
      else if Guards.sendDataEnds (Guards.bufferComplete x1.complete r) s.closed then
        if x.libClosed then some { s with str := upd s.str i x.discard }      -- `end_stream` raises
        else some { s with task := .ending i, str := upd s.str i { x1 with blocked := true, ended := true } }
      else some { s with str := upd s.str i { x1 with blocked := true } }
  | .pickRaise i =>
    -- `_send_data(i)` in which `local_flow_control_window(i)` raises: h2 has forgotten the (closed) stream
    let x := s.str i
    if s.task != .running || s.closed || !x.inTree || x.blocked || !(x.libClosed || x.ended) then none
    else some { s with str := upd s.str i x.discard }
  | .sent i =>
    let x := s.str i
    if s.task != .sending i then none
    else if !x.hasBuf then some { s with task := .running, str := upd s.str i x.discard }          -- KeyError → `except`
    else if Guards.sendDataEnds (Guards.bufferComplete x.complete x.buf) s.closed then
      if x.libClosed then some { s with task := .running, str := upd s.str i x.discard }            -- `end_stream` raises
      else some { s with task := .ending i, str := upd s.str i { x with ended := true } }
    else some { s with task := .running }
  | .endSent i =>
    let x := s.str i
    if s.task != .ending i then none
    -- `close()` the buffer (this is what releases the sender waiting in `drain`), forget it and the tree entry
    else some { s with task := .running, str := upd s.str i x.discard }
  | .park => if s.task == .running && !s.closed then some { s with task := .parked } else none
  | .wake => if s.task == .parked && s.hasData then some { s with task := .running, hasData := false } else none
  | .exit =>
    -- the loop ends; the `finally` of `send_task` closes every remaining buffer (nothing more will be sent)
    if s.task == .running && s.closed then
      some { s with task := .exited, str := fun j => let x := s.str j; if x.hasBuf then x.closeBuf else x }
    else none
  | .winStream i k =>
    let x := s.str i
    some { s with hasData := true,
                  str := upd s.str i { x with window := x.window + k, credit := x.credit + k, blocked := if x.hasBuf then false else x.blocked } }
  | .winConn k =>
    some { s with hasData := true, connWin := s.connWin + k, connCredit := s.connCredit + k, str := unblockAll s.str }
  | .settings d =>
    some { s with hasData := true,
                  str := fun j => let x := s.str j
                                  { x with window := x.window + d, credit := x.credit + d, blocked := if x.hasBuf then false else x.blocked } }
  | .maxFrame m => if m = 0 then none else some { s with maxFrame := m }
  | .rst i =>
    let x := s.str i
    let x1 := if x.hasBuf then x.closeBuf else x
    some { s with hasData := true, str := upd s.str i { x1 with libClosed := true, live := false, blocked := if x.hasBuf then false else x.blocked } }
  | .prio i p =>
    -- `reprioritize`, or on MissingStreamError `insert_stream` + `block`; a parent that is not in the tree is inserted blocked
    let f := if p != 0 && p != i && !(s.str p).inTree then upd s.str p { (s.str p) with inTree := true, blocked := true } else s.str
    let x := f i
    some { s with hasData := true, str := upd f i (if x.inTree then x else { x with inTree := true, blocked := true }) }
  | .abandon i =>
    let x := s.str i
    if x.pusher != .idle then none
    else if x.hasBuf && !x.complete && x.live && !x.libClosed then
      -- `_reset_abandoned_response`: `reset_stream`, then the flush suspends
      some { s with str := upd s.str i { x with libClosed := true, pusher := .inAbandon } }
    else some { s with hasData := s.hasData || x.live, str := upd s.str i x.gone }
  | .abandonFin i =>
    let x := s.str i
    if x.pusher != .inAbandon then none
    else some { s with hasData := s.hasData || x.live,
                       str := upd s.str i { x.closeBuf.gone with hasBuf := false, inTree := false, pusher := .idle } }
  | .closed =>
    some { s with closed := true, hasData := true,
                  str := fun j => let x := s.str j; if x.hasBuf then { x.closeBuf with live := false } else { x with live := false } }

def init (connWin : Int) (maxFrame : Nat) : St :=
  { str := fun _ => {}, connWin := connWin, connCredit := connWin, maxFrame := maxFrame }

/-- what the environment of the send path guarantees about an op: `park` stands for `DeadlockError`, so it is only
    taken when no member of the tree is unblocked.  (Nothing is assumed about the applications beyond what `step`
    itself requires — one pending `send` per stream.) -/
def opOk (s : St) : Op → Prop
  | .park => deadlock s
  | _ => True

/-- the ops of the send task (everything else is the environment: applications and reader) -/
def Op.isTask : Op → Bool
  | .pick _ | .pickRaise _ | .sent _ | .endSent _ | .park | .wake | .exit => true
  | _ => false

/-- a run: `none` as soon as an op is not enabled -/
def runOk : St → List Op → Option St
  | s, [] => some s
  | s, o :: os => match step s o with
    | none => none
    | some s' => runOk s' os

/-- every op of the run satisfies `Q` in the state it is taken from -/
def allQ (Q : St → Op → Prop) : St → List Op → Prop
  | _, [] => True
  | s, o :: os => Q s o ∧ match step s o with | none => True | some s' => allQ Q s' os

theorem run_invariant (P : St → Prop) (Q : St → Op → Prop)
    (hstep : ∀ s s' o, P s → Q s o → step s o = some s' → P s') (ops : List Op) :
    ∀ (s s' : St), P s → allQ Q s ops → runOk s ops = some s' → P s' := by
  induction ops with
  | nil => intro s s' h _ hr; simp [runOk] at hr; subst hr; exact h
  | cons o os ih =>
    intro s s' h hok hr
    simp only [runOk] at hr
    simp only [allQ] at hok
    split at hr
    · cases hr
    · rename_i s1 hs1
      rw [hs1] at hok
      exact ih s1 s' (hstep s s1 o h hok.1 hs1) hok.2 hr

/-! ### the recovery branch of `_send_data`: a priority tree that schedules a stream it does not know

`priority` 2.0.0 can keep a *removed* stream scheduled after a dependency loop has been reprioritized: `next(self.priority)`
then returns an id that is not a member of the tree (the library assumption above fails).  `_send_data(i)` for such an id
finds no buffer (`KeyError`, or h2 raises for the closed stream first), its `except` clause finds no buffer to close and
`remove_stream(i)` raises `MissingStreamError`; the handler of *that* starts again with a fresh `PriorityTree` holding
exactly the buffered streams.  Whether these are left blocked is read off the loop body (`Atomic.h2RebuildBlocks`,
`Atomic.h2SendDataRebuild`): `insert_stream` inserts a stream active.  The whole branch runs without a suspension point,
so it is one step.  It is kept apart from `Op` (an `XOp`): the library misbehaving is not an op of the send path proper,
and the model lets it happen for *any* non-member at *any* time the task is at the top of its loop. -/

/-- what the fresh tree does to one stream: member iff it has a buffer -/
def rebuildStr (x : Str) : Str := { x with inTree := x.hasBuf, blocked := x.hasBuf && Atomic.h2RebuildBlocks }

/-- `next(priority) = i` for a non-member `i`: `_send_data(i)` → `except` → `MissingStreamError` → fresh tree -/
def rebuild (s : St) (i : Nat) : Option St :=
  if s.task != .running || s.closed || (s.str i).inTree || (s.str i).hasBuf then none
  else some { s with str := fun j => rebuildStr (s.str j) }

/-- ops of the send path plus the library's misbehaviour -/
inductive XOp where
  | op (o : Op)
  | rebuild (i : Nat)
deriving Repr, DecidableEq

def xstep (s : St) : XOp → Option St
  | .op o => step s o
  | .rebuild i => rebuild s i

/-- the hypothesis on runs (`park` only at deadlock); nothing is assumed about when the library misbehaves -/
def xopOk (s : St) : XOp → Prop
  | .op o => opOk s o
  | .rebuild _ => True

def XOp.isTask : XOp → Bool
  | .op o => o.isTask
  | .rebuild _ => true

def xrunOk : St → List XOp → Option St
  | s, [] => some s
  | s, o :: os => match xstep s o with
    | none => none
    | some s' => xrunOk s' os

def xallQ (Q : St → XOp → Prop) : St → List XOp → Prop
  | _, [] => True
  | s, o :: os => Q s o ∧ match xstep s o with | none => True | some s' => xallQ Q s' os

theorem xrun_invariant (P : St → Prop) (Q : St → XOp → Prop)
    (hstep : ∀ s s' o, P s → Q s o → xstep s o = some s' → P s') (ops : List XOp) :
    ∀ (s s' : St), P s → xallQ Q s ops → xrunOk s ops = some s' → P s' := by
  induction ops with
  | nil => intro s s' h _ hr; simp [xrunOk] at hr; subst hr; exact h
  | cons o os ih =>
    intro s s' h hok hr
    simp only [xrunOk] at hr
    simp only [xallQ] at hok
    split at hr
    · cases hr
    · rename_i s1 hs1
      rw [hs1] at hok
      exact ih s1 s' (hstep s s1 o h hok.1 hs1) hok.2 hr

/-- a run of the send path proper is a run of the extended machine -/
theorem xrunOk_lift (ops : List Op) : ∀ s, xrunOk s (ops.map .op) = runOk s ops := by
  induction ops with
  | nil => intro s; rfl
  | cons o os ih =>
    intro s
    simp only [List.map_cons, xrunOk, runOk, xstep]
    cases step s o with
    | none => rfl
    | some s1 => exact ih s1

theorem xallQ_lift (Q : St → Op → Prop) (Q' : St → XOp → Prop) (hQ : ∀ s o, Q s o → Q' s (.op o)) (ops : List Op) :
    ∀ s, allQ Q s ops → xallQ Q' s (ops.map .op) := by
  induction ops with
  | nil => intro s _; trivial
  | cons o os ih =>
    intro s h
    simp only [allQ] at h
    simp only [List.map_cons, xallQ, xstep]
    refine ⟨hQ s o h.1, ?_⟩
    cases hs : step s o with
    | none => trivial
    | some s1 =>
      rw [hs] at h
      exact ih s1 h.2

end HC.Proto.H2Send
