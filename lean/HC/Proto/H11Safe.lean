import HC.Proto.H11Ev
/-!
# H11Safe — whole runs of `H11Protocol`: no op makes an exception escape the connection handler

Ops are those of `HC.Proto.H11.step` plus `deferredClose`, the `stream_send(StreamClosed)` a stream spawns after it answered a
request by itself (404 / 400): it runs `_maybe_recycle` at some later point.  `enabled` is `LibWf` + the scheduling facts;
`LibWf` / `NoEscape` follow the model's own run.
-/
namespace HC.Proto.H11
open HC HC.Stream HC.Lib HC.Extracted.H11Tables

theorem ev_ok (cfg : Cfg) (st : St) (g : Ws.Frag) (e : LibEv) (hI : Inv st g) (hpc : st.pc = .inLoop) (hsw : st.switched = false)
    (hp : libPossible cfg st g e = true) (hdec : decodeSitesTotal = true) (hname : Ws.Handshake.NamesLowered) :
    escapeEv cfg st e = none ∧ ∃ res, onLibEv cfg st e = some res ∧ Inv res.1 (ghostEv g e) := by
  obtain ⟨htop, hI1, hw1⟩ := loopTop_ok cfg st g hI hsw
  have hshape := loopTop_shape cfg st
  have hpc1 : (loopTop cfg st).1.pc = .inLoop := by rw [hshape]; exact hpc
  have hsw1 : (loopTop cfg st).1.switched = false := by rw [hshape]; exact hsw
  have hw1' : (loopTop cfg st).1.lib.waiting100 = false ∨ (loopTop cfg st).1.wsMode = true := by
    rcases hw1 with h | h
    · exact Or.inl h
    · exact Or.inr (by rw [(loopTop_objs cfg st).2.1]; exact h)
  unfold libPossible at hp
  have hon : onLibEv cfg st e = onLibEvBody cfg (loopTop cfg st).1 (loopTop cfg st).2 e := by
    simp [onLibEv, hpc, hsw]
  have hesc : escapeEv cfg st e = escapeBody cfg (loopTop cfg st).1 e := by
    unfold escapeEv; rw [htop]; simp
  rw [hon, hesc]
  cases e with
  | request r => exact ev_request cfg _ _ g r hI1 hpc1 hsw1 hp hdec hname
  | data d => exact ⟨rfl, ev_data cfg _ _ g d hI1 hp⟩
  | eom => exact ⟨rfl, ev_eom cfg _ _ g hI1 hp⟩
  | connClosed => exact ⟨rfl, ev_connClosed cfg _ _ g hI1 hw1' hp⟩
  | needData => exact ⟨rfl, ev_needData cfg _ _ g hI1 hw1'⟩
  | paused => exact ⟨rfl, ev_paused cfg _ _ g hI1 hw1'⟩
  | protoError hint => exact ev_protoError cfg _ _ g hint hI1 hw1' hp
  | wsData d evs => exact ev_wsData cfg _ _ g d evs hI1 hp

/-- the ops of `step`, plus the deferred `stream_send(StreamClosed)` of a stream that answered by itself -/
inductive OpT where
  | op (o : Op)
  | deferredClose
deriving Repr, DecidableEq

def stepT (cfg : Cfg) (token : Bytes → Bytes) (ext : Option Bytes) (st : St) : OpT → Option (St × List Out × Option PyErr)
  | .op o => step cfg token ext st o
  | .deferredClose => some ((maybeRecycle st).1, (maybeRecycle st).2, none)

/-- meaning (b) for a whole op: only the reader's ops can let an exception out of the connection handler (what `app_send`
    raises goes to the application: C12) -/
def escapeT (cfg : Cfg) (st : St) : OpT → Option Escape
  | .op (.ev e) => escapeEv cfg st e
  | _ => none

/-- meaning (a): the op is one the libraries and the scheduler can produce in this state (`LibWf`, executable) -/
def enabled (cfg : Cfg) (st : St) (g : Ws.Frag) : OpT → Bool
  | .op .begin => st.pc == .idle                                   -- the server awaits `handle(RawData)` before it reads again
  | .op (.ev e) => st.pc == .inLoop && !st.switched && libPossible cfg st g e
  | .op (.sendHttp _ _) => sched st
  | .op (.sendWs _ _) => sched st
  | .op .closed => true
  | .op .terminate => true
  | .deferredClose => true

def ghostT (g : Ws.Frag) : OpT → Ws.Frag
  | .op (.ev e) => ghostEv g e
  | _ => g

/-- **one op**: enabled and started from the invariant, it lets nothing escape, is accepted by the model and keeps the invariant -/
theorem step_ok (cfg : Cfg) (token : Bytes → Bytes) (ext : Option Bytes) (st : St) (g : Ws.Frag) (o : OpT) (hI : Inv st g)
    (hen : enabled cfg st g o = true) (hdec : decodeSitesTotal = true) (hname : Ws.Handshake.NamesLowered) :
    escapeT cfg st o = none ∧ ∃ r, stepT cfg token ext st o = some r ∧ Inv r.1 (ghostT g o) := by
  cases o with
  | deferredClose => exact ⟨rfl, _, rfl, inv_maybeRecycle hI⟩
  | op o =>
    cases o with
    | begin =>
      simp only [enabled, beq_iff_eq] at hen
      refine ⟨rfl, ({ st with pc := .inLoop }, [], none), by simp [stepT, step, hen], ?_⟩
      exact inv_frame hI rfl rfl rfl id (fun i s h hs => hI.live i s h hs) (fun _ => hI.hand rfl)
        (fun h1 h2 h3 => ⟨(hI.wait h1 h2 h3).1, rfl⟩)
    | ev e =>
      simp only [enabled, Bool.and_eq_true, beq_iff_eq, Bool.not_eq_true'] at hen
      obtain ⟨hesc, res, hres, hinv⟩ := ev_ok cfg st g e hI hen.1.1 hen.1.2 hen.2 hdec hname
      exact ⟨hesc, (res.1, res.2, none), by simp [stepT, step, hres], hinv⟩
    | sendHttp i m => exact ⟨rfl, _, rfl, appSendHttp_inv cfg st g i m hI hen⟩
    | sendWs i m => exact ⟨rfl, _, rfl, appSendWs_inv cfg token ext st g i m hI⟩
    | closed =>
      have hI1 : Inv (closeStream st).1 g := inv_closeStream hI
      let st' : St := { (closeStream st).1 with
        closed := true, canRead := true, pc := if (closeStream st).1.pc == .parked then .inLoop else (closeStream st).1.pc }
      refine ⟨rfl, (st', (closeStream st).2, none), rfl, ?_⟩
      refine inv_frame hI1 rfl rfl rfl id (fun i s h hs => hI1.live i s h hs) (fun _ => hI1.hand rfl) ?_
      intro h1 h2 h3
      have := hI1.wait h1 h2 h3
      refine ⟨this.1, ?_⟩
      show (if (closeStream st).1.pc == .parked then Pc.inLoop else (closeStream st).1.pc) = .inLoop
      rw [this.2]; rfl
    | terminate =>
      exact ⟨rfl, _, rfl, inv_frame hI rfl rfl rfl id (fun i s h hs => hI.live i s h hs) (fun _ => hI.hand rfl) (fun h1 h2 h3 => hI.wait h1 h2 h3)⟩

/-- `LibWf` along a run: every op is enabled in the state the model reaches -/
def LibWf (cfg : Cfg) (token : Bytes → Bytes) (ext : Option Bytes) : St → Ws.Frag → List OpT → Prop
  | _, _, [] => True
  | st, g, o :: os => enabled cfg st g o = true ∧ ∀ r, stepT cfg token ext st o = some r → LibWf cfg token ext r.1 (ghostT g o) os

/-- executable form of `LibWf` (what the driver evaluates on tapped sessions) -/
def libWfB (cfg : Cfg) (token : Bytes → Bytes) (ext : Option Bytes) : St → Ws.Frag → List OpT → Bool
  | _, _, [] => true
  | st, g, o :: os => enabled cfg st g o && (match stepT cfg token ext st o with
      | none => true
      | some r => libWfB cfg token ext r.1 (ghostT g o) os)

theorem libWfB_sound (cfg : Cfg) (token : Bytes → Bytes) (ext : Option Bytes) : ∀ (ops : List OpT) (st : St) (g : Ws.Frag),
    libWfB cfg token ext st g ops = true → LibWf cfg token ext st g ops := by
  intro ops
  induction ops with
  | nil => intro st g _; trivial
  | cons o os ih =>
    intro st g h
    simp only [libWfB, Bool.and_eq_true] at h
    refine ⟨h.1, fun r hr => ?_⟩
    have h2 := h.2
    rw [hr] at h2
    exact ih _ _ h2

/-- along the run no op lets an exception escape, and every op is accepted by the model (never `none` = "rejected") -/
def NoEscape (cfg : Cfg) (token : Bytes → Bytes) (ext : Option Bytes) : St → Ws.Frag → List OpT → Prop
  | _, _, [] => True
  | st, g, o :: os => escapeT cfg st o = none ∧ ∃ r, stepT cfg token ext st o = some r ∧ NoEscape cfg token ext r.1 (ghostT g o) os

theorem noEscape_of_inv (cfg : Cfg) (token : Bytes → Bytes) (ext : Option Bytes) (hdec : decodeSitesTotal = true)
    (hname : Ws.Handshake.NamesLowered) :
    ∀ (ops : List OpT) (st : St) (g : Ws.Frag),
    Inv st g → LibWf cfg token ext st g ops → NoEscape cfg token ext st g ops := by
  intro ops
  induction ops with
  | nil => intro st g _ _; trivial
  | cons o os ih =>
    intro st g hI hwf
    obtain ⟨hen, hrest⟩ := hwf
    obtain ⟨hesc, r, hr, hinv⟩ := step_ok cfg token ext st g o hI hen hdec hname
    exact ⟨hesc, r, hr, ih _ _ hinv (hrest r hr)⟩

/-- the state after a run (when every op was accepted) -/
def runT (cfg : Cfg) (token : Bytes → Bytes) (ext : Option Bytes) : St → List OpT → Option St
  | st, [] => some st
  | st, o :: os => match stepT cfg token ext st o with
    | none => none
    | some r => runT cfg token ext r.1 os

theorem runT_some_of_noEscape (cfg : Cfg) (token : Bytes → Bytes) (ext : Option Bytes) : ∀ (ops : List OpT) (st : St) (g : Ws.Frag),
    NoEscape cfg token ext st g ops → (runT cfg token ext st ops).isSome = true := by
  intro ops
  induction ops with
  | nil => intro st g _; rfl
  | cons o os ih =>
    intro st g h
    obtain ⟨_, r, hr, hrest⟩ := h
    simp only [runT, hr]
    exact ih _ _ hrest

end HC.Proto.H11
