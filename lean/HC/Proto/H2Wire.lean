import HC.Proto.H2Send
import HC.Proto.Heads
import HC.Extracted.ReqGlue
import HC.Stream.Http
/-!
# H2Wire — the HTTP/2 send path with its contents: what the client is sent, frame by frame

A thin wrapper around `HC.Proto.H2Send` (which counts bytes).  The wrapped state carries, next to the `H2Send` state
itself,

* `out`   – the frames written for the connection, in wire order, each tagged with its stream;
* `bufB`  – the *contents* of every `StreamBuffer.buffer` (a FIFO: `push` extends it at the back, `pop` takes from the
            front, `close()` empties it);
* `trl`   – `StreamBuffer.trailers` (what `stream_send(Trailers)` has appended so far);
* `hist`  – ghost: the stream events `stream_send` has been called with, per stream, newest first.

Every operation of `H2Send` keeps its meaning (the `H2Send` component of a wrapped step *is* the `H2Send` step, theorem
`HC.Props.C02.wire_refines`); the wrapper only says which bytes the counters stand for:

* a `pick` that sends `k` bytes (`sent` grows by `k`) writes one DATA frame holding the first `k` buffered bytes;
* the step in which `ended` becomes true writes the frame `_end_stream` produces: the empty DATA frame with END_STREAM, or —
  when trailers are pending — the HEADERS frame carrying them and END_STREAM;
* `stream_send(Response)` writes a HEADERS frame `[(":status", …)] ++ headers ++ response_headers("h2")` at once (it does not
  go through the buffer), provided h2 still has the stream open on our side;
* an abandoned response (`abandon` taking the `reset_stream` branch) writes RST_STREAM.

Three stream events carry contents and are therefore operations of their own here (`head`, `body`, `trailers`); `body i d` is
`H2Send.push i d.length`.
-/
namespace HC.Proto.H2Wire
open HC HC.Proto.H2Send HC.Proto.Heads

inductive Frame where
  | headers (hs : Headers)          -- HEADERS (no END_STREAM)
  | data (d : Bytes)                -- DATA (no END_STREAM)
  | endStream                       -- the empty DATA frame with END_STREAM (`connection.end_stream`)
  | trailersEnd (hs : Headers)      -- HEADERS with END_STREAM (`send_headers(stream_id, trailers, end_stream=True)`)
  | rst                             -- RST_STREAM
deriving Repr, DecidableEq

/-- `H2Protocol._end_stream`: trailers pending (the test is read off the source: `ReqGlue.endStreamTest`) → they end the
    stream; otherwise the empty DATA frame does -/
def endFrame (trailers : Headers) : Frame :=
  if HC.Extracted.ReqGlue.endStreamTest trailers.length then .trailersEnd trailers else .endStream

/-- the stream events of `hypercorn.protocol.events` that `H2Protocol.stream_send` handles for a response -/
inductive AOp where
  | head (status : Nat) (hs : Headers)      -- Response / InformationalResponse
  | body (d : Bytes)                        -- Body
  | trailers (hs : Headers)                 -- Trailers
  | end_                                    -- EndBody
  | closed                                  -- StreamClosed
deriving Repr, DecidableEq

structure G where
  s : St
  out : List (Nat × Frame) := []
  bufB : Nat → Bytes := fun _ => []
  trl : Nat → Headers := fun _ => []
  hist : Nat → List AOp := fun _ => []

inductive GOp where
  | head (i status : Nat) (hs : Headers)
  | body (i : Nat) (d : Bytes)
  | trailers (i : Nat) (hs : Headers)
  | low (o : Op)                            -- every other operation of the send path (`push` needs its contents: use `body`)
deriving Repr, DecidableEq

def updF {α : Type} (f : Nat → α) (i : Nat) (v : α) : Nat → α := fun j => if j = i then v else f j

@[simp] theorem updF_same {α : Type} (f : Nat → α) (i : Nat) (v : α) : updF f i v i = v := by simp [updF]
@[simp] theorem updF_other {α : Type} (f : Nat → α) (i j : Nat) (v : α) (h : j ≠ i) : updF f i v j = f j := by simp [updF, h]

/-- the stream an `H2Send` op serves (the same table as `HC.Props.C09.opStream`) -/
def opSid : Op → Option Nat
  | .open_ i _ | .push i _ | .pushWake i | .end_ i | .drainWake i | .pick i | .pickRaise i | .sent i | .endSent i
  | .winStream i _ | .rst i | .abandon i | .abandonFin i => some i
  | _ => none

/-- what a step of the send path from `g.s` to `s'` writes for stream `j`, read off the counters -/
def emitF (g : G) (s' : St) (j : Nat) : List Frame :=
  let x := g.s.str j
  let x' := s'.str j
  (if x.sent < x'.sent then [Frame.data ((g.bufB j).take (x'.sent - x.sent))] else []) ++
  (if x'.ended && !x.ended then [endFrame (g.trl j)] else []) ++
  (if x'.pusher == .inAbandon && x.pusher != .inAbandon then [Frame.rst] else [])

/-- the ghost components after a step of the send path from `g.s` to `s'` (op `o`): bytes leave a buffer from the front
    (`pop`) or all at once (`close()`); a stream that is opened gets a fresh buffer -/
def afterLow (g : G) (o : Op) (s' : St) : G :=
  { s := s',
    out := g.out ++ (match opSid o with | some j => (emitF g s' j).map (fun f => (j, f)) | none => []),
    bufB := fun j => (g.bufB j).drop ((g.s.str j).buf - (s'.str j).buf),
    trl := fun j => if (s'.str j).opened && !(g.s.str j).opened then [] else g.trl j,
    hist := match o with
      | .end_ i => updF g.hist i (.end_ :: g.hist i)
      | .abandon i => updF g.hist i (.closed :: g.hist i)
      | _ => g.hist }

/-- one step.  `srv` = `config.response_headers("h2")`.  An application exists for a stream only once `_create_stream`
    ran for it (`opened`), hence the guard of the three content-carrying stream events. -/
def gstep (srv : Headers) (g : G) : GOp → Option G
  | .head i status hs =>
    let x := g.s.str i
    if !x.opened then none else
    -- `send_headers` + `_flush`; h2 refuses (ProtocolError, swallowed) when the stream is reset or already ended by us
    -- ("written" = handed to the transport: after `handle(Closed)` h2 still accepts the call)
    some { g with out := if !x.libClosed && !x.ended then g.out ++ [(i, .headers (h2Headers status hs srv))] else g.out,
                  hist := updF g.hist i (.head status hs :: g.hist i) }
  | .body i d =>
    let x := g.s.str i
    if !x.opened || d.isEmpty then none else
    match step g.s (.push i d.length) with
    | none => none
    | some s' =>
      some { g with s := s',
                    -- `StreamBuffer.push` extends the buffer unless one of the swallowed exceptions came first
                    bufB := if x.inTree && x.hasBuf && !x.complete then updF g.bufB i (g.bufB i ++ d) else g.bufB,
                    hist := updF g.hist i (.body d :: g.hist i) }
  | .trailers i hs =>
    let x := g.s.str i
    if !x.opened then none else
    -- `self.stream_buffers[event.stream_id].trailers.extend(event.headers)` (KeyError swallowed)
    some { g with trl := if x.hasBuf then updF g.trl i (g.trl i ++ hs) else g.trl,
                  hist := updF g.hist i (.trailers hs :: g.hist i) }
  | .low o =>
    match o with
    | .push _ _ => none
    | _ => match step g.s o with
      | none => none
      | some s' => some (afterLow g o s')

def ginit (connWin : Int) (maxFrame : Nat) : G := { s := init connWin maxFrame }

def grun (srv : Headers) : G → List GOp → Option G
  | g, [] => some g
  | g, o :: os => match gstep srv g o with
    | none => none
    | some g' => grun srv g' os

/-- the only hypothesis on schedules (as in C08/C09): the send task goes to sleep only when `next(priority)` raised
    `DeadlockError` -/
def gOk (g : G) : GOp → Prop
  | .low o => opOk g.s o
  | _ => True

def gAllOk (srv : Headers) : G → List GOp → Prop
  | _, [] => True
  | g, o :: os => gOk g o ∧ match gstep srv g o with | none => True | some g' => gAllOk srv g' os

/-- the `H2Send` operations a wrapped operation stands for -/
def proj : GOp → List Op
  | .head _ _ _ => []
  | .body i d => [.push i d.length]
  | .trailers _ _ => []
  | .low o => [o]

/-- the frames written on stream `i`, in order -/
def wireOf (i : Nat) (out : List (Nat × Frame)) : List Frame := (out.filter (fun f => f.1 == i)).map (·.2)

/-- the stream events of stream `i` in a schedule, in order -/
def appOf (i : Nat) : GOp → Option AOp
  | .head j st hs => if j = i then some (.head st hs) else none
  | .body j d => if j = i then some (.body d) else none
  | .trailers j hs => if j = i then some (.trailers hs) else none
  | .low (.end_ j) => if j = i then some .end_ else none
  | .low (.abandon j) => if j = i then some .closed else none
  | _ => none

def appOps (i : Nat) (ops : List GOp) : List AOp := ops.filterMap (appOf i)

/-! ### reading a frame list -/

def Frame.isHead : Frame → Bool | .headers _ => true | _ => false
def Frame.isData : Frame → Bool | .data _ => true | _ => false
def Frame.isEnd : Frame → Bool | .endStream => true | .trailersEnd _ => true | _ => false

/-- the DATA payload of a frame list, concatenated in order -/
def dataOf : List Frame → Bytes
  | [] => []
  | .data d :: r => d ++ dataOf r
  | _ :: r => dataOf r

/-- the DATA payloads of a frame list -/
def payloads : List Frame → List Bytes
  | [] => []
  | .data d :: r => d :: payloads r
  | _ :: r => payloads r

/-! ### reading a history (newest first) -/

/-- progress of a response through `stream_send`: 0 nothing yet, 1 head sent (body), 2 trailers, 3 body ended,
    4 stream closed; 9 = not the order `HTTPStream` produces -/
def tr (p : Nat) : AOp → Nat
  | .head _ _ => if p = 0 then 1 else 9
  | .body _ => if p = 1 then 1 else 9
  | .trailers _ => if p = 1 ∨ p = 2 then 2 else 9
  | .end_ => if p = 1 ∨ p = 2 then 3 else 9
  | .closed => if p = 3 then 4 else 9

def ph : List AOp → Nat
  | [] => 0
  | o :: r => tr (ph r) o

def bodyOf : List AOp → Bytes
  | [] => []
  | .body d :: r => bodyOf r ++ d
  | _ :: r => bodyOf r

def trlOf : List AOp → Headers
  | [] => []
  | .trailers hs :: r => trlOf r ++ hs
  | _ :: r => trlOf r

def headsOf (srv : Headers) : List AOp → List Frame
  | [] => []
  | .head st hs :: r => headsOf srv r ++ [.headers (h2Headers st hs srv)]
  | _ :: r => headsOf srv r

/-- the stream events an `HTTPStream` event becomes in `H2Protocol.stream_send` (the access-log call is not one) -/
def evOps : List HC.Stream.Http.Ev → List AOp
  | [] => []
  | .response st hs :: r => .head st hs :: evOps r
  | .info st hs :: r => .head st hs :: evOps r
  | .body d :: r => .body d :: evOps r
  | .trailers hs :: r => .trailers hs :: evOps r
  | .endBody :: r => .end_ :: evOps r
  | .streamClosed :: r => .closed :: evOps r
  | _ :: r => evOps r

end HC.Proto.H2Wire
