import HC.Lib.H11M
import HC.Stream.Http
import HC.Stream.Ws
import HC.Proto.Heads
import HC.Extracted.ReqGlue
/-!
# Model of `hypercorn/protocol/h11.py` (`H11Protocol`) over the library machine `H11M`

One *op* is one atomic piece of the real code: the handling of one `next_event()` result inside `_handle_events`,
one `app_send` call of the current application, or `handle(Closed)`.  Outputs are everything the protocol does to its
environment: calls into h11 (`libSend`), events to the server (`up…`), application spawns and queue puts.
The reader coroutine is a program counter: `idle` (no `handle(RawData)` in progress), `inLoop`, `parked`
(waiting on `can_read` after `PAUSED`).
-/
namespace HC.Proto.H11
open HC HC.Stream HC.Lib HC.Extracted HC.Extracted.H11Tables

structure Cfg where
  keepAliveMax : Nat
  rawHeaders : Bool := false            -- h11_pass_raw_headers
  serverHeaders : Headers := []         -- config.response_headers("h11") (date value is an input)
  wsMaxLen : Nat := 16777216
  serverNames : List Bytes := []
  pingInterval : Bool := false
deriving Repr, DecidableEq

/-- a `h11.Request` event as the tap reports it -/
structure ReqEv where
  method : Bytes
  target : Bytes
  headers : Headers                      -- lower-cased names (h11 normalises)
  rawHeaders : Headers := []             -- `headers.raw_items()`
  version : Bytes                        -- b"1.1" | b"1.0" | b"2.0"
deriving Repr, DecidableEq

inductive LibEv where
  | request (r : ReqEv)
  | data (d : Bytes)
  | eom
  | connClosed
  | needData
  | paused
  | protoError (hint : Nat)
  | wsData (d : Bytes) (evs : List Ws.WsEv)     -- H11WSConnection pass-through + what wsproto yields for it
deriving Repr, DecidableEq

inductive LibSend where
  | info (status : Nat) (headers : Headers)
  | response (status : Nat) (headers : Headers)
  | data (d : Bytes)
  | eom
deriving Repr, DecidableEq

structure Scope where
  kind : String                          -- "http" | "websocket"
  method : String
  version : String
  rawPath : Bytes
  query : Bytes
  headers : Headers
deriving Repr, DecidableEq

inductive Out where
  | libSend (e : LibSend) (ok : Bool)    -- a call into h11; `ok = false`: it raised LocalProtocolError
  | upRaw (n : Nat)                      -- RawData handed to the server (bytes h11 produced / ws pass-through)
  | upClosed
  | upUpdated (idle : Bool)
  | spawn (inst : Nat) (scope : Scope)
  | putHttp (inst : Nat) (m : Http.AppMsg)
  | putWs (inst : Nat) (m : Ws.AppMsg)
  | access (status : Option Nat)
  | switchH2c (trailingIsInput : Unit)   -- H2CProtocolRequiredError raised to the wrapper
  | switchPrior
  | startNextCycle (ok : Bool)
  | wsOther (e : Ws.Ev)                  -- ws stream events that do not reach h11 (spawnPings, endData)
deriving Repr, DecidableEq

inductive Stream where
  | http (s : Http.S)
  | ws (s : Ws.S)
deriving Repr, DecidableEq

inductive Pc where | idle | inLoop | parked
deriving Repr, DecidableEq

structure St where
  lib : H11M.St := {}
  objs : List Stream := []               -- every stream object ever created (applications keep theirs after closure)
  cur : Option Nat := none               -- `self.stream`: index into `objs`
  wsMode : Bool := false                 -- `self.connection` is an H11WSConnection
  keepAliveRequests : Nat := 0
  requestComplete : Bool := false        -- `self.request_complete`: EndOfMessage seen for the current request
  canRead : Bool := false
  pc : Pc := .idle
  terminated : Bool := false
  switched : Bool := false               -- the wrapper replaced this protocol by H2Protocol
  closed : Bool := false                 -- `self.closed`: `handle(Closed)` has run (nothing further will be served)
  spawns : Nat := 0                      -- ghost
  cycles : Nat := 0                      -- ghost: successful start_next_cycle calls
deriving Repr, DecidableEq

def St.stream (st : St) : Option Stream := st.cur.bind (fun i => st.objs[i]?)
def St.setObj (st : St) (i : Nat) (o : Stream) : St := { st with objs := st.objs.set i o }
/-- `self.stream = <new object>` -/
def St.newObj (st : St) (o : Stream) : St := { st with objs := st.objs ++ [o], cur := some st.objs.length }

/-! ### helpers: header inspection exactly as the glue does it -/

def hdr (name : Bytes) (hs : Headers) : Option Bytes :=
  (hs.reverse.find? (fun h => Bytes.lower (Bytes.stripL1 h.1) == name)).map (fun h => Bytes.stripL1 h.2)

def hasToken (tok : Bytes) (v : Bytes) : Bool :=
  (Bytes.splitOnB 44 (Bytes.lower v)).any (fun t => Bytes.stripL1 t == tok)

def reqInfo (r : ReqEv) : H11M.ReqInfo :=
  let conn := (r.headers.filter (fun h => h.1 == "connection".b)).flatMap (fun h => (Bytes.splitOnB 44 (Bytes.lower h.2)).map Bytes.strip)
  let http10 := decide (r.version < "1.1".b)
  { isHead := r.method == "HEAD".b, isConnect := r.method == "CONNECT".b,
    hasUpgrade := (r.headers.filter (fun h => h.1 == "upgrade".b)).any (fun h => (Bytes.splitOnB 44 h.2).any (fun t => Bytes.strip t ≠ [])),
    keepAlive := !(conn.contains "close".b) && !http10,
    http10 := http10,
    expect100 := !http10 && (r.headers.any (fun h => h.1 == "expect".b && Bytes.lower h.2 == "100-continue".b)) }

def respInfo (status : Nat) (hs : Headers) : H11M.RespInfo :=
  { status := status,
    hasContentLength := hs.any (fun h => Bytes.lower h.1 == "content-length".b),
    hasChunked := hs.any (fun h => Bytes.lower h.1 == "transfer-encoding".b && hasToken "chunked".b h.2),
    connClose := hs.any (fun h => Bytes.lower h.1 == "connection".b && hasToken "close".b h.2) }

/-- `_send_h11_event`: the call, its outcome per `H11M`, and whether the LocalProtocolError is re-raised -/
def libSend (st : St) (e : LibSend) : St × List Out × Bool :=
  let r : Option H11M.St := match e with
    | .info s _ => H11M.sendInfo st.lib s
    | .response s hs => H11M.sendResponse st.lib (respInfo s hs)
    | .data _ => H11M.sendData st.lib
    | .eom => H11M.sendEom st.lib
  match r with
  | some lib' => ({ st with lib := lib' }, [.libSend e true] ++ (match e with | .data [] => [] | _ => [.upRaw 0]), false)
  | none =>
    let lib' := H11M.sendFailed st.lib
    -- `errored = our_state is ERROR` before the call; `if their_state != ERROR and not errored: raise`
    ({ st with lib := lib' }, [.libSend e false], lib'.client != .error && st.lib.server != .error)

/-- `_close_stream` -/
def closeStream (st : St) : St × List Out :=
  match st.cur with
  | none => (st, [])
  | some i =>
    match st.objs[i]? with
    | none => ({ st with cur := none }, [])
    | some (.http s) =>
      let (s', puts, evs) := Http.handle s .streamClosed
      ({ (st.setObj i (.http s')) with cur := none },
        evs.filterMap (fun e => match e with | .access a => some (Out.access a) | _ => none) ++ puts.map (Out.putHttp i))
    | some (.ws s) =>
      let (s', puts, _, _) := Ws.handle s .streamClosed
      ({ (st.setObj i (.ws s')) with cur := none }, puts.map (Out.putWs i))

/-- `_maybe_recycle` -/
def maybeRecycle (st0 : St) : St × List Out :=
  let st := (closeStream st0).1
  let o1 := (closeStream st0).2
  -- `not self.closed and not terminated and our_state is DONE and their_state is DONE` (a response completed after the
  -- connection was lost does not recycle it); `our_state` of an H11WSConnection is `None`
  if !st.closed && !st.terminated && st.lib.server == .done && st.lib.client == .done && !st.wsMode then
    match H11M.startNextCycle st.lib with
    | some lib' =>
      ({ st with lib := lib', canRead := true, cycles := st.cycles + 1, pc := if st.pc == .parked then .inLoop else st.pc },
        o1 ++ [.startNextCycle true, .upUpdated true])
    | none => (st, o1 ++ [.startNextCycle false, .upClosed])
  else ({ st with closed := true, canRead := true, pc := if st.pc == .parked then .inLoop else st.pc }, o1 ++ [.upClosed])

/-- `stream_send(event)` for the events of an HTTP stream; returns `raised = true` when a LocalProtocolError escapes -/
def httpStreamSend (cfg : Cfg) (st : St) : Http.Ev → St × List Out × Bool
  | .response status hs =>
    match Heads.h11Response status hs cfg.serverHeaders st.keepAliveRequests cfg.keepAliveMax with
    | .final s h => libSend st (.response s h)
    | .informational s h => libSend st (.info s h)
  | .info _ _ => (st, [], false)
  | .body d => libSend st (.data d)
  | .endBody => libSend st .eom
  | .trailers _ => (st, [], false)
  | .push _ _ => (st, [], false)
  | .access a => (st, [.access a], false)
  | .spawnClose => (st, [.wsOther .spawnClose], false)
  | .streamClosed => let (st', o) := maybeRecycle st; (st', o, false)

def wsStreamSend (cfg : Cfg) (st : St) : Ws.Ev → St × List Out × Bool
  | .response status hs =>
    match Heads.h11Response status hs cfg.serverHeaders st.keepAliveRequests cfg.keepAliveMax with
    | .final s h => libSend st (.response s h)
    | .informational s h => libSend st (.info s h)
  | .body d => libSend st (.data d)
  | .endBody => libSend st .eom
  | .data _ => (st, [.upRaw 1], false)              -- raw frame bytes go straight to the transport
  | .endData => (st, [.wsOther .endData], false)
  | .access a => (st, [.access (some a)], false)
  | .spawnPings => (st, [.wsOther .spawnPings], false)
  | .spawnClose => (st, [.wsOther .spawnClose], false)
  | .streamClosed => let (st', o) := maybeRecycle st; (st', o, false)

def runHttpEvs (cfg : Cfg) : St → List Http.Ev → St × List Out × Bool
  | st, [] => (st, [], false)
  | st, e :: es =>
    let (st1, o1, raised) := httpStreamSend cfg st e
    if raised then (st1, o1, true)
    else let (st2, o2, r2) := runHttpEvs cfg st1 es; (st2, o1 ++ o2, r2)

def runWsEvs (cfg : Cfg) : St → List Ws.Ev → St × List Out × Bool
  | st, [] => (st, [], false)
  | st, e :: es =>
    let (st1, o1, raised) := wsStreamSend cfg st e
    if raised then (st1, o1, true)
    else let (st2, o2, r2) := runWsEvs cfg st1 es; (st2, o1 ++ o2, r2)

/-- the application that owns stream object `i` calls `send(message)` / finishes (`none`).
    Result: new state, outputs, and the exception (if any) raised into the application.
    The object survives `_close_stream` in the application's closure, so sends after closure reach a closed stream. -/
def appSendHttp (cfg : Cfg) (st : St) (i : Nat) (m : Option Http.Msg) : St × List Out × Option PyErr :=
  match st.objs[i]? with
  | some (.http s) =>
    let (s', evs, err) := Http.appSend s m
    -- the stream keeps its new state unless a protocol-level send raised: every state assignment follows its send
    let (st2, outs, raised) := runHttpEvs cfg (st.setObj i (.http s')) evs
    if raised then (st2.setObj i (.http s), outs, some .exception) else (st2, outs, err)
  | _ => (st, [], none)

/-- the stream event whose protocol-level send raised (the first one), if any -/
def firstRaisedWs (cfg : Cfg) : St → List Ws.Ev → Option Ws.Ev
  | _, [] => none
  | st, e :: es => if (wsStreamSend cfg st e).2.2 then some e else firstRaisedWs cfg (wsStreamSend cfg st e).1 es

def appSendWs (cfg : Cfg) (token : Bytes → Bytes) (ext : Option Bytes) (st : St) (i : Nat) (m : Option Ws.Msg) : St × List Out × Option PyErr :=
  match st.objs[i]? with
  | some (.ws s) =>
    let (s', evs, err) := Ws.appSend token ext s m
    let (st2, outs, raised) := runWsEvs cfg (st.setObj i (.ws s')) evs
    -- a protocol-level send that raised leaves the stream as it stood at that send (`Ws.stateAtRaise`: WSStream assigns its
    -- state before the sends of accept / close and between the sends of a rejection)
    if raised then (st2.setObj i (.ws (Ws.stateAtRaise m s s' (firstRaisedWs cfg (st.setObj i (.ws s')) evs))), outs, some .exception)
    else (st2, outs, err)
  | _ => (st, [], none)

/-! ### the reader side -/

/-- position of an h11 state in the order the extractor numbers them (`Guards.h11ErrorIgnored`) -/
def hstIdx : HSt → Nat
  | .idle => 0 | .sendResponse => 1 | .sendBody => 2 | .done => 3 | .mustClose => 4 | .closed => 5 | .error => 6
  | .mightSwitch => 7 | .switched => 8

/-- the guard under which `_handle_events` ignores a RemoteProtocolError (`if <guard>: break`), as extracted from the source -/
def errIgnored (st : St) : Bool :=
  Guards.h11ErrorIgnored st.cur.isSome st.requestComplete (hstIdx st.lib.server) (hstIdx st.lib.client)

/-- with the guard the source has (`self.stream is not None and self.request_complete`; the theorems that need it discharge `hg`
    by `rfl` on the extracted definition) the error is only ever ignored after a COMPLETE request whose stream is live -/
theorem errIgnored_eq (hg : ∀ a b o t, Guards.h11ErrorIgnored a b o t = (a && b)) (st : St) :
    errIgnored st = (st.cur.isSome && st.requestComplete) := hg _ _ _ _

def decodeAsciiUpper (b : Bytes) : String := Bytes.toString (Bytes.upper b)

def validServerName (cfg : Cfg) (hs : Headers) : Bool :=
  if cfg.serverNames.isEmpty then true
  else
    -- `for name, value in request.headers: if <ReqGlue.serverNameKey name>: host = value.decode(); break` (test extracted)
    let host := ((hs.find? (fun h => ReqGlue.serverNameKey h.1)).map (·.2)).getD []
    cfg.serverNames.contains host

/-- `_check_protocol`: h2c upgrade / prior-knowledge preface -/
inductive Switch where | none | h2c | prior
deriving Repr, DecidableEq

def reqIsH2c (r : ReqEv) : Bool := ((hdr "upgrade".b r.headers).map Bytes.lower) == some "h2c".b

def reqHasBody (r : ReqEv) : Bool :=
  r.headers.any (fun h => let n := Bytes.lower (Bytes.stripL1 h.1); n == "content-length".b || n == "transfer-encoding".b)

def reqIsPreface (r : ReqEv) : Bool := r.method == "PRI".b && r.target == "*".b && r.version == "2.0".b

def checkProtocol (r : ReqEv) : Switch :=
  if reqIsH2c r && !reqHasBody r then .h2c
  else if reqIsPreface r then .prior
  else .none

/-- `_create_stream`'s decision: WebSocket iff GET + Upgrade: websocket + a Connection `upgrade` token -/
def isWebsocketRequest (r : ReqEv) : Bool :=
  let upgrade := (hdr "upgrade".b r.headers).getD []
  let connection := (hdr "connection".b r.headers).getD []
  (Bytes.splitOnB 44 (Bytes.lower connection)).any (fun t => Bytes.stripL1 t == "upgrade".b) &&
  Bytes.lower upgrade == "websocket".b && Bytes.upper r.method == "GET".b

def scopeOf (cfg : Cfg) (r : ReqEv) (ws : Bool) : Scope :=
  { kind := if ws then "websocket" else "http", method := decodeAsciiUpper r.method, version := Bytes.toString r.version,
    -- `raw_path` / `query_string` of the scope as HTTPStream.handle(Request) derives them from the target (expressions extracted)
    rawPath := ReqGlue.targetRawPath r.target, query := ReqGlue.targetQuery r.target,
    headers := if cfg.rawHeaders then r.rawHeaders else r.headers }

/-- handling of one `next_event()` result (one iteration of the `_handle_events` loop) -/
def loopTop (cfg : Cfg) (st : St) : St × List Out :=
  -- `if they_are_waiting_for_100_continue: send 100`
  if st.lib.waiting100 && !st.wsMode then ((libSend st (.info 100 cfg.serverHeaders)).1, (libSend st (.info 100 cfg.serverHeaders)).2.1)
  else (st, [])

def onLibEvBody (cfg : Cfg) (st : St) (o0 : List Out) (e : LibEv) : Option (St × List Out) :=
  match e with
  | .protoError hint =>
    let lib' := H11M.recvError st.lib
    let st := { st with lib := lib' }
    -- unexpected data after a complete request while its stream is live: ignored, the response in progress continues
    if errIgnored st then some ({ st with pc := .idle }, o0) else
    let (st, o1) :=
      if lib'.server == .idle || lib'.server == .sendResponse then
        let (st1, a, _) := libSend st (.response hint ([("content-length".b, "0".b), ("connection".b, "close".b)] ++ cfg.serverHeaders))
        let (st2, b, _) := libSend st1 .eom
        (st2, a ++ b)
      else (st, [])
    some ({ st with pc := .idle }, o0 ++ o1 ++ [.upClosed])
  | .request r =>
    match H11M.recvRequest st.lib (reqInfo r) with
    | none => none                                  -- not a sequence h11 can produce
    | some lib' =>
      let st := { st with lib := lib', requestComplete := false }
      match checkProtocol r with
      | .h2c =>
        let (st1, a, _) := libSend st (.info 101 (cfg.serverHeaders ++ [("connection".b, "upgrade".b), ("upgrade".b, "h2c".b)]))
        some ({ st1 with switched := true, pc := .idle }, o0 ++ [.upUpdated false] ++ a ++ [.switchH2c ()])
      | .prior => some ({ st with switched := true, pc := .idle }, o0 ++ [.upUpdated false, .switchPrior])
      | .none =>
        let ws := isWebsocketRequest r
        let sc := scopeOf cfg r ws
        let inst := st.spawns
        let hdrs := sc.headers
        if ws then
          match Ws.onRequest cfg.wsMaxLen sc.version hdrs (validServerName cfg hdrs) cfg.pingInterval with
          | .error _ => none                          -- uncaught exception in the handler (reported by the harness)
          | .ok (s, puts, evs) =>
            let oid := st.objs.length
            let st1 := { (st.newObj (.ws s)) with wsMode := true, spawns := if s.hasAppPut then inst + 1 else inst }
            let (st2, outs, _) := runWsEvs cfg st1 evs
            some ({ st2 with keepAliveRequests := st2.keepAliveRequests + 1 },
              o0 ++ [.upUpdated false] ++ (if s.hasAppPut then [.spawn oid sc] else []) ++ puts.map (Out.putWs oid) ++ outs)
        else
          let ok := validServerName cfg hdrs
          let s : Http.S := { method := sc.method, version := sc.version, reqHeaders := hdrs, hasAppPut := ok, closed := !ok,
                              st := if ok then .request else .closed }
          let oid := st.objs.length
          let st1 := { (st.newObj (.http s)) with spawns := if ok then inst + 1 else inst }
          let (st2, outs, _) :=
            if ok then (st1, [], false)
            else runHttpEvs cfg st1 [.response 404 [("content-length".b, "0".b), ("connection".b, "close".b)], .endBody, .access (some 404), .spawnClose]
          some ({ st2 with keepAliveRequests := st2.keepAliveRequests + 1 },
            o0 ++ [.upUpdated false] ++ (if ok then [.spawn oid sc] else []) ++ outs)
  | .paused =>
    -- `if self.closed: break` else `await can_read.clear(); await can_read.wait()`
    if st.closed then some ({ st with pc := .idle }, o0)
    else some ({ st with canRead := false, pc := .parked }, o0)
  | .connClosed =>
    match H11M.recvClosed st.lib with
    | none => none
    | some lib' => some ({ st with lib := lib', pc := .idle }, o0)
  | .needData => some ({ st with pc := .idle }, o0)
  | .data d =>
    match H11M.recvData st.lib with
    | none => none
    | some lib' =>
      let st := { st with lib := lib' }
      match st.cur, st.stream with
      | some i, some (.http s) =>
        let (s', puts, _) := Http.handle s (.body d)
        some (st.setObj i (.http s'), o0 ++ puts.map (Out.putHttp i))
      | some _, some (.ws _) => none
      | _, _ => some ({ st with pc := .idle }, o0)
  | .eom =>
    match H11M.recvEom st.lib with
    | none => none
    | some lib' =>
      let st := { st with lib := lib' }
      match st.cur, st.stream with
      | some i, some (.http s) =>
        let (s', puts, _) := Http.handle s .endBody
        some ({ st with requestComplete := true }.setObj i (.http s'), o0 ++ puts.map (Out.putHttp i))
      | some _, some (.ws _) => none
      | _, _ => some ({ st with pc := .idle }, o0)
  | .wsData _ evs =>
    match st.cur, st.stream with
    | some i, some (.ws s) =>
      let (s', puts, wevs, err) := Ws.handle s (.data evs)
      match err with
      | some _ => none                               -- uncaught exception inside the connection handler
      | none =>
        let r := runWsEvs cfg (st.setObj i (.ws s')) wevs
        -- a LocalProtocolError that `_send_h11_event` re-raises here is an uncaught exception of the handler
        -- messages are put before the events they cause are sent on, except for data before the accept: the 400 goes
        -- out first and `_close_after_error` then hands the waiting application its disconnect
        if r.2.2 then none
        else if s.hs.accepted then some (r.1, o0 ++ puts.map (Out.putWs i) ++ r.2.1)
        else some (r.1, o0 ++ r.2.1.filter (fun o => o != Out.wsOther .spawnClose) ++ puts.map (Out.putWs i) ++
                          r.2.1.filter (fun o => o == Out.wsOther .spawnClose))     -- (the spawn of StreamClosed comes last)
    | _, _ => some ({ st with pc := .idle }, o0)

def onLibEv (cfg : Cfg) (st : St) (e : LibEv) : Option (St × List Out) :=
  if st.pc != .inLoop || st.switched then none
  else onLibEvBody cfg (loopTop cfg st).1 (loopTop cfg st).2 e

inductive Op where
  | begin                                            -- `handle(RawData)` starts: the reader enters the loop
  | ev (e : LibEv)
  | sendHttp (obj : Nat) (m : Option Http.Msg)
  | sendWs (obj : Nat) (m : Option Ws.Msg)
  | closed                                           -- `handle(Closed)`
  | terminate                                        -- `context.terminated` gets set
deriving Repr, DecidableEq

def step (cfg : Cfg) (token : Bytes → Bytes) (ext : Option Bytes) (st : St) : Op → Option (St × List Out × Option PyErr)
  | .begin => if st.pc == .idle then some ({ st with pc := .inLoop }, [], none) else none
  | .ev e => (onLibEv cfg st e).map (fun (s, o) => (s, o, none))
  | .sendHttp i m => some (appSendHttp cfg st i m)
  | .sendWs i m => some (appSendWs cfg token ext st i m)
  | .closed =>
    -- `self.closed = True; _close_stream(); can_read.set()` (a parked reader is released)
    let (s, o) := closeStream st
    some ({ s with closed := true, canRead := true, pc := if s.pc == .parked then .inLoop else s.pc }, o, none)
  | .terminate => some ({ st with terminated := true }, [], none)

end HC.Proto.H11
