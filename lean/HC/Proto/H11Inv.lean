import HC.Proto.H11Total
/-!
# H11Inv — the invariant behind C04 `total_h1`

Every stream object ever created is *inert* (its application can no longer make it send anything), or it is the latest one
and h11's reader side is past IDLE; an HTTP stream that has not finished its response keeps h11's writer out of
IDLE / DONE / MUST_CLOSE (so the connection is only recycled when every object is inert and a new stream never has a live
predecessor); a WebSocket stream still in HANDSHAKE has h11's writer in SEND_RESPONSE with the upgrade proposal registered
(so the 400 for early data is accepted); the 100-continue flag is only up between a `Request` and the next loop top.
-/
namespace HC.Proto.H11
open HC HC.Stream HC.Lib HC.Extracted.H11Tables

theorem set_self {α : Type} : ∀ (l : List α) (i : Nat) (a : α), l[i]? = some a → l.set i a = l
  | [], _, _, h => by simp at h
  | x :: xs, 0, a, h => by simp at h; simp [h]
  | x :: xs, i + 1, a, h => by simp at h; simp [set_self xs i a h]

theorem St.setObj_self (st : St) (i : Nat) (o : Stream) (h : st.objs[i]? = some o) : st.setObj i o = st := by
  simp [St.setObj, set_self _ _ _ h]

def HttpInert (s : Http.S) : Prop := s.st = .closed ∧ s.closed = true

/-- the application owning this object can no longer make it emit anything -/
def Inert : Stream → Prop
  | .http s => HttpInert s
  | .ws s => s.closed = true

def closedFlag : Stream → Bool
  | .http s => s.closed
  | .ws s => s.closed

/-- `InvX true` is the invariant; `InvX false` is what holds *inside* an application send of the latest WebSocket stream, between
    the events it hands to the protocol (the HANDSHAKE clause is re-established when the send is over) -/
structure InvX (b : Bool) (st : St) (g : Ws.Frag) : Prop where
  wsObj : ∀ (i : Nat) (s : Ws.S), st.objs[i]? = some (Stream.ws s) → st.wsMode = true ∧ Ws.Ok s
  httpObj : ∀ (i : Nat) (s : Http.S), st.objs[i]? = some (Stream.http s) → (s.st = .response ∨ s.st = .trailers) → s.response.isSome = true
  buf : ∀ (i : Nat) (s : Ws.S), st.cur = some i → st.objs[i]? = some (Stream.ws s) → Ws.BufRel g s.buffer
  frag0 : st.wsMode = false → g = none
  curLast : ∀ (i : Nat), st.cur = some i → i + 1 = st.objs.length
  openCur : ∀ (i : Nat) (o : Stream), st.objs[i]? = some o → closedFlag o = false → st.cur = some i
  objs : ∀ (i : Nat) (o : Stream), st.objs[i]? = some o → Inert o ∨ (i + 1 = st.objs.length ∧ st.lib.client ≠ .idle)
  live : ∀ (i : Nat) (s : Http.S), st.objs[i]? = some (Stream.http s) → s.st ≠ .closed → st.lib.client = .error ∨ H11M.NotBad st.lib.server
  hand : b = true → ∀ (i : Nat) (s : Ws.S), st.cur = some i → st.objs[i]? = some (Stream.ws s) → s.st = .handshake → s.closed = false →
    st.lib.server = .sendResponse ∧ st.lib.pendUpgrade = true
  wait : st.lib.waiting100 = true → st.wsMode = false → st.switched = false → st.lib.server = .sendResponse ∧ st.pc = .inLoop

abbrev Inv (st : St) (g : Ws.Frag) : Prop := InvX true st g

theorem InvX.weaken {b : Bool} {st : St} {g : Ws.Frag} (h : InvX b st g) : InvX false st g :=
  { h with hand := fun hb => by cases hb }

theorem inv_init : Inv {} none where
  wsObj := by intro i s h; simp at h
  httpObj := by intro i s h; simp at h
  buf := by intro i s h; simp at h
  frag0 := fun _ => rfl
  curLast := by intro i h; simp at h
  openCur := by intro i o h; simp at h
  objs := by intro i o h; simp at h
  live := by intro i s h; simp at h
  hand := by intro _ i s h; simp at h
  wait := by intro h; simp at h

/-- frame: the objects, the current stream and the mode are untouched; what changed is h11's state and the reader's position -/
theorem inv_frame {b b' : Bool} {st st' : St} {g : Ws.Frag} (hI : InvX b st g) (ho : st'.objs = st.objs) (hc : st'.cur = st.cur) (hw : st'.wsMode = st.wsMode)
    (h1 : st'.lib.client = .idle → st.lib.client = .idle)
    (h2 : ∀ (i : Nat) (s : Http.S), st.objs[i]? = some (Stream.http s) → s.st ≠ .closed → st'.lib.client = .error ∨ H11M.NotBad st'.lib.server)
    (h3 : b' = true → ∀ (i : Nat) (s : Ws.S), st.cur = some i → st.objs[i]? = some (Stream.ws s) → s.st = .handshake → s.closed = false →
      st'.lib.server = .sendResponse ∧ st'.lib.pendUpgrade = true)
    (h4 : st'.lib.waiting100 = true → st'.wsMode = false → st'.switched = false → st'.lib.server = .sendResponse ∧ st'.pc = .inLoop) :
    InvX b' st' g where
  wsObj := by intro i s h; rw [ho] at h; rw [hw]; exact hI.wsObj i s h
  httpObj := by intro i s h; rw [ho] at h; exact hI.httpObj i s h
  buf := by intro i s h1' h2'; rw [hc] at h1'; rw [ho] at h2'; exact hI.buf i s h1' h2'
  frag0 := by intro h; rw [hw] at h; exact hI.frag0 h
  curLast := by intro i h; rw [hc] at h; rw [ho]; exact hI.curLast i h
  openCur := by intro i o h hf; rw [ho] at h; rw [hc]; exact hI.openCur i o h hf
  objs := by
    intro i o h; rw [ho] at h
    rcases hI.objs i o h with hin | ⟨hl, hne⟩
    · exact Or.inl hin
    · exact Or.inr ⟨by rw [ho]; exact hl, fun hi => hne (h1 hi)⟩
  live := by intro i s h hs; rw [ho] at h; exact h2 i s h hs
  hand := by intro hb i s hcur h hs hcl; rw [hc] at hcur; rw [ho] at h; exact h3 hb i s hcur h hs hcl
  wait := h4

/-! ### `_close_stream` -/

/-- what `handle(StreamClosed)` does to a stream object -/
def closeObj : Stream → Stream
  | .http s => .http (Http.handle s .streamClosed).1
  | .ws s => .ws (Ws.handle s .streamClosed).1

theorem closeObj_http (s : Http.S) : ∃ s', closeObj (.http s) = .http s' ∧ s'.st = s.st ∧ s'.closed = true ∧ s'.response = s.response := by
  refine ⟨_, rfl, ?_⟩
  unfold Http.handle
  by_cases h : s.closed = true
  · simp [h]
  · simp [h]

theorem closeObj_ws (s : Ws.S) : ∃ s', closeObj (.ws s) = .ws s' ∧ s'.st = s.st ∧ s'.closed = true ∧ s'.hs = s.hs ∧ s'.conn = s.conn ∧
    s'.buffer = s.buffer := by
  have h := Ws.handle_closed_total s
  exact ⟨_, rfl, h.2.2.2.2.2.1, h.2.2.2.2.2.2, h.2.2.1, h.2.2.2.1, h.2.2.2.2.1⟩

theorem closeStream_shape (st : St) :
    (closeStream st).1 = { st with cur := none, objs := (closeStream st).1.objs } ∧
    (closeStream st).1.objs.length = st.objs.length ∧
    ∀ (j : Nat), (closeStream st).1.objs[j]? = (st.objs[j]?).map (fun o => if st.cur = some j then closeObj o else o) := by
  unfold closeStream
  cases hc : st.cur with
  | none =>
    refine ⟨by cases st; simp_all, rfl, fun j => ?_⟩
    cases st.objs[j]? <;> simp
  | some i =>
    simp only []
    cases ho : st.objs[i]? with
    | none =>
      simp only []
      refine ⟨?_, ?_, fun j => ?_⟩
      · first | rfl | trivial
      · first | rfl | trivial
      · by_cases hij : i = j
        · subst hij; simp [ho]
        · cases st.objs[j]? <;> simp [hij]
    | some o =>
      have hlt : i < st.objs.length := by
        rcases List.getElem?_eq_some_iff.mp ho with ⟨h, _⟩; exact h
      have hget : st.objs[i] = o := (List.getElem?_eq_some_iff.mp ho).2
      cases o with
      | http s =>
        simp only []
        refine ⟨?_, by simp [St.setObj], fun j => ?_⟩
        · first | rfl | trivial
        · simp only [St.setObj, List.getElem?_set]
          by_cases hij : i = j
          · subst hij; simp [hlt, closeObj, hget]
          · simp only [hij, if_false]
            cases st.objs[j]? <;> simp [hij]
      | ws s =>
        simp only []
        refine ⟨?_, by simp [St.setObj], fun j => ?_⟩
        · first | rfl | trivial
        · simp only [St.setObj, List.getElem?_set]
          by_cases hij : i = j
          · subst hij; simp [hlt, closeObj, hget]
          · simp only [hij, if_false]
            cases st.objs[j]? <;> simp [hij]

theorem inert_closeObj (o : Stream) (h : Inert o) : Inert (closeObj o) := by
  cases o with
  | http s => obtain ⟨s', he, h1, h2, _⟩ := closeObj_http s; rw [he]; exact ⟨by rw [h1]; exact h.1, h2⟩
  | ws s => obtain ⟨s', he, _, h2, _⟩ := closeObj_ws s; rw [he]; exact h2

theorem closedFlag_closeObj (o : Stream) : closedFlag (closeObj o) = true := by
  cases o with
  | http s => obtain ⟨s', he, _, h2, _⟩ := closeObj_http s; rw [he]; exact h2
  | ws s => obtain ⟨s', he, _, h2, _⟩ := closeObj_ws s; rw [he]; exact h2

theorem inv_closeStream {b b' : Bool} {st : St} {g : Ws.Frag} (hI : InvX b st g) : InvX b' (closeStream st).1 g := by
  obtain ⟨hshape, hlen, hobj⟩ := closeStream_shape st
  have hlib : (closeStream st).1.lib = st.lib := by rw [hshape]
  have hwm : (closeStream st).1.wsMode = st.wsMode := by rw [hshape]
  have hcur : (closeStream st).1.cur = none := by rw [hshape]
  have hsw : (closeStream st).1.switched = st.switched := by rw [hshape]
  have hpc : (closeStream st).1.pc = st.pc := by rw [hshape]
  -- every object of the new list comes from an object of the old one
  have hfrom : ∀ (j : Nat) (o' : Stream), (closeStream st).1.objs[j]? = some o' → ∃ o, st.objs[j]? = some o ∧ (o' = o ∨ (st.cur = some j ∧ o' = closeObj o)) := by
    intro j o' h
    rw [hobj j] at h
    cases ho : st.objs[j]? with
    | none => simp [ho] at h
    | some o =>
      simp only [ho, Option.map_some, Option.some.injEq] at h
      refine ⟨o, rfl, ?_⟩
      split at h
      · rename_i hc; exact Or.inr ⟨hc, h.symm⟩
      · exact Or.inl h.symm
  refine ⟨?_, ?_, ?_, ?_, ?_, ?_, ?_, ?_, ?_, ?_⟩
  · intro i s h
    obtain ⟨o, ho, hcase⟩ := hfrom i _ h
    rw [hwm]
    rcases hcase with rfl | ⟨_, he⟩
    · exact hI.wsObj i s ho
    · cases o with
      | http s0 => obtain ⟨s', he', _⟩ := closeObj_http s0; rw [he'] at he; cases he
      | ws s0 =>
        obtain ⟨s', he', _, _, h4, h5, _⟩ := closeObj_ws s0
        rw [he'] at he; cases he
        have := hI.wsObj i s0 ho
        exact ⟨this.1, fun ha => by rw [h5]; exact this.2 (by rw [← h4]; exact ha)⟩
  · intro i s h hs
    obtain ⟨o, ho, hcase⟩ := hfrom i _ h
    rcases hcase with rfl | ⟨_, he⟩
    · exact hI.httpObj i s ho hs
    · cases o with
      | ws s0 => obtain ⟨s', he', _⟩ := closeObj_ws s0; rw [he'] at he; cases he
      | http s0 =>
        obtain ⟨s', he', h1, _, h3⟩ := closeObj_http s0
        rw [he'] at he; cases he
        rw [h3]; exact hI.httpObj i s0 ho (by rw [← h1]; exact hs)
  · intro i s h; rw [hcur] at h; cases h
  · intro h; rw [hwm] at h; exact hI.frag0 h
  · intro i h; rw [hcur] at h; cases h
  · intro i o' h hf
    exfalso
    obtain ⟨o, ho, hcase⟩ := hfrom i _ h
    rcases hcase with rfl | ⟨hc, he⟩
    · -- unchanged and open: it was the current stream, so it was changed
      have hc := hI.openCur i o' ho hf
      rw [hobj i, ho] at h
      simp only [Option.map_some, hc, if_true, Option.some.injEq] at h
      rw [← h, closedFlag_closeObj] at hf; cases hf
    · rw [he, closedFlag_closeObj] at hf; cases hf
  · intro i o' h
    obtain ⟨o, ho, hcase⟩ := hfrom i _ h
    rw [hlen, hlib]
    rcases hI.objs i o ho with hin | hlast
    · rcases hcase with rfl | ⟨_, he⟩
      · exact Or.inl hin
      · rw [he]; exact Or.inl (inert_closeObj o hin)
    · exact Or.inr hlast
  · intro i s h hs
    obtain ⟨o, ho, hcase⟩ := hfrom i _ h
    rw [hlib]
    rcases hcase with rfl | ⟨_, he⟩
    · exact hI.live i s ho hs
    · cases o with
      | ws s0 => obtain ⟨s', he', _⟩ := closeObj_ws s0; rw [he'] at he; cases he
      | http s0 =>
        obtain ⟨s', he', h1, _, _⟩ := closeObj_http s0
        rw [he'] at he; cases he
        exact hI.live i s0 ho (by rw [← h1]; exact hs)
  · intro _ i s h; rw [hcur] at h; cases h
  · intro h1 h2 h3; rw [hlib] at h1 ⊢; rw [hwm] at h2; rw [hsw] at h3; rw [hpc]; exact hI.wait h1 h2 h3

/-- after `_close_stream` every object whose response is complete is inert -/
theorem closeStream_closed {b : Bool} {st : St} {g : Ws.Frag} (hI : InvX b st g) (j : Nat) (o : Stream) (h : (closeStream st).1.objs[j]? = some o) :
    closedFlag o = true := by
  have hI' : InvX false (closeStream st).1 g := inv_closeStream hI
  cases hf : closedFlag o with
  | true => rfl
  | false =>
    have := hI'.openCur j o h hf
    rw [(closeStream_shape st).1] at this
    cases this

/-! ### `_maybe_recycle` -/

theorem startNextCycle_eq (lib lib' : H11M.St) (h : H11M.startNextCycle lib = some lib') :
    lib.client = .done ∧ lib.server = .done ∧ lib'.client = .idle ∧ lib'.server = .idle ∧ lib'.waiting100 = false := by
  unfold H11M.startNextCycle at h
  split at h
  · rename_i hc
    simp only [Bool.and_eq_true, beq_iff_eq] at hc
    simp only [Option.some.injEq] at h
    subst h
    exact ⟨hc.1, hc.2, rfl, rfl, rfl⟩
  · cases h

theorem inv_maybeRecycle {b b' : Bool} {st : St} {g : Ws.Frag} (hI : InvX b st g) : InvX b' (maybeRecycle st).1 g := by
  have hI1 : InvX b' (closeStream st).1 g := inv_closeStream hI
  have hcl := closeStream_closed hI
  have hcur1 : (closeStream st).1.cur = none := by rw [(closeStream_shape st).1]
  unfold maybeRecycle
  simp only []
  split
  · split
    · -- the cycle restarts: every object is inert
      rename_i hcond lib' hs
      obtain ⟨hc, hsv, hc', hsv', hw'⟩ := startNextCycle_eq _ _ hs
      have hinert : ∀ (i : Nat) (o : Stream), (closeStream st).1.objs[i]? = some o → Inert o := by
        intro i o ho
        cases o with
        | ws s => exact hcl i _ ho
        | http s =>
          refine ⟨?_, hcl i _ ho⟩
          apply Classical.byContradiction
          intro hne
          rcases hI1.live i s ho hne with h | h
          · rw [hc] at h; cases h
          · exact h.2.1 hsv
      exact {
        wsObj := fun i s h => hI1.wsObj i s h
        httpObj := fun i s h => hI1.httpObj i s h
        buf := fun i s h => by rw [hcur1] at h; cases h
        frag0 := fun h => hI1.frag0 h
        curLast := fun i h => by rw [hcur1] at h; cases h
        openCur := fun i o h hf => hI1.openCur i o h hf
        objs := fun i o h => Or.inl (hinert i o h)
        live := fun i s h hs => absurd (hinert i _ h).1 hs
        hand := fun _ i s h => by rw [hcur1] at h; cases h
        wait := fun h => by rw [hw'] at h; cases h }
    · exact hI1
  · -- no recycling: `closed`, the reader is released
    exact {
      wsObj := fun i s h => hI1.wsObj i s h
      httpObj := fun i s h => hI1.httpObj i s h
      buf := fun i s h => by rw [hcur1] at h; cases h
      frag0 := fun h => hI1.frag0 h
      curLast := fun i h => by rw [hcur1] at h; cases h
      openCur := fun i o h hf => hI1.openCur i o h hf
      objs := fun i o h => hI1.objs i o h
      live := fun i s h hs => hI1.live i s h hs
      hand := fun _ i s h => by rw [hcur1] at h; cases h
      wait := fun h1 h2 h3 => by
        have := hI1.wait h1 h2 h3
        refine ⟨this.1, ?_⟩
        simp [this.2] }

/-! ### replacing the latest object (an application send) -/

theorem inv_setHttp {b b' : Bool} {st : St} {g : Ws.Frag} (hI : InvX b st g) (i : Nat) (s s' : Http.S) (lib' : H11M.St)
    (hi : st.objs[i]? = some (Stream.http s)) (hlast : i + 1 = st.objs.length)
    (ha : (s'.st = .response ∨ s'.st = .trailers) → s'.response.isSome = true)
    (hb : s'.closed = s.closed)
    (hc : HttpInert s' ∨ lib'.client ≠ .idle)
    (hd : lib'.client = .idle → st.lib.client = .idle)
    (he : s'.st ≠ .closed → lib'.client = .error ∨ H11M.NotBad lib'.server)
    (hh : lib'.waiting100 = true → st.wsMode = false → st.switched = false → lib'.server = .sendResponse ∧ st.pc = .inLoop) :
    InvX b' { st with objs := st.objs.set i (Stream.http s'), lib := lib' } g := by
  have hlt : i < st.objs.length := by omega
  have hget : ∀ (j : Nat) (o : Stream), (st.objs.set i (Stream.http s'))[j]? = some o →
      (j = i ∧ o = Stream.http s') ∨ (j ≠ i ∧ st.objs[j]? = some o) := by
    intro j o h
    rw [List.getElem?_set] at h
    by_cases hij : i = j
    · subst hij; simp [hlt] at h; exact Or.inl ⟨rfl, h.symm⟩
    · simp [hij] at h; exact Or.inr ⟨fun e => hij e.symm, h⟩
  -- every other object is not the latest one, hence inert
  have hother : ∀ (j : Nat) (o : Stream), j ≠ i → st.objs[j]? = some o → Inert o := by
    intro j o hne h
    rcases hI.objs j o h with hin | ⟨hl, _⟩
    · exact hin
    · exact absurd (by omega) hne
  refine ⟨?_, ?_, ?_, ?_, ?_, ?_, ?_, ?_, ?_, ?_⟩
  · intro j sw h
    rcases hget j _ h with ⟨_, he'⟩ | ⟨_, h'⟩
    · cases he'
    · exact hI.wsObj j sw h'
  · intro j sh h hs
    rcases hget j _ h with ⟨_, he'⟩ | ⟨_, h'⟩
    · cases he'; exact ha hs
    · exact hI.httpObj j sh h' hs
  · intro j sw hcur h
    rcases hget j _ h with ⟨_, he'⟩ | ⟨_, h'⟩
    · cases he'
    · exact hI.buf j sw hcur h'
  · exact hI.frag0
  · intro j hcur; simp only [List.length_set]; exact hI.curLast j hcur
  · intro j o h hf
    rcases hget j _ h with ⟨rfl, he'⟩ | ⟨_, h'⟩
    · subst he'
      exact hI.openCur j _ hi (by simpa [closedFlag, hb] using hf)
    · exact hI.openCur j o h' hf
  · intro j o h
    simp only [List.length_set]
    rcases hget j _ h with ⟨rfl, he'⟩ | ⟨hne, h'⟩
    · subst he'
      rcases hc with hc | hc
      · exact Or.inl hc
      · exact Or.inr ⟨hlast, hc⟩
    · exact Or.inl (hother j o hne h')
  · intro j sh h hs
    rcases hget j _ h with ⟨_, he'⟩ | ⟨hne, h'⟩
    · cases he'; exact he hs
    · exact absurd (hother j _ hne h').1 hs
  · intro _ j sw hcur h hs hcl
    exfalso
    have : j = i := by have := hI.curLast j hcur; omega
    subst this
    rcases hget j _ h with ⟨_, he'⟩ | ⟨hne, _⟩
    · cases he'
    · exact hne rfl
  · exact hh

theorem inv_setWs {b b' : Bool} {st : St} {g g' : Ws.Frag} (hI : InvX b st g) (i : Nat) (s s' : Ws.S) (lib' : H11M.St)
    (hi : st.objs[i]? = some (Stream.ws s)) (hlast : i + 1 = st.objs.length)
    (ha : Ws.Ok s') (hbuf : Ws.BufRel g' s'.buffer)
    (hb : s'.closed = false → s.closed = false)
    (hc : s'.closed = true ∨ lib'.client ≠ .idle)
    (hd : lib'.client = .idle → st.lib.client = .idle)
    (he : b' = true → st.cur = some i → s'.st = .handshake → s'.closed = false → lib'.server = .sendResponse ∧ lib'.pendUpgrade = true) :
    InvX b' { st with objs := st.objs.set i (Stream.ws s'), lib := lib' } g' := by
  have hlt : i < st.objs.length := by omega
  have hwm : st.wsMode = true := (hI.wsObj i s hi).1
  have hget : ∀ (j : Nat) (o : Stream), (st.objs.set i (Stream.ws s'))[j]? = some o →
      (j = i ∧ o = Stream.ws s') ∨ (j ≠ i ∧ st.objs[j]? = some o) := by
    intro j o h
    rw [List.getElem?_set] at h
    by_cases hij : i = j
    · subst hij; simp [hlt] at h; exact Or.inl ⟨rfl, h.symm⟩
    · simp [hij] at h; exact Or.inr ⟨fun e => hij e.symm, h⟩
  have hother : ∀ (j : Nat) (o : Stream), j ≠ i → st.objs[j]? = some o → Inert o := by
    intro j o hne h
    rcases hI.objs j o h with hin | ⟨hl, _⟩
    · exact hin
    · exact absurd (by omega) hne
  refine ⟨?_, ?_, ?_, ?_, ?_, ?_, ?_, ?_, ?_, ?_⟩
  · intro j sw h
    rcases hget j _ h with ⟨_, he'⟩ | ⟨_, h'⟩
    · cases he'; exact ⟨hwm, ha⟩
    · exact hI.wsObj j sw h'
  · intro j sh h hs
    rcases hget j _ h with ⟨_, he'⟩ | ⟨_, h'⟩
    · cases he'
    · exact hI.httpObj j sh h' hs
  · intro j sw hcur h
    have : j = i := by have := hI.curLast j hcur; omega
    subst this
    rcases hget j _ h with ⟨_, he'⟩ | ⟨hne, _⟩
    · cases he'; exact hbuf
    · exact absurd rfl hne
  · intro h; rw [hwm] at h; cases h
  · intro j hcur; simp only [List.length_set]; exact hI.curLast j hcur
  · intro j o h hf
    rcases hget j _ h with ⟨rfl, he'⟩ | ⟨_, h'⟩
    · subst he'
      exact hI.openCur j _ hi (by simp only [closedFlag] at hf ⊢; exact hb hf)
    · exact hI.openCur j o h' hf
  · intro j o h
    simp only [List.length_set]
    rcases hget j _ h with ⟨rfl, he'⟩ | ⟨hne, h'⟩
    · subst he'
      rcases hc with hc | hc
      · exact Or.inl hc
      · exact Or.inr ⟨hlast, hc⟩
    · exact Or.inl (hother j o hne h')
  · intro j sh h hs
    rcases hget j _ h with ⟨_, he'⟩ | ⟨hne, h'⟩
    · cases he'
    · exact absurd (hother j _ hne h').1 hs
  · intro hb' j sw hcur h hs hcl
    have : j = i := by have := hI.curLast j hcur; omega
    subst this
    rcases hget j _ h with ⟨_, he'⟩ | ⟨hne, _⟩
    · cases he'; exact he hb' hcur hs hcl
    · exact absurd rfl hne
  · intro _ h2; rw [hwm] at h2; cases h2

end HC.Proto.H11
