import HC.Prelude
import HC.Extracted.Limits
import HC.Extracted.Consts
/-!
# H2Lim — the limits of an HTTP/2 connection: what `H2Protocol` configures and counts, and what h2 enforces

Glue (`hypercorn/protocol/h2.py`): the settings table handed to h2 and the HPACK decoder limit (`__init__`), the
`keep_alive_requests` counter (`_create_stream`, `_create_server_push`) and its comparison per `RequestReceived`
event (`_handle_events` → `connection.close_connection()`), `handle(RawData)` catching `h2.exceptions.ProtocolError`
(→ flush, `Closed`).  Table, counter increments, comparison site and comparator are extracted.

Library (h2 / hpack, *assumed*, sampled with a client that ignores what the server advertises): `receive_data` parses
the whole read before any event is returned; a HEADERS frame for a new stream is refused with
`TooManyStreamsError` when `open + 1 > local_settings.max_concurrent_streams`, with `DenialOfServiceError` when the
decoded header list exceeds the decoder limit (every field costs `len(name) + len(value) + 32`, checked after each
field); any `ProtocolError` makes h2 queue a GOAWAY carrying `highest_inbound_stream_id` and the read yields no event
at all; `close_connection()` queues a GOAWAY and closes the connection state machine, after which every further
HEADERS frame is a `ProtocolError`.  Comparators and the per-field overhead are extracted from the installed libraries.
-/
namespace HC.Proto.H2Lim
open HC.Extracted HC.Extracted.Guards

structure Cfg where
  keepAliveMax : Nat
  maxStreams : Nat                     -- config.h2_max_concurrent_streams
  maxHeaderList : Nat                  -- config.h2_max_header_list_size
  maxInboundFrame : Nat := Consts.cfg_h2_max_inbound_frame_size
deriving Repr, DecidableEq

/-- a decimal literal -/
def litNat (s : String) : Option Nat :=
  if s.toList = [] then none
  else s.toList.foldl (fun acc ch => acc.bind (fun n => if ch.isDigit then some (n * 10 + (ch.toNat - 48)) else none)) (some 0)

/-- the value of a table entry: a configuration attribute by name, or a literal -/
def Cfg.attr (c : Cfg) (s : String) : Option Nat :=
  if s = "h2_max_concurrent_streams" then some c.maxStreams
  else if s = "h2_max_header_list_size" then some c.maxHeaderList
  else if s = "h2_max_inbound_frame_size" then some c.maxInboundFrame
  else if s = "keep_alive_max_requests" then some c.keepAliveMax
  else litNat s

/-- `h2.settings.SettingCodes` -/
def settingCode (s : String) : Option Nat :=
  if s = "HEADER_TABLE_SIZE" then some 1 else if s = "ENABLE_PUSH" then some 2
  else if s = "MAX_CONCURRENT_STREAMS" then some 3 else if s = "INITIAL_WINDOW_SIZE" then some 4
  else if s = "MAX_FRAME_SIZE" then some 5 else if s = "MAX_HEADER_LIST_SIZE" then some 6
  else if s = "ENABLE_CONNECT_PROTOCOL" then some 8 else none

/-- the `initial_values` of the server's local settings = what the first SETTINGS frame advertises on top of h2's defaults -/
def advertised (c : Cfg) : List (Nat × Nat) :=
  Limits.h2Settings.filterMap (fun kv => match settingCode kv.1, c.attr kv.2 with
    | some k, some v => some (k, v)
    | _, _ => none)

/-- the limit the HPACK decoder applies to received header blocks -/
def enforcedHeaderList (c : Cfg) : Option Nat := c.attr Limits.h2DecoderLimitSource

/-! ### library side -/

/-- a decoded header field: (length of name, length of value) -/
abbrev Field := Nat × Nat

def fieldSize (f : Field) : Nat := f.1 + f.2 + Limits.hpackEntryOverhead

/-- h2's accounting of a header list -/
def listSize (fs : List Field) : Nat := (fs.map fieldSize).sum

/-- hpack's `Decoder.decode`: the running size is compared after every field -/
def oversized (limit : Nat) : List Field → Nat → Bool
  | [], _ => false
  | f :: fs, acc => if Limits.hpackListCmp.eval (acc + fieldSize f) limit then true else oversized limit fs (acc + fieldSize f)

structure Lib where
  closed : Bool := false               -- the connection state machine is CLOSED
  opened : List Nat := []              -- open inbound streams
  highest : Nat := 0                   -- highest_inbound_stream_id
deriving Repr, DecidableEq

/-- a HEADERS frame opening stream `sid` with the given (decoded) header list; other frames do not matter here -/
structure Frame where
  sid : Nat
  fields : List Field
deriving Repr, DecidableEq

def PROTOCOL_ERROR : Nat := 1
def ENHANCE_YOUR_CALM : Nat := 11
def NO_ERROR : Nat := 0

/-- `_receive_headers_frame` for a new stream: `.error code` = the ProtocolError subclass raised -/
def recvFrame (c : Cfg) (l : Lib) (f : Frame) : Except Nat Lib :=
  if l.closed then .error PROTOCOL_ERROR
  else if f.sid ≤ l.highest || f.sid % 2 == 0 then .error PROTOCOL_ERROR
  else if Limits.h2StreamsCmp.eval (l.opened.length + Limits.h2StreamsLhsPlus) c.maxStreams then .error PROTOCOL_ERROR
  else match enforcedHeaderList c with
    | none => .ok { l with opened := l.opened ++ [f.sid], highest := f.sid }
    | some lim =>
      if oversized lim f.fields 0 then .error ENHANCE_YOUR_CALM
      else .ok { l with opened := l.opened ++ [f.sid], highest := f.sid }

/-- `receive_data(one read)`: the `RequestReceived` stream ids in order, or the library state at the failing frame and
    the error code (no event of this read is returned then) -/
def recvAll (c : Cfg) : Lib → List Frame → List Nat → Except (Lib × Nat) (Lib × List Nat)
  | l, [], acc => .ok (l, acc)
  | l, f :: fs, acc =>
    match recvFrame c l f with
    | .error code => .error (l, code)
    | .ok l' => recvAll c l' fs (acc ++ [f.sid])

/-! ### glue side -/

structure St where
  lib : Lib := {}
  kar : Nat := Limits.h2CounterInit    -- `self.keep_alive_requests`
  upClosed : Bool := false             -- `Closed` was sent to the server (it closes the transport and reads no more)
  served : List Nat := []              -- client streams handed to an application instance, in order (ghost)
  pushed : List Nat := []              -- pushed streams, application instances too (ghost)
  goaways : List (Nat × Nat) := []     -- (last_stream_id, error_code) of every GOAWAY queued, in order
  nextPush : Nat := 2
deriving Repr, DecidableEq

/-- `self.connection.close_connection()` -/
def closeConnection (s : St) : St :=
  { s with lib := { s.lib with closed := true }, goaways := s.goaways ++ [(s.lib.highest, NO_ERROR)] }

/-- one `RequestReceived` event in `_handle_events` (worker not terminating) -/
def onRequest (c : Cfg) (s : St) (sid : Nat) : St :=
  let s1 : St := { s with served := s.served ++ [sid], kar := s.kar + Limits.h2IncrCreateStream }
  let k := if Limits.h2CmpAfterCreate then s1.kar else s.kar
  if Guards.h2KeepAliveCmp.eval k c.keepAliveMax then closeConnection s1 else s1

def onRequests (c : Cfg) : St → List Nat → St
  | s, [] => s
  | s, sid :: rest => onRequests c (onRequest c s sid) rest

inductive Op where
  | read (frames : List Frame)         -- `handle(RawData)`
  | push (accepted : Bool)             -- an application sends `http.response.push`; `accepted`: h2's `push_stream` did not raise
  | done (sid : Nat)                   -- a client stream is fully closed
deriving Repr, DecidableEq

def step (c : Cfg) (s : St) : Op → St
  | .read fs =>
    if s.upClosed then s
    else match recvAll c s.lib fs [] with
      | .error (l, code) =>
        { s with lib := { l with closed := true }, goaways := s.goaways ++ [(l.highest, code)], upClosed := true }
      | .ok (l, sids) => onRequests c { s with lib := l } sids
  | .push accepted =>
    if accepted && !s.lib.closed then
      { s with pushed := s.pushed ++ [s.nextPush], nextPush := s.nextPush + 2,
               kar := s.kar + (if Limits.h2PushCallsCreateStream then Limits.h2IncrCreateStream else 0) + Limits.h2IncrServerPushExtra }
    else s
  | .done sid => { s with lib := { s.lib with opened := s.lib.opened.erase sid } }

def run (c : Cfg) : St → List Op → St
  | s, [] => s
  | s, o :: os => run c (step c s o) os

/-! ### the h2c opening, and what h2 lets the server send once `close_connection()` was called -/

/-- the connection after `initiate(headers, settings)` has served the HTTP/1.1 request of an `Upgrade: h2c` connection
    on stream 1: h2 opened stream 1 (`initiate_upgrade_connection`), `_create_stream` counted it; the request maximum is
    compared at that point iff `Limits.h2InitiateCompares` (extracted from `H2Protocol.initiate`) -/
def afterUpgrade (c : Cfg) : St :=
  let s1 : St := { lib := { opened := [1], highest := 1 }, kar := Limits.h2CounterInit + Limits.h2IncrCreateStream, served := [1] }
  if Limits.h2InitiateCompares && Guards.h2KeepAliveCmp.eval s1.kar c.keepAliveMax then closeConnection s1 else s1

/-- can the response of stream `sid` still be handed to the client?  `stream_send(Response)` calls h2's `send_headers`,
    which raises `ProtocolError` once the connection state machine is CLOSED (`close_connection()` puts it there at
    once, *assumed* of h2, sampled); `stream_send` swallows that error, the application is not told -/
def responseDeliverable (s : St) (sid : Nat) : Bool := s.served.contains sid && !s.lib.closed

end HC.Proto.H2Lim
