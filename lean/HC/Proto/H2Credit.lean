import HC.Extracted.ReqGlue
/-!
# H2Credit — receive-window accounting of `H2Protocol._handle_events` for `DataReceived`

```
elif isinstance(event, h2.events.DataReceived):
    try:    await self.streams[event.stream_id].handle(Body(...))
    except KeyError: pass                      # response already completed, stream forgotten
    self.connection.acknowledge_received_data(event.flow_controlled_length, event.stream_id)
```
How often `acknowledge_received_data` runs on each of the two paths, and with which arguments, is read off the source by
`tools/extract_req.py` (`ReqGlue.dataAcksDelivered`, `dataAcksMissing`, `dataAckArgs`).  h2 turns acknowledged bytes into
WINDOW_UPDATE increments for the connection (and for the stream while it is open); bytes that are never acknowledged are
lost to the client's connection window for good.
-/
namespace HC.Proto.H2Credit
open HC.Extracted

/-- one `DataReceived` event: its flow-controlled length and whether `self.streams` still has the stream -/
structure DataEv where
  len : Nat
  live : Bool
deriving Repr, DecidableEq

/-- bytes acknowledged to h2 while the event is handled -/
def acked (e : DataEv) : Nat := (if e.live then ReqGlue.dataAcksDelivered else ReqGlue.dataAcksMissing) * e.len

/-- the connection's receive window as the client sees it: DATA consumes it, acknowledgements give it back -/
structure Win where
  consumed : Nat := 0
  returned : Nat := 0
deriving Repr, DecidableEq

def step (w : Win) (e : DataEv) : Win := { consumed := w.consumed + e.len, returned := w.returned + acked e }

def run (w : Win) (es : List DataEv) : Win := es.foldl step w

/-- window left to the client out of an initial `w0` (h2 may batch the increments; this is the amount once they are sent) -/
def Win.available (w : Win) (w0 : Nat) : Int := (w0 : Int) - w.consumed + w.returned

end HC.Proto.H2Credit
