import HC.Proto.H11Inv
/-!
# H11Run — application sends keep the invariant of `H11Inv` (lemmas for C04 `total_h1`)
-/
namespace HC.Proto.H11
open HC HC.Stream HC.Lib HC.Extracted.H11Tables

/-- facts true of any sequence of calls into h11's `send` -/
structure LibStep (a b : H11M.St) : Prop where
  idle : b.client = .idle → a.client = .idle
  err : a.client = .error → b.client = .error
  wait : b.waiting100 = true → a.waiting100 = true

theorem LibStep.refl (a : H11M.St) : LibStep a a := ⟨id, id, id⟩
theorem LibStep.trans {a b c : H11M.St} (h1 : LibStep a b) (h2 : LibStep b c) : LibStep a c :=
  ⟨fun h => h1.idle (h2.idle h), fun h => h2.err (h1.err h), fun h => h1.wait (h2.wait h)⟩

theorem libSend_step (st : St) (e : LibSend) : LibStep st.lib (libSend st e).1.lib :=
  ⟨(libSend_facts st e).1, (libSend_facts st e).2.1, (libSend_facts st e).2.2.1⟩

/-! ## HTTP streams -/

/-- stream events that reach h11 as InformationalResponse / Response / Data, or not at all -/
def HPlain : Http.Ev → Prop
  | .endBody => False
  | .streamClosed => False
  | _ => True

/-- what a run of plain events does: only h11's state changes; the writer is left where it was or out of IDLE/DONE/MUST_CLOSE -/
structure PlainRun (st : St) (r : St × List Out × Bool) : Prop where
  shape : r.1 = { st with lib := r.1.lib }
  step : LibStep st.lib r.1.lib
  sv : r.1.lib = st.lib ∨ H11M.NotBad r.1.lib.server
  raised : r.2.2 = true → r.1.lib.server = .error

theorem plainRun_libSend (st : St) (e : LibSend) (he : e ≠ .eom) : PlainRun st (libSend st e) :=
  ⟨libSend_shape st e, libSend_step st e, Or.inr (libSend_notBad st e he), (libSend_facts st e).2.2.2.1⟩

theorem plainRun_id (st : St) (o : List Out) : PlainRun st (st, o, false) :=
  ⟨rfl, LibStep.refl _, Or.inl rfl, fun h => by cases h⟩

theorem httpStreamSend_plain (cfg : Cfg) (st : St) (e : Http.Ev) (h : HPlain e) : PlainRun st (httpStreamSend cfg st e) := by
  cases e with
  | response status hs =>
    simp only [httpStreamSend]
    split
    · exact plainRun_libSend _ _ (by simp)
    · exact plainRun_libSend _ _ (by simp)
  | info _ _ => exact plainRun_id _ _
  | body d => simp only [httpStreamSend]; exact plainRun_libSend _ _ (by simp)
  | endBody => exact absurd h id
  | trailers _ => exact plainRun_id _ _
  | push _ _ => exact plainRun_id _ _
  | access a => exact plainRun_id _ _
  | spawnClose => exact plainRun_id _ _
  | streamClosed => exact absurd h id

theorem PlainRun.comp {st : St} {r1 : St × List Out × Bool} {r2 : St × List Out × Bool} (h1 : PlainRun st r1) (h2 : PlainRun r1.1 r2)
    (o : List Out) : PlainRun st (r2.1, o, r2.2.2) := by
  refine ⟨?_, h1.step.trans h2.step, ?_, h2.raised⟩
  · have a := h2.shape; have b := h1.shape
    simp only at a b ⊢
    rw [a, b]
  · rcases h2.sv with h | h
    · rcases h1.sv with h' | h'
      · exact Or.inl (by simp only at h h' ⊢; rw [h, h'])
      · exact Or.inr (by simp only at h ⊢; rw [h]; exact h')
    · exact Or.inr h

theorem runHttp_plain (cfg : Cfg) : ∀ (evs : List Http.Ev) (st : St), (∀ e ∈ evs, HPlain e) → PlainRun st (runHttpEvs cfg st evs) := by
  intro evs
  induction evs with
  | nil => intro st _; exact plainRun_id _ _
  | cons e es ih =>
    intro st h
    have h1 := httpStreamSend_plain cfg st e (h e (by simp))
    simp only [runHttpEvs]
    split
    · rename_i hr; exact ⟨h1.shape, h1.step, h1.sv, fun _ => h1.raised hr⟩
    · have h2 := ih (httpStreamSend cfg st e).1 (fun e' he' => h e' (by simp [he']))
      exact h1.comp h2 _

theorem runHttpEvs_append (cfg : Cfg) : ∀ (a b : List Http.Ev) (st : St),
    runHttpEvs cfg st (a ++ b) =
      if (runHttpEvs cfg st a).2.2 then runHttpEvs cfg st a
      else ((runHttpEvs cfg (runHttpEvs cfg st a).1 b).1, (runHttpEvs cfg st a).2.1 ++ (runHttpEvs cfg (runHttpEvs cfg st a).1 b).2.1,
            (runHttpEvs cfg (runHttpEvs cfg st a).1 b).2.2) := by
  intro a
  induction a with
  | nil => intro b st; simp [runHttpEvs]
  | cons e es ih =>
    intro b st
    simp only [List.cons_append, runHttpEvs]
    by_cases hr : (httpStreamSend cfg st e).2.2 = true
    · simp [hr]
    · simp only [hr, Bool.false_eq_true, if_false]
      rw [ih]
      split <;> simp

/-- the closing tail of a response: EndOfMessage, the access record, then `StreamClosed` (= `_maybe_recycle`) -/
theorem runHttp_tail (cfg : Cfg) (st : St) (a : Option Nat) :
    runHttpEvs cfg st [.endBody, .access a, .streamClosed] =
      if (libSend st .eom).2.2 then ((libSend st .eom).1, (libSend st .eom).2.1, true)
      else ((maybeRecycle (libSend st .eom).1).1, (libSend st .eom).2.1 ++ ([Out.access a] ++ ((maybeRecycle (libSend st .eom).1).2 ++ [])), false) := by
  by_cases h : (libSend st .eom).2.2 = true
  · simp [runHttpEvs, httpStreamSend, h]
  · simp [runHttpEvs, httpStreamSend, h]

/-- the three shapes of what `HTTPStream.app_send` hands to the protocol -/
inductive HShape (s : Http.S) : Http.S → List Http.Ev → Prop where
  | plain (s' : Http.S) (evs : List Http.Ev) : (∀ e ∈ evs, HPlain e) → s'.closed = s.closed → (s'.st = .closed ↔ s.st = .closed) →
      ((s'.st = .response ∨ s'.st = .trailers) → s'.response.isSome = true) → HShape s s' evs
  | closing (s' : Http.S) (pre : List Http.Ev) (a : Option Nat) : (∀ e ∈ pre, HPlain e) → s'.closed = s.closed → s'.st = .closed →
      HShape s s' (pre ++ [.endBody, .access a, .streamClosed])
  | quit : s.closed = false → HShape s s [.streamClosed]
  | ending (s' : Http.S) : s'.closed = s.closed → s'.st = .closed → HShape s s' [.endBody]     -- `_send_closed` with `self.response` unset

theorem bodyEv_plain (b : Option HV) (evs : List Http.Ev) (h : Http.bodyEv b = .ok evs) : ∀ e ∈ evs, HPlain e := by
  unfold Http.bodyEv at h
  split at h
  · cases h; simp
  · cases h; simp
  · cases h; simp [HPlain]
  · split at h
    · cases h
    · split at h <;> (cases h; simp [HPlain])
  · cases h
  · cases h

theorem sendClosed_shape (s0 s : Http.S) (pre : List Http.Ev) (hp : ∀ e ∈ pre, HPlain e) (hr : s.response.isSome = true)
    (hc : s.closed = s0.closed) : HShape s0 (Http.sendClosed s pre).1 (Http.sendClosed s pre).2.1 := by
  unfold Http.sendClosed
  cases hresp : s.response with
  | none => simp [hresp] at hr
  | some p =>
    obtain ⟨status, tr⟩ := p
    exact HShape.closing _ pre (some status) hp hc rfl

theorem http_appSend_shape (s : Http.S) (m : Option Http.Msg)
    (hresp : (s.st = .response ∨ s.st = .trailers) → s.response.isSome = true) :
    HShape s (Http.appSend s m).1 (Http.appSend s m).2.1 := by
  have hsame : HShape s s [] := HShape.plain s [] (by simp) rfl Iff.rfl hresp
  cases m with
  | none =>
    simp only [Http.appSend]
    by_cases hcl : s.closed = true
    · rw [if_pos hcl]; exact hsame
    · rw [if_neg hcl]
      by_cases hst : s.st = .request
      · simp only [hst, if_true]
        exact HShape.closing _ [.response 500 [("content-length".b, "0".b), ("connection".b, "close".b)]] (some 500)
          (by simp [HPlain]) rfl rfl
      · simp only [hst, if_false]
        exact HShape.quit (by simpa using hcl)
  | some msg =>
    cases msg with
    | start status headers trailers =>
      simp only [Http.appSend]
      by_cases hst : s.st = .request
      · simp only [hst, if_true]
        split
        · exact HShape.plain _ [] (by simp) rfl (by simp [hst]) (by simp [hst])
        · split
          · exact HShape.plain _ [] (by simp) rfl (by simp [hst]) (by simp [hst])
          · exact HShape.plain _ _ (by simp [HPlain]) rfl (by simp [hst]) (by simp)
      · simp only [hst, if_false]; exact hsame
    | push path headers =>
      simp only [Http.appSend]
      split
      · split
        · exact hsame
        · split
          · exact hsame
          · split
            · exact hsame
            · exact HShape.plain s _ (by simp [HPlain]) rfl Iff.rfl hresp
        · exact hsame
      · exact hsame
    | earlyHint links =>
      simp only [Http.appSend]
      split
      · split
        · exact hsame
        · split
          · exact hsame
          · exact HShape.plain s _ (by simp [HPlain]) rfl Iff.rfl hresp
      · exact hsame
    | body body more =>
      simp only [Http.appSend]
      by_cases hst : s.st = .response
      · simp only [hst, if_true]
        have hr := hresp (Or.inl hst)
        cases hrs : s.response with
        | none => simp [hrs] at hr
        | some p =>
          obtain ⟨status, wantTrailers⟩ := p
          simp only []
          split
          · exact hsame
          · rename_i evs hevs
            have hpl : ∀ e ∈ evs, HPlain e := by
              split at hevs
              · cases hevs; simp
              · exact bodyEv_plain _ _ hevs
            by_cases hm : more = true
            · simp only [hm, if_true]
              exact HShape.plain s evs hpl rfl Iff.rfl hresp
            · simp only [hm, Bool.false_eq_true, if_false]
              by_cases hw : wantTrailers = true
              · simp only [hw, if_true]
                exact HShape.plain _ evs hpl rfl (by simp [hst]) (by simp [hrs])
              · simp only [hw, Bool.false_eq_true, if_false]
                exact sendClosed_shape s s evs hpl (by simp [hrs]) rfl
      · simp only [hst, if_false]; exact hsame
    | trailers headers more =>
      simp only [Http.appSend]
      split
      · rename_i hc1
        split
        · split
          · exact hsame
          · split
            · exact hsame
            · rename_i vh _
              split
              · exact HShape.plain _ _ (by simp [HPlain]) rfl (by simp [hc1.2]) (by simp)
              · exact sendClosed_shape s _ _ (by simp [HPlain]) (by simp) rfl
        · split
          · exact hsame
          · -- `_send_closed` before any response was assigned: only reachable with `self.response` unset
            unfold Http.sendClosed
            cases hrs : s.response with
            | none => simp only []; exact HShape.ending _ rfl rfl
            | some p => obtain ⟨status, tr⟩ := p; exact HShape.closing _ [] (some status) (by simp) rfl rfl
      · split
        · rename_i hc2
          have hr := hresp (Or.inr hc2.2)
          split
          · split
            · exact hsame
            · split
              · exact hsame
              · split
                · exact HShape.plain s _ (by simp [HPlain]) rfl Iff.rfl hresp
                · exact sendClosed_shape s s _ (by simp [HPlain]) hr rfl
          · split
            · exact hsame
            · exact sendClosed_shape s s [] (by simp) hr rfl
        · exact hsame
    | other => simp only [Http.appSend]; exact hsame

/-- scheduling: between a `Request` carrying `Expect: 100-continue` and the top of the reader's next iteration (where the
    100 Continue goes out) there is no suspension point, so no application runs there -/
def sched (st : St) : Bool := !(st.lib.waiting100 && !st.wsMode && !st.switched && st.pc == .inLoop)

theorem http_inert_send (s : Http.S) (m : Option Http.Msg) (h : HttpInert s) :
    (Http.appSend s m).1 = s ∧ (Http.appSend s m).2.1 = [] := by
  obtain ⟨h1, h2⟩ := h
  cases m with
  | none => simp [Http.appSend, h2]
  | some msg => cases msg <;> simp [Http.appSend, h1]

theorem appSendHttp_fst (cfg : Cfg) (st : St) (i : Nat) (m : Option Http.Msg) (s : Http.S) (hobj : st.objs[i]? = some (Stream.http s)) :
    (appSendHttp cfg st i m).1 =
      if (runHttpEvs cfg (st.setObj i (.http (Http.appSend s m).1)) (Http.appSend s m).2.1).2.2 = true
      then (runHttpEvs cfg (st.setObj i (.http (Http.appSend s m).1)) (Http.appSend s m).2.1).1.setObj i (.http s)
      else (runHttpEvs cfg (st.setObj i (.http (Http.appSend s m).1)) (Http.appSend s m).2.1).1 := by
  unfold appSendHttp
  rw [hobj]
  simp only []
  by_cases h : (runHttpEvs cfg (st.setObj i (.http (Http.appSend s m).1)) (Http.appSend s m).2.1).2.2 = true
  · simp [h]
  · simp [h]

theorem setObj_lib_back (st : St) (i : Nat) (a b : Stream) (lib' : H11M.St) (h : st.objs[i]? = some b) :
    ({ (st.setObj i a) with lib := lib' } : St).setObj i b = { st with lib := lib' } := by
  simp [St.setObj, List.set_set, set_self _ _ _ h]

/-- **an HTTP application's `send` keeps the invariant**, whatever it sends and whichever stream object (live or orphaned) it owns -/
theorem appSendHttp_inv (cfg : Cfg) (st : St) (g : Ws.Frag) (i : Nat) (m : Option Http.Msg) (hI : Inv st g) (hs : sched st = true) :
    Inv (appSendHttp cfg st i m).1 g := by
  cases hobj : st.objs[i]? with
  | none => simp [appSendHttp, hobj]; exact hI
  | some o =>
    cases o with
    | ws s => simp [appSendHttp, hobj]; exact hI
    | http s =>
      rw [appSendHttp_fst cfg st i m s hobj]
      by_cases hin : HttpInert s
      · obtain ⟨h1, h2⟩ := http_inert_send s m hin
        rw [h1, h2]
        simp [runHttpEvs, St.setObj_self st i _ hobj]
        exact hI
      · have hlast : i + 1 = st.objs.length ∧ st.lib.client ≠ .idle := by
          rcases hI.objs i _ hobj with h | h
          · exact absurd h hin
          · exact h
        have hwait : ∀ lib' : H11M.St, (lib'.waiting100 = true → st.lib.waiting100 = true) → lib'.waiting100 = true → st.wsMode = false →
            st.switched = false → lib'.server = .sendResponse ∧ st.pc = .inLoop := by
          intro lib' hw h1 h2 h3
          exfalso
          have := hI.wait (hw h1) h2 h3
          simp [sched, hw h1, h2, h3, this.2] at hs
        -- a raise (or any other outcome that only changed h11) leaves every object as it was
        have hback : ∀ lib' : H11M.St, LibStep st.lib lib' → H11M.NotBad lib'.server → Inv { st with lib := lib' } g := by
          intro lib' hstep hnb
          refine inv_frame hI rfl rfl rfl hstep.idle (fun _ _ _ _ => Or.inr hnb) ?_ (hwait lib' hstep.wait)
          intro j sw hcur hj _ _
          exfalso
          have : j = i := by have := hI.curLast j hcur; omega
          subst this
          rw [hobj] at hj; cases hj
        have herr : H11M.NotBad HSt.error := ⟨by decide, by decide, by decide⟩
        have hshape := http_appSend_shape s m (hI.httpObj i s hobj)
        generalize (Http.appSend s m).1 = s' at hshape ⊢
        generalize (Http.appSend s m).2.1 = evs at hshape ⊢
        have hst0 : (st.setObj i (.http s')).lib = st.lib := rfl
        cases hshape with
        | plain _ _ hpl hcl hstc hresp =>
          have hp := runHttp_plain cfg evs (st.setObj i (.http s')) hpl
          by_cases hr : (runHttpEvs cfg (st.setObj i (.http s')) evs).2.2 = true
          · rw [if_pos hr, hp.shape, setObj_lib_back st i _ _ _ hobj]
            exact hback _ hp.step (by rw [hp.raised hr]; exact herr)
          · rw [if_neg hr, hp.shape]
            refine inv_setHttp hI i s s' _ hobj hlast.1 hresp hcl (Or.inr fun h => hlast.2 (hp.step.idle h)) hp.step.idle ?_ (hwait _ hp.step.wait)
            intro hne
            rcases hp.sv with h | h
            · rw [h]; exact hI.live i s hobj (fun h' => hne (hstc.mpr h'))
            · exact Or.inr h
        | closing _ pre a hpl hcl hstc =>
          have hp := runHttp_plain cfg pre (st.setObj i (.http s')) hpl
          rw [runHttpEvs_append]
          by_cases hr : (runHttpEvs cfg (st.setObj i (.http s')) pre).2.2 = true
          · simp only [hr, if_true]
            rw [hp.shape, setObj_lib_back st i _ _ _ hobj]
            exact hback _ hp.step (by rw [hp.raised hr]; exact herr)
          · simp only [hr, Bool.false_eq_true, if_false]
            rw [runHttp_tail]
            have hf := libSend_facts (runHttpEvs cfg (st.setObj i (.http s')) pre).1 .eom
            have hsh := libSend_shape (runHttpEvs cfg (st.setObj i (.http s')) pre).1 .eom
            have hstep2 : LibStep st.lib (libSend (runHttpEvs cfg (st.setObj i (.http s')) pre).1 .eom).1.lib :=
              hp.step.trans (libSend_step _ _)
            by_cases hr2 : (libSend (runHttpEvs cfg (st.setObj i (.http s')) pre).1 .eom).2.2 = true
            · simp only [hr2, if_true]
              rw [hsh, hp.shape, setObj_lib_back st i _ _ _ hobj]
              exact hback _ hstep2 (by rw [hf.2.2.2.1 hr2]; exact herr)
            · simp only [hr2, Bool.false_eq_true, if_false]
              apply inv_maybeRecycle
              rw [hsh, hp.shape]
              exact inv_setHttp hI i s s' _ hobj hlast.1 (by simp [hstc]) hcl (Or.inr fun h => hlast.2 (hstep2.idle h)) hstep2.idle
                (fun hne => absurd hstc hne) (hwait _ hstep2.wait)
        | quit hcl =>
          simp only [runHttpEvs, httpStreamSend, St.setObj_self st i _ hobj, Bool.false_eq_true, if_false]
          exact inv_maybeRecycle hI
        | ending _ hcl hstc =>
          simp only [runHttpEvs, httpStreamSend]
          have hf := libSend_facts (st.setObj i (.http s')) .eom
          have hsh := libSend_shape (st.setObj i (.http s')) .eom
          have hstep : LibStep st.lib (libSend (st.setObj i (.http s')) .eom).1.lib := libSend_step _ _
          by_cases hr : (libSend (st.setObj i (.http s')) .eom).2.2 = true
          · simp only [hr, if_true]
            rw [hsh, setObj_lib_back st i _ _ _ hobj]
            exact hback _ hstep (by rw [hf.2.2.2.1 hr]; exact herr)
          · simp only [hr, Bool.false_eq_true, if_false]
            rw [hsh]
            exact inv_setHttp hI i s s' _ hobj hlast.1 (by simp [hstc]) hcl (Or.inr fun h => hlast.2 (hstep.idle h)) hstep.idle
              (fun hne => absurd hstc hne) (hwait _ hstep.wait)

end HC.Proto.H11
