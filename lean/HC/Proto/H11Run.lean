import HC.Proto.H11Inv
/-!
# H11Run — application sends keep the invariant of `H11Inv` (lemmas for C04 `total_h1`)
-/
namespace HC.Proto.H11
open HC HC.Stream HC.Lib HC.Extracted.H11Tables

/-- facts true of any sequence of calls into h11's `send` -/
structure LibStep (a b : H11M.St) : Prop where
  idle : b.client = .idle → a.client = .idle
  err : a.client = .error → b.client = .error
  wait : b.waiting100 = true → a.waiting100 = true

theorem LibStep.refl (a : H11M.St) : LibStep a a := ⟨id, id, id⟩
theorem LibStep.trans {a b c : H11M.St} (h1 : LibStep a b) (h2 : LibStep b c) : LibStep a c :=
  ⟨fun h => h1.idle (h2.idle h), fun h => h2.err (h1.err h), fun h => h1.wait (h2.wait h)⟩

theorem libSend_step (st : St) (e : LibSend) : LibStep st.lib (libSend st e).1.lib :=
  ⟨(libSend_facts st e).1, (libSend_facts st e).2.1, (libSend_facts st e).2.2.1⟩

/-! ## HTTP streams -/

/-- stream events that reach h11 as InformationalResponse / Response / Data, or not at all -/
def HPlain : Http.Ev → Prop
  | .endBody => False
  | .streamClosed => False
  | _ => True

/-- what a run of plain events does: only h11's state changes; the writer is left where it was or out of IDLE/DONE/MUST_CLOSE -/
structure PlainRun (st : St) (r : St × List Out × Bool) : Prop where
  shape : r.1 = { st with lib := r.1.lib }
  step : LibStep st.lib r.1.lib
  sv : r.1.lib = st.lib ∨ H11M.NotBad r.1.lib.server
  raised : r.2.2 = true → r.1.lib.server = .error

theorem plainRun_libSend (st : St) (e : LibSend) (he : e ≠ .eom) : PlainRun st (libSend st e) :=
  ⟨libSend_shape st e, libSend_step st e, Or.inr (libSend_notBad st e he), (libSend_facts st e).2.2.2.1⟩

theorem plainRun_id (st : St) (o : List Out) : PlainRun st (st, o, false) :=
  ⟨rfl, LibStep.refl _, Or.inl rfl, fun h => by cases h⟩

theorem httpStreamSend_plain (cfg : Cfg) (st : St) (e : Http.Ev) (h : HPlain e) : PlainRun st (httpStreamSend cfg st e) := by
  cases e with
  | response status hs =>
    simp only [httpStreamSend]
    split
    · exact plainRun_libSend _ _ (by simp)
    · exact plainRun_libSend _ _ (by simp)
  | info _ _ => exact plainRun_id _ _
  | body d => simp only [httpStreamSend]; exact plainRun_libSend _ _ (by simp)
  | endBody => exact absurd h id
  | trailers _ => exact plainRun_id _ _
  | push _ _ => exact plainRun_id _ _
  | access a => exact plainRun_id _ _
  | spawnClose => exact plainRun_id _ _
  | streamClosed => exact absurd h id

theorem PlainRun.comp {st : St} {r1 : St × List Out × Bool} {r2 : St × List Out × Bool} (h1 : PlainRun st r1) (h2 : PlainRun r1.1 r2)
    (o : List Out) : PlainRun st (r2.1, o, r2.2.2) := by
  refine ⟨?_, h1.step.trans h2.step, ?_, h2.raised⟩
  · have a := h2.shape; have b := h1.shape
    simp only at a b ⊢
    rw [a, b]
  · rcases h2.sv with h | h
    · rcases h1.sv with h' | h'
      · exact Or.inl (by simp only at h h' ⊢; rw [h, h'])
      · exact Or.inr (by simp only at h ⊢; rw [h]; exact h')
    · exact Or.inr h

theorem runHttp_plain (cfg : Cfg) : ∀ (evs : List Http.Ev) (st : St), (∀ e ∈ evs, HPlain e) → PlainRun st (runHttpEvs cfg st evs) := by
  intro evs
  induction evs with
  | nil => intro st _; exact plainRun_id _ _
  | cons e es ih =>
    intro st h
    have h1 := httpStreamSend_plain cfg st e (h e (by simp))
    simp only [runHttpEvs]
    split
    · rename_i hr; exact ⟨h1.shape, h1.step, h1.sv, fun _ => h1.raised hr⟩
    · have h2 := ih (httpStreamSend cfg st e).1 (fun e' he' => h e' (by simp [he']))
      exact h1.comp h2 _

theorem runHttpEvs_append (cfg : Cfg) : ∀ (a b : List Http.Ev) (st : St),
    runHttpEvs cfg st (a ++ b) =
      if (runHttpEvs cfg st a).2.2 then runHttpEvs cfg st a
      else ((runHttpEvs cfg (runHttpEvs cfg st a).1 b).1, (runHttpEvs cfg st a).2.1 ++ (runHttpEvs cfg (runHttpEvs cfg st a).1 b).2.1,
            (runHttpEvs cfg (runHttpEvs cfg st a).1 b).2.2) := by
  intro a
  induction a with
  | nil => intro b st; simp [runHttpEvs]
  | cons e es ih =>
    intro b st
    simp only [List.cons_append, runHttpEvs]
    by_cases hr : (httpStreamSend cfg st e).2.2 = true
    · simp [hr]
    · simp only [hr, Bool.false_eq_true, if_false]
      rw [ih]
      split <;> simp

/-- the closing tail of a response: EndOfMessage, the access record, then `StreamClosed` (= `_maybe_recycle`) -/
theorem runHttp_tail (cfg : Cfg) (st : St) (a : Option Nat) :
    runHttpEvs cfg st [.endBody, .access a, .streamClosed] =
      if (libSend st .eom).2.2 then ((libSend st .eom).1, (libSend st .eom).2.1, true)
      else ((maybeRecycle (libSend st .eom).1).1, (libSend st .eom).2.1 ++ ([Out.access a] ++ ((maybeRecycle (libSend st .eom).1).2 ++ [])), false) := by
  by_cases h : (libSend st .eom).2.2 = true
  · simp [runHttpEvs, httpStreamSend, h]
  · simp [runHttpEvs, httpStreamSend, h]

/-- the three shapes of what `HTTPStream.app_send` hands to the protocol -/
inductive HShape (s : Http.S) : Http.S → List Http.Ev → Prop where
  | plain (s' : Http.S) (evs : List Http.Ev) : (∀ e ∈ evs, HPlain e) → s'.closed = s.closed → (s'.st = .closed ↔ s.st = .closed) →
      ((s'.st = .response ∨ s'.st = .trailers) → s'.response.isSome = true) → HShape s s' evs
  | closing (s' : Http.S) (pre : List Http.Ev) (a : Option Nat) : (∀ e ∈ pre, HPlain e) → s'.closed = s.closed → s'.st = .closed →
      HShape s s' (pre ++ [.endBody, .access a, .streamClosed])
  | quit : s.closed = false → HShape s s [.streamClosed]
  | ending (s' : Http.S) : s'.closed = s.closed → s'.st = .closed → HShape s s' [.endBody]     -- `_send_closed` with `self.response` unset

theorem bodyEv_plain (b : Option HV) (evs : List Http.Ev) (h : Http.bodyEv b = .ok evs) : ∀ e ∈ evs, HPlain e := by
  unfold Http.bodyEv at h
  split at h
  · cases h; simp
  · cases h; simp
  · cases h; simp [HPlain]
  · split at h
    · cases h
    · split at h <;> (cases h; simp [HPlain])
  · cases h
  · cases h

theorem sendClosed_shape (s0 s : Http.S) (pre : List Http.Ev) (hp : ∀ e ∈ pre, HPlain e) (hr : s.response.isSome = true)
    (hc : s.closed = s0.closed) : HShape s0 (Http.sendClosed s pre).1 (Http.sendClosed s pre).2.1 := by
  unfold Http.sendClosed
  cases hresp : s.response with
  | none => simp [hresp] at hr
  | some p =>
    obtain ⟨status, tr⟩ := p
    exact HShape.closing _ pre (some status) hp hc rfl

theorem http_appSend_shape (s : Http.S) (m : Option Http.Msg)
    (hresp : (s.st = .response ∨ s.st = .trailers) → s.response.isSome = true) :
    HShape s (Http.appSend s m).1 (Http.appSend s m).2.1 := by
  have hsame : HShape s s [] := HShape.plain s [] (by simp) rfl Iff.rfl hresp
  cases m with
  | none =>
    simp only [Http.appSend]
    by_cases hcl : s.closed = true
    · rw [if_pos hcl]; exact hsame
    · rw [if_neg hcl]
      by_cases hst : s.st = .request
      · simp only [hst, if_true]
        exact HShape.closing _ [.response 500 [("content-length".b, "0".b), ("connection".b, "close".b)]] (some 500)
          (by simp [HPlain]) rfl rfl
      · simp only [hst, if_false]
        exact HShape.quit (by simpa using hcl)
  | some msg =>
    cases msg with
    | start status headers trailers =>
      simp only [Http.appSend]
      by_cases hst : s.st = .request
      · simp only [hst, if_true]
        split
        · exact HShape.plain _ [] (by simp) rfl (by simp [hst]) (by simp [hst])
        · split
          · exact HShape.plain _ [] (by simp) rfl (by simp [hst]) (by simp [hst])
          · exact HShape.plain _ _ (by simp [HPlain]) rfl (by simp [hst]) (by simp)
      · simp only [hst, if_false]; exact hsame
    | push path headers =>
      simp only [Http.appSend]
      split
      · split
        · exact hsame
        · split
          · exact hsame
          · split
            · exact hsame
            · exact HShape.plain s _ (by simp [HPlain]) rfl Iff.rfl hresp
        · exact hsame
      · exact hsame
    | earlyHint links =>
      simp only [Http.appSend]
      split
      · split
        · exact hsame
        · split
          · exact hsame
          · exact HShape.plain s _ (by simp [HPlain]) rfl Iff.rfl hresp
      · exact hsame
    | body body more =>
      simp only [Http.appSend]
      by_cases hst : s.st = .response
      · simp only [hst, if_true]
        have hr := hresp (Or.inl hst)
        cases hrs : s.response with
        | none => simp [hrs] at hr
        | some p =>
          obtain ⟨status, wantTrailers⟩ := p
          simp only []
          split
          · exact hsame
          · rename_i evs hevs
            have hpl : ∀ e ∈ evs, HPlain e := by
              split at hevs
              · cases hevs; simp
              · exact bodyEv_plain _ _ hevs
            by_cases hm : more = true
            · simp only [hm, if_true]
              exact HShape.plain s evs hpl rfl Iff.rfl hresp
            · simp only [hm, Bool.false_eq_true, if_false]
              by_cases hw : wantTrailers = true
              · simp only [hw, if_true]
                exact HShape.plain _ evs hpl rfl (by simp [hst]) (by simp [hrs])
              · simp only [hw, Bool.false_eq_true, if_false]
                exact sendClosed_shape s s evs hpl (by simp [hrs]) rfl
      · simp only [hst, if_false]; exact hsame
    | trailers headers more =>
      simp only [Http.appSend]
      split
      · rename_i hc1
        split
        · split
          · exact hsame
          · split
            · exact hsame
            · rename_i vh _
              split
              · exact HShape.plain _ _ (by simp [HPlain]) rfl (by simp [hc1.2]) (by simp)
              · exact sendClosed_shape s _ _ (by simp [HPlain]) (by simp) rfl
        · split
          · exact hsame
          · -- `_send_closed` before any response was assigned: only reachable with `self.response` unset
            unfold Http.sendClosed
            cases hrs : s.response with
            | none => simp only []; exact HShape.ending _ rfl rfl
            | some p => obtain ⟨status, tr⟩ := p; exact HShape.closing _ [] (some status) (by simp) rfl rfl
      · split
        · rename_i hc2
          have hr := hresp (Or.inr hc2.2)
          split
          · split
            · exact hsame
            · split
              · exact hsame
              · split
                · exact HShape.plain s _ (by simp [HPlain]) rfl Iff.rfl hresp
                · exact sendClosed_shape s s _ (by simp [HPlain]) hr rfl
          · split
            · exact hsame
            · exact sendClosed_shape s s [] (by simp) hr rfl
        · exact hsame
    | other => simp only [Http.appSend]; exact hsame

/-- scheduling: between a `Request` carrying `Expect: 100-continue` and the top of the reader's next iteration (where the
    100 Continue goes out) there is no suspension point, so no application runs there -/
def sched (st : St) : Bool := !(st.lib.waiting100 && !st.wsMode && !st.switched && st.pc == .inLoop)

theorem http_inert_send (s : Http.S) (m : Option Http.Msg) (h : HttpInert s) :
    (Http.appSend s m).1 = s ∧ (Http.appSend s m).2.1 = [] := by
  obtain ⟨h1, h2⟩ := h
  cases m with
  | none => simp [Http.appSend, h2]
  | some msg => cases msg <;> simp [Http.appSend, h1]

theorem appSendHttp_fst (cfg : Cfg) (st : St) (i : Nat) (m : Option Http.Msg) (s : Http.S) (hobj : st.objs[i]? = some (Stream.http s)) :
    (appSendHttp cfg st i m).1 =
      if (runHttpEvs cfg (st.setObj i (.http (Http.appSend s m).1)) (Http.appSend s m).2.1).2.2 = true
      then (runHttpEvs cfg (st.setObj i (.http (Http.appSend s m).1)) (Http.appSend s m).2.1).1.setObj i (.http s)
      else (runHttpEvs cfg (st.setObj i (.http (Http.appSend s m).1)) (Http.appSend s m).2.1).1 := by
  unfold appSendHttp
  rw [hobj]
  simp only []
  by_cases h : (runHttpEvs cfg (st.setObj i (.http (Http.appSend s m).1)) (Http.appSend s m).2.1).2.2 = true
  · simp [h]
  · simp [h]

theorem setObj_lib_back (st : St) (i : Nat) (a b : Stream) (lib' : H11M.St) (h : st.objs[i]? = some b) :
    ({ (st.setObj i a) with lib := lib' } : St).setObj i b = { st with lib := lib' } := by
  simp [St.setObj, List.set_set, set_self _ _ _ h]

/-- **an HTTP application's `send` keeps the invariant**, whatever it sends and whichever stream object (live or orphaned) it owns -/
theorem appSendHttp_inv (cfg : Cfg) (st : St) (g : Ws.Frag) (i : Nat) (m : Option Http.Msg) (hI : Inv st g) (hs : sched st = true) :
    Inv (appSendHttp cfg st i m).1 g := by
  cases hobj : st.objs[i]? with
  | none => simp [appSendHttp, hobj]; exact hI
  | some o =>
    cases o with
    | ws s => simp [appSendHttp, hobj]; exact hI
    | http s =>
      rw [appSendHttp_fst cfg st i m s hobj]
      by_cases hin : HttpInert s
      · obtain ⟨h1, h2⟩ := http_inert_send s m hin
        rw [h1, h2]
        simp [runHttpEvs, St.setObj_self st i _ hobj]
        exact hI
      · have hlast : i + 1 = st.objs.length ∧ st.lib.client ≠ .idle := by
          rcases hI.objs i _ hobj with h | h
          · exact absurd h hin
          · exact h
        have hwait : ∀ lib' : H11M.St, (lib'.waiting100 = true → st.lib.waiting100 = true) → lib'.waiting100 = true → st.wsMode = false →
            st.switched = false → lib'.server = .sendResponse ∧ st.pc = .inLoop := by
          intro lib' hw h1 h2 h3
          exfalso
          have := hI.wait (hw h1) h2 h3
          simp [sched, hw h1, h2, h3, this.2] at hs
        -- a raise (or any other outcome that only changed h11) leaves every object as it was
        have hback : ∀ lib' : H11M.St, LibStep st.lib lib' → H11M.NotBad lib'.server → Inv { st with lib := lib' } g := by
          intro lib' hstep hnb
          refine inv_frame hI rfl rfl rfl hstep.idle (fun _ _ _ _ => Or.inr hnb) ?_ (hwait lib' hstep.wait)
          intro _ j sw hcur hj _ _
          exfalso
          have : j = i := by have := hI.curLast j hcur; omega
          subst this
          rw [hobj] at hj; cases hj
        have herr : H11M.NotBad HSt.error := ⟨by decide, by decide, by decide⟩
        have hshape := http_appSend_shape s m (hI.httpObj i s hobj)
        generalize (Http.appSend s m).1 = s' at hshape ⊢
        generalize (Http.appSend s m).2.1 = evs at hshape ⊢
        have hst0 : (st.setObj i (.http s')).lib = st.lib := rfl
        cases hshape with
        | plain _ _ hpl hcl hstc hresp =>
          have hp := runHttp_plain cfg evs (st.setObj i (.http s')) hpl
          by_cases hr : (runHttpEvs cfg (st.setObj i (.http s')) evs).2.2 = true
          · rw [if_pos hr, hp.shape, setObj_lib_back st i _ _ _ hobj]
            exact hback _ hp.step (by rw [hp.raised hr]; exact herr)
          · rw [if_neg hr, hp.shape]
            refine inv_setHttp hI i s s' _ hobj hlast.1 hresp hcl (Or.inr fun h => hlast.2 (hp.step.idle h)) hp.step.idle ?_ (hwait _ hp.step.wait)
            intro hne
            rcases hp.sv with h | h
            · rw [h]; exact hI.live i s hobj (fun h' => hne (hstc.mpr h'))
            · exact Or.inr h
        | closing _ pre a hpl hcl hstc =>
          have hp := runHttp_plain cfg pre (st.setObj i (.http s')) hpl
          rw [runHttpEvs_append]
          by_cases hr : (runHttpEvs cfg (st.setObj i (.http s')) pre).2.2 = true
          · simp only [hr, if_true]
            rw [hp.shape, setObj_lib_back st i _ _ _ hobj]
            exact hback _ hp.step (by rw [hp.raised hr]; exact herr)
          · simp only [hr, Bool.false_eq_true, if_false]
            rw [runHttp_tail]
            obtain ⟨L1, hL1⟩ : ∃ L, (runHttpEvs cfg (st.setObj i (.http s')) pre).1 = { (st.setObj i (.http s')) with lib := L } := ⟨_, hp.shape⟩
            have hstep1 : LibStep st.lib L1 := by have := hp.step; rw [hL1] at this; exact this
            rw [hL1]
            obtain ⟨L2, hL2⟩ : ∃ L, (libSend { (st.setObj i (.http s')) with lib := L1 } .eom).1 =
                { (st.setObj i (.http s')) with lib := L } := ⟨_, libSend_shape _ _⟩
            have hf := libSend_facts { (st.setObj i (.http s')) with lib := L1 } .eom
            have hstep2 : LibStep st.lib L2 := by
              have := hstep1.trans (libSend_step { (st.setObj i (.http s')) with lib := L1 } .eom)
              rw [hL2] at this; exact this
            by_cases hr2 : (libSend { (st.setObj i (.http s')) with lib := L1 } .eom).2.2 = true
            · simp only [hr2, if_true]
              have hsv := hf.2.2.2.1 hr2
              rw [hL2] at hsv ⊢
              rw [setObj_lib_back st i _ _ _ hobj]
              exact hback _ hstep2 (by rw [hsv]; exact herr)
            · simp only [hr2, Bool.false_eq_true, if_false]
              apply inv_maybeRecycle (b := true)
              rw [hL2]
              exact inv_setHttp hI i s s' _ hobj hlast.1 (by simp [hstc]) hcl (Or.inr fun h => hlast.2 (hstep2.idle h)) hstep2.idle
                (fun hne => absurd hstc hne) (hwait _ hstep2.wait)
        | quit hcl =>
          simp only [runHttpEvs, httpStreamSend, St.setObj_self st i _ hobj, Bool.false_eq_true, if_false]
          exact inv_maybeRecycle hI
        | ending _ hcl hstc =>
          simp only [runHttpEvs, httpStreamSend]
          obtain ⟨L2, hL2⟩ : ∃ L, (libSend (st.setObj i (.http s')) .eom).1 = { (st.setObj i (.http s')) with lib := L } := ⟨_, libSend_shape _ _⟩
          have hf := libSend_facts (st.setObj i (.http s')) .eom
          have hstep : LibStep st.lib L2 := by
            have := libSend_step (st.setObj i (.http s')) .eom
            rw [hL2] at this; exact this
          by_cases hr : (libSend (st.setObj i (.http s')) .eom).2.2 = true
          · simp only [hr, if_true]
            have hsv := hf.2.2.2.1 hr
            rw [hL2] at hsv ⊢
            rw [setObj_lib_back st i _ _ _ hobj]
            exact hback _ hstep (by rw [hsv]; exact herr)
          · simp only [hr, Bool.false_eq_true, if_false]
            rw [hL2]
            exact inv_setHttp hI i s s' _ hobj hlast.1 (by simp [hstc]) hcl (Or.inr fun h => hlast.2 (hstep.idle h)) hstep.idle
              (fun hne => absurd hstc hne) (hwait _ hstep.wait)

/-! ## WebSocket streams -/

/-- stream events other than `StreamClosed` -/
def WPlain : Ws.Ev → Prop
  | .streamClosed => False
  | _ => True

structure PlainRunW (st : St) (r : St × List Out × Bool) : Prop where
  shape : r.1 = { st with lib := r.1.lib }
  step : LibStep st.lib r.1.lib
  raised : r.2.2 = true → r.1.lib.server = .error

theorem plainRunW_libSend (st : St) (e : LibSend) : PlainRunW st (libSend st e) :=
  ⟨libSend_shape st e, libSend_step st e, (libSend_facts st e).2.2.2.1⟩

theorem plainRunW_id (st : St) (o : List Out) : PlainRunW st (st, o, false) :=
  ⟨rfl, LibStep.refl _, fun h => by cases h⟩

theorem wsStreamSend_plain (cfg : Cfg) (st : St) (e : Ws.Ev) (h : WPlain e) : PlainRunW st (wsStreamSend cfg st e) := by
  cases e with
  | response status hs =>
    simp only [wsStreamSend]
    split
    · exact plainRunW_libSend _ _
    · exact plainRunW_libSend _ _
  | body d => simp only [wsStreamSend]; exact plainRunW_libSend _ _
  | endBody => simp only [wsStreamSend]; exact plainRunW_libSend _ _
  | data _ => exact plainRunW_id _ _
  | endData => exact plainRunW_id _ _
  | streamClosed => exact absurd h id
  | access a => exact plainRunW_id _ _
  | spawnPings => exact plainRunW_id _ _
  | spawnClose => exact plainRunW_id _ _

theorem PlainRunW.comp {st : St} {r1 r2 : St × List Out × Bool} (h1 : PlainRunW st r1) (h2 : PlainRunW r1.1 r2)
    (o : List Out) : PlainRunW st (r2.1, o, r2.2.2) := by
  refine ⟨?_, h1.step.trans h2.step, h2.raised⟩
  have a := h2.shape; have b := h1.shape
  simp only at a b ⊢
  rw [a, b]

theorem runWs_plain (cfg : Cfg) : ∀ (evs : List Ws.Ev) (st : St), (∀ e ∈ evs, WPlain e) → PlainRunW st (runWsEvs cfg st evs) := by
  intro evs
  induction evs with
  | nil => intro st _; exact plainRunW_id _ _
  | cons e es ih =>
    intro st h
    have h1 := wsStreamSend_plain cfg st e (h e (by simp))
    simp only [runWsEvs]
    split
    · rename_i hr; exact ⟨h1.shape, h1.step, fun _ => h1.raised hr⟩
    · have h2 := ih (wsStreamSend cfg st e).1 (fun e' he' => h e' (by simp [he']))
      exact h1.comp h2 _

theorem runWsEvs_append (cfg : Cfg) : ∀ (a b : List Ws.Ev) (st : St),
    runWsEvs cfg st (a ++ b) =
      if (runWsEvs cfg st a).2.2 then runWsEvs cfg st a
      else ((runWsEvs cfg (runWsEvs cfg st a).1 b).1, (runWsEvs cfg st a).2.1 ++ (runWsEvs cfg (runWsEvs cfg st a).1 b).2.1,
            (runWsEvs cfg (runWsEvs cfg st a).1 b).2.2) := by
  intro a
  induction a with
  | nil => intro b st; simp [runWsEvs]
  | cons e es ih =>
    intro b st
    simp only [List.cons_append, runWsEvs]
    by_cases hr : (wsStreamSend cfg st e).2.2 = true
    · simp [hr]
    · simp only [hr, Bool.false_eq_true, if_false]
      rw [ih]
      split <;> simp

theorem firstRaisedWs_mem (cfg : Cfg) : ∀ (evs : List Ws.Ev) (st : St) (e : Ws.Ev), firstRaisedWs cfg st evs = some e → e ∈ evs := by
  intro evs
  induction evs with
  | nil => intro st e h; simp [firstRaisedWs] at h
  | cons x xs ih =>
    intro st e h
    simp only [firstRaisedWs] at h
    split at h
    · simp only [Option.some.injEq] at h; simp [h]
    · simp [ih _ _ h]

/-- a head sent from SEND_RESPONSE (with the upgrade proposal registered, as for a WebSocket request) is accepted by h11 -/
theorem ws_response_accepted (cfg : Cfg) (st : St) (status : Nat) (hs : Headers) (h1 : st.lib.server = .sendResponse)
    (h2 : st.lib.pendUpgrade = true) : (wsStreamSend cfg st (.response status hs)).2.2 = false := by
  simp only [wsStreamSend]
  split
  · exact (libSend_response_ok st _ _ h1).1
  · exact (libSend_info_ok st _ _ h1 (fun _ => h2)).1

theorem denialHead_cases (s s1 : Ws.S) (status : Nat) (headers : Option (List (HV × HV))) (e1 : List Ws.Ev)
    (h : Ws.denialHead s status headers = .ok (s1, e1)) :
    (s.st = .handshake ∧ ∃ vh, s1 = { s with st := .response } ∧ e1 = [.response status vh]) ∨ (s.st ≠ .handshake ∧ s1 = s ∧ e1 = []) := by
  unfold Ws.denialHead at h
  split at h
  · rename_i hst
    split at h
    · cases h
    · split at h
      · cases h
      · simp only [Except.ok.injEq, Prod.mk.injEq] at h
        exact Or.inl ⟨hst, _, h.1.symm, h.2.symm⟩
  · rename_i hst
    simp only [Except.ok.injEq, Prod.mk.injEq] at h
    exact Or.inr ⟨hst, h.1.symm, h.2.symm⟩

/-- `_send_rejection`: refused without any effect, or the (validated) head if still due, the body unless suppressed, and the
    end of the body with the access record unless more is to come -/
theorem sendRejection_cases (s : Ws.S) (body : Option HV) (more : Bool) :
    ((Ws.sendRejection s body more).2.1 = [] ∧ (Ws.sendRejection s body more).1 = s) ∨
    ∃ (status : Nat) (hdrs : Option (List (HV × HV))) (b : Bytes) (s1 : Ws.S) (e1 : List Ws.Ev),
      Ws.denialHead s status hdrs = .ok (s1, e1) ∧
      Ws.sendRejection s body more =
        (if more then (s1, e1 ++ (if Extracted.Guards.suppressBody "GET" status then [] else [.body b]), none)
         else ({ s1 with st := .httpClosed }, e1 ++ (if Extracted.Guards.suppressBody "GET" status then [] else [.body b]) ++ [.endBody, .access status], none)) := by
  unfold Ws.sendRejection
  split
  · exact Or.inl ⟨rfl, rfl⟩
  · exact Or.inl ⟨rfl, rfl⟩
  · rename_i status hdrs _
    split
    · exact Or.inl ⟨rfl, rfl⟩
    · rename_i b _
      split
      · exact Or.inl ⟨rfl, rfl⟩
      · rename_i s1 e1 hd
        exact Or.inr ⟨status, hdrs, b, s1, e1, hd, rfl⟩

def isResponseEv : Ws.Ev → Bool
  | .response _ _ => true
  | _ => false

/-- the events of `_send_rejection` from HANDSHAKE: nothing (the message was refused), or the response head followed by
    events that are not heads -/
theorem sendRejection_evs (s : Ws.S) (body : Option HV) (more : Bool) (hst : s.st = .handshake) :
    (Ws.sendRejection s body more).2.1 = [] ∨
    ∃ status vh rest, (Ws.sendRejection s body more).2.1 = .response status vh :: rest ∧ ∀ e ∈ rest, isResponseEv e = false := by
  rcases sendRejection_cases s body more with h | ⟨status, hdrs, b, s1, e1, hd, heq⟩
  · exact Or.inl h.1
  · right
    rcases denialHead_cases _ _ _ _ _ hd with ⟨_, vh, _, rfl⟩ | ⟨hne, _⟩
    · rw [heq]
      by_cases hm : more = true <;> by_cases hsb : Extracted.Guards.suppressBody "GET" status = true <;>
        simp only [hm, hsb, if_true, if_false, Bool.false_eq_true] <;>
        refine ⟨status, vh, _, rfl, ?_⟩ <;> intro e he <;> simp at he <;>
        (first | (rcases he with rfl | rfl | rfl <;> rfl) | (rcases he with rfl | rfl <;> rfl) | (subst he; rfl) | skip)
    · exact absurd hst hne

/-- the plain events of a rejection, and that one which emitted something has left HANDSHAKE -/
theorem sendRejection_plain (s : Ws.S) (body : Option HV) (more : Bool) :
    (∀ e ∈ (Ws.sendRejection s body more).2.1, WPlain e) ∧
    ((Ws.sendRejection s body more).1.st = .handshake → (Ws.sendRejection s body more).2.1 = []) := by
  rcases sendRejection_cases s body more with h | ⟨status, hdrs, b, s1, e1, hd, heq⟩
  · exact ⟨by rw [h.1]; simp, fun _ => h.1⟩
  · have he1 : (∀ x ∈ e1, WPlain x) ∧ (s1.st = .handshake → False) := by
      rcases denialHead_cases _ _ _ _ _ hd with ⟨_, vh, rfl, rfl⟩ | ⟨hne, rfl, rfl⟩
      · exact ⟨by simp [WPlain], fun h => by simp at h⟩
      · exact ⟨by simp, fun h => hne h⟩
    rw [heq]
    by_cases hm : more = true <;> by_cases hsb : Extracted.Guards.suppressBody "GET" status = true <;>
      simp only [hm, hsb, if_true, if_false, Bool.false_eq_true]
    · exact ⟨by simpa using he1.1, fun h => (he1.2 h).elim⟩
    · refine ⟨?_, fun h => (he1.2 h).elim⟩
      intro e he; simp at he; rcases he with he | rfl
      · exact he1.1 e he
      · trivial
    · refine ⟨?_, fun h => by simp at h⟩
      intro e he; simp at he; rcases he with he | rfl | rfl
      · exact he1.1 e he
      · trivial
      · trivial
    · refine ⟨?_, fun h => by simp at h⟩
      intro e he; simp at he; rcases he with he | rfl | rfl | rfl
      · exact he1.1 e he
      · trivial
      · trivial
      · trivial

/-- the two shapes of what `WSStream.app_send` hands to the protocol -/
inductive WShape (s : Ws.S) : Ws.S → List Ws.Ev → Prop where
  | plain (s' : Ws.S) (evs : List Ws.Ev) : (∀ e ∈ evs, WPlain e) → (s'.st = .handshake → evs = []) → WShape s s' evs
  | closing (s' : Ws.S) (pre : List Ws.Ev) : (∀ e ∈ pre, WPlain e) → (s.st = .handshake → pre = Ws.errorResponse 500) →
      WShape s s' (pre ++ [.streamClosed])

theorem sendWs_evs (s : Ws.S) (o : Ws.WsOut) : ∀ e ∈ (Ws.sendWs s o).2.1, WPlain e := by
  unfold Ws.sendWs
  split
  · simp
  · split <;> simp [WPlain]

theorem ws_appSend_shape (token : Bytes → Bytes) (ext : Option Bytes) (s : Ws.S) (m : Option Ws.Msg) :
    WShape s (Ws.appSend token ext s m).1 (Ws.appSend token ext s m).2.1 := by
  have hnil : ∀ s' : Ws.S, WShape s s' [] := fun s' => WShape.plain s' [] (by simp) (fun _ => rfl)
  unfold Ws.appSend
  by_cases hcl : s.closed = true
  · rw [if_pos hcl]; exact hnil _
  · rw [if_neg hcl]
    cases m with
    | none =>
      simp only []
      by_cases h1 : s.st = .handshake
      · simp only [h1, if_true]
        exact WShape.closing _ (Ws.errorResponse 500) (by simp [Ws.errorResponse, WPlain]) (fun _ => rfl)
      · simp only [h1, if_false]
        by_cases h2 : s.st = .connected
        · simp only [h2, if_true]
          have hp := sendWs_evs s (.close 1011)
          rw [show Ws.sendWs s (.close 1011) = ((Ws.sendWs s (.close 1011)).1, (Ws.sendWs s (.close 1011)).2.1, (Ws.sendWs s (.close 1011)).2.2) from rfl]
          simp only []
          split
          · refine WShape.plain _ _ hp ?_
            intro h; rw [(Ws.sendWs_keeps s _).2.2.2.1, h2] at h; cases h
          · exact WShape.closing _ _ hp (fun h => absurd h h1)
        · simp only [h2, if_false]
          exact WShape.closing s [] (by simp) (fun h => absurd h h1)
    | some msg =>
      cases msg with
      | accept sp extra =>
        simp only []
        split
        · split
          · exact hnil _
          · refine WShape.plain _ _ ?_ (fun h => by simp at h)
            intro e he
            simp only [List.mem_append, List.mem_cons, List.not_mem_nil, or_false] at he
            rcases he with (he | he) | he
            · simp [he, WPlain]
            · simp [he, WPlain]
            · split at he <;> simp at he; simp [he, WPlain]
        · exact hnil _
      | respStart status headers =>
        simp only []
        split
        · exact hnil _
        · exact hnil _
      | respBody body more =>
        simp only []
        split
        · -- `_send_rejection`
          exact WShape.plain _ _ (sendRejection_plain s body more).1 (sendRejection_plain s body more).2
        · exact hnil _
      | send bytes text =>
        simp only []
        split
        · split
          · exact hnil _
          · rename_i p _
            refine WShape.plain _ _ (sendWs_evs s _) ?_
            intro h
            rename_i hconn _ _
            rw [(Ws.sendWs_keeps s _).2.2.2.1, hconn] at h; cases h
        · exact hnil _
      | close code reason =>
        simp only []
        split
        · exact WShape.plain _ _ (by simp [Ws.errorResponse, WPlain]) (fun h => by simp at h)
        · split
          · exact hnil _
          · split
            · exact hnil _          -- the close frame cannot be built: nothing is handed to the protocol
            · rename_i k _
              have hp := sendWs_evs { s with st := .closed } (.close k)
              rw [show Ws.sendWs { s with st := .closed } (.close k) =
                ((Ws.sendWs { s with st := .closed } (.close k)).1, (Ws.sendWs { s with st := .closed } (.close k)).2.1,
                 (Ws.sendWs { s with st := .closed } (.close k)).2.2) from rfl]
              simp only []
              split
              · refine WShape.plain _ _ hp ?_
                intro h; rw [(Ws.sendWs_keeps _ _).2.2.2.1] at h; cases h
              · refine WShape.plain _ _ ?_ ?_
                · intro e he
                  simp only [List.mem_append, List.mem_cons, List.not_mem_nil, or_false] at he
                  rcases he with he | he
                  · exact hp e he
                  · simp [he, WPlain]
                · intro h; rw [(Ws.sendWs_keeps _ _).2.2.2.1] at h; cases h
      | other => exact hnil _

theorem appSendWs_fst (cfg : Cfg) (token : Bytes → Bytes) (ext : Option Bytes) (st : St) (i : Nat) (m : Option Ws.Msg) (s : Ws.S)
    (hobj : st.objs[i]? = some (Stream.ws s)) :
    (appSendWs cfg token ext st i m).1 =
      if (runWsEvs cfg (st.setObj i (.ws (Ws.appSend token ext s m).1)) (Ws.appSend token ext s m).2.1).2.2 = true
      then (runWsEvs cfg (st.setObj i (.ws (Ws.appSend token ext s m).1)) (Ws.appSend token ext s m).2.1).1.setObj i
        (.ws (Ws.stateAtRaise m s (Ws.appSend token ext s m).1
          (firstRaisedWs cfg (st.setObj i (.ws (Ws.appSend token ext s m).1)) (Ws.appSend token ext s m).2.1)))
      else (runWsEvs cfg (st.setObj i (.ws (Ws.appSend token ext s m).1)) (Ws.appSend token ext s m).2.1).1 := by
  unfold appSendWs
  rw [hobj]
  simp only []
  by_cases h : (runWsEvs cfg (st.setObj i (.ws (Ws.appSend token ext s m).1)) (Ws.appSend token ext s m).2.1).2.2 = true
  · simp [h]
  · simp [h]

theorem setObj_lib_set (st : St) (i : Nat) (a b : Stream) (lib' : H11M.St) :
    ({ (st.setObj i a) with lib := lib' } : St).setObj i b = { st with objs := st.objs.set i b, lib := lib' } := by
  simp [St.setObj, List.set_set]

/-- a stream's own error response (a final, non-2xx head, then the end of the body) sent from SEND_RESPONSE is accepted by h11 -/
theorem runWs_errorResponse_ok (cfg : Cfg) (st : St) (status : Nat) (h1 : st.lib.server = .sendResponse)
    (hfin : Extracted.Guards.h11FinalStatusCmp.eval status 200 = true) (hns : ¬ (200 ≤ status ∧ status < 300)) :
    (runWsEvs cfg st (Ws.errorResponse status)).2.2 = false := by
  have hresp : ∀ hs, (libSend st (.response status hs)).2.2 = false ∧ (libSend st (.response status hs)).1.lib.server = .sendBody :=
    fun hs => ⟨(libSend_response_ok st status hs h1).1, (libSend_response_ok st status hs h1).2.1 (fun h => hns h.2)⟩
  simp only [Ws.errorResponse, runWsEvs, wsStreamSend, Proto.Heads.h11Response, hfin, if_true]
  simp only [(hresp _).1, Bool.false_eq_true, if_false, libSend_eom_ok _ (hresp _).2]

theorem runWs_streamClosed (cfg : Cfg) (st : St) :
    runWsEvs cfg st [.streamClosed] = ((maybeRecycle st).1, (maybeRecycle st).2 ++ [], false) := by
  simp [runWsEvs, wsStreamSend]

/-- **a WebSocket application's `send` keeps the invariant** -/
theorem appSendWs_inv (cfg : Cfg) (token : Bytes → Bytes) (ext : Option Bytes) (st : St) (g : Ws.Frag) (i : Nat) (m : Option Ws.Msg)
    (hI : Inv st g) : Inv (appSendWs cfg token ext st i m).1 g := by
  cases hobj : st.objs[i]? with
  | none => simp [appSendWs, hobj]; exact hI
  | some o =>
    cases o with
    | http s => simp [appSendWs, hobj]; exact hI
    | ws s =>
      rw [appSendWs_fst cfg token ext st i m s hobj]
      by_cases hcl : s.closed = true
      · have h1 : Ws.appSend token ext s m = (s, [], none) := by simp [Ws.appSend, hcl]
        rw [h1]
        simp [runWsEvs, St.setObj_self st i _ hobj]
        exact hI
      · have hcl' : s.closed = false := by simpa using hcl
        have hcur : st.cur = some i := hI.openCur i _ hobj (by simpa [closedFlag] using hcl')
        have hlast : i + 1 = st.objs.length := hI.curLast i hcur
        obtain ⟨hwm, hok⟩ := hI.wsObj i s hobj
        have hnidle : st.lib.client ≠ .idle := by
          rcases hI.objs i _ hobj with h | h
          · simp [Inert, hcl'] at h
          · exact h.2
        have hand0 : s.st = .handshake → st.lib.server = .sendResponse ∧ st.lib.pendUpgrade = true :=
          fun h => hI.hand rfl i s hcur hobj h hcl'
        have hkeep := Ws.appSend_keeps token ext s m hok
        have hkeepR := fun at' => Ws.stateAtRaise_keeps token ext s m at' hok
        have hshape := ws_appSend_shape token ext s m
        -- the stream as it stands after a raise is not in HANDSHAKE
        have hraise : ∀ (evs : List Ws.Ev), evs = (Ws.appSend token ext s m).2.1 → evs ≠ [] →
            ((Ws.appSend token ext s m).1.st = .handshake → evs = []) →
            (runWsEvs cfg (st.setObj i (.ws (Ws.appSend token ext s m).1)) evs).2.2 = true →
            (Ws.stateAtRaise m s (Ws.appSend token ext s m).1 (firstRaisedWs cfg (st.setObj i (.ws (Ws.appSend token ext s m).1)) evs)).st ≠ .handshake := by
          intro evs hevs hne hnil hr hst
          have hs' : (Ws.appSend token ext s m).1.st ≠ .handshake := fun h => hne (hnil h)
          unfold Ws.stateAtRaise at hst
          split at hst
          · simp at hst
          · simp at hst
          · exact hs' hst
        generalize hs'eq : (Ws.appSend token ext s m).1 = s' at hshape hkeep hkeepR hraise ⊢
        generalize hevseq : (Ws.appSend token ext s m).2.1 = evs at hshape hraise ⊢
        cases hshape with
        | plain =>
          rename_i hpl hnil
          have hp := runWs_plain cfg evs (st.setObj i (.ws s')) hpl
          obtain ⟨L, hL⟩ : ∃ L, (runWsEvs cfg (st.setObj i (.ws s')) evs).1 = { (st.setObj i (.ws s')) with lib := L } := ⟨_, hp.shape⟩
          have hstep : LibStep st.lib L := by have := hp.step; rw [hL] at this; exact this
          by_cases hr : (runWsEvs cfg (st.setObj i (.ws s')) evs).2.2 = true
          · rw [if_pos hr, hL, setObj_lib_set]
            have hne : evs ≠ [] := by intro h; subst h; simp [runWsEvs] at hr
            have hk := hkeepR (firstRaisedWs cfg (st.setObj i (.ws s')) evs)
            exact inv_setWs hI i s _ L hobj hlast hk.2.1 (by rw [hk.1]; exact hI.buf i s hcur hobj) (fun h => by rw [← hk.2.2.1]; exact h)
              (Or.inr fun h => hnidle (hstep.idle h)) hstep.idle (fun _ _ h _ => absurd h (hraise evs rfl hne hnil hr))
          · rw [if_neg hr, hL]
            refine inv_setWs hI i s s' L hobj hlast hkeep.2.1 (by rw [hkeep.1]; exact hI.buf i s hcur hobj) (fun h => by rw [← hkeep.2.2.1]; exact h)
              (Or.inr fun h => hnidle (hstep.idle h)) hstep.idle ?_
            intro _ _ h _
            have hn := hnil h
            subst hn
            simp only [runWsEvs] at hL
            have : L = st.lib := by
              have := congrArg St.lib hL; simpa [St.setObj] using this.symm
            rw [this]; exact hand0 (hkeep.2.2.2 h)
        | closing =>
          rename_i pre hpl hpre
          have hp := runWs_plain cfg pre (st.setObj i (.ws s')) hpl
          obtain ⟨L, hL⟩ : ∃ L, (runWsEvs cfg (st.setObj i (.ws s')) pre).1 = { (st.setObj i (.ws s')) with lib := L } := ⟨_, hp.shape⟩
          have hstep : LibStep st.lib L := by have := hp.step; rw [hL] at this; exact this
          -- from HANDSHAKE the 500 goes out without a raise
          have hnoraise : s.st = .handshake → (runWsEvs cfg (st.setObj i (.ws s')) pre).2.2 = false := by
            intro hst
            rw [hpre hst]
            exact runWs_errorResponse_ok cfg _ 500 (hand0 hst).1 (by decide) (by omega)
          rw [runWsEvs_append, runWs_streamClosed]
          by_cases hr : (runWsEvs cfg (st.setObj i (.ws s')) pre).2.2 = true
          · simp only [hr, if_true]
            rw [hL, setObj_lib_set]
            have hk := hkeepR (firstRaisedWs cfg (st.setObj i (.ws s')) (pre ++ [.streamClosed]))
            refine inv_setWs hI i s _ L hobj hlast hk.2.1 (by rw [hk.1]; exact hI.buf i s hcur hobj) (fun h => by rw [← hk.2.2.1]; exact h)
              (Or.inr fun h => hnidle (hstep.idle h)) hstep.idle ?_
            intro _ _ h _
            have hst := hk.2.2.2 h
            rw [hnoraise hst] at hr; cases hr
          · simp only [hr, Bool.false_eq_true, if_false]
            apply inv_maybeRecycle (b := false)
            rw [hL]
            exact inv_setWs hI i s s' L hobj hlast hkeep.2.1 (by rw [hkeep.1]; exact hI.buf i s hcur hobj) (fun h => by rw [← hkeep.2.2.1]; exact h)
              (Or.inr fun h => hnidle (hstep.idle h)) hstep.idle (fun hb => by cases hb)

end HC.Proto.H11
