import HC.Proto.H11
import HC.Pure.Utils
/-!
# Model of `hypercorn/protocol/__init__.py` (`ProtocolWrapper`) and of the two switch exceptions of `h11.py`
-/
namespace HC.Proto.Wrapper
open HC HC.Proto.H11

inductive Proto where | h11 | h2
deriving Repr, DecidableEq

/-- `ProtocolWrapper.__init__`: HTTP/2 iff ALPN selected `h2` -/
def selectByAlpn (alpn : Option String) : Proto := if alpn = some "h2" then .h2 else .h11

def prefaceLine : Bytes := "PRI * HTTP/2.0\r\n\r\n".b

/-- `H2CProtocolRequiredError.__init__`: the pseudo-header list synthesised for stream 1 -/
def h2cHeaders (r : ReqEv) : Headers :=
  [(":method".b, r.method), (":path".b, r.target)] ++
  r.headers.flatMap (fun h =>
    if Bytes.lower h.1 == "http2-settings".b then [h]
    else if Bytes.lower h.1 == "host".b then [(":authority".b, h.2), h]
    else [h])

/-- the `HTTP2-Settings` value handed to `initiate_upgrade_connection` (last one wins; "" when absent) -/
def h2cSettings (r : ReqEv) : Bytes :=
  ((r.headers.reverse.find? (fun h => Bytes.lower h.1 == "http2-settings".b)).map (·.2)).getD []

/-- what the new `H2Protocol` is fed first: `error.data` -/
def firstH2Input (sw : Switch) (trailing : Bytes) : Bytes :=
  match sw with
  | .prior => prefaceLine ++ trailing
  | .h2c => trailing
  | .none => []

/-- the wrapper over a whole connection: bytes each protocol machine has been given so far -/
structure W where
  proto : Proto
  h11Input : Bytes := []
  h2Input : Bytes := []
deriving Repr, DecidableEq

/-- one read `data` arrives; `sw` = the switch the h11 protocol raised while handling it (with `trailing_data`) -/
def W.read (w : W) (data : Bytes) (sw : Option (Switch × Bytes)) : W :=
  match w.proto with
  | .h2 => { w with h2Input := w.h2Input ++ data }
  | .h11 =>
    match sw with
    | some (.prior, trailing) => { proto := .h2, h11Input := w.h11Input ++ data, h2Input := firstH2Input .prior trailing }
    | some (.h2c, trailing) => { proto := .h2, h11Input := w.h11Input ++ data, h2Input := firstH2Input .h2c trailing }
    | _ => { w with h11Input := w.h11Input ++ data }

end HC.Proto.Wrapper
