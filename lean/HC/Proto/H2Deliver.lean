import HC.Proto.H2Recv
import HC.Proto.H11
import HC.Pure.Utils
/-!
# H2Deliver — the receive side of `H2Protocol` with its contents: what reaches the stream objects and h2's flow control

A thin wrapper around `HC.Proto.H2Recv` (which abstracts a request to five flags and a DATA event to its stream id).  The
two events that carry contents are operations of their own here:

* `request sid headers ins lib` – `RequestReceived`; the abstract request `H2Recv` works with is *computed* from the header
  list the way the loop at the top of `_create_stream` reads it (`reqOf`);
* `data sid payload flow` – `DataReceived` (`flow` = `flow_controlled_length`, padding included);

every other operation is `H2Recv`'s.  A step is `H2Recv.step` on the abstracted operation; each output that hands something
to a stream object (`stream.handle(…)`) or returns flow-control credit (`acknowledge_received_data`) is *decorated* with the
contents the source passes at that call:

```
Request(stream_id=…, headers=filter_pseudo_headers(request.headers), http_version="2", method=method, raw_path=raw_path, …)
Body(stream_id=event.stream_id, data=event.data)          acknowledge_received_data(event.flow_controlled_length, event.stream_id)
```
(the argument lists are read off the source by `tools/extract_req.py`: `ReqGlue.h2RequestArgs`, `dataBodyArgs`, `dataAckArgs`).
-/
namespace HC.Proto.H2Deliver
open HC HC.Proto.H2Recv

def isAscii (b : Bytes) : Bool := b.all (fun c => c < 128)

/-- the value the loop `for name, value in request.headers` leaves bound for `name` (the last one) -/
def lastVal (hs : Headers) (n : Bytes) : Option Bytes := (hs.reverse.find? (fun h => h.1 == n)).map (·.2)

/-- the request as `H2Recv` sees it -/
def reqOf (sid : Nat) (hs : Headers) : Req :=
  { sid := sid,
    hasMethod := (lastVal hs ":method".b).isSome,
    methodAscii := (hs.filter (fun h => h.1 == ":method".b)).all (fun h => isAscii h.2),
    isConnect := Bytes.upper ((lastVal hs ":method".b).getD []) == "CONNECT".b,
    hasPath := (lastVal hs ":path".b).isSome,
    pathAscii := (hs.filter (fun h => h.1 == ":path".b)).all (fun h => isAscii h.2) }

/-- the `Request` stream event `_create_stream` hands to the new stream -/
structure Request where
  headers : Headers          -- `filter_pseudo_headers(request.headers)`
  version : String           -- `"2"`
  method : String            -- `value.decode("ascii").upper()`
  rawPath : Bytes            -- the `:path` value
deriving Repr, DecidableEq

def requestOf (hs : Headers) : Request :=
  { headers := Utils.filterPseudo hs, version := "2", method := H11.decodeAsciiUpper ((lastVal hs ":method".b).getD []),
    rawPath := (lastVal hs ":path".b).getD [] }

/-- `HTTPStream.handle(Request)`: the scope (the extracted split of `raw_path`; the same code serves HTTP/1, cf. `H11.scopeOf`) -/
def scopeOf (r : Request) : H11.Scope :=
  { kind := "http", method := r.method, version := r.version, rawPath := HC.Extracted.ReqGlue.targetRawPath r.rawPath,
    query := HC.Extracted.ReqGlue.targetQuery r.rawPath, headers := r.headers }

inductive RxOp where
  | request (sid : Nat) (hs : Headers) (ins lib : Option Exn)
  | data (sid : Nat) (d : Bytes) (flow : Nat)
  | low (o : Op)
deriving Repr, DecidableEq

def RxOp.abs : RxOp → Op
  | .request sid hs ins lib => .ev (.request (reqOf sid hs) ins lib)
  | .data sid _ _ => .ev (.data sid)
  | .low o => o

/-- `low` is for the operations without contents -/
def RxOp.ok : RxOp → Bool
  | .low (.ev (.request _ _ _)) => false
  | .low (.ev (.data _)) => false
  | _ => true

/-- what reaches a stream object, and what is returned to h2's flow control -/
inductive Dlv where
  | start (sid : Nat) (ws : Bool) (r : Request)      -- `self.streams[sid] = HTTPStream(…) | WSStream(…)`; `handle(Request(…))`
  | body (sid : Nat) (d : Bytes)                       -- `handle(Body(data=event.data))`
  | endBody (sid : Nat)                                -- `handle(EndBody())`
  | closed (sid : Nat)                                 -- `handle(StreamClosed())`
  | ack (sid : Nat) (n : Nat)                          -- `acknowledge_received_data(n, sid)`
deriving Repr, DecidableEq

def decorate (op : RxOp) : Out → Option Dlv
  | .toStream sid w =>
    if w == "request" then (match op with | .request _ hs _ _ => some (.start sid (reqOf sid hs).isConnect (requestOf hs)) | _ => none)
    else if w == "body" then (match op with | .data _ d _ => some (.body sid d) | _ => none)
    else if w == "endBody" then some (.endBody sid)
    else if w == "streamClosed" then some (.closed sid)
    else none
  | .h2call name sid _ =>
    if name == "acknowledge_received_data" then (match op with | .data _ _ f => some (.ack sid f) | _ => none) else none
  | _ => none

def rxStep (kaMax : Nat) (s : St) (op : RxOp) : Except Exn (St × List Dlv) :=
  match step kaMax s op.abs with
  | .error e => .error e
  | .ok (s1, o) => .ok (s1, o.filterMap (decorate op))

def rxRun (kaMax : Nat) : St → List RxOp → Except Exn (St × List Dlv)
  | s, [] => .ok (s, [])
  | s, op :: rest =>
    match rxStep kaMax s op with
    | .error e => .error e
    | .ok (s1, d1) =>
      match rxRun kaMax s1 rest with
      | .error e => .error e
      | .ok (s2, d2) => .ok (s2, d1 ++ d2)

/-- the wrapped run is the `H2Recv` run of the abstracted operations -/
theorem rxRun_abs (kaMax : Nat) : ∀ (ops : List RxOp) (s s' : St) (dl : List Dlv), rxRun kaMax s ops = .ok (s', dl) →
    ∃ o, run kaMax s (ops.map RxOp.abs) = .ok (s', o) := by
  intro ops
  induction ops with
  | nil => intro s s' dl h; simp [rxRun] at h; exact ⟨[], by simp [run, h.1]⟩
  | cons op rest ih =>
    intro s s' dl h
    simp only [rxRun, rxStep] at h
    split at h
    · cases h
    · rename_i s1 d1 h1
      split at h1
      · cases h1
      · rename_i s1' o1 hstep
        simp only [Except.ok.injEq, Prod.mk.injEq] at h1
        obtain ⟨rfl, rfl⟩ := h1
        split at h
        · cases h
        · rename_i s2 d2 h2
          simp only [Except.ok.injEq, Prod.mk.injEq] at h
          obtain ⟨rfl, rfl⟩ := h
          obtain ⟨o2, ho2⟩ := ih _ _ _ h2
          exact ⟨o1 ++ o2, by simp [run, hstep, ho2]⟩

/-! ### reading deliveries and schedules -/

/-- what stream `i`'s object is handed, in order -/
def dlvFor (i : Nat) (dl : List Dlv) : List Dlv :=
  dl.filter (fun d => match d with | .start j _ _ => j == i | .body j _ => j == i | .endBody j => j == i | .closed j => j == i | .ack _ _ => false)

/-- the credit returned to h2, in order: (stream, bytes) -/
def acksOf (dl : List Dlv) : List (Nat × Nat) := dl.filterMap (fun d => match d with | .ack j n => some (j, n) | _ => none)

/-- the DATA events of a schedule, in order: (stream, flow-controlled length) -/
def flowsOf (ops : List RxOp) : List (Nat × Nat) := ops.filterMap (fun o => match o with | .data j _ f => some (j, f) | _ => none)

/-- the receive events of stream `i`: its RequestReceived, DataReceived and StreamEnded -/
def rxFor (i : Nat) : RxOp → Bool
  | .request j _ _ _ => j == i
  | .data j _ _ => j == i
  | .low (.ev (.ended j)) => j == i
  | _ => false

/-- what stream `i`'s receive events must deliver (`live`: `self.streams` has the stream) -/
def expectR (i : Nat) : Bool → List RxOp → List Dlv
  | _, [] => []
  | _, .request _ hs _ _ :: r => .start i (reqOf i hs).isConnect (requestOf hs) :: expectR i true r
  | live, .data _ d _ :: r => (if live then [.body i d] else []) ++ expectR i live r
  | live, .low _ :: r => (if live then [.endBody i] else []) ++ expectR i live r

/-- the stream is kept: it is not reset by the client, the connection is not closed, and its application has not finished
    (`stream_send(StreamClosed)`) -/
def keeps (i : Nat) : RxOp → Bool
  | .low (.ev (.reset j)) => j != i
  | .low .closed => false
  | .low (.app j (.streamClosed _ _)) => j != i
  | _ => true

/-- `_create_stream` creates the stream: the server is not shutting down, `:method` and `:path` are there and ASCII, and
    the priority tree takes the stream (or has it already, from an earlier PRIORITY frame) -/
def accepts (s : St) (r : Req) (ins : Option Exn) : Bool :=
  !s.terminated && r.hasMethod && r.methodAscii && r.hasPath && r.pathAscii &&
  ((ins == none && !s.inPrio r.sid) || ins == some .prioDuplicate)

def opAdm (i : Nat) (s : St) (op : RxOp) : Bool :=
  op.ok && keeps i op && (match op with | .request j hs ins _ => j != i || accepts s (reqOf j hs) ins | _ => true)

/-- the hypothesis of the delivery theorem, along the run -/
def Adm (i : Nat) (kaMax : Nat) : St → List RxOp → Prop
  | _, [] => True
  | s, op :: rest => opAdm i s op = true ∧ (∀ s1 d1, rxStep kaMax s op = .ok (s1, d1) → Adm i kaMax s1 rest)

def admB (i : Nat) (kaMax : Nat) : St → List RxOp → Bool
  | _, [] => true
  | s, op :: rest => opAdm i s op && (match rxStep kaMax s op with | .ok (s1, _) => admB i kaMax s1 rest | .error _ => true)

theorem admB_sound (i kaMax : Nat) : ∀ (ops : List RxOp) (s : St), admB i kaMax s ops = true → Adm i kaMax s ops := by
  intro ops
  induction ops with
  | nil => intro s _; trivial
  | cons op rest ih =>
    intro s h
    simp only [admB, Bool.and_eq_true] at h
    refine ⟨h.1, ?_⟩
    intro s1 d1 hs
    have h2 := h.2
    simp only [hs] at h2
    exact ih s1 h2

end HC.Proto.H2Deliver
