import HC.Proto.H2Send
import HC.Extracted.AppExit
/-!
# `H2Protocol._reset_abandoned_response` run on the send-path model

`HC.Proto.H2Send` models the path as two ops, `abandon i` (guard, `reset_stream`, the flush suspends) and `abandonFin i`
(`buffer.close()`, forget buffer and tree entry, `_close_stream`).  Here the statement list read off the source
(`Extracted.AppExit.h2AbandonGuard`, `h2AbandonSteps`) is *interpreted* on one stream of that model, so that
`HC/Props/C05.lean` can state that the two ops ARE the source's statements, and that none of them waits for flow-control
credit.  A statement that can wait (`drain`, an unknown await) leaves the interpreter in `waits`.
-/
namespace HC.Proto.H2Abandon
open HC.Proto.H2Send HC.Stream.AppExit HC.Extracted

def atom (x : Str) : AAtom → Bool
  | .bufferExists => x.hasBuf
  | .bufferNotComplete => !x.complete
  | .isHttpStream => x.live          -- the model's registered streams are HTTP streams
  | .other => false

def guardHolds (g : List AAtom) (x : Str) : Bool := g.all (atom x)

inductive Out where
  | done (x : Str)                   -- the function returned
  | waits (x : Str) (rest : List AStep)   -- suspended until somebody else acts (the send task needs credit to do so)
deriving Repr, DecidableEq

/-- the statements on one stream.  `flush` suspends for the transport only: the function goes on by itself. -/
def runSteps : List AStep → Str → Out
  | [], x => .done x
  | .resetStream :: k, x => if x.libClosed then .done x else runSteps k { x with libClosed := true }
  | .flush :: k, x => runSteps k x
  | .closeBuffer :: k, x => runSteps k x.closeBuf
  | .forgetBuffer :: k, x => runSteps k { x with hasBuf := false }
  | .forgetTree :: k, x => runSteps k { x with inTree := false }
  | .drain :: k, x =>
    -- `StreamBuffer.drain`: `_is_empty.wait()` (after clearing it when the buffer is complete and not closed)
    if x.emptyEv && !(Guards.bufferDrainClears x.complete x.bufClosed) then runSteps k x else .waits x (.drain :: k)
  | .awaitOther :: k, x => .waits x (.awaitOther :: k)
  | .unrecognised :: k, x => .waits x (.unrecognised :: k)

/-- the whole function: guard, then the statements -/
def runFn (g : List AAtom) (prog : List AStep) (x : Str) : Out := if guardHolds g x then runSteps prog x else .done x

/-- the stream as the function leaves it, if it returns -/
def Out.result : Out → Option Str
  | .done y => some y
  | .waits _ _ => none

/-- a statement list in which nothing waits for anybody returns, from every state of the stream -/
theorem runSteps_done (prog : List AStep) (h : waitsOnlyForTransport prog = true) : ∀ x, ∃ y, runSteps prog x = .done y := by
  induction prog with
  | nil => intro x; exact ⟨x, rfl⟩
  | cons a k ih =>
    intro x
    have hk : waitsOnlyForTransport k = true := by
      simp only [waitsOnlyForTransport, List.all_cons, Bool.and_eq_true] at h ⊢; exact h.2
    cases a with
    | resetStream =>
      simp only [runSteps]
      split
      · exact ⟨x, rfl⟩
      · exact ih hk _
    | flush => exact ih hk x
    | closeBuffer => exact ih hk _
    | forgetBuffer => exact ih hk _
    | forgetTree => exact ih hk _
    | drain => simp [waitsOnlyForTransport] at h
    | awaitOther => simp [waitsOnlyForTransport] at h
    | unrecognised => simp [waitsOnlyForTransport] at h

end HC.Proto.H2Abandon
