import HC.Prelude
import HC.Extracted.Guards
/-!
# EventRace — `EventWrapper` on trio: an event object that is *replaced* by `clear()`, and the tasks waiting on it

`StreamBuffer.push` (protocol/h2.py) ends in `await self._paused.wait(); await self._paused.clear()`.  With one writer per
stream (HTTP) at most one task waits.  A WebSocket carried by HTTP/2 has several: the application's `websocket.send`, the
reader task's pong / close replies, the ping task.  asyncio's `Event.clear()` keeps the waiters; a `trio.Event` cannot be
cleared, `EventWrapper.clear()` *replaces* it.  Replacing an **unset** event leaves the tasks blocked on the old object
waiting for something nobody will ever set (F114: found by C10's writers family, repaired in /repo b3e2f6b by replacing the
event only when it is set; `Guards.trioClearGuarded` is read off `trio/worker_context.py`).

Model: the event object in use is a generation number; a waiter remembers the generation it blocked on; `set` wakes the
waiters of the object in use.  Any interleaving of any number of tasks is a list of operations.
-/
namespace HC.Proto.EventRace

structure Ev where
  gen : Nat := 0                          -- which `trio.Event` object `self._event` is
  isSet : Bool := false
  waiting : List (Nat × Nat) := []        -- (task, generation of the object it is blocked on)
deriving Repr, DecidableEq

inductive Op
  | wait (task : Nat)                     -- `await self._event.wait()`: returns at once when set, else blocks on the object in use
  | set                                   -- `self._event.set()`: wakes everybody blocked on the object in use
  | clear                                 -- `EventWrapper.clear()`
deriving Repr, DecidableEq

/-- `guarded`: `clear()` replaces the object only when it is set -/
def step (guarded : Bool) (e : Ev) : Op → Ev
  | .wait t => if e.isSet then e else { e with waiting := e.waiting ++ [(t, e.gen)] }
  | .set => { e with isSet := true, waiting := e.waiting.filter (fun w => w.2 != e.gen) }
  | .clear => if guarded && !e.isSet then e else { e with gen := e.gen + 1, isSet := false }

def run (guarded : Bool) (e : Ev) (ops : List Op) : Ev := ops.foldl (step guarded) e

/-- the code as it is -/
def current : Bool := HC.Extracted.Guards.trioClearGuarded

/-- nobody is blocked on an object that is no longer in use, and nobody is blocked on a set one -/
structure Inv (e : Ev) : Prop where
  onCurrent : ∀ w ∈ e.waiting, w.2 = e.gen
  setMeansNone : e.isSet = true → e.waiting = []

theorem inv_init : Inv {} := ⟨by simp, by simp⟩

theorem inv_step (e : Ev) (o : Op) (h : Inv e) : Inv (step true e o) := by
  cases o with
  | wait t =>
    simp only [step]
    split
    · exact h
    · rename_i hs
      refine ⟨?_, ?_⟩
      · intro w hw
        simp only [List.mem_append, List.mem_singleton] at hw
        rcases hw with hw | rfl
        · exact h.onCurrent w hw
        · rfl
      · intro h'; simp only at h'; simp_all
  | set =>
    simp only [step]
    refine ⟨?_, ?_⟩
    · intro w hw
      simp only [List.mem_filter] at hw
      exact h.onCurrent w hw.1
    · intro _
      apply List.filter_eq_nil_iff.mpr
      intro w hw
      simp [h.onCurrent w hw]
  | clear =>
    simp only [step, Bool.true_and]
    cases hs : e.isSet with
    | false => simpa using h
    | true =>
      have hn := h.setMeansNone hs
      refine ⟨by simp [hn], by simp⟩

theorem inv_run (ops : List Op) : ∀ (e : Ev), Inv e → Inv (run true e ops) := by
  induction ops with
  | nil => intro e h; exact h
  | cons o os ih => intro e h; exact ih _ (inv_step e o h)

end HC.Proto.EventRace
