import HC.Extracted.ReqGlue
/-!
# H2Window — which streams `H2Protocol._window_updated(stream_id)` unblocks in the priority tree

```
if <windowUpdateAll stream_id>:            for stream_id in list(self.stream_buffers.keys()): self.priority.unblock(stream_id)
elif <windowUpdateOne stream_id (stream_id in self.stream_buffers)>:   self.priority.unblock(stream_id)
await self.has_data.set()
```
Both tests are read off the source by `tools/extract_req.py`.  h2 reports a connection-level WINDOW_UPDATE as
`WindowUpdated(stream_id=0)`; a change of SETTINGS_INITIAL_WINDOW_SIZE is passed on as `None`; a reset stream as its id.
-/
namespace HC.Proto.H2Window
open HC.Extracted

/-- the streams unblocked by `_window_updated(sid)`; `buffers` = the keys of `self.stream_buffers` -/
def unblocked (buffers : List Nat) (sid : Option Nat) : List Nat :=
  if ReqGlue.windowUpdateAll sid then buffers
  else if ReqGlue.windowUpdateOne sid (match sid with | some i => buffers.contains i | none => false) then sid.toList
  else []

/-- the streams whose sendable amount `min(stream window, connection window)` the event can have raised -/
def benefits (sid : Option Nat) (j : Nat) : Bool := sid == none || sid == some 0 || sid == some j

/-! ### how a stream is ended (`H2Protocol._end_stream`, called by `_send_data` once the buffer is complete and empty)

`stream_send(Trailers)` only appends to the stream buffer's `trailers` (`ReqGlue.trailersBranchCalls`); the send task ends the
stream with the h2 calls of `_end_stream`: `n` = number of pending trailer fields. -/
def endCalls (n : Nat) : List String := if ReqGlue.endStreamTest n then ReqGlue.endWithTrailers else ReqGlue.endWithoutTrailers

end HC.Proto.H2Window
