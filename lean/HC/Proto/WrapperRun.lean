import HC.Proto.Wrapper
import HC.Lib.H2Settings
/-!
# The read path of `ProtocolWrapper` + `H11Protocol` up to the protocol switch, over an abstract incremental head parser

`TCPServer._read_data` hands every read to `ProtocolWrapper.handle(RawData(data))`.  While the wrapper's protocol is the
`H11Protocol` made in `__init__`, that is `h11.Connection.receive_data(data)` followed by `next_event()`:

* `NEED_DATA` (no complete request head in h11's buffer): the read is over — unless the buffer has outgrown
  `h11_max_incomplete_size`, then h11 raises `RemoteProtocolError` (431);
* `RemoteProtocolError`: 400 + `Closed`;
* a `Request`: `_check_protocol` decides (h2c: 101, `H2CProtocolRequiredError(trailing_data, request)`; preface:
  `H2ProtocolAssumedError(preface line + trailing_data)`; otherwise `_create_stream`), and the wrapper swaps in an
  `H2Protocol`, calls `initiate` and hands it `error.data`.

h11's byte parser is **not** modelled: it is a parameter (`HeadParser`) with the one property the argument needs, recorded as
structure fields (hypotheses of every theorem that takes a `HeadParser`, not axioms): the answer for a buffer is *prefix
stable*.  `harness/gen/C13.py` samples exactly these fields against the installed h11 on every prefix of every generated
opening (`parser_assumption`).
-/
namespace HC.Proto.Wrapper
open HC HC.Proto.H11

/-- what `h11.Connection(SERVER)` says about a receive buffer holding `buf` (fresh connection) -/
inductive Parse where
  | need                          -- `NEED_DATA`
  | head (r : ReqEv) (n : Nat)    -- a `Request`; the head is the first `n` bytes, `trailing_data[0]` = the rest
  | bad                           -- `RemoteProtocolError`
deriving Repr, DecidableEq

/-- the assumed shape of h11's head parser -/
structure HeadParser where
  parse : Bytes → Parse
  /-- nothing received: `NEED_DATA` -/
  nil_need : parse [] = .need
  /-- the head lies inside the buffer -/
  head_le : ∀ {buf : Bytes} {r : ReqEv} {n : Nat}, parse buf = .head r n → n ≤ buf.length
  /-- once a complete head is in the buffer, more bytes change neither the request nor where it ends -/
  head_stable : ∀ {buf : Bytes} {r : ReqEv} {n : Nat} (more : Bytes), parse buf = .head r n → parse (buf ++ more) = .head r n
  /-- a malformed head stays malformed -/
  bad_stable : ∀ {buf : Bytes} (more : Bytes), parse buf = .bad → parse (buf ++ more) = .bad

/-- which protocol the connection speaks, and on account of what -/
inductive Sel where
  | h11wait                               -- `H11Protocol`, no complete request head yet
  | h11bad                                -- the head was malformed / too long: error response + `Closed`
  | h11 (r : ReqEv) (ws : Bool)           -- stays HTTP/1.x; `ws`: `_create_stream` made a `WSStream`
  | alpn                                  -- `H2Protocol` constructed in `ProtocolWrapper.__init__`
  | prior (r : ReqEv)                     -- switched on the cleartext preface
  | h2c (r : ReqEv) (served : Bool)       -- 101 written, switched; `served = false`: h2 refused the HTTP2-Settings
                                          --   payload → GOAWAY(PROTOCOL_ERROR) + `Closed`, no stream 1
deriving Repr, DecidableEq

/-- an `H11Protocol` was constructed on this connection -/
def Sel.h11Constructed : Sel → Bool
  | .alpn => false
  | _ => true

/-- the `101 Switching Protocols` has been written -/
def Sel.wrote101 : Sel → Bool
  | .h2c _ _ => true
  | _ => false

/-- how `H2Protocol.initiate` was entered -/
def Sel.initPath : Sel → Option InitPath
  | .alpn => some (initiatePath none)
  | .prior r => some (initiatePath (wrapperSettings .prior r))
  | .h2c r _ => some (initiatePath (wrapperSettings .h2c r))
  | _ => none

/-- the header list of the synthesised stream 1 -/
def Sel.stream1 : Sel → Option Headers
  | .h2c r true => some (h2cHeaders r)
  | _ => none

/-- the connection was ended with GOAWAY right after the 101 -/
def Sel.refused : Sel → Bool
  | .h2c _ false => true
  | _ => false

structure RS where
  sel : Sel
  w : W
  cut : Nat := 0                         -- where the h11 parser stopped (length of the HTTP/1 head)
deriving Repr, DecidableEq

def RS.init (alpn : Option String) : RS :=
  match selectByAlpn alpn with
  | .h2 => { sel := .alpn, w := { proto := .h2 } }
  | .h11 => { sel := .h11wait, w := { proto := .h11 } }

/-- one read.  `limit` = `config.h11_max_incomplete_size` -/
def RS.step (P : HeadParser) (limit : Nat) (s : RS) (d : Bytes) : RS :=
  match s.sel with
  | .h11wait =>
    let buf := s.w.h11Input ++ d
    match P.parse buf with
    | .need => if limit < buf.length then { s with sel := .h11bad, w := s.w.read d none } else { s with w := s.w.read d none }
    | .bad => { s with sel := .h11bad, w := s.w.read d none }
    | .head r n =>
      match checkProtocol r with
      | .h2c => { sel := .h2c r (HC.Lib.H2Settings.accepts (h2cSettings r)), w := s.w.read d (some (.h2c, buf.drop n)), cut := n }
      | .prior => { sel := .prior r, w := s.w.read d (some (.prior, buf.drop n)), cut := n }
      | .none => { sel := .h11 r (isWebsocketRequest r), w := s.w.read d none, cut := n }
  | _ => { s with w := s.w.read d none }

def run (P : HeadParser) (limit : Nat) (alpn : Option String) (rs : List Bytes) : RS :=
  rs.foldl (RS.step P limit) (RS.init alpn)

/-- what the outcome is judged by: the selection (with the request it was made on), the protocol object in place, the bytes
    the HTTP/1 parser consumed (everything, as long as the connection is HTTP/1; the head, after a switch) and the bytes
    handed to the HTTP/2 connection -/
structure View where
  sel : Sel
  proto : Proto
  h11Consumed : Bytes
  h2Input : Bytes
deriving Repr, DecidableEq

def RS.view (s : RS) : View :=
  { sel := s.sel, proto := s.w.proto,
    h11Consumed := match s.sel with
      | .prior _ => s.w.h11Input.take s.cut
      | .h2c _ _ => s.w.h11Input.take s.cut
      | _ => s.w.h11Input,
    h2Input := s.w.h2Input }

/-- **the specification**: the outcome as a function of the client's byte string alone -/
def outcome (P : HeadParser) (alpn : Option String) (total : Bytes) : View :=
  match selectByAlpn alpn with
  | .h2 => { sel := .alpn, proto := .h2, h11Consumed := [], h2Input := total }
  | .h11 =>
    match P.parse total with
    | .need => { sel := .h11wait, proto := .h11, h11Consumed := total, h2Input := [] }
    | .bad => { sel := .h11bad, proto := .h11, h11Consumed := total, h2Input := [] }
    | .head r n =>
      match checkProtocol r with
      | .none => { sel := .h11 r (isWebsocketRequest r), proto := .h11, h11Consumed := total, h2Input := [] }
      | .prior => { sel := .prior r, proto := .h2, h11Consumed := total.take n, h2Input := prefaceLine ++ total.drop n }
      | .h2c => { sel := .h2c r (HC.Lib.H2Settings.accepts (h2cSettings r)), proto := .h2, h11Consumed := total.take n,
                  h2Input := total.drop n }

/-- no incomplete head among the prefixes of `total` is longer than h11 tolerates (`h11_max_incomplete_size`) -/
def WithinLimit (P : HeadParser) (limit : Nat) (total : Bytes) : Prop :=
  ∀ p : Bytes, p <+: total → P.parse p = .need → p.length ≤ limit

theorem WithinLimit.prefix {P : HeadParser} {limit : Nat} {a b : Bytes} (h : WithinLimit P limit (a ++ b)) : WithinLimit P limit a :=
  fun p hp hn => h p (List.IsPrefix.trans hp (List.prefix_append a b)) hn

private theorem take_append_le {n : Nat} {a : Bytes} (b : Bytes) (h : n ≤ a.length) : (a ++ b).take n = a.take n := by
  rw [List.take_append_of_le_length h]

private theorem drop_append_le {n : Nat} {a : Bytes} (b : Bytes) (h : n ≤ a.length) : (a ++ b).drop n = a.drop n ++ b := by
  rw [List.drop_append_of_le_length h]

/-- one read preserves "the state is the outcome of the bytes so far" -/
theorem step_view (P : HeadParser) (limit : Nat) (alpn : Option String) (s : RS) (total d : Bytes)
    (h : s.view = outcome P alpn total) (hlim : P.parse (total ++ d) = .need → (total ++ d).length ≤ limit) :
    (s.step P limit d).view = outcome P alpn (total ++ d) := by
  obtain ⟨sel, ⟨proto, h11i, h2i⟩, cut⟩ := s
  unfold outcome at h ⊢
  cases ha : selectByAlpn alpn with
  | h2 =>
    simp only [ha, RS.view, View.mk.injEq] at h ⊢
    obtain ⟨h1, h2, h3, h4⟩ := h
    subst h1 h2 h4
    simp only at h3
    subst h3
    simp [RS.step, W.read]
  | h11 =>
    simp only [ha] at h ⊢
    cases hp : P.parse total with
    | need =>
      simp only [hp, RS.view, View.mk.injEq] at h
      obtain ⟨h1, h2, h3, h4⟩ := h
      subst h1 h2 h4
      simp only at h3
      subst h3
      cases hq : P.parse (h11i ++ d) with
      | need =>
        have hlen : ¬ limit < h11i.length + d.length := by
          have := hlim hq
          simp only [List.length_append] at this
          omega
        simp [RS.step, hq, W.read, RS.view, hlen]
      | bad => simp [RS.step, hq, W.read, RS.view]
      | head r n =>
        have hn := P.head_le hq
        cases hc : checkProtocol r <;> simp [RS.step, hq, hc, W.read, RS.view, firstH2Input]
    | bad =>
      simp only [hp, RS.view, View.mk.injEq] at h
      obtain ⟨h1, h2, h3, h4⟩ := h
      subst h1 h2 h4
      simp only at h3
      subst h3
      simp [RS.step, P.bad_stable d hp, W.read, RS.view]
    | head r n =>
      have hn := P.head_le hp
      have hq := P.head_stable d hp
      simp only [hp] at h
      simp only [hq]
      cases hc : checkProtocol r with
      | none =>
        simp only [hc, RS.view, View.mk.injEq] at h ⊢
        obtain ⟨h1, h2, h3, h4⟩ := h
        subst h1 h2 h4
        simp only at h3
        subst h3
        simp [RS.step, W.read]
      | prior =>
        simp only [hc, RS.view, View.mk.injEq] at h ⊢
        obtain ⟨h1, h2, h3, h4⟩ := h
        subst h1 h2 h4
        simp only at h3
        simp [RS.step, W.read, h3, take_append_le d hn, drop_append_le d hn]
      | h2c =>
        simp only [hc, RS.view, View.mk.injEq] at h ⊢
        obtain ⟨h1, h2, h3, h4⟩ := h
        subst h1 h2 h4
        simp only at h3
        simp [RS.step, W.read, h3, take_append_le d hn, drop_append_le d hn]

theorem init_view (P : HeadParser) (alpn : Option String) : (RS.init alpn).view = outcome P alpn [] := by
  unfold RS.init outcome
  cases selectByAlpn alpn <;> simp [RS.view, P.nil_need]

theorem foldl_view (P : HeadParser) (limit : Nat) (alpn : Option String) (rs : List Bytes) :
    ∀ (s : RS) (total : Bytes), s.view = outcome P alpn total → WithinLimit P limit (total ++ rs.flatten) →
      (rs.foldl (RS.step P limit) s).view = outcome P alpn (total ++ rs.flatten) := by
  induction rs with
  | nil => intro s total h _; simpa using h
  | cons d t ih =>
    intro s total h hl
    simp only [List.foldl_cons, List.flatten_cons]
    rw [← List.append_assoc]
    apply ih
    · apply step_view P limit alpn s total d h
      intro hn
      exact hl (total ++ d) (by simp [List.flatten_cons, ← List.append_assoc]) hn
    · simpa [List.flatten_cons, List.append_assoc] using hl

/-- **the state after any sequence of reads is the outcome of their concatenation** -/
theorem run_view (P : HeadParser) (limit : Nat) (alpn : Option String) (rs : List Bytes)
    (hl : WithinLimit P limit rs.flatten) : (run P limit alpn rs).view = outcome P alpn rs.flatten := by
  have := foldl_view P limit alpn rs (RS.init alpn) [] (init_view P alpn) (by simpa using hl)
  simpa [run] using this

/-! ### ALPN: no parser involved, no limit -/

theorem alpn_step (P : HeadParser) (limit : Nat) (s : RS) (d : Bytes) (h1 : s.sel = .alpn) (h2 : s.w.proto = .h2) :
    (s.step P limit d).sel = .alpn ∧ (s.step P limit d).w.proto = .h2 ∧ (s.step P limit d).w.h11Input = s.w.h11Input ∧
    (s.step P limit d).w.h2Input = s.w.h2Input ++ d := by
  obtain ⟨sel, ⟨proto, h11i, h2i⟩, cut⟩ := s
  simp only at h1 h2
  subst h1 h2
  simp [RS.step, W.read]

theorem alpn_foldl (P : HeadParser) (limit : Nat) (rs : List Bytes) :
    ∀ s : RS, s.sel = .alpn → s.w.proto = .h2 →
      (rs.foldl (RS.step P limit) s).sel = .alpn ∧ (rs.foldl (RS.step P limit) s).w.proto = .h2 ∧
      (rs.foldl (RS.step P limit) s).w.h11Input = s.w.h11Input ∧ (rs.foldl (RS.step P limit) s).w.h2Input = s.w.h2Input ++ rs.flatten := by
  induction rs with
  | nil => intro s h1 h2; simp [h1, h2]
  | cons d t ih =>
    intro s h1 h2
    have hs := alpn_step P limit s d h1 h2
    have := ih (s.step P limit d) hs.1 hs.2.1
    simp only [List.foldl_cons, List.flatten_cons]
    refine ⟨this.1, this.2.1, ?_, ?_⟩
    · rw [this.2.2.1, hs.2.2.1]
    · rw [this.2.2.2, hs.2.2.2, List.append_assoc]

/-! ### a concrete parser: the one the driver runs

`oracle hd r bad`: "the request head is the byte string `hd` and parses to `r`" (`bad = false`), or "`hd` is a malformed
head" (`bad = true`).  The harness takes `hd`, `r` from the installed h11 fed with the whole session, and checks h11's
answers on every prefix against this very function. -/

def oracleParse (hd : Bytes) (r : ReqEv) (bad : Bool) (buf : Bytes) : Parse :=
  if hd ≠ [] ∧ hd.isPrefixOf buf = true then (if bad then .bad else .head r hd.length) else .need

def oracle (hd : Bytes) (r : ReqEv) (bad : Bool) : HeadParser where
  parse := oracleParse hd r bad
  nil_need := by
    unfold oracleParse
    cases hd <;> simp
  head_le := by
    intro buf r' n h
    unfold oracleParse at h
    split at h
    · rename_i hc
      cases bad <;> simp at h
      have := (List.isPrefixOf_iff_prefix.mp hc.2).length_le
      omega
    · simp at h
  head_stable := by
    intro buf r' n more h
    unfold oracleParse at h ⊢
    split at h
    · rename_i hc
      have hp : hd.isPrefixOf (buf ++ more) = true :=
        List.isPrefixOf_iff_prefix.mpr (List.IsPrefix.trans (List.isPrefixOf_iff_prefix.mp hc.2) (List.prefix_append _ _))
      simp only [hc.1, hp, ne_eq, not_false_eq_true, and_self, if_true]
      exact h
    · simp at h
  bad_stable := by
    intro buf more h
    unfold oracleParse at h ⊢
    split at h
    · rename_i hc
      have hp : hd.isPrefixOf (buf ++ more) = true :=
        List.isPrefixOf_iff_prefix.mpr (List.IsPrefix.trans (List.isPrefixOf_iff_prefix.mp hc.2) (List.prefix_append _ _))
      simp only [hc.1, hp, ne_eq, not_false_eq_true, and_self, if_true]
      exact h
    · simp at h

end HC.Proto.Wrapper
