import HC.Proto.H11
import HC.Lib.H11MSend
import HC.Stream.WsTotal
import HC.Extracted.C04Sites
/-!
# H11Total — no library event makes an exception escape `H11Protocol`'s reader (lemmas for C04 `total_h1`)

`HC.Proto.H11.step` answers `none` for two different reasons: (a) the op is not one the libraries / the scheduler can
produce in that state (h11 does not yield a `Request` while its reader side is past IDLE, a read does not start while the
previous one is in progress, …) and (b) an exception would leave the connection handler.  This file separates them without
touching `step` (what the driver reports to the harness is unchanged):

* `libPossible` / `enabled` — meaning (a), an executable predicate on (state, op): `LibWf`;
* `escapeEv` — meaning (b): every place where an exception can leave `_handle_events`, *including* the places where the
  older model dropped the "raised" flag of `_send_h11_event` (the 100-continue at the loop top, the error response, the 101
  of an h2c upgrade, the 404 / 400 a stream sends while handling `Request`);
* `none_classified` — every `none` of `onLibEv` is one of the two;
* `Inv` + preservation — under `enabled`, `escapeEv = none` and `onLibEv ≠ none`, for every op sequence.
-/
namespace HC.Proto.H11
open HC HC.Stream HC.Lib HC.Extracted.H11Tables

/-- where an exception can leave the reader -/
inductive Escape where
  | continue100                    -- LocalProtocolError re-raised by `_send_h11_event` for the 100 Continue at the loop top
  | errorResponse                  -- … for `_send_error_response` after RemoteProtocolError
  | switch101                      -- … for the 101 of an h2c upgrade
  | streamAnswer                   -- … for the 404 / 400 a stream sends by itself while handling `Request`
  | wsHandshake (e : PyErr)        -- out of `WSStream.handle(Request)` (`Handshake.is_valid`)
  | wsHandle (e : PyErr)           -- out of `WSStream.handle(Data)` (`_handle_events`, `_send_wsproto_event`)
  | wsAnswer                       -- LocalProtocolError re-raised while `WSStream.handle(Data)` sends (the 400 for early data)
  | headerDecode                   -- UnicodeDecodeError / ValueError out of a partial decode of client bytes in the reader's own glue
deriving Repr, DecidableEq

/-! ## client-controlled bytes turned into text by the reader's own glue

`C04Sites.h11ReaderDecodes` (extracted on every run) lists every `.decode(…)` / `split_comma_header` / `int(…)` / base64 call in
`_handle_events`, `_check_protocol`, `_create_stream` and `H2CProtocolRequiredError.__init__` with its codec, what it is applied to
and what the enclosing `try`s catch.  A site is *total* when the codec is (latin-1 maps every byte), when the exception it raises is
caught there, or when it decodes a request-line field / header name, which h11's grammar has already restricted to ASCII
(`token`, `vchar+`, `HTTP/d.d`).  Any other site raises on a header value with a byte ≥ 0x80 — out of the connection handler. -/

abbrev DecodeSite := String × String × String × String × List String
def DecodeSite.fn (s : DecodeSite) : String := s.1
def DecodeSite.cls (s : DecodeSite) : String := s.2.1
def DecodeSite.header (s : DecodeSite) : String := s.2.2.1
def DecodeSite.codec (s : DecodeSite) : String := s.2.2.2.1
def DecodeSite.caught (s : DecodeSite) : List String := s.2.2.2.2

def codecTotal (c : String) : Bool := c == "latin1" || c == "latin-1" || c == "iso-8859-1" || c == "iso8859-1" || c == "l1"
def codecText (c : String) : Bool := c == "ascii" || c == "us-ascii" || c == "utf-8" || c == "utf8"
/-- the class the partial function raises (binascii.Error is a ValueError) -/
def raisedBy (c : String) : String := if c == "int" || c == "float" || c == "base64" then "ValueError" else "UnicodeDecodeError"
def siteCaught (s : DecodeSite) : Bool :=
  s.caught.any (fun c => ((HC.Extracted.C04Sites.classMro.lookup (raisedBy s.codec)).getD [raisedBy s.codec]).contains c)
def fieldAscii (cls : String) : Bool := cls == "method" || cls == "target" || cls == "version" || cls == "headerName"
def siteTotal (s : DecodeSite) : Bool := codecTotal s.codec || siteCaught s || (fieldAscii s.cls && codecText s.codec)

/-- a value the (non-total) site is applied to makes it raise -/
def valueBad (s : DecodeSite) (r : ReqEv) : Bool :=
  if s.cls == "headerValue" then
    r.headers.any (fun h => (s.header == "*" || Bytes.lower (Bytes.stripL1 h.1) == s.header.b) && !(codecText s.codec && Ws.isAscii h.2))
  else true

/-- some decode site of function `fn` raises on this request -/
def decodeRaises (fn : String) (r : ReqEv) : Bool :=
  HC.Extracted.C04Sites.h11ReaderDecodes.any (fun (s : DecodeSite) => s.fn == fn && !siteTotal s && valueBad s r)

/-- every extracted decode site of the reader's glue is total (the obligation `C04.h1_decode_sites_total` discharges by `decide`) -/
def decodeSitesTotal : Bool := HC.Extracted.C04Sites.h11ReaderDecodes.all siteTotal

theorem decodeRaises_false (h : decodeSitesTotal = true) (fn : String) (r : ReqEv) : decodeRaises fn r = false := by
  simp only [decodeRaises, List.any_eq_false]
  intro s hs
  have := List.all_eq_true.mp h s hs
  simp [this]

def errHeaders (cfg : Cfg) : Headers := [("content-length".b, "0".b), ("connection".b, "close".b)] ++ cfg.serverHeaders

/-- the current stream, when it is a WSStream -/
def curWs (st : St) : Option Ws.S := match st.stream with | some (.ws s) => some s | _ => none

/-- h11 hands header names over lower-cased and without surrounding whitespace, and `raw_items()` differs from the normalised list
    in the case of the names only -/
def hdrWf (r : ReqEv) : Bool :=
  r.headers.all (fun h => Bytes.lower h.1 == h.1 && Bytes.stripL1 h.1 == h.1) &&
  (r.rawHeaders.map (fun h => (Bytes.lower h.1, h.2)) == r.headers)

/-- meaning (a), library part: `next_event()` / `H11WSConnection.next_event()` / wsproto can produce this result in the
    state reached after the loop-top 100 Continue -/
def libPossibleAt (st : St) (g : Ws.Frag) : LibEv → Bool
  | .request r => !st.wsMode && (H11M.recvRequest st.lib (reqInfo r)).isSome && hdrWf r
  | .data _ => !st.wsMode && (H11M.recvData st.lib).isSome
  | .eom => !st.wsMode && (H11M.recvEom st.lib).isSome
  | .connClosed => !st.wsMode && (H11M.recvClosed st.lib).isSome
  | .needData => true
  | .paused => !st.wsMode
  | .protoError _ => !st.wsMode
  | .wsData _ evs => st.wsMode && (match curWs st with
      | some s => Ws.dataOk g s evs
      | none => evs.isEmpty)

def libPossible (cfg : Cfg) (st : St) (g : Ws.Frag) (e : LibEv) : Bool := libPossibleAt (loopTop cfg st).1 g e

/-- meaning (b), after the loop top: the exception (if any) that leaves `_handle_events` while it handles `e` in state `st` -/
def escapeBody (cfg : Cfg) (st : St) (e : LibEv) : Option Escape :=
  match e with
  | .protoError hint =>
    let st := { st with lib := H11M.recvError st.lib }
    if errIgnored st then none
    else if st.lib.server == .idle || st.lib.server == .sendResponse then
      if (libSend st (.response hint (errHeaders cfg))).2.2 || (libSend (libSend st (.response hint (errHeaders cfg))).1 .eom).2.2
      then some .errorResponse else none
    else none
  | .request r =>
    match H11M.recvRequest st.lib (reqInfo r) with
    | none => none
    | some lib' =>
      let st := { st with lib := lib', requestComplete := false }
      if decodeRaises "H11Protocol._handle_events" r || decodeRaises "H11Protocol._check_protocol" r then some .headerDecode else
      match checkProtocol r with
      | .h2c =>
        if (libSend st (.info 101 (cfg.serverHeaders ++ [("connection".b, "upgrade".b), ("upgrade".b, "h2c".b)]))).2.2 then some .switch101
        else if decodeRaises "H2CProtocolRequiredError.__init__" r then some .headerDecode else none
      | .prior => none
      | .none =>
        if decodeRaises "H11Protocol._create_stream" r then some .headerDecode else
        let ws := isWebsocketRequest r
        let sc := scopeOf cfg r ws
        if ws then
          match Ws.onRequest cfg.wsMaxLen sc.version sc.headers (validServerName cfg sc.headers) cfg.pingInterval with
          | .error e => some (.wsHandshake e)
          | .ok (s, _, evs) =>
            if (runWsEvs cfg { (st.newObj (.ws s)) with wsMode := true, spawns := if s.hasAppPut then st.spawns + 1 else st.spawns } evs).2.2
            then some .streamAnswer else none
        else if validServerName cfg sc.headers then none
        else
          let s : Http.S := { method := sc.method, version := sc.version, reqHeaders := sc.headers, hasAppPut := false, closed := true, st := .closed }
          if (runHttpEvs cfg { (st.newObj (.http s)) with spawns := st.spawns }
                [.response 404 [("content-length".b, "0".b), ("connection".b, "close".b)], .endBody, .access (some 404), .spawnClose]).2.2
          then some .streamAnswer else none
  | .wsData _ evs =>
    match st.cur, st.stream with
    | some i, some (.ws s) =>
      match (Ws.handle s (.data evs)).2.2.2 with
      | some e => some (.wsHandle e)
      | none =>
        if (runWsEvs cfg (st.setObj i (.ws (Ws.handle s (.data evs)).1)) (Ws.handle s (.data evs)).2.2.1).2.2 then some .wsAnswer else none
    | _, _ => none
  | _ => none

/-- meaning (b): the exception (if any) that leaves `_handle_events` in one iteration of its loop: the 100 Continue at the top,
    then the handling of `e` -/
def escapeEv (cfg : Cfg) (st0 : St) (e : LibEv) : Option Escape :=
  if st0.lib.waiting100 && !st0.wsMode && (libSend st0 (.info 100 cfg.serverHeaders)).2.2 then some .continue100
  else escapeBody cfg (loopTop cfg st0).1 e

/-! ## the protocol's own calls into h11 -/

theorem libSend_shape (st : St) (e : LibSend) : (libSend st e).1 = { st with lib := (libSend st e).1.lib } := by
  cases e <;> simp only [libSend] <;> split <;> rfl

/-- after `send(InformationalResponse | Response | Data)` — accepted or refused — the writer is not IDLE, DONE or MUST_CLOSE -/
theorem libSend_notBad (st : St) (e : LibSend) (he : e ≠ .eom) : H11M.NotBad (libSend st e).1.lib.server := by
  have herr : H11M.NotBad HSt.error := ⟨by decide, by decide, by decide⟩
  cases e with
  | info s hs =>
    simp only [libSend]; split
    · rename_i lib' h; exact (H11M.sendInfo_after _ _ _ h).1
    · simp only []; rw [(H11M.sendFailed_after _).1]; exact herr
  | response s hs =>
    simp only [libSend]; split
    · rename_i lib' h; exact (H11M.sendResponse_after _ _ _ h).1
    · simp only []; rw [(H11M.sendFailed_after _).1]; exact herr
  | data d =>
    simp only [libSend]; split
    · rename_i lib' h; exact (H11M.sendData_after _ _ h).1
    · simp only []; rw [(H11M.sendFailed_after _).1]; exact herr
  | eom => exact absurd rfl he

/-- no `send` moves the reader side to IDLE or out of ERROR, raises the 100-continue flag, or fails silently unless the reader
    side is in ERROR; one that raised left the writer in ERROR -/
theorem libSend_facts (st : St) (e : LibSend) :
    ((libSend st e).1.lib.client = .idle → st.lib.client = .idle) ∧
    (st.lib.client = .error → (libSend st e).1.lib.client = .error) ∧
    ((libSend st e).1.lib.waiting100 = true → st.lib.waiting100 = true) ∧
    ((libSend st e).2.2 = true → (libSend st e).1.lib.server = .error) ∧
    (st.lib.client = .error → (libSend st e).2.2 = false) := by
  have hf := H11M.sendFailed_after st.lib
  cases e with
  | info s hs =>
    simp only [libSend]; split
    · rename_i lib' h
      have a := H11M.sendInfo_after _ _ _ h
      exact ⟨a.2.2.2, a.2.2.1, fun hw => by simp [a.2.1] at hw, fun hr => by simp at hr, fun _ => rfl⟩
    · exact ⟨hf.2.2.2.1, hf.2.2.1, fun hw => by rw [← hf.2.1]; exact hw, fun _ => hf.1, fun hc => by simp [hf.2.2.1 hc]⟩
  | response s hs =>
    simp only [libSend]; split
    · rename_i lib' h
      have a := H11M.sendResponse_after _ _ _ h
      exact ⟨a.2.2.2, a.2.2.1, fun hw => by simp [a.2.1] at hw, fun hr => by simp at hr, fun _ => rfl⟩
    · exact ⟨hf.2.2.2.1, hf.2.2.1, fun hw => by rw [← hf.2.1]; exact hw, fun _ => hf.1, fun hc => by simp [hf.2.2.1 hc]⟩
  | data d =>
    simp only [libSend]; split
    · rename_i lib' h
      have a := H11M.sendData_after _ _ h
      exact ⟨a.2.2.2, a.2.2.1, fun hw => by rw [← a.2.1]; exact hw, fun hr => by simp at hr, fun _ => rfl⟩
    · exact ⟨hf.2.2.2.1, hf.2.2.1, fun hw => by rw [← hf.2.1]; exact hw, fun _ => hf.1, fun hc => by simp [hf.2.2.1 hc]⟩
  | eom =>
    simp only [libSend]; split
    · rename_i lib' h
      have a := H11M.sendEom_after _ _ h
      exact ⟨a.2.2, a.2.1, fun hw => by rw [← a.1]; exact hw, fun hr => by simp at hr, fun _ => rfl⟩
    · exact ⟨hf.2.2.2.1, hf.2.2.1, fun hw => by rw [← hf.2.1]; exact hw, fun _ => hf.1, fun hc => by simp [hf.2.2.1 hc]⟩

/-- a response head sent from SEND_RESPONSE is accepted; unless it is the 2xx answer to a CONNECT the writer is then in SEND_BODY -/
theorem libSend_response_ok (st : St) (status : Nat) (hs : Headers) (h : st.lib.server = .sendResponse) :
    (libSend st (.response status hs)).2.2 = false ∧
    (¬ (st.lib.pendConnect = true ∧ 200 ≤ status ∧ status < 300) → (libSend st (.response status hs)).1.lib.server = .sendBody) ∧
    (libSend st (.response status hs)).1.lib.waiting100 = false := by
  obtain ⟨s', h1, h2⟩ := H11M.sendResponse_ok st.lib (respInfo status hs) h
  have a := H11M.sendResponse_after _ _ _ h1
  simp only [libSend, h1]
  exact ⟨trivial, fun hc => h2 (by simpa [respInfo] using hc), a.2.1⟩

theorem libSend_info_ok (st : St) (status : Nat) (hs : Headers) (h : st.lib.server = .sendResponse)
    (hn : status = 101 → st.lib.pendUpgrade = true) :
    (libSend st (.info status hs)).2.2 = false ∧ (libSend st (.info status hs)).1.lib.waiting100 = false ∧
    (status ≠ 101 → (libSend st (.info status hs)).1.lib.server = .sendResponse ∧
      (libSend st (.info status hs)).1.lib.pendUpgrade = st.lib.pendUpgrade) := by
  obtain ⟨s', h1, h2, h3⟩ := H11M.sendInfo_ok st.lib status h hn
  have a := H11M.sendInfo_after _ _ _ h1
  simp only [libSend, h1]
  exact ⟨trivial, a.2.1, fun hne => ⟨by rw [h2, if_neg hne], h3⟩⟩

theorem libSend_eom_ok (st : St) (h : st.lib.server = .sendBody) : (libSend st .eom).2.2 = false := by
  obtain ⟨s', h1⟩ := H11M.sendEom_ok st.lib h
  simp only [libSend, h1]

theorem libSend_data_ok (st : St) (d : Bytes) (h : st.lib.server = .sendBody) :
    (libSend st (.data d)).2.2 = false ∧ (libSend st (.data d)).1.lib.server = .sendBody := by
  obtain ⟨s', h1, h2⟩ := H11M.sendData_ok st.lib h
  simp only [libSend, h1]
  exact ⟨trivial, h2⟩

/-! ## every `none` is one of the two meanings -/

theorem loopTop_shape (cfg : Cfg) (st : St) : (loopTop cfg st).1 = { st with lib := (loopTop cfg st).1.lib } := by
  unfold loopTop; split
  · exact libSend_shape _ _
  · rfl

theorem loopTop_objs (cfg : Cfg) (st : St) : (loopTop cfg st).1.objs = st.objs ∧ (loopTop cfg st).1.wsMode = st.wsMode ∧
    (loopTop cfg st).1.cur = st.cur := by
  rw [loopTop_shape]; exact ⟨rfl, rfl, rfl⟩

/-- **none_classified**: whenever the model's reader step answers `none` (what the driver reports as "rejected"), either the op
    was not enabled (the reader is not in its loop, the protocol was switched, the library cannot produce this result here)
    or an exception leaves the handler at one of the places `escapeEv` names -/
theorem none_classified (cfg : Cfg) (st : St) (g : Ws.Frag) (e : LibEv)
    (hws : ∀ (i : Nat) (s : Ws.S), st.objs[i]? = some (Stream.ws s) → st.wsMode = true) (h : onLibEv cfg st e = none) :
    st.pc ≠ .inLoop ∨ st.switched = true ∨ libPossible cfg st g e = false ∨ (escapeEv cfg st e).isSome = true := by
  unfold onLibEv at h
  split at h
  · rename_i hc
    simp only [bne_iff_ne, ne_eq, Bool.or_eq_true, decide_eq_true_eq] at hc
    rcases hc with hc | hc
    · exact Or.inl hc
    · exact Or.inr (Or.inl hc)
  · right; right
    by_cases htop : (st.lib.waiting100 && !st.wsMode && (libSend st (.info 100 cfg.serverHeaders)).2.2) = true
    · right; simp [escapeEv, htop]
    · have hobjs := loopTop_objs cfg st
      have hws' : ∀ (i : Nat) (s : Ws.S), (loopTop cfg st).1.objs[i]? = some (Stream.ws s) → (loopTop cfg st).1.wsMode = true := by
        intro i s hi; rw [hobjs.2.1]; rw [hobjs.1] at hi; exact hws i s hi
      unfold escapeEv libPossible
      rw [if_neg htop]
      generalize (loopTop cfg st).1 = st1 at h hws' ⊢
      generalize (loopTop cfg st).2 = o0 at h
      unfold escapeBody
      cases e with
      | protoError hint =>
        exfalso
        simp only [onLibEvBody] at h
        split at h <;> simp at h
      | request r =>
        simp only [onLibEvBody] at h
        cases hr : H11M.recvRequest st1.lib (reqInfo r) with
        | none => left; simp [libPossibleAt, hr]
        | some lib' =>
          simp only [hr] at h
          right
          simp only [hr]
          cases hp : checkProtocol r with
          | h2c => simp [hp] at h
          | prior => simp [hp] at h
          | none =>
            simp only [hp] at h ⊢
            by_cases hw : isWebsocketRequest r = true
            · simp only [hw, if_true] at h ⊢
              split at h
              · rename_i e' he'
                simp only [he']
                split
                · rfl
                · split <;> rfl
              · simp at h
            · simp only [hw, Bool.false_eq_true, if_false] at h
              simp at h
      | paused => exfalso; simp only [onLibEvBody] at h; split at h <;> simp at h
      | needData => exfalso; simp [onLibEvBody] at h
      | connClosed =>
        simp only [onLibEvBody] at h
        cases hr : H11M.recvClosed st1.lib with
        | none => left; simp [libPossibleAt, hr]
        | some lib' => simp [hr] at h
      | data d =>
        simp only [onLibEvBody] at h
        cases hr : H11M.recvData st1.lib with
        | none => left; simp [libPossibleAt, hr]
        | some lib' =>
          simp only [hr] at h
          left
          split at h
          · simp at h
          · rename_i i s hcur hstream
            have : st1.wsMode = true := by
              simp only [St.stream, hcur, Option.bind_some] at hstream
              exact hws' i _ hstream
            simp [libPossibleAt, this]
          · simp at h
      | eom =>
        simp only [onLibEvBody] at h
        cases hr : H11M.recvEom st1.lib with
        | none => left; simp [libPossibleAt, hr]
        | some lib' =>
          simp only [hr] at h
          left
          split at h
          · simp at h
          · rename_i i s hcur hstream
            have : st1.wsMode = true := by
              simp only [St.stream, hcur, Option.bind_some] at hstream
              exact hws' i _ hstream
            simp [libPossibleAt, this]
          · simp at h
      | wsData d evs =>
        right
        simp only [onLibEvBody] at h
        split at h
        · rename_i i s hcur hstream
          simp only [hcur, hstream]
          rcases hh : Ws.handle s (.data evs) with ⟨s', puts, wevs, err⟩
          simp only [hh] at h ⊢
          cases err with
          | some e' => rfl
          | none =>
            simp only at h ⊢
            split at h
            · rename_i hr; simp [hr]
            · split at h <;> simp at h
        · simp at h

end HC.Proto.H11
