import HC.Prelude
import HC.Extracted.Guards
import HC.Pure.Config
/-!
# Response heads as the protocols hand them to the libraries

`H11Protocol.stream_send(Response)` and `H2Protocol.stream_send(Response | InformationalResponse)`.
-/
namespace HC.Proto.Heads
open HC HC.Extracted

inductive H11Head where
  | final (status : Nat) (headers : Headers)            -- h11.Response
  | informational (status : Nat) (headers : Headers)    -- h11.InformationalResponse
deriving Repr, DecidableEq

/-- `stream_send(Response)` on HTTP/1: app headers, then the server's own, then `connection: close` at the request maximum -/
def h11Response (status : Nat) (app srv : Headers) (keepAliveRequests keepAliveMax : Nat) : H11Head :=
  if Guards.h11FinalStatusCmp.eval status 200 then
    .final status (app ++ srv ++
      (if Guards.h11KeepAliveCmp.eval keepAliveRequests keepAliveMax then [("connection".b, "close".b)] else []))
  else .informational status (app ++ srv)

def natBytes (n : Nat) : Bytes := (toString n).toList.map (fun c => c.toNat.toUInt8)

/-- `stream_send(Response | InformationalResponse)` on HTTP/2: `[(b":status", b"%d" % status)] + headers + response_headers("h2")` -/
def h2Headers (status : Nat) (app srv : Headers) : Headers :=
  (":status".b, natBytes status) :: app ++ srv

end HC.Proto.Heads
