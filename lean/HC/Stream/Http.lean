import HC.Prelude
import HC.Extracted.Guards
import HC.Extracted.Consts
/-!
# Model of `hypercorn/protocol/http_stream.py` (`HTTPStream`) and `utils.build_and_validate_headers`

`appSend` is the ASGI `send` callable of one request; `handle` is the protocol-facing side.  Both return the new
state, the events handed to the protocol (`self.send(...)`) / messages put to the application, and the Python
exception (if any) that propagates to the caller — *including* whatever was already emitted before the raise.
-/
namespace HC.Stream
open HC HC.Extracted

inductive PyErr where
  | unexpectedMessage | valueError | typeError | indexError | keyError | attributeError | exception
  | structError          -- `struct.error` (class name `error`): `struct.pack("!H", code)` of a close code outside 0..65535
deriving Repr, DecidableEq

/-- a header name / value / body / path exactly as the application supplied it -/
inductive HV where
  | bytes (b : Bytes)
  | str (s : String)
  | int (n : Int)
  | none
deriving Repr, DecidableEq

def hasCtl (b : Bytes) : Bool := b.any (fun c => c == 13 || c == 10 || c == 0)

/-- `utils.validate_header_part`: `bytes(part).strip()`, then CR / LF / NUL are refused -/
def validatePartBytes (b : Bytes) : Except PyErr Bytes :=
  if hasCtl (Bytes.strip b) then .error .valueError else .ok (Bytes.strip b)

/-- `_TOKEN_CHARACTERS`: the characters of a field name (a token, RFC 9110 5.1) -/
def isTchar (c : UInt8) : Bool :=
  (48 ≤ c && c ≤ 57) || (65 ≤ c && c ≤ 90) || (97 ≤ c && c ≤ 122) ||
  c == 33 || c == 35 || c == 36 || c == 37 || c == 38 || c == 39 || c == 42 || c == 43 || c == 45 || c == 46 ||
  c == 94 || c == 95 || c == 96 || c == 124 || c == 126

/-- the name as it would be sent must be neither empty nor a pseudo header (`validated_name[:1] in {b"", b":"}`)
    and must be a token (`_TOKEN_CHARACTERS.issuperset(validated_name)`) -/
def nameRefused (n : Bytes) : Bool := (match n with | [] => true | c :: _ => c == 58) || !n.all isTchar

/-- `validate_header_name`: `validate_header_part(name)`, then the pseudo / empty / token tests on the stripped name -/
def validateNameBytes (b : Bytes) : Except PyErr Bytes :=
  match validatePartBytes b with
  | .error e => .error e
  | .ok n => if nameRefused n then .error .valueError else .ok n

def validateName : HV → Except PyErr Bytes
  | .bytes b => validateNameBytes b
  | .str _ => .error .typeError
  | .int _ => .error .typeError
  | .none => .error .typeError

/-- `validate_header_part(value)` — note `bytes(3) == b"\0\0\0"` -/
def validateValue : HV → Except PyErr Bytes
  | .bytes b => validatePartBytes b
  | .str _ => .error .typeError
  | .int n => if n < 0 then .error .valueError else validatePartBytes (List.replicate n.toNat 0)
  | .none => .error .typeError

/-- `build_and_validate_headers` -/
def validateHeaders : List (HV × HV) → Except PyErr Headers
  | [] => .ok []
  | (n, v) :: rest => do
    let n' ← validateName n
    let v' ← validateValue v
    let r ← validateHeaders rest
    pure ((n', v') :: r)

/-- `[validate_header_part(link) for link in links]` -/
def validateLinks : List HV → Except PyErr (List Bytes)
  | [] => .ok []
  | l :: rest => do
    let v ← validateValue l
    let r ← validateLinks rest
    pure (v :: r)

namespace Http

inductive St where | request | response | trailers | closed
deriving Repr, DecidableEq

/-- events given to the protocol (`self.send`) plus the access-log call, in program order -/
inductive Ev where
  | response (status : Nat) (headers : Headers)
  | info (status : Nat) (headers : Headers)
  | body (data : Bytes)
  | endBody
  | trailers (headers : Headers)
  | push (path : String) (headers : Headers)
  | streamClosed
  | access (status : Option Nat)          -- `config.log.access(scope, response|None, …)`
  | spawnClose                          -- `task_group.spawn(self.send, StreamClosed(...))` after the stream's own 404
deriving Repr, DecidableEq

/-- the ASGI `send` alphabet for an http scope; `Option` = key absent -/
inductive Msg where
  | start (status : Option Nat) (headers : Option (List (HV × HV))) (trailers : Bool)
  | body (body : Option HV) (more : Bool)
  | trailers (headers : Option (List (HV × HV))) (more : Bool)
  | push (path : Option HV) (headers : Option (List (HV × HV)))
  | earlyHint (links : Option (List HV))
  | other
deriving Repr, DecidableEq

structure S where
  st : St := .request
  closed : Bool := false
  method : String
  version : String
  scheme : Bytes := "http".b
  reqHeaders : Headers := []
  response : Option (Nat × Bool) := none       -- (status, trailers flag) of `self.response`, once assigned
  hasAppPut : Bool := true                       -- `self.app_put` was set (an application was spawned)
deriving Repr, DecidableEq

abbrev Out := S × List Ev × Option PyErr

def teTrailers (s : S) : Bool := s.reqHeaders.any (fun h => h.1 == "te".b && h.2 == "trailers".b)

/-- `_send_closed` -/
def sendClosed (s : S) (pre : List Ev) : Out :=
  match s.response with
  | some (st, _) => ({ s with st := .closed }, pre ++ [.endBody, .access (some st), .streamClosed], none)
  | none => ({ s with st := .closed }, pre ++ [.endBody], some .attributeError)   -- `self.response` never assigned

/-- the body expression `message.get("body", b"") != b""` … `bytes(message.get("body", b""))` -/
def bodyEv : Option HV → Except PyErr (List Ev)
  | none => .ok []
  | some (.bytes []) => .ok []
  | some (.bytes b) => .ok [.body b]
  | some (.int n) => if n < 0 then .error .valueError else if n = 0 then .ok [.body []] else .ok [.body (List.replicate n.toNat 0)]
  | some (.str _) => .error .typeError
  | some .none => .error .typeError

def inVersions (v : String) (l : List String) : Bool := l.contains v

def appSend (s : S) : Option Msg → Out
  | none =>                                   -- the application returned / raised
    if s.closed then (s, [], none)
    else if s.st = .request then
      ({ s with st := .closed }, [.response 500 [("content-length".b, "0".b), ("connection".b, "close".b)], .endBody,
         .access (some 500), .streamClosed], none)
    else (s, [.streamClosed], none)
  | some (.start status headers trailers) =>
    if s.st = .request then
      -- `self.response = message` happens before validation
      let s1 := { s with response := some (status.getD 0, trailers) }
      match validateHeaders (headers.getD []) with
      | .error e => (s1, [], some e)
      | .ok hs =>
        match status with
        | none => (s1, [], some .keyError)
        | some st => ({ s1 with st := .response }, [.response st hs], none)
    else (s, [], some .unexpectedMessage)
  | some (.push path headers) =>
    if inVersions s.version Consts.http_PUSH_VERSIONS ∧ s.st ≠ .closed then
      match path with
      | none => (s, [], some .keyError)
      | some (.str p) =>
        match headers with
        | none => (s, [], some .keyError)
        | some hs =>
          match validateHeaders hs with
          | .error e => (s, [], some e)
          | .ok vh =>
            let auth := s.reqHeaders.filterMap (fun h => if h.1 == "host".b then some ((":authority".b, h.2) : Header) else none)
            (s, [.push p ((":scheme".b, s.scheme) :: auth ++ vh)], none)
      | some _ => (s, [], some .typeError)
    else (s, [], some .unexpectedMessage)
  | some (.earlyHint links) =>
    if inVersions s.version Consts.http_EARLY_HINTS_VERSIONS ∧ s.st = .request then
      match links with
      | none => (s, [], some .keyError)
      | some ls =>
        match validateLinks ls with
        | .error e => (s, [], some e)
        | .ok vs => (s, [.info 103 (vs.map (fun v => ("link".b, v)))], none)
    else (s, [], some .unexpectedMessage)
  | some (.body body more) =>
    if s.st = .response then
      match s.response with
      | none => (s, [], some .attributeError)          -- unreachable: RESPONSE implies response assigned
      | some (status, wantTrailers) =>
        let evs : Except PyErr (List Ev) :=
          if Guards.suppressBody s.method status then .ok [] else bodyEv body
        match evs with
        | .error e => (s, [], some e)
        | .ok evs =>
          if more then (s, evs, none)
          else if wantTrailers then ({ s with st := .trailers }, evs, none)
          else sendClosed s evs
    else (s, [], some .unexpectedMessage)
  | some (.trailers headers more) =>
    if inVersions s.version Consts.http_TRAILERS_VERSIONS ∧ s.st = .request then
      if teTrailers s then
        match headers with
        | none => (s, [], some .keyError)
        | some hs =>
          match validateHeaders hs with
          | .error e => (s, [], some e)
          | .ok vh =>
            let s1 := { s with response := some (200, false), st := .trailers }
            if more then (s1, [.response 200 vh], none) else sendClosed s1 [.response 200 vh]
      else if more then (s, [], none) else sendClosed s []
    else if inVersions s.version Consts.http_TRAILERS_VERSIONS ∧ s.st = .trailers then
      if teTrailers s then
        match headers with
        | none => (s, [], some .keyError)
        | some hs =>
          match validateHeaders hs with
          | .error e => (s, [], some e)
          | .ok vh => if more then (s, [.trailers vh], none) else sendClosed s [.trailers vh]
      else if more then (s, [], none) else sendClosed s []
    else (s, [], some .unexpectedMessage)
  | some .other => (s, [], some .unexpectedMessage)

/-- feed a whole message list the way an application would: an exception is raised into the application, which may
    carry on sending; the events are what reached the protocol -/
def feed : S → List (Option Msg) → S × List Ev
  | s, [] => (s, [])
  | s, m :: ms => ((feed (appSend s m).1 ms).1, (appSend s m).2.1 ++ (feed (appSend s m).1 ms).2)

/-! ### protocol-facing side -/

inductive AppMsg where
  | request (body : Bytes) (more : Bool)
  | disconnect
deriving Repr, DecidableEq

inductive In where
  | body (data : Bytes)
  | endBody
  | streamClosed
deriving Repr, DecidableEq

/-- `handle(Body | EndBody | StreamClosed)` (the `Request` event is the constructor of `S`): messages put to the
    application queue and the access record of an aborted request -/
def handle (s : S) : In → S × List AppMsg × List Ev
  | i =>
    if s.closed then (s, [], [])
    else match i with
      | .body d => (s, [.request d true], [])
      | .endBody => (s, [.request [] false], [])
      | .streamClosed =>
        let log := if s.st ≠ .closed then [Ev.access none] else []
        ({ s with closed := true }, if s.hasAppPut then [.disconnect] else [], log)

end Http
end HC.Stream
