import HC.Prelude
/-!
# WsWire — several writer tasks, one ordered byte stream (the send side of a WebSocket stream)

A WebSocket stream is written to by several tasks of the server: the application's task (`websocket.send`), the reader
task (the pong for a ping, the close reply, the 1009 close) and the ping task (`websocket_ping_interval`).  Each of them
goes through

```
WSStream._send_wsproto_event:   data = self.connection.send(event)            # one whole serialised frame
                                await self.send(Data(stream_id=…, data=data))
HTTP/2   H2Protocol.stream_send (Body, Data):   … await self.stream_buffers[id].push(event.data)
         StreamBuffer.push:                     self.buffer.extend(data)       # before the first suspension point
         send task:                             pop(n) -> DATA frames, in buffer order
HTTP/1.1 H11Protocol.stream_send Data:          await self.send(RawData(data=event.data))
         TCPServer.protocol_send RawData:       async with self.send_lock: write(event.data)
```
so the hand-over of one frame is ONE append of the whole frame to the ordered byte stream of the connection (a single
Python statement; the tasks are cooperative).  The writers suspend before and after that append (`push` waits at the high
water mark, the lock, the transport), never inside it.  That granularity is what `HC.Props.C10.frame_hand_over_assumed`
reads off the current source (`HC/Extracted/WsSend.lean`, tools/extract_wssend.py).

Model: `handOver w` = writer `w` appends its next frame, `take n` = the send task / transport takes the next `n` symbols
for the client.  Theorems: under EVERY schedule the stream is the concatenation of whole frames in hand-over order and
every writer's frames appear in its own order (`inv_run`); hence a client that parses a self-delimiting framing sees, for
every class of frame (messages, pongs, pings), exactly what the task of that class sent, in order
(`client_sees_each_writer_in_order`).  `Sliced` is the same system with a frame handed over in pieces: the statement is
false there (a schedule puts another writer's frame inside the first one).
-/
namespace HC.Stream.WsWire

/-- a self-delimiting framing of `φ` over the symbols `σ` (wsproto's frame serialiser and parser between server and client) -/
structure Framing (σ φ : Type) where
  enc : φ → List σ
  dec : List σ → Option (φ × List σ)
  dec_enc : ∀ f rest, dec (enc f ++ rest) = some (f, rest)
  dec_nil : dec [] = none

variable {σ φ : Type}

/-- the client parses the stream `b` into exactly the frames `fs` (nothing left over) -/
inductive Decodes (F : Framing σ φ) : List σ → List φ → Prop
  | done : Decodes F [] []
  | frame {b : List σ} {f : φ} {rest : List σ} {fs : List φ} : F.dec b = some (f, rest) → Decodes F rest fs → Decodes F b (f :: fs)

/-- the serialised stream of a list of frames -/
def wireOf (F : Framing σ φ) (fs : List φ) : List σ := (fs.map F.enc).flatten

theorem wireOf_cons (F : Framing σ φ) (f : φ) (fs : List φ) : wireOf F (f :: fs) = F.enc f ++ wireOf F fs := by
  simp [wireOf]

theorem wireOf_append (F : Framing σ φ) (a b : List φ) : wireOf F (a ++ b) = wireOf F a ++ wireOf F b := by
  simp [wireOf]

/-- whole frames one after the other parse back to themselves -/
theorem decodes_wireOf (F : Framing σ φ) (fs : List φ) : Decodes F (wireOf F fs) fs := by
  induction fs with
  | nil => exact .done
  | cons f r ih => rw [wireOf_cons]; exact .frame (F.dec_enc f _) ih

/-- … and to nothing else -/
theorem decodes_unique (F : Framing σ φ) {b : List σ} {fs gs : List φ} (h1 : Decodes F b fs) (h2 : Decodes F b gs) : fs = gs := by
  induction h1 generalizing gs with
  | done =>
    cases h2 with
    | done => rfl
    | frame hd _ => rw [F.dec_nil] at hd; cases hd
  | frame hd _ ih =>
    cases h2 with
    | done => rw [F.dec_nil] at hd; cases hd
    | frame hd' ht' =>
      rw [hd] at hd'
      cases hd'
      rw [ih ht']

/-! ### the system -/

structure St (σ φ : Type) where
  todo : Nat → List φ          -- per writer task: the frames it still has to send, in its order
  buf : List σ                 -- StreamBuffer.buffer (HTTP/2) / what the transport has accepted and not yet sent
  wire : List σ                -- what has left for the client, in order
  log : List (Nat × φ)         -- ghost: the hand-overs so far (writer, frame)

inductive Op where
  | handOver (w : Nat)         -- writer `w` passes its next Data event on: ONE append of the whole frame
  | take (n : Nat)             -- the send task pops up to `n` symbols (window, frame size) and writes them
deriving Repr, DecidableEq

def start (init : Nat → List φ) : St σ φ := { todo := init, buf := [], wire := [], log := [] }

def step (F : Framing σ φ) (s : St σ φ) : Op → St σ φ
  | .handOver w =>
    match s.todo w with
    | [] => s
    | f :: rest => { s with todo := fun v => if v = w then rest else s.todo v, buf := s.buf ++ F.enc f, log := s.log ++ [(w, f)] }
  | .take n => { s with wire := s.wire ++ s.buf.take n, buf := s.buf.drop n }

def run (F : Framing σ φ) (s : St σ φ) (ops : List Op) : St σ φ := ops.foldl (step F) s

/-- the frames writer `w` has handed over, in order -/
def sentBy (w : Nat) (log : List (Nat × φ)) : List φ := (log.filter (fun p => p.1 == w)).map (·.2)

theorem sentBy_append (w : Nat) (a b : List (Nat × φ)) : sentBy w (a ++ b) = sentBy w a ++ sentBy w b := by
  simp [sentBy]

structure Inv (F : Framing σ φ) (init : Nat → List φ) (s : St σ φ) : Prop where
  /-- the stream (sent and buffered) is the concatenation of whole frames, in hand-over order -/
  stream : s.wire ++ s.buf = wireOf F (s.log.map (·.2))
  /-- every writer's frames are handed over in its own order, none lost, none twice -/
  order : ∀ w, sentBy w s.log ++ s.todo w = init w

theorem inv_start (F : Framing σ φ) (init : Nat → List φ) : Inv F init (start init) :=
  ⟨by simp [start, wireOf], by intro w; simp [start, sentBy]⟩

theorem inv_step (F : Framing σ φ) (init : Nat → List φ) (s : St σ φ) (o : Op) (h : Inv F init s) : Inv F init (step F s o) := by
  cases o with
  | take n =>
    refine ⟨?_, h.order⟩
    have := h.stream
    simp only [step, List.append_assoc, List.take_append_drop]
    exact this
  | handOver w =>
    simp only [step]
    cases hw : s.todo w with
    | nil => exact h
    | cons f rest =>
      refine ⟨?_, ?_⟩
      · have := h.stream
        simp only [List.map_append, List.map_cons, List.map_nil, wireOf_append, ← List.append_assoc, this]
        simp [wireOf]
      · intro v
        have hv := h.order v
        by_cases hvw : v = w
        · subst hvw
          rw [hw] at hv
          simp [sentBy, ← hv]
        · have : ((w == v) = false) := by simp; exact fun e => hvw e.symm
          simp [sentBy, hvw, this, ← hv]

/-- **under every schedule** of hand-overs and takes the stream consists of whole frames, each writer's in its own order -/
theorem inv_run (F : Framing σ φ) (init : Nat → List φ) (ops : List Op) : Inv F init (run F (start init) ops) := by
  suffices h : ∀ s, Inv F init s → Inv F init (run F s ops) from h _ (inv_start F init)
  induction ops with
  | nil => intro s h; exact h
  | cons o r ih => intro s h; exact ih _ (inv_step F init s o h)

/-- every logged hand-over is a frame of the writer it is logged for -/
theorem log_mem (F : Framing σ φ) (init : Nat → List φ) (s : St σ φ) (h : Inv F init s) (w : Nat) (f : φ) (hm : (w, f) ∈ s.log) :
    f ∈ init w := by
  rw [← h.order w]
  apply List.mem_append_left
  simp only [sentBy, List.mem_map, List.mem_filter]
  exact ⟨(w, f), ⟨hm, by simp⟩, rfl⟩

/-- when the writers only send frames of their own class (`cls`: messages / replies / pings - the opcode), the frames of
    class `w` in the log are what writer `w` handed over -/
theorem filter_cls_log (cls : φ → Nat) (w : Nat) (log : List (Nat × φ)) (hcls : ∀ p ∈ log, cls p.2 = p.1) :
    (log.map (·.2)).filter (fun f => cls f == w) = sentBy w log := by
  induction log with
  | nil => rfl
  | cons p r ih =>
    have hp := hcls p (List.mem_cons_self ..)
    have hr := ih (fun q hq => hcls q (List.mem_cons_of_mem _ hq))
    by_cases hpw : p.1 = w
    · have : (cls p.2 == w) = true := by simp [hp, hpw]
      simp [sentBy, this, hpw] at hr ⊢
      exact hr
    · have : (cls p.2 == w) = false := by simp [hp, hpw]
      simp [sentBy, this, hpw] at hr ⊢
      exact hr

/-- **what the client sees, for every schedule**: once everything has been handed over and has left, whatever the client
    parses out of the stream contains, for every class of frame, exactly the frames the writer of that class sent, in its
    order (the application's messages with identical kind and payload, in order; one pong per ping reply, in order) -/
theorem client_sees_each_writer_in_order (F : Framing σ φ) (cls : φ → Nat) (init : Nat → List φ) (ops : List Op)
    (hcls : ∀ w, ∀ f ∈ init w, cls f = w)
    (hall : ∀ w, (run F (start init) ops).todo w = []) (hdrained : (run F (start init) ops).buf = [])
    (got : List φ) (hgot : Decodes F (run F (start init) ops).wire got) :
    ∀ w, got.filter (fun f => cls f == w) = init w := by
  intro w
  have h := inv_run F init ops
  have hs := h.stream
  rw [hdrained, List.append_nil] at hs
  have hg : got = (run F (start init) ops).log.map (·.2) := by
    apply decodes_unique F hgot
    rw [hs]
    exact decodes_wireOf F _
  have ho := h.order w
  rw [hall w, List.append_nil] at ho
  rw [hg, filter_cls_log cls w _ (fun p hp => hcls p.1 p.2 (log_mem F init _ h p.1 p.2 hp)), ho]

/-- … and the stream does parse (the client is never left with a damaged frame) -/
theorem client_can_parse (F : Framing σ φ) (init : Nat → List φ) (ops : List Op) (hdrained : (run F (start init) ops).buf = []) :
    Decodes F (run F (start init) ops).wire ((run F (start init) ops).log.map (·.2)) := by
  have hs := (inv_run F init ops).stream
  rw [hdrained, List.append_nil] at hs
  rw [hs]
  exact decodes_wireOf F _

/-! ### the same system with a frame handed over in pieces (what the granularity above excludes) -/

namespace Sliced

structure St (σ φ : Type) where
  todo : Nat → List φ
  part : Nat → List σ          -- per writer: the rest of the frame it is in the middle of handing over
  buf : List σ
  wire : List σ

inductive Op where
  | handOverPiece (w k : Nat)  -- writer `w` appends the next `k` symbols of its current frame (suspension points in between)
  | take (n : Nat)
deriving Repr, DecidableEq

def step (F : Framing σ φ) (s : St σ φ) : Op → St σ φ
  | .handOverPiece w k =>
    match s.part w, s.todo w with
    | [], [] => s
    | [], f :: rest =>
      { s with todo := fun v => if v = w then rest else s.todo v, part := fun v => if v = w then (F.enc f).drop k else s.part v,
               buf := s.buf ++ (F.enc f).take k }
    | p, _ => { s with part := fun v => if v = w then p.drop k else s.part v, buf := s.buf ++ p.take k }
  | .take n => { s with wire := s.wire ++ s.buf.take n, buf := s.buf.drop n }

def run (F : Framing σ φ) (s : St σ φ) (ops : List Op) : St σ φ := ops.foldl (step F) s

end Sliced

/-- length-prefixed frames over `Nat` symbols: the framing of the witnesses -/
def lp : Framing Nat (List Nat) where
  enc p := p.length :: p
  dec b := match b with
    | [] => none
    | n :: rest => if n ≤ rest.length then some (rest.take n, rest.drop n) else none
  dec_enc := by
    intro f rest
    simp
  dec_nil := rfl

end HC.Stream.WsWire
