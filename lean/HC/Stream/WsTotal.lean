import HC.Stream.Ws
/-!
# WsTotal — `WSStream.handle` never raises (lemmas for C04 `total_ws` / `total_h1`)

wsproto is an oracle: the events `Connection.events()` yields are inputs of the model.  What the library can yield is
restricted by its message-reassembly state `Frag` (the kind of the data message whose fragments are being delivered:
wsproto turns CONTINUATION frames into `TextMessage` / `BytesMessage` of the kind of the first frame).  Under that
restriction `WebsocketBuffer.extend` never writes `str` into a `BytesIO` or `bytes` into a `StringIO` (TypeError), and
`_send_wsproto_event` never runs without a connection object (AttributeError), whatever the application does.
-/
namespace HC.Stream.Ws
open HC HC.Stream HC.Extracted

inductive Kind where | text | bytes
deriving Repr, DecidableEq

def Payload.kind : Payload → Kind
  | .text _ => .text
  | .bytes _ => .bytes

/-- wsproto's reassembly state: `none` between messages, `some k` inside a fragmented message of kind `k` -/
abbrev Frag := Option Kind

/-- the event is one the library can yield in reassembly state `g` -/
def evOk (g : Frag) : WsEv → Bool
  | .message p _ => g == none || g == some p.kind
  | _ => true

def evNext (g : Frag) : WsEv → Frag
  | .message p fin => if fin then none else some p.kind
  | _ => g

def evsOk : Frag → List WsEv → Bool
  | _, [] => true
  | g, e :: es => evOk g e && evsOk (evNext g e) es

def evsNext : Frag → List WsEv → Frag
  | g, [] => g
  | g, e :: es => evsNext (evNext g e) es

def Buffer.over (b : Buffer) : Bool := Guards.wsBufferCmp.eval b.length b.maxLength

/-- the buffer agrees with the library's reassembly state, or it is over the limit (then nothing is written any more) -/
def BufRel (g : Frag) (b : Buffer) : Prop :=
  b.over = true ∨ (match g with | none => b.value = none | some k => ∃ v, b.value = some v ∧ v.kind = k)

/-- an accepted handshake has a connection object (`_accept` assigns both) -/
def Ok (s : S) : Prop := s.hs.accepted = true → s.conn.isSome = true

theorem bufRel_fresh (n : Nat) : BufRel none { maxLength := n } := Or.inr rfl

/-- `extend` under the library restriction: never TypeError; afterwards the buffer is over the limit (FrameTooLargeError)
    or holds data of the event's kind -/
theorem extend_cases (g : Frag) (b : Buffer) (p : Payload) (hrel : BufRel g b) (hok : g = none ∨ g = some p.kind) :
    ((b.extend p).2 = some .tooLarge ∧ (b.extend p).1.over = true) ∨
    ((b.extend p).2 = none ∧ ∃ v, (b.extend p).1.value = some v ∧ v.kind = p.kind) := by
  unfold Buffer.extend
  by_cases hov : Guards.wsBufferCmp.eval b.length b.maxLength = true
  · left; simp [hov, Buffer.over]
  · simp only [hov, Bool.false_eq_true, if_false]
    have hval : b.value = none ∨ ∃ v, b.value = some v ∧ v.kind = p.kind := by
      rcases hrel with h | h
      · exact absurd h hov
      · rcases hok with rfl | rfl
        · exact Or.inl h
        · exact Or.inr h
    rcases hval with hv | ⟨v, hv, hk⟩
    · rw [hv]
      cases p with
      | text c =>
        simp only []
        split
        · left; simp_all [Buffer.over]
        · right; exact ⟨rfl, _, rfl, rfl⟩
      | bytes c =>
        simp only []
        split
        · left; simp_all [Buffer.over]
        · right; exact ⟨rfl, _, rfl, rfl⟩
    · rw [hv]
      cases p with
      | text c =>
        cases v with
        | text a =>
          simp only []
          split
          · left; simp_all [Buffer.over]
          · right; exact ⟨rfl, _, rfl, rfl⟩
        | bytes a => simp [Payload.kind] at hk
      | bytes c =>
        cases v with
        | bytes a =>
          simp only []
          split
          · left; simp_all [Buffer.over]
          · right; exact ⟨rfl, _, rfl, rfl⟩
        | text a => simp [Payload.kind] at hk

theorem sendWs_some (s : S) (o : WsOut) (h : s.conn.isSome = true) :
    (sendWs s o).2.2 = none ∧ (sendWs s o).1.conn.isSome = true ∧ (sendWs s o).1.buffer = s.buffer ∧
    (sendWs s o).1.hs = s.hs ∧ (sendWs s o).1.closed = s.closed ∧ (sendWs s o).1.st = s.st := by
  unfold sendWs
  cases hc : s.conn with
  | none => simp [hc] at h
  | some c =>
    simp only []
    cases connSend c o <;> simp [hc]

/-- what `_handle_events` leaves alone, and that it never raises -/
structure HandleEventsPost (g : Frag) (evs : List WsEv) (s : S) (r : S × List AppMsg × List Ev × Option PyErr) : Prop where
  noErr : r.2.2.2 = none
  conn : r.1.conn.isSome = true
  buf : BufRel (evsNext g evs) r.1.buffer
  hs : r.1.hs = s.hs
  closed : r.1.closed = s.closed
  st : r.1.st = s.st

theorem bufRel_over (g : Frag) (b : Buffer) (h : b.over = true) : BufRel g b := Or.inl h

theorem handleEvents_total : ∀ (evs : List WsEv) (s : S) (g : Frag), s.conn.isSome = true → BufRel g s.buffer → evsOk g evs = true →
    HandleEventsPost g evs s (handleEvents s evs) := by
  intro evs
  induction evs with
  | nil => intro s g hc hrel _; exact ⟨rfl, hc, hrel, rfl, rfl, rfl⟩
  | cons ev rest ih =>
    intro s g hc hrel hwf
    simp only [evsOk, Bool.and_eq_true] at hwf
    obtain ⟨hev, hrest⟩ := hwf
    cases ev with
    | message p fin =>
      have hok : g = none ∨ g = some p.kind := by
        simp only [evOk, Bool.or_eq_true, beq_iff_eq] at hev; exact hev
      have hx := extend_cases g s.buffer p hrel hok
      simp only [handleEvents]
      rcases hx with ⟨herr, hov⟩ | ⟨herr, v, hv, hk⟩
      · -- FrameTooLargeError: close 1009, `break`
        have hb : s.buffer.extend p = ((s.buffer.extend p).1, some BufErr.tooLarge) := by rw [← herr]
        rw [hb]
        simp only []
        have hs := sendWs_some { s with buffer := (s.buffer.extend p).1 } (.close 1009) hc
        exact ⟨hs.1, hs.2.1, by rw [hs.2.2.1]; exact bufRel_over _ _ hov, by rw [hs.2.2.2.1], by rw [hs.2.2.2.2.1], by rw [hs.2.2.2.2.2]⟩
      · have hb : s.buffer.extend p = ((s.buffer.extend p).1, none) := by rw [← herr]
        rw [hb]
        simp only []
        cases fin with
        | true =>
          simp only [if_true]
          have hrel' : BufRel none ((s.buffer.extend p).1.clear) := Or.inr rfl
          have h := ih { s with buffer := (s.buffer.extend p).1.clear } none hc hrel' (by simpa [evNext] using hrest)
          exact ⟨h.noErr, h.conn, by simpa [evsNext, evNext] using h.buf, h.hs, h.closed, h.st⟩
        | false =>
          simp only [Bool.false_eq_true, if_false]
          have hrel' : BufRel (some p.kind) (s.buffer.extend p).1 := Or.inr ⟨v, hv, hk⟩
          have h := ih { s with buffer := (s.buffer.extend p).1 } (some p.kind) hc hrel' (by simpa [evNext] using hrest)
          exact ⟨h.noErr, h.conn, by simpa [evsNext, evNext] using h.buf, h.hs, h.closed, h.st⟩
    | ping payload =>
      simp only [handleEvents]
      have hs := sendWs_some s (.pong payload) hc
      rw [show (sendWs s (.pong payload)) = ((sendWs s (.pong payload)).1, (sendWs s (.pong payload)).2.1, (sendWs s (.pong payload)).2.2) from rfl]
      simp only [hs.1]
      have h := ih (sendWs s (.pong payload)).1 g hs.2.1 (by rw [hs.2.2.1]; exact hrel) (by simpa [evNext] using hrest)
      exact ⟨h.noErr, h.conn, by simpa [evsNext, evNext] using h.buf, by rw [h.hs, hs.2.2.2.1], by rw [h.closed, hs.2.2.2.2.1],
        by rw [h.st, hs.2.2.2.2.2]⟩
    | pong _ =>
      simp only [handleEvents]
      have h := ih s g hc hrel (by simpa [evNext] using hrest)
      exact ⟨h.noErr, h.conn, by simpa [evsNext, evNext] using h.buf, h.hs, h.closed, h.st⟩
    | close code =>
      simp only [handleEvents]
      have hc0 : (s.conn.map connRecvClose).isSome = true := by simpa using hc
      by_cases hrc : s.conn.map connRecvClose = some .remoteClosing
      · -- echo
        simp only [hrc, if_true]
        have hs := sendWs_some { s with conn := some .remoteClosing, clientCloseCode := some code } (.close code) rfl
        rw [show (sendWs { s with conn := some .remoteClosing, clientCloseCode := some code } (.close code)) =
          ((sendWs { s with conn := some .remoteClosing, clientCloseCode := some code } (.close code)).1,
           (sendWs { s with conn := some .remoteClosing, clientCloseCode := some code } (.close code)).2.1,
           (sendWs { s with conn := some .remoteClosing, clientCloseCode := some code } (.close code)).2.2) from rfl]
        simp only [hs.1]
        have h := ih _ g hs.2.1 (by rw [hs.2.2.1]; exact hrel) (by simpa [evNext] using hrest)
        exact ⟨h.noErr, h.conn, by simpa [evsNext, evNext] using h.buf, by rw [h.hs, hs.2.2.2.1], by rw [h.closed, hs.2.2.2.2.1],
          by rw [h.st, hs.2.2.2.2.2]⟩
      · simp only [hrc, if_false]
        have h := ih { s with conn := s.conn.map connRecvClose, clientCloseCode := s.clientCloseCode } g hc0 hrel (by simpa [evNext] using hrest)
        exact ⟨h.noErr, h.conn, by simpa [evsNext, evNext] using h.buf, h.hs, h.closed, h.st⟩
    | failed code =>
      simp only [handleEvents]
      by_cases hrc : s.conn = some .remoteClosing
      · simp only [hrc, if_true]
        have hs := sendWs_some { s with conn := some .remoteClosing, clientCloseCode := some code } (.close code) rfl
        simp only [hs.1]
        have h := ih _ g hs.2.1 (by rw [hs.2.2.1]; exact hrel) (by simpa [evNext] using hrest)
        exact ⟨h.noErr, h.conn, by simpa [evsNext, evNext] using h.buf, by rw [h.hs, hs.2.2.2.1], by rw [h.closed, hs.2.2.2.2.1],
          by rw [h.st, hs.2.2.2.2.2]⟩
      · simp only [hrc, if_false]
        have h := ih s g hc hrel (by simpa [evNext] using hrest)
        exact ⟨h.noErr, h.conn, by simpa [evsNext, evNext] using h.buf, h.hs, h.closed, h.st⟩

/-- `_handle_events` hands the protocol only frames to write and `StreamClosed` -/
def QuietEv : Ev → Prop
  | .data _ => True
  | .streamClosed => True
  | _ => False

theorem sendWs_quiet (s : S) (o : WsOut) : ∀ e ∈ (sendWs s o).2.1, QuietEv e := by
  unfold sendWs
  split
  · simp
  · split <;> simp [QuietEv]

theorem handleEvents_quiet : ∀ (evs : List WsEv) (s : S), ∀ e ∈ (handleEvents s evs).2.2.1, QuietEv e := by
  intro evs
  induction evs with
  | nil => intro s e h; simp [handleEvents] at h
  | cons ev rest ih =>
    intro s e h
    cases ev with
    | message p fin =>
      simp only [handleEvents] at h
      rcases hx : s.buffer.extend p with ⟨b, err⟩
      rw [hx] at h
      cases err with
      | none =>
        simp only [] at h
        split at h
        · exact ih _ e h
        · exact ih _ e h
      | some be =>
        cases be with
        | tooLarge => exact sendWs_quiet _ _ e h
        | typeError => simp at h
    | ping payload =>
      simp only [handleEvents] at h
      rcases hx : sendWs s (.pong payload) with ⟨s1, e1, err⟩
      have hq := sendWs_quiet s (.pong payload)
      rw [hx] at h hq
      cases err with
      | some x => exact hq e h
      | none =>
        simp only [List.mem_append] at h
        rcases h with h | h
        · exact hq e h
        · exact ih _ e h
    | pong _ => simp only [handleEvents] at h; exact ih _ e h
    | close code =>
      simp only [handleEvents] at h
      by_cases hrc : s.conn.map connRecvClose = some .remoteClosing
      · simp only [hrc, if_true] at h
        rcases hx : sendWs { s with conn := some .remoteClosing, clientCloseCode := some code } (.close code) with ⟨s1, e1, err⟩
        have hq := sendWs_quiet { s with conn := some .remoteClosing, clientCloseCode := some code } (.close code)
        rw [hx] at h hq
        cases err with
        | some x => exact hq e h
        | none =>
          simp only [List.mem_append, List.mem_cons, List.not_mem_nil, or_false] at h
          rcases h with (h | h) | h
          · exact hq e h
          · subst h; trivial
          · exact ih _ e h
      · simp only [hrc, if_false] at h
        simp only [List.nil_append, List.cons_append, List.mem_cons] at h
        rcases h with h | h
        · subst h; trivial
        · exact ih _ e h
    | failed code =>
      simp only [handleEvents] at h
      by_cases hrc : s.conn = some .remoteClosing
      · simp only [hrc, if_true] at h
        rcases hx : sendWs { s with conn := some .remoteClosing, clientCloseCode := some code } (.close code) with ⟨s1, e1, err⟩
        have hq := sendWs_quiet { s with conn := some .remoteClosing, clientCloseCode := some code } (.close code)
        rw [hx] at h hq
        cases err with
        | some x => exact hq e h
        | none =>
          simp only [List.mem_append, List.mem_cons, List.not_mem_nil, or_false] at h
          rcases h with (h | h) | h
          · exact hq e h
          · subst h; trivial
          · exact ih _ e h
      · simp only [hrc, if_false] at h
        simp only [List.nil_append, List.cons_append, List.mem_cons] at h
        rcases h with h | h
        · subst h; trivial
        · exact ih _ e h

/-- what the library can have yielded for the bytes handed to `handle(Data)`: nothing unless the stream consults its
    wsproto connection (open stream, accepted handshake), else a sequence allowed by the reassembly state -/
def dataOk (g : Frag) (s : S) (evs : List WsEv) : Bool :=
  if s.closed || !s.hs.accepted then evs.isEmpty else evsOk g evs

/-- **`handle(Data | Body)` never raises**, keeps `Ok` and the buffer relation -/
theorem handle_data_total (s : S) (g : Frag) (evs : List WsEv) (hok : Ok s) (hrel : BufRel g s.buffer) (hwf : dataOk g s evs = true) :
    (handle s (.data evs)).2.2.2 = none ∧ Ok (handle s (.data evs)).1 ∧ BufRel (evsNext g evs) (handle s (.data evs)).1.buffer ∧
    (handle s (.data evs)).1.hs = s.hs ∧ (handle s (.data evs)).1.st = s.st := by
  unfold dataOk at hwf
  by_cases hcl : s.closed = true
  · have he : evs = [] := by simpa [hcl] using hwf
    subst he
    have h1 : handle s (.data []) = (s, [], [], none) := by simp [handle, hcl]
    rw [h1]; exact ⟨rfl, hok, hrel, rfl, rfl⟩
  · have hcl' : s.closed = false := by simpa using hcl
    by_cases hacc : s.hs.accepted = true
    · have hwf' : evsOk g evs = true := by simpa [hcl', hacc] using hwf
      have h1 : handle s (.data evs) = handleEvents s evs := by simp [handle, hcl', hacc]
      rw [h1]
      have h := handleEvents_total evs s g (hok hacc) hrel hwf'
      exact ⟨h.noErr, fun _ => h.conn, h.buf, h.hs, h.st⟩
    · have hacc' : s.hs.accepted = false := by simpa using hacc
      have he : evs = [] := by simpa [hcl', hacc'] using hwf
      subst he
      by_cases hst : s.st = .handshake
      · have h1 : handle s (.data []) = ({ s with closed := true }, if s.hasAppPut then [.disconnect 1006] else [], errorResponse 400 ++ [.spawnClose], none) := by
          simp [handle, hcl', hacc', hst]
        rw [h1]; exact ⟨rfl, fun h => by simp [hacc'] at h, hrel, rfl, rfl⟩
      · have h1 : handle s (.data []) = (s, [], [], none) := by simp [handle, hcl', hacc', hst]
        rw [h1]; exact ⟨rfl, hok, hrel, rfl, rfl⟩

theorem handle_closed_total (s : S) :
    (handle s .streamClosed).2.2.2 = none ∧ (handle s .streamClosed).2.2.1 = [] ∧ (handle s .streamClosed).1.hs = s.hs ∧
    (handle s .streamClosed).1.conn = s.conn ∧ (handle s .streamClosed).1.buffer = s.buffer ∧ (handle s .streamClosed).1.st = s.st ∧
    (handle s .streamClosed).1.closed = true := by
  by_cases hcl : s.closed = true
  · have h1 : handle s .streamClosed = (s, [], [], none) := by simp [handle, hcl]
    rw [h1]; exact ⟨rfl, rfl, rfl, rfl, rfl, rfl, hcl⟩
  · simp [handle, hcl]

/-! ### the application side keeps `Ok` and never touches the receive buffer -/

theorem sendWs_keeps (s : S) (o : WsOut) :
    (sendWs s o).1.buffer = s.buffer ∧ (sendWs s o).1.hs = s.hs ∧ (sendWs s o).1.closed = s.closed ∧ (sendWs s o).1.st = s.st ∧
    (s.conn.isSome = true → (sendWs s o).1.conn.isSome = true) := by
  unfold sendWs
  cases hc : s.conn with
  | none => simp
  | some c => simp only []; cases connSend c o <;> simp [hc]

theorem denialHead_keeps (s s1 : S) (status : Nat) (headers : Option (List (HV × HV))) (e1 : List Ev)
    (h : denialHead s status headers = .ok (s1, e1)) :
    s1.buffer = s.buffer ∧ s1.hs = s.hs ∧ s1.conn = s.conn ∧ s1.closed = s.closed ∧ (s1.st = .handshake → False) := by
  unfold denialHead at h
  split at h
  · split at h
    · cases h
    · split at h
      · cases h
      · simp only [Except.ok.injEq, Prod.mk.injEq] at h
        obtain ⟨rfl, _⟩ := h
        exact ⟨rfl, rfl, rfl, rfl, fun h => by simp at h⟩
  · rename_i hst
    simp only [Except.ok.injEq, Prod.mk.injEq] at h
    obtain ⟨rfl, _⟩ := h
    exact ⟨rfl, rfl, rfl, rfl, hst⟩

theorem sendRejection_keeps (s : S) (body : Option HV) (more : Bool) :
    (sendRejection s body more).1.buffer = s.buffer ∧ (sendRejection s body more).1.hs = s.hs ∧
    (sendRejection s body more).1.conn = s.conn ∧ (sendRejection s body more).1.closed = s.closed ∧
    ((sendRejection s body more).1.st = .handshake → s.st = .handshake) := by
  unfold sendRejection
  split
  · exact ⟨rfl, rfl, rfl, rfl, id⟩
  · exact ⟨rfl, rfl, rfl, rfl, id⟩
  · split
    · exact ⟨rfl, rfl, rfl, rfl, id⟩
    · split
      · exact ⟨rfl, rfl, rfl, rfl, id⟩
      · rename_i s1 e1 hd
        have hk := denialHead_keeps _ _ _ _ _ hd
        simp only []
        split
        · exact ⟨hk.1, hk.2.1, hk.2.2.1, hk.2.2.2.1, fun h => (hk.2.2.2.2 h).elim⟩
        · exact ⟨hk.1, hk.2.1, hk.2.2.1, hk.2.2.2.1, fun h => by simp at h⟩

/-- `app_send` keeps the buffer, keeps `Ok`, never reopens a closed stream and never returns to HANDSHAKE -/
theorem appSend_keeps (token : Bytes → Bytes) (ext : Option Bytes) (s : S) (m : Option Msg) (hok : Ok s) :
    (appSend token ext s m).1.buffer = s.buffer ∧ Ok (appSend token ext s m).1 ∧ (appSend token ext s m).1.closed = s.closed ∧
    ((appSend token ext s m).1.st = .handshake → s.st = .handshake) := by
  have hsw : ∀ (x : S) (o : WsOut), x.buffer = s.buffer → x.hs = s.hs → x.conn = s.conn → x.closed = s.closed →
      (sendWs x o).1.buffer = s.buffer ∧ Ok (sendWs x o).1 ∧ (sendWs x o).1.closed = s.closed ∧ (sendWs x o).1.st = x.st := by
    intro x o h1 h2 h3 h4
    have hk := sendWs_keeps x o
    refine ⟨by rw [hk.1, h1], fun h => hk.2.2.2.2 ?_, by rw [hk.2.2.1, h4], hk.2.2.2.1⟩
    rw [h3]; exact hok (by rw [← h2, ← hk.2.1]; exact h)
  unfold appSend
  by_cases hcl : s.closed = true
  · rw [if_pos hcl]; exact ⟨rfl, hok, rfl, id⟩
  · rw [if_neg hcl]
    cases m with
    | none =>
      simp only []
      split
      · exact ⟨rfl, hok, rfl, fun h => by simp at h⟩
      · split
        · have hk := hsw s (.close 1011) rfl rfl rfl rfl
          rw [show sendWs s (.close 1011) = ((sendWs s (.close 1011)).1, (sendWs s (.close 1011)).2.1, (sendWs s (.close 1011)).2.2) from rfl]
          simp only []
          split <;> exact ⟨hk.1, hk.2.1, hk.2.2.1, fun h => by rw [← hk.2.2.2]; exact h⟩
        · exact ⟨rfl, hok, rfl, id⟩
    | some msg =>
      cases msg with
      | accept sp extra =>
        simp only []
        split
        · split
          · exact ⟨rfl, hok, rfl, id⟩
          · exact ⟨rfl, fun _ => rfl, rfl, fun h => by simp at h⟩
        · exact ⟨rfl, hok, rfl, id⟩
      | respStart status headers =>
        simp only []
        split
        · exact ⟨rfl, hok, rfl, id⟩
        · exact ⟨rfl, hok, rfl, id⟩
      | respBody body more =>
        simp only []
        split
        · have hk := sendRejection_keeps s body more
          refine ⟨hk.1, fun h => ?_, hk.2.2.2.1, hk.2.2.2.2⟩
          rw [hk.2.2.1]; exact hok (by rw [← hk.2.1]; exact h)
        · exact ⟨rfl, hok, rfl, id⟩
      | send bytes text =>
        simp only []
        split
        · split
          · exact ⟨rfl, hok, rfl, id⟩
          · rename_i p _
            have hk := hsw s (.message p) rfl rfl rfl rfl
            exact ⟨hk.1, hk.2.1, hk.2.2.1, fun h => by rw [← hk.2.2.2]; exact h⟩
        · exact ⟨rfl, hok, rfl, id⟩
      | close code reason =>
        simp only []
        split
        · exact ⟨rfl, hok, rfl, fun h => by simp at h⟩
        · split
          · exact ⟨rfl, hok, rfl, id⟩
          · split
            · exact ⟨rfl, hok, rfl, id⟩          -- the close frame cannot be built: the stream is untouched
            · rename_i k _
              have hk := hsw { s with st := .closed } (.close k) rfl rfl rfl rfl
              rw [show sendWs { s with st := .closed } (.close k) =
                ((sendWs { s with st := .closed } (.close k)).1, (sendWs { s with st := .closed } (.close k)).2.1,
                 (sendWs { s with st := .closed } (.close k)).2.2) from rfl]
              simp only []
              split <;> exact ⟨hk.1, hk.2.1, hk.2.2.1, fun h => by rw [hk.2.2.2] at h; simp at h⟩
      | other => exact ⟨rfl, hok, rfl, id⟩

/-- the stream as it stands when a protocol-level send raised has the same properties -/
theorem stateAtRaise_keeps (token : Bytes → Bytes) (ext : Option Bytes) (s : S) (m : Option Msg) (at' : Option Ev) (hok : Ok s) :
    (stateAtRaise m s (appSend token ext s m).1 at').buffer = s.buffer ∧ Ok (stateAtRaise m s (appSend token ext s m).1 at') ∧
    (stateAtRaise m s (appSend token ext s m).1 at').closed = s.closed ∧
    ((stateAtRaise m s (appSend token ext s m).1 at').st = .handshake → s.st = .handshake) := by
  have hk := appSend_keeps token ext s m hok
  unfold stateAtRaise
  split
  · exact ⟨rfl, hok, rfl, fun h => by simp at h⟩
  · exact ⟨rfl, hok, rfl, fun h => by simp at h⟩
  · exact hk

end HC.Stream.Ws
