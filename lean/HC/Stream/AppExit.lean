import HC.Stream.Http
import HC.Stream.Ws
/-!
# How an application's end reaches its stream

Two small interpreters for pieces of code whose *shape* (not just constants) decides property C05; the programs they
run are read off the source by `tools/extract.py` (`HC/Extracted/AppExit.lean`), so that the theorems of
`HC/Props/C05.lean` are statements about the current text of

* `hypercorn/{asyncio,trio}/task_group.py::_handle` — the `try / except … / finally` around the application call:
  which exceptions are caught, which are logged, and on which paths completion is signalled with `send(None)`;
* the branches of `HTTPStream.app_send` taken in state REQUEST — the order of "validate the message", "hand the
  `Response` event to the protocol" and "`self.state = …`": a message that is refused must leave the stream in REQUEST,
  because that state is what makes `app_send(None)` answer 500;
* the branch of `WSStream.app_send` taken for `websocket.close` in state CONNECTED — the order of "build the close frame"
  (`int(code)`, wsproto's serialisation: either may refuse the message), "`self.state = CLOSED`" and the awaits: a refused
  message must leave the stream CONNECTED, because that state is what makes `app_send(None)` send the 1011 close frame
  (F63), and the state must be CLOSED before the first await once the frame exists (the reader runs in another task).
-/
namespace HC.Stream.AppExit
open HC.Stream

/-! ### `_handle`: Python's try / except / finally over a three-letter alphabet -/

/-- the ways the application coroutine can end, by the class of what leaves it -/
inductive Exit where
  | returned
  | exception            -- an `Exception` that is not a group (includes what the server raised into the application)
  | cancelled            -- `asyncio.CancelledError` / `trio.Cancelled`: a `BaseException`, not an `Exception`
  | groupErrors          -- `ExceptionGroup`: only `Exception` leaves (is an `Exception` *and* a `BaseExceptionGroup`)
  | groupMixed           -- `BaseExceptionGroup` with cancellations and other errors
  | groupCancelled       -- `BaseExceptionGroup` of cancellations only
deriving Repr, DecidableEq

/-- the classes named in the `except` clauses -/
inductive Cls where | cancelled | exception | baseExceptionGroup | baseException
deriving Repr, DecidableEq

def Cls.matches : Cls → Exit → Bool
  | _, .returned => false
  | .cancelled, e => e == .cancelled
  | .exception, e => e == .exception || e == .groupErrors
  | .baseExceptionGroup, e => e == .groupErrors || e == .groupMixed || e == .groupCancelled
  | .baseException, _ => true

/-- statements of a handler / `finally` / trailing block -/
inductive Simple where
  | log            -- `await config.log.exception(…)`
  | sendNone       -- `await send(None)`
  | reraise        -- bare `raise`
deriving Repr, DecidableEq

inductive Act where
  | simple (a : Simple)
  /-- `_, other = error.split(<Cancelled>)` … `if other is not None: thn else: els` -/
  | ifOtherErrors (thn els : List Simple)
deriving Repr, DecidableEq

structure TryShape where
  handlers : List (Cls × List Act)
  final : List Simple            -- `finally:` block
  after : List Simple            -- statements behind the `try` statement
deriving Repr, DecidableEq

/-- what an observer sees -/
inductive Obs where | log | sendNone
deriving Repr, DecidableEq

/-- run a block: observations, and whether it ended by re-raising -/
def runSimple : List Simple → List Obs × Bool
  | [] => ([], false)
  | .log :: r => (.log :: (runSimple r).1, (runSimple r).2)
  | .sendNone :: r => (.sendNone :: (runSimple r).1, (runSimple r).2)
  | .reraise :: _ => ([], true)

def hasOtherErrors : Exit → Bool
  | .groupErrors | .groupMixed => true
  | _ => false

def runActs (e : Exit) : List Act → List Obs × Bool
  | [] => ([], false)
  | .simple .reraise :: _ => ([], true)
  | .simple .log :: r => (.log :: (runActs e r).1, (runActs e r).2)
  | .simple .sendNone :: r => (.sendNone :: (runActs e r).1, (runActs e r).2)
  | .ifOtherErrors thn els :: r =>
    let b := runSimple (if hasOtherErrors e then thn else els)
    if b.2 then b else (b.1 ++ (runActs e r).1, (runActs e r).2)

/-- Python semantics of `try: await app(…) except …: … finally: …; after…` for an application that ends with `e`:
    the observations in program order and whether an exception leaves `_handle` (ends the task abnormally) -/
def run (t : TryShape) (e : Exit) : List Obs × Bool :=
  let fin := runSimple t.final
  if e = .returned then
    if fin.2 then (fin.1, true) else (fin.1 ++ (runSimple t.after).1, (runSimple t.after).2)
  else
    match t.handlers.find? (fun h => h.1.matches e) with
    | none => (fin.1, true)                                       -- not caught: `finally` runs, the exception travels on
    | some (_, acts) =>
      let h := runActs e acts
      if h.2 || fin.2 then (h.1 ++ fin.1, true)
      else (h.1 ++ fin.1 ++ (runSimple t.after).1, (runSimple t.after).2)

def logs (o : List Obs × Bool) : Nat := (o.1.filter (· == .log)).length
def signals (o : List Obs × Bool) : Nat := (o.1.filter (· == .sendNone)).length

/-! ### the REQUEST-state branches of `HTTPStream.app_send` as straight-line programs -/

inductive BStep where
  | assignResponse              -- `self.response = …`
  | validate                    -- `build_and_validate_headers(…)` / `validate_header_part(…)`: raises on a bad header
  | sendResponse                -- `await self.send(Response(…))`, its arguments (`int(status)`) included: may raise
  | sendInfo                    -- `await self.send(InformationalResponse(…))`
  | setState (st : Http.St)     -- `self.state = ASGIHTTPState.…`
  | sendClosed                  -- `await self._send_closed()`: EndBody, state CLOSED, access record, StreamClosed
deriving Repr, DecidableEq

structure BRes where
  st : Http.St := .request
  responseSent : Bool := false
deriving Repr, DecidableEq

def BStep.apply (r : BRes) : BStep → BRes
  | .setState st => { r with st := st }
  | .sendResponse => { r with responseSent := true }
  | .sendClosed => { r with st := .closed }
  | _ => r

/-- run the branch; `failAt = some k` = the k-th statement raises (before it has any effect) -/
def runBranch : List BStep → Option Nat → BRes → BRes
  | [], _, r => r
  | _ :: _, some 0, r => r
  | b :: rest, some (k + 1), r => runBranch rest (some k) (b.apply r)
  | b :: rest, none, r => runBranch rest none (b.apply r)

/-- the clause: wherever the branch is left by an exception, the stream is out of REQUEST only if the `Response`
    event has been handed to the protocol -/
def commitsAfterSend (prog : List BStep) : Bool :=
  (List.range prog.length).all (fun k =>
    let r := runBranch prog (some k) {}
    r.responseSent || r.st == .request)

/-! ### the completion branch of `HTTPStream.app_send` (`message is None`: the application has ended) -/

/-- what the completion branch does, statement by statement -/
inductive XAct where
  | errorResponse (status : Nat)   -- `await self._send_error_response(status)`: a complete response (head, end-of-body, access record)
  | response                       -- `await self.send(Response(…))`
  | body                           -- `await self.send(Body(…))`
  | endBody                        -- `await self.send(EndBody(…))`: the response would be complete
  | trailers                       -- `await self.send(Trailers(…))`
  | sendClosed                     -- `await self._send_closed()`: end-of-body, access record, stream-closed
  | streamClosed                   -- `await self.send(StreamClosed(…))`
deriving Repr, DecidableEq

/-- the events of one statement, as the model `Http.appSend` lists them -/
def XAct.events : XAct → List Http.Ev
  | .errorResponse st => [.response st [("content-length".b, "0".b), ("connection".b, "close".b)], .endBody, .access (some st)]
  | .response => [.response 0 []]
  | .body => [.body []]
  | .endBody => [.endBody]
  | .trailers => [.trailers []]
  | .sendClosed => [.endBody, .access none, .streamClosed]
  | .streamClosed => [.streamClosed]

/-- does the statement complete (or continue) a response?  Only `StreamClosed` does not. -/
def XAct.completes : XAct → Bool
  | .streamClosed => false
  | _ => true

/-! ### the CONNECTED-state `websocket.close` branch of `WSStream.app_send` as a straight-line program -/

inductive WStep where
  | prepare                     -- an assignment of a plain expression (e.g. `event = CloseConnection(code=int(…), …)`): may raise, no effect
  | buildFrame                  -- `data = self.connection.send(CloseConnection(code=int(…), reason=…))` inside
                                --   `try: … except LocalProtocolError: data = None`: may raise (`int()`, wsproto's serialisation), no await
  | setState (st : Ws.St)       -- `self.state = ASGIWebsocketState.…`
  | sendEvent                   -- `await self._send_wsproto_event(CloseConnection(code=int(…), …))`: builds the frame (may raise), then awaits its send
  | sendData                    -- `await self.send(Data(…))` (possibly under `if data is not None:`)
  | sendEndData                 -- `await self.send(EndData(…))`
deriving Repr, DecidableEq

structure WRes where
  st : Ws.St := .connected
  frameBuilt : Bool := false    -- wsproto has produced the close frame (its own state is LOCAL_CLOSING / CLOSED from here on)
  yieldedOpen : Bool := false   -- an await was reached with the frame built and `self.state` not yet CLOSED
deriving Repr, DecidableEq

def WStep.apply (r : WRes) : WStep → WRes
  | .prepare => r
  | .buildFrame => { r with frameBuilt := true }
  | .setState st => { r with st := st }
  | .sendEvent => { r with frameBuilt := true, yieldedOpen := r.yieldedOpen || r.st != .closed }
  | .sendData => { r with yieldedOpen := r.yieldedOpen || (r.frameBuilt && r.st != .closed) }
  | .sendEndData => { r with yieldedOpen := r.yieldedOpen || (r.frameBuilt && r.st != .closed) }

/-- run the branch; `failAt = some k` = the k-th statement raises (before it has any effect) -/
def runWBranch : List WStep → Option Nat → WRes → WRes
  | [], _, r => r
  | _ :: _, some 0, r => r
  | b :: rest, some (k + 1), r => runWBranch rest (some k) (b.apply r)
  | b :: rest, none, r => runWBranch rest none (b.apply r)

/-- the clause: wherever the branch is left by an exception, the stream is out of CONNECTED only if the close frame has
    been produced -/
def closesAfterFrame (prog : List WStep) : Bool :=
  (List.range prog.length).all (fun k =>
    let r := runWBranch prog (some k) {}
    r.frameBuilt || r.st == .connected)

/-- the clause for the concurrent reader: no prefix of the branch reaches an await with the frame built and the state
    not yet CLOSED (a raise at statement `k` leaves what the first `k` statements did) -/
def closedBeforeYield (prog : List WStep) : Bool :=
  (List.range (prog.length + 1)).all (fun k => !(runWBranch prog (some k) {}).yieldedOpen) &&
  !(runWBranch prog none {}).yieldedOpen

/-! ### `H2Protocol._reset_abandoned_response` as read off the source

The statements that may run once the guard holds, in source order (`HC.Proto.H2Abandon` holds the interpreter over the
send-path model, `HC/Props/C05.lean` the theorems).  What matters for "promptly terminated": which of them can make the
caller - the failed application's completion signal `app_send(None)` - wait, and for what. -/

/-- the conjuncts of the guard -/
inductive AAtom where
  | bufferExists        -- `buffer is not None`
  | bufferNotComplete   -- `not buffer._complete`
  | isHttpStream        -- `isinstance(self.streams.get(stream_id), HTTPStream)`
  | other
deriving Repr, DecidableEq

inductive AStep where
  | resetStream         -- `try: self.connection.reset_stream(id, INTERNAL_ERROR) except ProtocolError: return`
  | flush               -- `await self._flush()`: the transport write; needs nothing from the peer's flow control
  | closeBuffer         -- `await buffer.close()`: sets both events, suspends nowhere (`Atomic`)
  | forgetBuffer        -- `self.stream_buffers.pop(id, None)`
  | forgetTree          -- `try: self.priority.remove_stream(id) except MissingStreamError: pass`
  | drain               -- `await buffer.drain()` (under whatever condition): returns once the send task has emptied the
                        --   buffer, i.e. once the PEER has granted the credit for everything still in it
  | awaitOther          -- any other await
  | unrecognised
deriving Repr, DecidableEq

/-- no statement of the path waits for anything but the transport -/
def waitsOnlyForTransport (prog : List AStep) : Bool :=
  prog.all (fun a => a != .drain && a != .awaitOther && a != .unrecognised)

end HC.Stream.AppExit
