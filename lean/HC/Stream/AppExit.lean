import HC.Stream.Http
/-!
# How an application's end reaches its stream

Two small interpreters for pieces of code whose *shape* (not just constants) decides property C05; the programs they
run are read off the source by `tools/extract.py` (`HC/Extracted/AppExit.lean`), so that the theorems of
`HC/Props/C05.lean` are statements about the current text of

* `hypercorn/{asyncio,trio}/task_group.py::_handle` — the `try / except … / finally` around the application call:
  which exceptions are caught, which are logged, and on which paths completion is signalled with `send(None)`;
* the branches of `HTTPStream.app_send` taken in state REQUEST — the order of "validate the message", "hand the
  `Response` event to the protocol" and "`self.state = …`": a message that is refused must leave the stream in REQUEST,
  because that state is what makes `app_send(None)` answer 500.
-/
namespace HC.Stream.AppExit
open HC.Stream

/-! ### `_handle`: Python's try / except / finally over a three-letter alphabet -/

/-- the ways the application coroutine can end, by the class of what leaves it -/
inductive Exit where
  | returned
  | exception            -- an `Exception` that is not a group (includes what the server raised into the application)
  | cancelled            -- `asyncio.CancelledError` / `trio.Cancelled`: a `BaseException`, not an `Exception`
  | groupErrors          -- `ExceptionGroup`: only `Exception` leaves (is an `Exception` *and* a `BaseExceptionGroup`)
  | groupMixed           -- `BaseExceptionGroup` with cancellations and other errors
  | groupCancelled       -- `BaseExceptionGroup` of cancellations only
deriving Repr, DecidableEq

/-- the classes named in the `except` clauses -/
inductive Cls where | cancelled | exception | baseExceptionGroup | baseException
deriving Repr, DecidableEq

def Cls.matches : Cls → Exit → Bool
  | _, .returned => false
  | .cancelled, e => e == .cancelled
  | .exception, e => e == .exception || e == .groupErrors
  | .baseExceptionGroup, e => e == .groupErrors || e == .groupMixed || e == .groupCancelled
  | .baseException, _ => true

/-- statements of a handler / `finally` / trailing block -/
inductive Simple where
  | log            -- `await config.log.exception(…)`
  | sendNone       -- `await send(None)`
  | reraise        -- bare `raise`
deriving Repr, DecidableEq

inductive Act where
  | simple (a : Simple)
  /-- `_, other = error.split(<Cancelled>)` … `if other is not None: thn else: els` -/
  | ifOtherErrors (thn els : List Simple)
deriving Repr, DecidableEq

structure TryShape where
  handlers : List (Cls × List Act)
  final : List Simple            -- `finally:` block
  after : List Simple            -- statements behind the `try` statement
deriving Repr, DecidableEq

/-- what an observer sees -/
inductive Obs where | log | sendNone
deriving Repr, DecidableEq

/-- run a block: observations, and whether it ended by re-raising -/
def runSimple : List Simple → List Obs × Bool
  | [] => ([], false)
  | .log :: r => (.log :: (runSimple r).1, (runSimple r).2)
  | .sendNone :: r => (.sendNone :: (runSimple r).1, (runSimple r).2)
  | .reraise :: _ => ([], true)

def hasOtherErrors : Exit → Bool
  | .groupErrors | .groupMixed => true
  | _ => false

def runActs (e : Exit) : List Act → List Obs × Bool
  | [] => ([], false)
  | .simple .reraise :: _ => ([], true)
  | .simple .log :: r => (.log :: (runActs e r).1, (runActs e r).2)
  | .simple .sendNone :: r => (.sendNone :: (runActs e r).1, (runActs e r).2)
  | .ifOtherErrors thn els :: r =>
    let b := runSimple (if hasOtherErrors e then thn else els)
    if b.2 then b else (b.1 ++ (runActs e r).1, (runActs e r).2)

/-- Python semantics of `try: await app(…) except …: … finally: …; after…` for an application that ends with `e`:
    the observations in program order and whether an exception leaves `_handle` (ends the task abnormally) -/
def run (t : TryShape) (e : Exit) : List Obs × Bool :=
  let fin := runSimple t.final
  if e = .returned then
    if fin.2 then (fin.1, true) else (fin.1 ++ (runSimple t.after).1, (runSimple t.after).2)
  else
    match t.handlers.find? (fun h => h.1.matches e) with
    | none => (fin.1, true)                                       -- not caught: `finally` runs, the exception travels on
    | some (_, acts) =>
      let h := runActs e acts
      if h.2 || fin.2 then (h.1 ++ fin.1, true)
      else (h.1 ++ fin.1 ++ (runSimple t.after).1, (runSimple t.after).2)

def logs (o : List Obs × Bool) : Nat := (o.1.filter (· == .log)).length
def signals (o : List Obs × Bool) : Nat := (o.1.filter (· == .sendNone)).length

/-! ### the REQUEST-state branches of `HTTPStream.app_send` as straight-line programs -/

inductive BStep where
  | assignResponse              -- `self.response = …`
  | validate                    -- `build_and_validate_headers(…)` / `validate_header_part(…)`: raises on a bad header
  | sendResponse                -- `await self.send(Response(…))`, its arguments (`int(status)`) included: may raise
  | sendInfo                    -- `await self.send(InformationalResponse(…))`
  | setState (st : Http.St)     -- `self.state = ASGIHTTPState.…`
  | sendClosed                  -- `await self._send_closed()`: EndBody, state CLOSED, access record, StreamClosed
deriving Repr, DecidableEq

structure BRes where
  st : Http.St := .request
  responseSent : Bool := false
deriving Repr, DecidableEq

def BStep.apply (r : BRes) : BStep → BRes
  | .setState st => { r with st := st }
  | .sendResponse => { r with responseSent := true }
  | .sendClosed => { r with st := .closed }
  | _ => r

/-- run the branch; `failAt = some k` = the k-th statement raises (before it has any effect) -/
def runBranch : List BStep → Option Nat → BRes → BRes
  | [], _, r => r
  | _ :: _, some 0, r => r
  | b :: rest, some (k + 1), r => runBranch rest (some k) (b.apply r)
  | b :: rest, none, r => runBranch rest none (b.apply r)

/-- the clause: wherever the branch is left by an exception, the stream is out of REQUEST only if the `Response`
    event has been handed to the protocol -/
def commitsAfterSend (prog : List BStep) : Bool :=
  (List.range prog.length).all (fun k =>
    let r := runBranch prog (some k) {}
    r.responseSent || r.st == .request)

end HC.Stream.AppExit
