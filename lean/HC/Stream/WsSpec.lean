import HC.Stream.Ws
/-!
# Specification vocabulary for the WebSocket properties (C10, C11)

Nothing here changes `HC/Stream/Ws.lean`; these are the *declarative* objects the theorems compare the model with:
client sessions as lists of messages given by arbitrary fragmentations with control frames interleaved (`CMsg`,
`sessionEvs`), the one-event view of `_handle_events` (`stepEv` / `runEvs`, proved equal to `handleEvents` in
`HC/Props/C10.lean`), application message feeds, and the header-list reading of a handshake (`lastHeader`,
`validSpec`).
-/
namespace HC.Stream.Ws
open HC HC.Stream HC.Extracted

/-! ## client sessions -/

/-- control frames a client may interleave anywhere -/
inductive Ctl where
  | ping (payload : Bytes)
  | pong (payload : Bytes)
deriving Repr, DecidableEq

def Ctl.ev : Ctl → WsEv
  | .ping p => .ping p
  | .pong p => .pong p

def ctlEvs (cs : List Ctl) : List WsEv := cs.map Ctl.ev

/-- what the server must answer to a run of control frames: one pong per ping, same payload, same order -/
def pongsFor : List Ctl → List Ev
  | [] => []
  | .ping p :: r => .data (.pong p) :: pongsFor r
  | .pong _ :: r => pongsFor r

/-- non-final fragments, each preceded by the control frames the client put before it -/
def partEvs {β : Type} (mk : List β → Payload) : List (List Ctl × List β) → List WsEv
  | [] => []
  | (cs, d) :: r => ctlEvs cs ++ [.message (mk d) false] ++ partEvs mk r

def partData {β : Type} (fs : List (List Ctl × List β)) : List β := (fs.map (·.2)).flatten

def partCtl {β : Type} (fs : List (List Ctl × List β)) : List Ctl := (fs.map (·.1)).flatten

/-- one complete message as the client sent it: any number of non-final fragments, then the final one; every
    fragment may be preceded by control frames.  Every value of this type is a well-formed fragmentation
    (non-empty, one kind), so theorems quantify over *all* fragmentations without side conditions. -/
inductive CMsg where
  | text (init : List (List Ctl × List Char)) (lastCtl : List Ctl) (last : List Char)
  | bytes (init : List (List Ctl × Bytes)) (lastCtl : List Ctl) (last : Bytes)
deriving Repr, DecidableEq

def CMsg.evs : CMsg → List WsEv
  | .text init lc l => partEvs Payload.text init ++ ctlEvs lc ++ [.message (.text l) true]
  | .bytes init lc l => partEvs Payload.bytes init ++ ctlEvs lc ++ [.message (.bytes l) true]

/-- the message the application must receive: the concatenation of the fragments, same kind -/
def CMsg.payload : CMsg → Payload
  | .text init _ l => .text (partData init ++ l)
  | .bytes init _ l => .bytes (partData init ++ l)

/-- accumulated size: characters for text, bytes for binary -/
def CMsg.size (m : CMsg) : Nat := m.payload.size

def CMsg.ctl : CMsg → List Ctl
  | .text init lc _ => partCtl init ++ lc
  | .bytes init lc _ => partCtl init ++ lc

def msgsEvs (ms : List CMsg) : List WsEv := (ms.map CMsg.evs).flatten
def msgsCtl (ms : List CMsg) : List Ctl := (ms.map CMsg.ctl).flatten

/-- a whole client session: complete messages, then trailing control frames -/
def sessionEvs (ms : List CMsg) (trail : List Ctl) : List WsEv := msgsEvs ms ++ ctlEvs trail

/-! ## `_handle_events`, one event at a time -/

abbrev HOut := S × List AppMsg × List Ev × Option PyErr

/-- the body of the `for event in self.connection.events()` loop; the `Bool` is "the loop goes on to the next
    event" (`false` after `break` and after a raise) -/
def stepEv (s : S) : WsEv → HOut × Bool
  | .message p fin =>
    match s.buffer.extend p with
    | (b, some .tooLarge) =>
      let (s1, e, err) := sendWs { s with buffer := b } (.close 1009)
      ((s1, [], e, err), false)
    | (b, some .typeError) => (({ s with buffer := b }, [], [], some .typeError), false)
    | (b, none) =>
      if fin then
        (({ s with buffer := b.clear }, (match b.value with | some v => [AppMsg.receive v] | none => []), [], none), true)
      else (({ s with buffer := b }, [], [], none), true)
  | .ping payload =>
    let (s1, e, err) := sendWs s (.pong payload)
    ((s1, [], e, err), err.isNone)
  | .pong _ => ((s, [], [], none), true)
  | .close code =>
    let c' := s.conn.map connRecvClose
    let s0 := { s with conn := c', clientCloseCode := if c' = some .remoteClosing then some code else s.clientCloseCode }
    let (s1, e, err) := if c' = some .remoteClosing then sendWs s0 (.close code) else (s0, [], none)
    match err with
    | some x => ((s1, [], e, some x), false)
    | none => ((s1, [], e ++ [Ev.streamClosed], none), true)
  | .failed code =>
    let (s1, e, err) := if s.conn = some .remoteClosing then sendWs { s with clientCloseCode := some code } (.close code)
                        else (s, [], none)
    match err with
    | some x => ((s1, [], e, some x), false)
    | none => ((s1, [], e ++ [Ev.streamClosed], none), true)

/-- sequential composition of two batches -/
def HOut.seq (r1 : HOut) (r2 : HOut) : HOut := (r2.1, r1.2.1 ++ r2.2.1, r1.2.2.1 ++ r2.2.2.1, r2.2.2.2)

def runEvs (s : S) : List WsEv → HOut × Bool
  | [] => ((s, [], [], none), true)
  | ev :: rest =>
    if (stepEv s ev).2 then
      (HOut.seq (stepEv s ev).1 (runEvs (stepEv s ev).1.1 rest).1, (runEvs (stepEv s ev).1.1 rest).2)
    else stepEv s ev

/-! ## feeds -/

/-- protocol-side inputs one after the other; an exception propagates to the protocol, the stream object lives on -/
def feedIn : S → List In → S × List AppMsg × List Ev
  | s, [] => (s, [], [])
  | s, i :: is =>
    let r := handle s i
    let r2 := feedIn r.1 is
    (r2.1, r.2.1 ++ r2.2.1, r.2.2.1 ++ r2.2.2)

/-- application-side messages one after the other (an exception is raised into the application, which may go on) -/
def feed (token : Bytes → Bytes) (ext : Option Bytes) : S → List (Option Msg) → S × List Ev
  | s, [] => (s, [])
  | s, m :: ms =>
    ((feed token ext (appSend token ext s m).1 ms).1, (appSend token ext s m).2.1 ++ (feed token ext (appSend token ext s m).1 ms).2)

def isReceive : AppMsg → Bool
  | .receive _ => true
  | _ => false

/-- what an application sends: `{"type": "websocket.send", "bytes": b}` or `{…, "text": t}` -/
inductive AppOut where
  | bytes (b : Bytes)
  | text (t : String)
deriving Repr, DecidableEq

def AppOut.msg : AppOut → Msg
  | .bytes b => .send (some (.bytes b)) none
  | .text t => .send none (some (.str t))

/-- the wsproto message the client must get for it: same kind, same payload -/
def AppOut.frame : AppOut → WsOut
  | .bytes b => .message (.bytes b)
  | .text t => .message (.text t.toList)

/-! ## the handshake as the client's header list -/

/-- the value of the **last** header called `name` (names compared case-insensitively, `name` given in lower case) -/
def lastHeader (name : Bytes) : Headers → Option Bytes
  | [] => none
  | (n, v) :: rest =>
    match lastHeader name rest with
    | some x => some x
    | none => if Bytes.lower n == name then some v else none

/-- the comma-separated tokens of a header value, surrounding white space removed -/
def tokens (v : Bytes) : List Bytes := (Bytes.splitOnB 44 v).map Bytes.stripL1

def isCommaHeader (n : Bytes) : Bool :=
  Bytes.lower n == "connection".b || Bytes.lower n == "sec-websocket-extensions".b || Bytes.lower n == "sec-websocket-protocol".b

/-- every occurrence of a comma-list handshake header is ASCII (otherwise `split_comma_header` raises) -/
def commaHeadersAscii (hs : Headers) : Prop := ∀ h ∈ hs, isCommaHeader h.1 = true → isAscii h.2 = true

/-- the version an HTTP/2 / HTTP/3 carrier states (`H2Protocol` passes `"2"`, `H3Protocol` `"3"`); every other string comes from
    the request line of an HTTP/1 connection (h11 hands over the two digits around the dot, see `H11Version`) -/
def multiplexedVersion (version : String) : Prop := version = "2" ∨ version = "3"

instance (version : String) : Decidable (multiplexedVersion version) := by unfold multiplexedVersion; exact inferInstance

/-- what `h11` hands over as `request.http_version` (its request-line pattern is `HTTP/[0-9]\.[0-9]`): one digit, a dot, one digit
    — `1.1`, but also `1.2`, `2.0`, `9.9`, `0.9` -/
def H11Version (version : String) : Prop :=
  ∃ a b : Char, a.isDigit = true ∧ b.isDigit = true ∧ version = String.ofList [a, '.', b]

/-- **the property's notion of a valid handshake**, read off the header list:
    never below 1.1; version exactly `13`; and — on every carrier that is not a multiplexed one, i.e. for *every* version string an
    HTTP/1 connection can state, not only `1.1` — a key, a `Connection` list with an `upgrade` token (any case) and
    `Upgrade: websocket` (any case).  On HTTP/2 / HTTP/3 (extended CONNECT) only the version header counts. -/
def validSpec (version : String) (hs : Headers) : Prop :=
  ¬ version < "1.1" ∧
  lastHeader "sec-websocket-version".b hs = some "13".b ∧
  (¬ multiplexedVersion version →
    (lastHeader "sec-websocket-key".b hs).isSome = true ∧
    (∃ v, lastHeader "connection".b hs = some v ∧ ∃ t ∈ tokens v, Bytes.lower t = "upgrade".b) ∧
    (∃ u, lastHeader "upgrade".b hs = some u ∧ Bytes.lower u = "websocket".b))

/-- the handshake object the header list denotes -/
def handshakeOf (version : String) (hs : Headers) : Handshake :=
  { version := version,
    connectionTokens := (lastHeader "connection".b hs).map tokens,
    extensions := (lastHeader "sec-websocket-extensions".b hs).map tokens,
    key := lastHeader "sec-websocket-key".b hs,
    subprotocols := (lastHeader "sec-websocket-protocol".b hs).map tokens,
    upgrade := lastHeader "upgrade".b hs,
    wsVersion := lastHeader "sec-websocket-version".b hs }

end HC.Stream.Ws
