import HC.Stream.Ws
/-!
# The whole life of a WebSocket application, as the wire sees it (C05)

`run` feeds the stream an arbitrary interleaving of what the application sends (`Op.app m`: any message, accepted or
refused — a refused one raises into the application, which may catch it and go on, or die with it) and what the protocol
hands the stream from the client (`Op.inp i`: bytes / the loss of the connection); `life` then lets the application end
(`app_send(None)`, which `_handle` always runs: HC/Props/C05 first section).  The invariant `Inv` counts, on everything the
stream has handed to the protocol so far, the response heads, the ends of a response body and the close frames, and ties
the counts to `self.state` and to wsproto's connection state — the same for both carriers (HTTP/1.1 upgrade, HTTP/2
extended CONNECT): the stream talks to either protocol through these events only.
-/
namespace HC.Stream.WsExit
open HC HC.Stream HC.Stream.Ws HC.Extracted

def isHead : Ev → Bool
  | .response _ _ => true
  | _ => false

def isEnd : Ev → Bool
  | .endBody => true
  | _ => false

def isCloseFrame : Ev → Bool
  | .data (.close _) => true
  | _ => false

/-- response heads / ends of a response body / close frames handed to the protocol -/
def heads (w : List Ev) : Nat := w.countP isHead
def ends (w : List Ev) : Nat := w.countP isEnd
def closes (w : List Ev) : Nat := w.countP isCloseFrame

@[simp] theorem heads_nil : heads [] = 0 := rfl
@[simp] theorem ends_nil : ends [] = 0 := rfl
@[simp] theorem closes_nil : closes [] = 0 := rfl
@[simp] theorem heads_append (a b : List Ev) : heads (a ++ b) = heads a + heads b := by simp [heads, List.countP_append]
@[simp] theorem ends_append (a b : List Ev) : ends (a ++ b) = ends a + ends b := by simp [ends, List.countP_append]
@[simp] theorem closes_append (a b : List Ev) : closes (a ++ b) = closes a + closes b := by simp [closes, List.countP_append]
@[simp] theorem heads_cons (e : Ev) (b : List Ev) : heads (e :: b) = (if isHead e then 1 else 0) + heads b := by
  simp [heads, List.countP_cons]; omega
@[simp] theorem ends_cons (e : Ev) (b : List Ev) : ends (e :: b) = (if isEnd e then 1 else 0) + ends b := by
  simp [ends, List.countP_cons]; omega
@[simp] theorem closes_cons (e : Ev) (b : List Ev) : closes (e :: b) = (if isCloseFrame e then 1 else 0) + closes b := by
  simp [closes, List.countP_cons]; omega

/-- what the application and the client do to the stream, in any order -/
inductive Op where
  | app (m : Msg)          -- the application sends `m` (accepted or refused)
  | inp (i : In)           -- the protocol hands over bytes of the client / the loss of the connection
deriving Repr, DecidableEq

/-- one operation: new stream state and the events handed to the protocol -/
def step (token : Bytes → Bytes) (ext : Option Bytes) (s : S) : Op → S × List Ev
  | .app m => ((appSend token ext s (some m)).1, (appSend token ext s (some m)).2.1)
  | .inp i => ((handle s i).1, (handle s i).2.2.1)

def run (token : Bytes → Bytes) (ext : Option Bytes) (s : S) : List Op → S × List Ev
  | [] => (s, [])
  | o :: rest =>
    ((run token ext (step token ext s o).1 rest).1, (step token ext s o).2 ++ (run token ext (step token ext s o).1 rest).2)

/-- the application's messages only -/
def feed (token : Bytes → Bytes) (ext : Option Bytes) (s : S) (ms : List Msg) : S × List Ev :=
  run token ext s (ms.map Op.app)

/-- everything the stream hands to the protocol over the application's whole life: `ops`, then the application ends -/
def life (token : Bytes → Bytes) (ext : Option Bytes) (s : S) (ops : List Op) : List Ev :=
  (run token ext s ops).2 ++ (appSend token ext (run token ext s ops).1 none).2.1

/-- the counts as `self.state` and wsproto's state determine them, while the stream is not closed -/
def Live (s : S) (w : List Ev) : Prop :=
  match s.st with
  | .handshake => heads w = 0 ∧ ends w = 0 ∧ closes w = 0 ∧ s.conn = none
  | .response => heads w = 1 ∧ ends w = 0 ∧ closes w = 0 ∧ s.conn = none
  | .httpClosed => heads w = 1 ∧ ends w = 1 ∧ closes w = 0 ∧ s.conn = none
  | .connected => heads w = 1 ∧ ends w = 0 ∧ ∃ c, s.conn = some c ∧ c ≠ .remoteClosing ∧ closes w = (if c = .open then 0 else 1)
  | .closed => heads w = 1 ∧ ends w = 0 ∧ ∃ c, s.conn = some c ∧ c ≠ .remoteClosing ∧ c ≠ .open ∧ closes w = 1

def Inv (s : S) (w : List Ev) : Prop :=
  heads w ≤ 1 ∧ ends w ≤ 1 ∧ closes w ≤ 1 ∧ (s.closed = false → Live s w)

theorem live_bounds (s : S) (w : List Ev) (h : Live s w) : heads w ≤ 1 ∧ ends w ≤ 1 ∧ closes w ≤ 1 := by
  unfold Live at h
  cases hst : s.st <;> simp only [hst] at h
  · omega
  · obtain ⟨h1, h2, c, _, _, h3⟩ := h
    refine ⟨by omega, by omega, ?_⟩
    rw [h3]; split <;> omega
  · omega
  · obtain ⟨h1, h2, c, _, _, _, h3⟩ := h
    omega
  · omega

/-- a stream fresh from a valid handshake -/
theorem inv_init (s : S) (hst : s.st = .handshake) (hconn : s.conn = none) : Inv s [] := by
  refine ⟨by simp, by simp, by simp, fun _ => ?_⟩
  simp [Live, hst, hconn]

theorem errorResponse_counts (n : Nat) : heads (errorResponse n) = 1 ∧ ends (errorResponse n) = 1 ∧ closes (errorResponse n) = 0 := by
  simp [errorResponse, isHead, isEnd, isCloseFrame]

/-- `_send_wsproto_event`: the stream itself does not move; with a connection object the frame goes out iff wsproto takes it -/
theorem sendWs_spec (s : S) (o : WsOut) (c : ConnSt) (hc : s.conn = some c) :
    (sendWs s o).2.2 = none ∧
    ((connSend c o = none ∧ sendWs s o = (s, [], none)) ∨
     (∃ c', connSend c o = some c' ∧ sendWs s o = ({ s with conn := some c' }, [.data o], none))) := by
  unfold sendWs
  simp only [hc]
  cases hk : connSend c o with
  | none => simp
  | some c' => simp

/-- `_send_rejection` in HANDSHAKE / RESPONSE: what it adds to the counts, by the state it ends in -/
theorem sendRejection_counts (s : S) (body : Option HV) (more : Bool) (hs : s.st = .handshake ∨ s.st = .response) :
    let r := sendRejection s body more
    r.1.conn = s.conn ∧ r.1.closed = s.closed ∧ closes r.2.1 = 0 ∧
    ((r.1 = s ∧ r.2.1 = []) ∨
     (r.1.st = .response ∧ ends r.2.1 = 0 ∧ heads r.2.1 = (if s.st = .handshake then 1 else 0)) ∨
     (r.1.st = .httpClosed ∧ ends r.2.1 = 1 ∧ heads r.2.1 = (if s.st = .handshake then 1 else 0))) := by
  unfold sendRejection
  cases hr : s.response with
  | none => simp
  | some p =>
    obtain ⟨st?, hdrs⟩ := p
    cases st? with
    | none => simp
    | some status =>
      simp only []
      cases hb : bodyBytes body with
      | error e => simp
      | ok b =>
        simp only []
        unfold denialHead
        rcases hs with hs | hs
        · simp only [hs, if_true]
          cases hdrs with
          | none => simp
          | some hl =>
            simp only []
            cases hv : validateHeaders hl with
            | error e => simp
            | ok vh =>
              simp only []
              cases more <;> by_cases hsb : Guards.suppressBody "GET" status = true <;>
                simp [hsb, isHead, isEnd, isCloseFrame]
        · have hne : ¬ (s.st = .handshake) := by rw [hs]; simp
          simp only [hne, if_false]
          cases more <;> by_cases hsb : Guards.suppressBody "GET" status = true <;>
            simp [hsb, hs, isHead, isEnd, isCloseFrame]

/-- `Live` only looks at `st`, `conn` and the counts -/
theorem live_congr (s s' : S) (w w' : List Ev) (h : Live s w) (hst : s'.st = s.st) (hc : s'.conn = s.conn)
    (hh : heads w' = heads w) (he : ends w' = ends w) (hk : closes w' = closes w) : Live s' w' := by
  unfold Live at *
  rw [hst, hc, hh, he, hk]
  exact h

/-- **one message of the application (or its end) keeps the invariant** -/
theorem live_appSend (token : Bytes → Bytes) (ext : Option Bytes) (s : S) (m : Option Msg) (w : List Ev)
    (hcl : s.closed = false) (hL : Live s w) :
    (appSend token ext s m).1.closed = false ∧ Live (appSend token ext s m).1 (w ++ (appSend token ext s m).2.1) := by
  have same : ∀ e : Option PyErr, appSend token ext s m = (s, [], e) →
      (appSend token ext s m).1.closed = false ∧ Live (appSend token ext s m).1 (w ++ (appSend token ext s m).2.1) := by
    intro e hx; rw [hx]; simp only [List.append_nil]; exact ⟨hcl, hL⟩
  cases m with
  | none =>
    cases hst : s.st <;> simp only [Live, hst] at hL
    · -- HANDSHAKE: 500
      obtain ⟨h1, h2, h3, h4⟩ := hL
      have hc := errorResponse_counts 500
      have hx : appSend token ext s none = ({ s with st := .httpClosed }, errorResponse 500 ++ [.streamClosed], none) := by
        simp [appSend, hcl, hst]
      rw [hx]
      simp [hcl, Live, h1, h2, h3, h4, hc.1, hc.2.1, hc.2.2, isHead, isEnd, isCloseFrame]
    · -- CONNECTED: 1011 if wsproto still takes it
      obtain ⟨h1, h2, c, hc, hnr, h3⟩ := hL
      obtain ⟨hnone, hcase⟩ := sendWs_spec s (.close 1011) c hc
      rcases hcase with ⟨hk, hy⟩ | ⟨c', hk, hy⟩
      · have hx : appSend token ext s none = (s, [.streamClosed], none) := by simp [appSend, hcl, hst, hy]
        rw [hx]
        refine ⟨hcl, ?_⟩
        simp only [Live, hst]
        exact ⟨by simp [h1, isHead], by simp [h2, isEnd], c, hc, hnr, by simp [h3, isCloseFrame]⟩
      · have hx : appSend token ext s none = ({ s with conn := some c' }, [.data (.close 1011), .streamClosed], none) := by
          simp [appSend, hcl, hst, hy]
        rw [hx]
        refine ⟨hcl, ?_⟩
        simp only [Live, hst]
        cases c <;> simp [connSend] at hk hnr
        subst hk
        exact ⟨by simp [h1, isHead], by simp [h2, isEnd], .localClosing, rfl, by simp, by simp [h3, isCloseFrame]⟩
    · have hx : appSend token ext s none = (s, [.streamClosed], none) := by simp [appSend, hcl, hst]
      rw [hx]; refine ⟨hcl, ?_⟩; simp only [Live, hst]; simpa [isHead, isEnd, isCloseFrame] using hL
    · have hx : appSend token ext s none = (s, [.streamClosed], none) := by simp [appSend, hcl, hst]
      rw [hx]; refine ⟨hcl, ?_⟩; simp only [Live, hst]; simpa [isHead, isEnd, isCloseFrame] using hL
    · have hx : appSend token ext s none = (s, [.streamClosed], none) := by simp [appSend, hcl, hst]
      rw [hx]; refine ⟨hcl, ?_⟩; simp only [Live, hst]; simpa [isHead, isEnd, isCloseFrame] using hL
  | some msg =>
    cases msg with
    | other => exact same (some .unexpectedMessage) (by simp [appSend, hcl])
    | accept sp extra =>
      by_cases hst : s.st = .handshake
      · cases ha : s.hs.accept token ext sp extra with
        | error e => exact same (some e) (by simp [appSend, hcl, hst, ha])
        | ok r =>
          obtain ⟨status, hdrs⟩ := r
          simp only [Live, hst] at hL
          obtain ⟨h1, h2, h3, h4⟩ := hL
          have hx : appSend token ext s (some (.accept sp extra)) =
              ({ s with st := .connected, hs := { s.hs with accepted := true }, conn := some .open },
                [.response status hdrs, .access status] ++ (if s.pingInterval then [.spawnPings] else []), none) := by
            simp [appSend, hcl, hst, ha]
          rw [hx]
          refine ⟨hcl, ?_⟩
          simp only [Live]
          refine ⟨?_, ?_, .open, rfl, by simp, ?_⟩ <;> cases s.pingInterval <;> simp [h1, h2, h3, isHead, isEnd, isCloseFrame]
      · exact same (some .unexpectedMessage) (by simp [appSend, hcl, hst])
    | respStart status headers =>
      by_cases hst : s.st = .handshake
      · have hx : appSend token ext s (some (.respStart status headers)) = ({ s with response := some (status, headers) }, [], none) := by
          simp [appSend, hcl, hst]
        rw [hx]
        exact ⟨hcl, live_congr s _ w _ hL rfl rfl (by simp) (by simp) (by simp)⟩
      · exact same (some .unexpectedMessage) (by simp [appSend, hcl, hst])
    | respBody body more =>
      by_cases hst : s.st = .handshake ∨ s.st = .response
      · have hx : appSend token ext s (some (.respBody body more)) = sendRejection s body more := by
          simp [appSend, hcl, hst]
        rw [hx]
        obtain ⟨kc, kcl, kk, kcase⟩ := sendRejection_counts s body more hst
        refine ⟨by rw [kcl]; exact hcl, ?_⟩
        rcases kcase with ⟨k1, k2⟩ | ⟨k1, k2, k3⟩ | ⟨k1, k2, k3⟩
        · rw [k1, k2]; simpa using hL
        · rcases hst with hst | hst <;> simp only [Live, hst] at hL <;> simp only [Live, k1] <;>
            simp [k2, k3, kk, kc, hst, hL]
        · rcases hst with hst | hst <;> simp only [Live, hst] at hL <;> simp only [Live, k1] <;>
            simp [k2, k3, kk, kc, hst, hL]
      · exact same (some .unexpectedMessage) (by simp [appSend, hcl, hst])
    | send bytes text =>
      by_cases hst : s.st = .connected
      · simp only [Live, hst] at hL
        obtain ⟨h1, h2, c, hc, hnr, h3⟩ := hL
        have hshape : (∃ e, appSend token ext s (some (.send bytes text)) = (s, [], some e)) ∨
            (∃ p, appSend token ext s (some (.send bytes text)) = sendWs s (.message p)) := by
          simp only [appSend, hcl, hst, Bool.false_eq_true, ↓reduceIte]
          split
          · rename_i e _; exact Or.inl ⟨e, rfl⟩
          · rename_i p _; exact Or.inr ⟨p, rfl⟩
        rcases hshape with ⟨e, hx⟩ | ⟨p, hx⟩
        · exact same (some e) hx
        · rw [hx]
          obtain ⟨_, hcase⟩ := sendWs_spec s (.message p) c hc
          rcases hcase with ⟨hk, hy⟩ | ⟨c', hk, hy⟩
          · rw [hy]; refine ⟨hcl, ?_⟩; simp only [Live, hst, List.append_nil]; exact ⟨h1, h2, c, hc, hnr, h3⟩
          · rw [hy]
            cases c <;> simp [connSend] at hk hnr
            subst hk
            refine ⟨hcl, ?_⟩
            simp only [Live, hst]
            exact ⟨by simp [h1, isHead], by simp [h2, isEnd], .open, by simp [hc], by simp, by simp [h3, isCloseFrame]⟩
      · exact same (some .unexpectedMessage) (by simp [appSend, hcl, hst])
    | close code reason =>
      cases hst : s.st <;> simp only [Live, hst] at hL
      · -- HANDSHAKE: 403
        obtain ⟨h1, h2, h3, h4⟩ := hL
        have hc := errorResponse_counts 403
        have hx : appSend token ext s (some (.close code reason)) = ({ s with st := .httpClosed }, errorResponse 403, none) := by
          simp [appSend, hcl, hst]
        rw [hx]
        simp [hcl, Live, h1, h2, h3, h4, hc.1, hc.2.1, hc.2.2]
      · -- CONNECTED
        obtain ⟨h1, h2, c, hc, hnr, h3⟩ := hL
        cases hk : closeArgs s code reason with
        | error x => exact same (some x) (by simp [appSend, hcl, hst, hk])
        | ok k =>
          have hc1 : ({ s with st := .closed } : S).conn = some c := hc
          obtain ⟨_, hcase⟩ := sendWs_spec { s with st := .closed } (.close k) c hc1
          rcases hcase with ⟨hk2, hy⟩ | ⟨c', hk2, hy⟩
          · have hx : appSend token ext s (some (.close code reason)) = ({ s with st := .closed }, [.endData], none) := by
              unfold appSend
              rw [if_neg (show ¬ (s.closed = true) by simp [hcl])]
              simp [hst, hk, hy]
            rw [hx]
            refine ⟨hcl, ?_⟩
            simp only [Live]
            cases c <;> simp [connSend] at hk2 hnr
            · exact ⟨by simp [h1, isHead], by simp [h2, isEnd], .localClosing, hc, by simp, by simp, by simpa [isCloseFrame] using h3⟩
            · exact ⟨by simp [h1, isHead], by simp [h2, isEnd], .closed, hc, by simp, by simp, by simpa [isCloseFrame] using h3⟩
          · have hx : appSend token ext s (some (.close code reason)) =
                ({ s with st := .closed, conn := some c' }, [.data (.close k), .endData], none) := by
              unfold appSend
              rw [if_neg (show ¬ (s.closed = true) by simp [hcl])]
              simp [hst, hk, hy]
            rw [hx]
            refine ⟨hcl, ?_⟩
            simp only [Live]
            cases c <;> simp [connSend] at hk2 hnr
            subst hk2
            exact ⟨by simp [h1, isHead], by simp [h2, isEnd], .localClosing, rfl, by simp, by simp, by simpa [isCloseFrame] using h3⟩
      · exact same (some .unexpectedMessage) (by simp [appSend, hcl, hst])
      · exact same (some .unexpectedMessage) (by simp [appSend, hcl, hst])
      · exact same (some .unexpectedMessage) (by simp [appSend, hcl, hst])

theorem inv_appSend (token : Bytes → Bytes) (ext : Option Bytes) (s : S) (m : Option Msg) (w : List Ev) (hI : Inv s w) :
    Inv (appSend token ext s m).1 (w ++ (appSend token ext s m).2.1) := by
  by_cases hcl : s.closed = true
  · simpa [appSend, hcl] using hI
  · have hcl' : s.closed = false := by simpa using hcl
    obtain ⟨k1, k2⟩ := live_appSend token ext s m w hcl' (hI.2.2.2 hcl')
    obtain ⟨b1, b2, b3⟩ := live_bounds _ _ k2
    exact ⟨b1, b2, b3, fun _ => k2⟩

/-! ### what the client's bytes do to the counts -/

/-- close frames wsproto has produced, as its connection state records them -/
def sent : Option ConnSt → Nat
  | some .localClosing => 1
  | some .closed => 1
  | _ => 0

/-- REMOTE_CLOSING is never left standing: the echo is sent in the same step -/
def settled (c : Option ConnSt) : Prop := c ≠ some .remoteClosing

theorem sendWs_counts (s : S) (o : WsOut) (hg : settled s.conn ∨ isCloseFrame (.data o) = true) :
    (sendWs s o).1.st = s.st ∧ (sendWs s o).1.closed = s.closed ∧ (sendWs s o).1.buffer = s.buffer ∧
    (sendWs s o).1.hs = s.hs ∧ (sendWs s o).1.clientCloseCode = s.clientCloseCode ∧
    heads (sendWs s o).2.1 = 0 ∧ ends (sendWs s o).2.1 = 0 ∧
    (sendWs s o).1.conn.isSome = s.conn.isSome ∧ settled (sendWs s o).1.conn ∧
    sent s.conn + closes (sendWs s o).2.1 = sent (sendWs s o).1.conn := by
  unfold sendWs
  cases hc : s.conn with
  | none => simp [settled, sent, hc]
  | some c =>
    cases o <;> cases c <;> simp [connSend, settled, sent, isHead, isEnd, isCloseFrame, hc] at hg ⊢

/-- **`_handle_events`** (any events, any state of the connection): the stream's own state does not move, no response head
    or end of body is produced, wsproto's state stays settled and accounts for every close frame -/
theorem handleEvents_counts (evs : List WsEv) : ∀ s : S, settled s.conn →
    (handleEvents s evs).1.st = s.st ∧ (handleEvents s evs).1.closed = s.closed ∧
    heads (handleEvents s evs).2.2.1 = 0 ∧ ends (handleEvents s evs).2.2.1 = 0 ∧
    (handleEvents s evs).1.conn.isSome = s.conn.isSome ∧ settled (handleEvents s evs).1.conn ∧
    sent s.conn + closes (handleEvents s evs).2.2.1 = sent (handleEvents s evs).1.conn := by
  induction evs with
  | nil => intro s hg; simp [handleEvents, hg]
  | cons ev rest ih =>
    intro s hg
    cases ev with
    | message p fin =>
      rcases hx : s.buffer.extend p with ⟨b, oe⟩
      cases oe with
      | none =>
        cases fin
        · have := ih { s with buffer := b } hg
          simpa [handleEvents, hx] using this
        · have := ih { s with buffer := b.clear } hg
          simpa [handleEvents, hx] using this
      | some e =>
        cases e with
        | tooLarge =>
          have hk := sendWs_counts { s with buffer := b } (.close 1009) (Or.inl hg)
          simp only [handleEvents, hx]
          exact ⟨hk.1, hk.2.1, hk.2.2.2.2.2.1, hk.2.2.2.2.2.2.1, hk.2.2.2.2.2.2.2.1, hk.2.2.2.2.2.2.2.2.1, hk.2.2.2.2.2.2.2.2.2⟩
        | typeError => simp [handleEvents, hx, hg]
    | ping payload =>
      have hk := sendWs_counts s (.pong payload) (Or.inl hg)
      rcases hy : sendWs s (.pong payload) with ⟨s1, e, err⟩
      rw [hy] at hk
      simp only at hk
      obtain ⟨k1, k2, _, _, _, k3, k4, k5, k6, k7⟩ := hk
      cases err with
      | some x => simp only [handleEvents, hy]; exact ⟨k1, k2, k3, k4, k5, k6, k7⟩
      | none =>
        have ih1 := ih s1 k6
        rcases hz : handleEvents s1 rest with ⟨s2, a, e2, err2⟩
        rw [hz] at ih1
        simp only at ih1
        obtain ⟨i1, i2, i3, i4, i5, i6, i7⟩ := ih1
        simp only [handleEvents, hy, hz]
        refine ⟨by rw [i1, k1], by rw [i2, k2], by simp [k3, i3], by simp [k4, i4], by rw [i5, k5], i6, ?_⟩
        simp only [closes_append]; omega
    | pong payload => simpa [handleEvents] using ih s hg
    | close code =>
      -- the library has moved (REMOTE_CLOSING / CLOSED); a client-initiated close is echoed at once
      cases hc : s.conn with
      | none =>
        have hg0 : settled ({ s with conn := none, clientCloseCode := s.clientCloseCode } : S).conn := by simp [settled]
        obtain ⟨i1, i2, i3, i4, i5, i6, i7⟩ := ih { s with conn := none, clientCloseCode := s.clientCloseCode } hg0
        simp only [handleEvents, hc, Option.map_none]
        simp only [reduceCtorEq, if_false]
        refine ⟨i1, i2, ?_, ?_, ?_, i6, ?_⟩
        · simp [i3, isHead]
        · simp [i4, isEnd]
        · simpa using i5
        · simp only [closes_append, closes_cons, closes_nil, isCloseFrame]; simpa [sent] using i7
      | some c =>
        cases c with
        | remoteClosing => exact absurd hc hg
        | «open» =>
          have hk := sendWs_counts { s with conn := some .remoteClosing, clientCloseCode := some code } (.close code) (Or.inr rfl)
          rcases hy : sendWs { s with conn := some .remoteClosing, clientCloseCode := some code } (.close code) with ⟨s1, e, err⟩
          rw [hy] at hk
          simp only at hk
          obtain ⟨k1, k2, _, _, _, k3, k4, k5, k6, k7⟩ := hk
          simp only [handleEvents, hc, Option.map_some, connRecvClose, if_true]
          rw [hy]
          cases err with
          | some x => exact ⟨k1, k2, k3, k4, by simpa using k5, k6, by simpa [sent] using k7⟩
          | none =>
            have ih1 := ih s1 k6
            rcases hz : handleEvents s1 rest with ⟨s2, a, e2, err2⟩
            rw [hz] at ih1
            simp only at ih1
            obtain ⟨i1, i2, i3, i4, i5, i6, i7⟩ := ih1
            simp only []
            refine ⟨by rw [i1, k1], by rw [i2, k2], by simp [k3, i3, isHead], by simp [k4, i4, isEnd], by rw [i5, k5]; simp, i6, ?_⟩
            have k7' : 0 + closes e = sent s1.conn := k7
            have z : sent (some ConnSt.open) = 0 := rfl
            simp only [closes_append, closes_cons, closes_nil, isCloseFrame, z, Bool.false_eq_true, if_false]
            omega
        | localClosing =>
          have hg0 : settled ({ s with conn := some .closed, clientCloseCode := s.clientCloseCode } : S).conn := by simp [settled]
          obtain ⟨i1, i2, i3, i4, i5, i6, i7⟩ := ih { s with conn := some .closed, clientCloseCode := s.clientCloseCode } hg0
          simp only [handleEvents, hc, Option.map_some, connRecvClose]
          simp only [reduceCtorEq, if_false, if_true, Option.some.injEq]
          refine ⟨i1, i2, by simp [i3, isHead], by simp [i4, isEnd], by simpa using i5, i6, ?_⟩
          simp only [closes_append, closes_cons, closes_nil, isCloseFrame]; simpa [sent] using i7
        | closed =>
          have hg0 : settled ({ s with conn := some .closed, clientCloseCode := s.clientCloseCode } : S).conn := by simp [settled]
          obtain ⟨i1, i2, i3, i4, i5, i6, i7⟩ := ih { s with conn := some .closed, clientCloseCode := s.clientCloseCode } hg0
          simp only [handleEvents, hc, Option.map_some, connRecvClose]
          simp only [reduceCtorEq, if_false, Option.some.injEq]
          refine ⟨i1, i2, by simp [i3, isHead], by simp [i4, isEnd], by simpa using i5, i6, ?_⟩
          simp only [closes_append, closes_cons, closes_nil, isCloseFrame]; simpa [sent] using i7
    | failed code =>
      have hne : ¬ (s.conn = some .remoteClosing) := hg
      obtain ⟨i1, i2, i3, i4, i5, i6, i7⟩ := ih s hg
      simp only [handleEvents, hne, if_false]
      refine ⟨i1, i2, by simp [i3, isHead], by simp [i4, isEnd], i5, i6, ?_⟩
      simp only [closes_append, closes_cons, closes_nil, isCloseFrame]; simpa using i7

/-- the CONNECTED / CLOSED rows of `Live` in terms of `sent` / `settled` -/
theorem conn_row_iff (co : Option ConnSt) (n : Nat) :
    (∃ c, co = some c ∧ c ≠ .remoteClosing ∧ n = (if c = .open then 0 else 1)) ↔
    (co.isSome = true ∧ settled co ∧ n = sent co) := by
  cases co with
  | none => simp
  | some c => cases c <;> simp [settled, sent]

theorem closed_row_iff (co : Option ConnSt) (n : Nat) :
    (∃ c, co = some c ∧ c ≠ .remoteClosing ∧ c ≠ .open ∧ n = 1) ↔
    (co.isSome = true ∧ settled co ∧ co ≠ some .open ∧ n = 1) := by
  cases co with
  | none => simp
  | some c => cases c <;> simp [settled]

theorem live_settled (s : S) (w : List Ev) (h : Live s w) : settled s.conn := by
  unfold Live at h
  cases hst : s.st <;> simp only [hst] at h
  · simp [settled, h.2.2.2]
  · obtain ⟨_, _, c, hc, hn, _⟩ := h; simp [settled, hc, hn]
  · simp [settled, h.2.2.2]
  · obtain ⟨_, _, c, hc, hn, _⟩ := h; simp [settled, hc, hn]
  · simp [settled, h.2.2.2]

/-- **bytes of the client / the loss of the connection keep the invariant** -/
theorem inv_handle (s : S) (i : In) (w : List Ev) (hI : Inv s w) : Inv (handle s i).1 (w ++ (handle s i).2.2.1) := by
  by_cases hcl : s.closed = true
  · simpa [handle, hcl] using hI
  · have hcl' : s.closed = false := by simpa using hcl
    have hL := hI.2.2.2 hcl'
    obtain ⟨b1, b2, b3⟩ := live_bounds s w hL
    cases i with
    | streamClosed =>
      have hx : handle s .streamClosed = ({ s with closed := true }, (handle s .streamClosed).2.1, [], none) := by
        simp [handle, hcl']
      rw [hx]
      exact ⟨by simpa using b1, by simpa using b2, by simpa using b3, fun h => by simp at h⟩
    | data evs =>
      by_cases hacc : s.hs.accepted = true
      · have hx : handle s (.data evs) = handleEvents s evs := by simp [handle, hcl', hacc]
        rw [hx]
        obtain ⟨k1, k2, k3, k4, k5, k6, k7⟩ := handleEvents_counts evs s (live_settled s w hL)
        have hlive : Live (handleEvents s evs).1 (w ++ (handleEvents s evs).2.2.1) := by
          unfold Live at hL ⊢
          rw [k1]
          cases hst : s.st <;> simp only [hst] at hL ⊢ <;> simp only [heads_append, ends_append, closes_append, k3, k4]
          · obtain ⟨h1, h2, h3, h4⟩ := hL
            have hn : (handleEvents s evs).1.conn = none := by
              cases hh : (handleEvents s evs).1.conn with
              | none => rfl
              | some c => rw [hh, h4] at k5; simp at k5
            rw [h4, hn] at k7
            exact ⟨by omega, by omega, by simp [sent] at k7; omega, hn⟩
          · obtain ⟨h1, h2, hrow⟩ := hL
            rw [conn_row_iff] at hrow ⊢
            obtain ⟨r1, r2, r3⟩ := hrow
            exact ⟨by omega, by omega, by rw [k5]; exact r1, k6, by omega⟩
          · obtain ⟨h1, h2, h3, h4⟩ := hL
            have hn : (handleEvents s evs).1.conn = none := by
              cases hh : (handleEvents s evs).1.conn with
              | none => rfl
              | some c => rw [hh, h4] at k5; simp at k5
            rw [h4, hn] at k7
            exact ⟨by omega, by omega, by simp [sent] at k7; omega, hn⟩
          · obtain ⟨h1, h2, hrow⟩ := hL
            rw [closed_row_iff] at hrow ⊢
            obtain ⟨r1, r2, r3, r4⟩ := hrow
            have hs1 : sent s.conn = 1 := by
              cases hc : s.conn with
              | none => rw [hc] at r1; simp at r1
              | some c => cases c <;> simp_all [settled, sent]
            have hle : sent (handleEvents s evs).1.conn ≤ 1 := by
              cases (handleEvents s evs).1.conn with
              | none => simp [sent]
              | some c => cases c <;> simp [sent]
            refine ⟨by omega, by omega, by rw [k5]; exact r1, k6, ?_, by omega⟩
            intro ho
            have z : sent (some ConnSt.open) = 0 := rfl
            rw [ho, z] at k7
            omega
          · obtain ⟨h1, h2, h3, h4⟩ := hL
            have hn : (handleEvents s evs).1.conn = none := by
              cases hh : (handleEvents s evs).1.conn with
              | none => rfl
              | some c => rw [hh, h4] at k5; simp at k5
            rw [h4, hn] at k7
            exact ⟨by omega, by omega, by simp [sent] at k7; omega, hn⟩
        obtain ⟨c1, c2, c3⟩ := live_bounds _ _ hlive
        exact ⟨c1, c2, c3, fun _ => hlive⟩
      · have hacc' : s.hs.accepted = false := by simpa using hacc
        by_cases hst : s.st = .handshake
        · have hx : handle s (.data evs) = ({ s with closed := true }, (handle s (.data evs)).2.1, errorResponse 400 ++ [.spawnClose], none) := by
            simp [handle, hcl', hacc', hst]
          rw [hx]
          simp only [Live, hst] at hL
          have hc := errorResponse_counts 400
          refine ⟨?_, ?_, ?_, fun h => by simp at h⟩ <;>
            simp [hL.1, hL.2.1, hL.2.2.1, hc.1, hc.2.1, hc.2.2, isHead, isEnd, isCloseFrame]
        · have hx : handle s (.data evs) = (s, [], [], none) := by simp [handle, hcl', hacc', hst]
          rw [hx]; simpa using hI

theorem inv_step (token : Bytes → Bytes) (ext : Option Bytes) (s : S) (o : Op) (w : List Ev) (hI : Inv s w) :
    Inv (step token ext s o).1 (w ++ (step token ext s o).2) := by
  cases o with
  | app m => exact inv_appSend token ext s (some m) w hI
  | inp i => exact inv_handle s i w hI

/-- **the invariant holds after any interleaving of application messages and client input** -/
theorem inv_run (token : Bytes → Bytes) (ext : Option Bytes) (ops : List Op) :
    ∀ (s : S) (w : List Ev), Inv s w → Inv (run token ext s ops).1 (w ++ (run token ext s ops).2) := by
  induction ops with
  | nil => intro s w h; simpa [run] using h
  | cons o rest ih =>
    intro s w h
    have h1 := inv_step token ext s o w h
    have h2 := ih _ _ h1
    simpa [run, List.append_assoc] using h2

/-! ### the application's messages alone -/

/-- while only the application acts: the stream is not closed, and CONNECTED means wsproto is OPEN -/
def AppInv (s : S) : Prop := s.closed = false ∧ (s.st = .connected → s.conn = some .open)

theorem appInv_appSend (token : Bytes → Bytes) (ext : Option Bytes) (s : S) (msg : Msg) (h : AppInv s) :
    AppInv (appSend token ext s (some msg)).1 := by
  obtain ⟨hcl, ho⟩ := h
  have keep : ∀ e : Option PyErr, appSend token ext s (some msg) = (s, [], e) → AppInv (appSend token ext s (some msg)).1 := by
    intro e hx; rw [hx]; exact ⟨hcl, ho⟩
  · cases msg with
    | other => exact keep (some .unexpectedMessage) (by simp [appSend, hcl])
    | accept sp extra =>
      by_cases hst : s.st = .handshake
      · cases ha : s.hs.accept token ext sp extra with
        | error e => exact keep (some e) (by simp [appSend, hcl, hst, ha])
        | ok r => simp [appSend, hcl, hst, ha, AppInv]
      · exact keep (some .unexpectedMessage) (by simp [appSend, hcl, hst])
    | respStart status headers =>
      by_cases hst : s.st = .handshake
      · simp [appSend, hcl, hst, AppInv]
      · exact keep (some .unexpectedMessage) (by simp [appSend, hcl, hst])
    | respBody body more =>
      by_cases hst : s.st = .handshake ∨ s.st = .response
      · have hx : appSend token ext s (some (.respBody body more)) = sendRejection s body more := by
          simp [appSend, hcl, hst]
        rw [hx]
        obtain ⟨kc, kcl, _, kcase⟩ := sendRejection_counts s body more hst
        refine ⟨by rw [kcl]; exact hcl, ?_⟩
        rcases kcase with ⟨k1, _⟩ | ⟨k1, _⟩ | ⟨k1, _⟩
        · rw [k1]; exact ho
        · rw [k1]; intro h; cases h
        · rw [k1]; intro h; cases h
      · exact keep (some .unexpectedMessage) (by simp [appSend, hcl, hst])
    | send bytes text =>
      by_cases hst : s.st = .connected
      · have hc := ho hst
        have hshape : (∃ e, appSend token ext s (some (.send bytes text)) = (s, [], some e)) ∨
            (∃ p, appSend token ext s (some (.send bytes text)) = sendWs s (.message p)) := by
          simp only [appSend, hcl, hst, Bool.false_eq_true, ↓reduceIte]
          split
          · rename_i e _; exact Or.inl ⟨e, rfl⟩
          · rename_i p _; exact Or.inr ⟨p, rfl⟩
        rcases hshape with ⟨e, hx⟩ | ⟨p, hx⟩
        · exact keep (some e) hx
        · rw [hx]; simp [sendWs, hc, connSend, AppInv, hcl]
      · exact keep (some .unexpectedMessage) (by simp [appSend, hcl, hst])
    | close code reason =>
      cases hst : s.st
      · simp [appSend, hcl, hst, AppInv]
      · have hc := ho hst
        cases hk : closeArgs s code reason with
        | error x => exact keep (some x) (by simp [appSend, hcl, hst, hk])
        | ok k =>
          have hx : appSend token ext s (some (.close code reason)) =
              ({ s with st := .closed, conn := some .localClosing }, [.data (.close k), .endData], none) := by
            unfold appSend
            rw [if_neg (show ¬ (s.closed = true) by simp [hcl])]
            simp [hst, hk, sendWs, hc, connSend]
          rw [hx]; exact ⟨hcl, fun h => by cases h⟩
      · exact keep (some .unexpectedMessage) (by simp [appSend, hcl, hst])
      · exact keep (some .unexpectedMessage) (by simp [appSend, hcl, hst])
      · exact keep (some .unexpectedMessage) (by simp [appSend, hcl, hst])

theorem appInv_feed (token : Bytes → Bytes) (ext : Option Bytes) (ms : List Msg) :
    ∀ s : S, AppInv s → AppInv (feed token ext s ms).1 := by
  induction ms with
  | nil => intro s h; simpa [feed, run] using h
  | cons m rest ih =>
    intro s h
    have := ih _ (appInv_appSend token ext s m h)
    simpa [feed, run, step] using this

end HC.Stream.WsExit
