import HC.Stream.Http
/-!
# Model of `hypercorn/protocol/ws_stream.py` (`Handshake`, `WebsocketBuffer`, `WSStream`)

wsproto is represented by (a) its connection-state machine (`WsConn`, which `send` calls raise
`LocalProtocolError`) and (b) the events it yields for received bytes, which are *inputs* of the model
(`WsEv`; the tie feeds the events the real library produced).  The accept token and the extension negotiation
are library results passed in as parameters.
-/
namespace HC.Stream.Ws
open HC HC.Stream HC.Extracted

/-! ## Handshake -/

structure Handshake where
  version : String                        -- http_version
  connectionTokens : Option (List Bytes) := none
  extensions : Option (List Bytes) := none
  key : Option Bytes := none
  subprotocols : Option (List Bytes) := none
  upgrade : Option Bytes := none
  wsVersion : Option Bytes := none
  accepted : Bool := false
  malformed : Bool := false               -- `self.malformed`: a token-list header was not ASCII
deriving Repr, DecidableEq

def isAscii (b : Bytes) : Bool := b.all (fun c => c.toNat < 128)

/-- wsproto `split_comma_header`: `[piece.decode("ascii").strip() for piece in value.split(b",")]` -/
def splitCommaHeader (v : Bytes) : Except PyErr (List Bytes) :=
  if isAscii v then .ok ((Bytes.splitOnB 44 v).map Bytes.stripL1) else .error .valueError   -- UnicodeDecodeError

def Handshake.scan (h : Handshake) : Headers → Except PyErr Handshake
  | [] => .ok h
  | (n, v) :: rest =>
    let name := Bytes.lower n
    if name == "connection".b then
      match splitCommaHeader v with
      | .ok t => Handshake.scan { h with connectionTokens := some t } rest
      | .error _ => Handshake.scan { h with malformed := true } rest          -- `except UnicodeDecodeError`
    else if name == "sec-websocket-extensions".b then
      match splitCommaHeader v with
      | .ok t => Handshake.scan { h with extensions := some t } rest
      | .error _ => Handshake.scan { h with malformed := true } rest
    else if name == "sec-websocket-key".b then Handshake.scan { h with key := some v } rest
    else if name == "sec-websocket-protocol".b then
      match splitCommaHeader v with
      | .ok t => Handshake.scan { h with subprotocols := some t } rest
      | .error _ => Handshake.scan { h with malformed := true } rest
    else if name == "sec-websocket-version".b then Handshake.scan { h with wsVersion := some v } rest
    else if name == "upgrade".b then Handshake.scan { h with upgrade := some v } rest
    else Handshake.scan h rest

def Handshake.ofRequest (version : String) (hs : Headers) : Except PyErr Handshake :=
  Handshake.scan { version := version } hs

/-- `Handshake.is_valid()`; `.error attributeError` is `self.upgrade.lower()` on `None` -/
def Handshake.isValid (h : Handshake) : Except PyErr Bool :=
  if h.malformed then .ok false
  else if h.version < "1.1" then .ok false
  else
    let v13 := h.wsVersion == some "13".b
    if h.version = "1.1" then
      if h.key.isNone then .ok false
      else match h.connectionTokens with
        | none => .ok false
        | some ts =>
          if !(ts.any (fun t => Bytes.lower t == "upgrade".b)) then .ok false
          else match h.upgrade with
            | none => .error .attributeError
            | some u => if Bytes.lower u != "websocket".b then .ok false else .ok v13
    else .ok v13

/-- the loop over `additional_headers` in `Handshake.accept` -/
def validateExtra : Headers → Except PyErr Headers
  | [] => .ok []
  | x :: rest =>
    match validateNameBytes x.1 with
    | .error e => .error e
    | .ok n =>
      if n == "sec-websocket-protocol".b then .error .exception
      else do
        let v ← validatePartBytes x.2
        let r ← validateExtra rest
        pure ((n, v) :: r)

/-- `Handshake.accept(subprotocol, additional_headers)`: status and headers, or the `Exception` raised.
    `token` is `generate_accept_token`, `extAccepts` the result of `server_extensions_handshake` (library values). -/
def Handshake.accept (h : Handshake) (token : Bytes → Bytes) (extAccepts : Option Bytes)
    (subprotocol : Option Bytes) (extra : Headers) : Except PyErr (Nat × Headers) := do
  let h1 : Headers ← match subprotocol with
    | none => pure []
    | some sp =>
      match h.subprotocols with
      | none => throw .exception
      | some offered => if offered.contains sp then pure [("sec-websocket-protocol".b, sp)] else throw .exception
  let h2 : Headers := match h.extensions, extAccepts with
    | some _, some a => if a ≠ [] then [("sec-websocket-extensions".b, a)] else []
    | _, _ => []
  let h3 : Headers := match h.key with | some k => [("sec-websocket-accept".b, token k)] | none => []
  let (status, h4) : Nat × Headers :=
    if h.version = "1.1" then (101, [("upgrade".b, "WebSocket".b), ("connection".b, "Upgrade".b)]) else (200, [])
  let h5 ← validateExtra extra
  pure (status, h1 ++ h2 ++ h3 ++ h4 ++ h5)

/-! ## WebsocketBuffer -/

inductive Payload where
  | text (cs : List Char)
  | bytes (bs : Bytes)
deriving Repr, DecidableEq

def Payload.size : Payload → Nat
  | .text cs => cs.length       -- StringIO.write returns characters written
  | .bytes bs => bs.length

structure Buffer where
  value : Option Payload := none
  length : Nat := 0
  maxLength : Nat
deriving Repr, DecidableEq

inductive BufErr where | tooLarge | typeError
deriving Repr, DecidableEq

/-- `WebsocketBuffer.extend(event)`: the first fragment fixes the kind; writing the other kind raises TypeError.
    The buffer keeps what was written when `FrameTooLargeError` is raised (nothing clears it); once it is over the
    limit every further `extend` raises `FrameTooLargeError` again, whatever the kind. -/
def Buffer.extend (b : Buffer) (p : Payload) : Buffer × Option BufErr :=
  -- `if self.length > self.max_length: raise FrameTooLargeError()` before anything is written
  if Guards.wsBufferCmp.eval b.length b.maxLength then (b, some .tooLarge) else
  let cur : Payload := match b.value with
    | some v => v
    | none => (match p with | .text _ => .text [] | .bytes _ => .bytes [])
  match cur, p with
  | .text a, .text c =>
    let b' := { b with value := some (.text (a ++ c)), length := b.length + c.length }
    (b', if Guards.wsBufferCmp.eval b'.length b.maxLength then some .tooLarge else none)
  | .bytes a, .bytes c =>
    let b' := { b with value := some (.bytes (a ++ c)), length := b.length + c.length }
    (b', if Guards.wsBufferCmp.eval b'.length b.maxLength then some .tooLarge else none)
  | _, _ => ({ b with value := some cur }, some .typeError)

def Buffer.clear (b : Buffer) : Buffer := { b with value := none, length := 0 }

/-! ## wsproto connection state (library machine) -/

inductive ConnSt where | open | localClosing | remoteClosing | closed
deriving Repr, DecidableEq

inductive WsOut where
  | message (p : Payload)
  | ping (payload : Bytes)
  | pong (payload : Bytes)
  | close (code : Nat)
deriving Repr, DecidableEq

/-- `Connection.send(event)`: new state, or `none` = `LocalProtocolError` -/
def connSend (c : ConnSt) : WsOut → Option ConnSt
  | .message _ => if c = .open then some c else none
  | .ping _ => if c = .open then some c else none
  | .pong _ => if c = .open then some c else none
  | .close _ => if c = .open then some .localClosing else if c = .remoteClosing then some .closed else none

/-- events yielded by `Connection.events()` for the bytes just received -/
inductive WsEv where
  | message (p : Payload) (finished : Bool)
  | ping (payload : Bytes)
  | pong (payload : Bytes)
  | close (code : Nat)                   -- a close frame: the library has moved to REMOTE_CLOSING / CLOSED
  | failed (code : Nat)                  -- `ParseFailed` (bad frame / bad UTF-8): a `CloseConnection(code)` event is
                                         -- yielded but the connection state does NOT move
deriving Repr, DecidableEq

/-- the library's own transition when it yields a close event -/
def connRecvClose (c : ConnSt) : ConnSt :=
  if c = .open then .remoteClosing else if c = .localClosing then .closed else c

/-! ## WSStream -/

inductive St where | handshake | connected | response | closed | httpClosed
deriving Repr, DecidableEq

inductive Ev where
  | response (status : Nat) (headers : Headers)
  | body (data : Bytes)
  | endBody
  | data (frame : WsOut)                 -- `Data(stream_id, connection.send(event))`
  | endData
  | streamClosed
  | access (status : Nat)
  | spawnPings
  | spawnClose                          -- `task_group.spawn(self.send, StreamClosed(...))` after the stream's own error response
deriving Repr, DecidableEq

inductive AppMsg where
  | connect
  | receive (p : Payload)
  | disconnect (code : Nat)
deriving Repr, DecidableEq

inductive Msg where
  | accept (subprotocol : Option Bytes) (headers : Headers)
  | respStart (status : Option Nat) (headers : Option (List (HV × HV)))
  | respBody (body : Option HV) (more : Bool)
  | send (bytes : Option HV) (text : Option HV)        -- `message.get("bytes")`, `message["text"]` (absent = KeyError)
  | close (code : Option Nat)
  | other
deriving Repr, DecidableEq

structure S where
  st : St := .handshake
  closed : Bool := false
  hs : Handshake
  conn : Option ConnSt := none           -- `self.connection` (assigned by a successful accept)
  buffer : Buffer
  response : Option (Option Nat × Option (List (HV × HV))) := none   -- `self.response` (status, headers) as given
  hasAppPut : Bool := false
  pingInterval : Bool := false
  clientCloseCode : Option Nat := none   -- `self.client_close_code`: code of a client-initiated close (1005 = none given)
deriving Repr, DecidableEq

abbrev Out := S × List Ev × Option PyErr

def errorResponse (status : Nat) : List Ev :=
  [.response status [("content-length".b, "0".b), ("connection".b, "close".b)], .endBody, .access status]

/-- `_send_wsproto_event`: `AttributeError` when there is no connection object; LocalProtocolError is swallowed -/
def sendWs (s : S) (o : WsOut) : S × List Ev × Option PyErr :=
  match s.conn with
  | none => (s, [], some .attributeError)
  | some c =>
    match connSend c o with
    | none => (s, [], none)
    | some c' => ({ s with conn := some c' }, [.data o], none)

/-- first part of `_send_rejection`: in HANDSHAKE the response head is validated and sent -/
def denialHead (s : S) (status : Nat) (headers : Option (List (HV × HV))) : Except PyErr (S × List Ev) :=
  if s.st = .handshake then
    match headers with
    | none => .error .keyError
    | some hs => match validateHeaders hs with
      | .error e => .error e
      | .ok vh => .ok ({ s with st := .response }, [.response status vh])
  else .ok (s, [])

/-- `bytes(message.get("body", b""))` -/
def bodyBytes : Option HV → Except PyErr Bytes
  | none => .ok []
  | some (.bytes b) => .ok b
  | some (.int n) => if n < 0 then .error .valueError else .ok (List.replicate n.toNat 0)
  | some _ => .error .typeError

/-- `_send_rejection(message)` -/
def sendRejection (s : S) (body : Option HV) (more : Bool) : S × List Ev × Option PyErr :=
  match s.response with
  | none => (s, [], some .attributeError)
  | some (none, _) => (s, [], some .keyError)
  | some (some status, headers) =>
    -- `body = bytes(message.get("body", b""))` is evaluated before anything is sent
    match bodyBytes body with
    | .error e => (s, [], some e)
    | .ok b =>
      match denialHead s status headers with
      | .error e => (s, [], some e)
      | .ok (s1, e1) =>
        let e2 : List Ev := if Guards.suppressBody "GET" status then [] else [.body b]
        if more then (s1, e1 ++ e2, none)
        else ({ s1 with st := .httpClosed }, e1 ++ e2 ++ [.endBody, .access status], none)

def appSend (token : Bytes → Bytes) (extAccepts : Option Bytes) (s : S) : Option Msg → Out
  | m =>
    if s.closed then (s, [], none)
    else match m with
    | none =>
      if s.st = .handshake then (s, errorResponse 500 ++ [.streamClosed], none)      -- `_send_error_response` records the access
      else if s.st = .connected then
        let (s1, e, err) := sendWs s (.close 1011)
        match err with
        | some x => (s1, e, some x)
        | none => (s1, e ++ [.streamClosed], none)
      else (s, [.streamClosed], none)
    | some (.accept sp extra) =>
      if s.st = .handshake then
        match s.hs.accept token extAccepts sp extra with
        | .error e => (s, [], some e)
        | .ok (status, hdrs) =>
          ({ s with st := .connected, hs := { s.hs with accepted := true }, conn := some .open },
            [.response status hdrs, .access status] ++ (if s.pingInterval then [.spawnPings] else []), none)
      else (s, [], some .unexpectedMessage)
    | some (.respStart status headers) =>
      if s.st = .handshake then ({ s with response := some (status, headers) }, [], none)
      else (s, [], some .unexpectedMessage)
    | some (.respBody body more) =>
      if s.st = .handshake ∨ s.st = .response then sendRejection s body more
      else (s, [], some .unexpectedMessage)
    | some (.send bytes text) =>
      if s.st = .connected then
        let payload : Except PyErr Payload := match bytes with
          | some (.bytes b) => .ok (.bytes b)
          | some (.int n) => if n < 0 then .error .valueError else .ok (.bytes (List.replicate n.toNat 0))
          | some (.str _) => .error .typeError
          | _ => match text with
            | none => .error .keyError
            | some (.str t) => .ok (.text t.toList)
            | some _ => .error .typeError
        match payload with
        | .error e => (s, [], some e)
        | .ok p => sendWs s (.message p)
      else (s, [], some .unexpectedMessage)
    | some (.close code) =>
      if s.st = .handshake then ({ s with st := .httpClosed }, errorResponse 403, none)
      else if s.st ≠ .connected then (s, [], some .unexpectedMessage)
      else
        let s1 := { s with st := .closed }
        let (s2, e, err) := sendWs s1 (.close (code.getD 1000))
        match err with
        | some x => (s2, e, some x)
        | none => (s2, e ++ [.endData], none)
    | some .other => (s, [], some .unexpectedMessage)

/-- protocol-facing inputs -/
inductive In where
  | data (evs : List WsEv)       -- Body/Data event; `evs` = what `connection.events()` yields for those bytes
  | streamClosed
deriving Repr, DecidableEq

/-- `_handle_events`: returns (state, app puts, events, uncaught error) -/
def handleEvents (s : S) : List WsEv → S × List AppMsg × List Ev × Option PyErr
  | [] => (s, [], [], none)
  | ev :: rest =>
    match ev with
    | .message p fin =>
      match s.buffer.extend p with
      | (b, some .tooLarge) =>
        let (s1, e, err) := sendWs { s with buffer := b } (.close 1009)
        (s1, [], e, err)                                          -- `break`
      | (b, some .typeError) => ({ s with buffer := b }, [], [], some .typeError)
      | (b, none) =>
        if fin then
          let put := match b.value with | some v => [AppMsg.receive v] | none => []
          let (s2, a, e, err) := handleEvents { s with buffer := b.clear } rest
          (s2, put ++ a, e, err)
        else handleEvents { s with buffer := b } rest
    | .ping payload =>
      let (s1, e, err) := sendWs s (.pong payload)
      match err with
      | some x => (s1, [], e, some x)
      | none => let (s2, a, e2, err2) := handleEvents s1 rest; (s2, a, e ++ e2, err2)
    | .pong _ => handleEvents s rest
    | .close code =>
      -- the library moved to REMOTE_CLOSING / CLOSED before yielding the event
      let c' := s.conn.map connRecvClose
      -- `self.client_close_code = int(event.code)` in the REMOTE_CLOSING branch (client-initiated close) only
      let s0 := { s with conn := c', clientCloseCode := if c' = some .remoteClosing then some code else s.clientCloseCode }
      let (s1, e, err) := if c' = some .remoteClosing then sendWs s0 (.close code) else (s0, [], none)
      match err with
      | some x => (s1, [], e, some x)
      | none => let (s2, a, e2, err2) := handleEvents s1 rest; (s2, a, e ++ [Ev.streamClosed] ++ e2, err2)
    | .failed code =>
      -- same branch of the code, but `self.connection.state` is whatever it was: no echo unless it already was
      -- REMOTE_CLOSING (it never is: a client close is answered at once), then `StreamClosed`
      let (s1, e, err) := if s.conn = some .remoteClosing then sendWs { s with clientCloseCode := some code } (.close code)
                          else (s, [], none)
      match err with
      | some x => (s1, [], e, some x)
      | none => let (s2, a, e2, err2) := handleEvents s1 rest; (s2, a, e ++ [Ev.streamClosed] ++ e2, err2)

def handle (s : S) : In → S × List AppMsg × List Ev × Option PyErr
  | i =>
    if s.closed then (s, [], [], none)
    else match i with
      | .data evs =>
        if !s.hs.accepted then
          -- answered (400) only while nothing has been sent for the handshake; once a rejection has been started or
          -- sent the data is ignored (a second response would be refused by h11: F40)
          -- `_close_after_error`: closed, the waiting application is sent the disconnect, StreamClosed is spawned
          if s.st = .handshake then
            ({ s with closed := true }, if s.hasAppPut then [.disconnect 1006] else [], errorResponse 400 ++ [.spawnClose], none)
          else (s, [], [], none)
        else handleEvents s evs
      | .streamClosed =>
        let code := if s.st = .httpClosed ∨ s.st = .closed then 1000 else s.clientCloseCode.getD 1006
        ({ s with closed := true }, if s.hasAppPut then [.disconnect code] else [], [], none)

/-- the `Request` event: build the stream, answer 404/400 or spawn the application and put `websocket.connect` -/
def onRequest (maxLen : Nat) (version : String) (headers : Headers) (serverNameOk : Bool) (pingInterval : Bool) :
    Except PyErr (S × List AppMsg × List Ev) := do
  let hs ← Handshake.ofRequest version headers
  let s : S := { hs := hs, buffer := { maxLength := maxLen }, pingInterval := pingInterval }
  if !serverNameOk then pure ({ s with closed := true }, [], errorResponse 404 ++ [.spawnClose])
  else
    let v ← hs.isValid
    if !v then pure ({ s with closed := true }, [], errorResponse 400 ++ [.spawnClose])
    else pure ({ s with hasAppPut := true }, [.connect], [])

end HC.Stream.Ws
