import HC.Extracted.ConnGuards
/-!
# The closing sequences of `WSStream`, with the connection lost in the middle (C03)

A WebSocket stream closes itself in several places - the 404 / 400 it answers a handshake with, the 400 for data before the
acceptance, the 500 / close frame 1011 for an application that has finished, the echo of the client's close frame - and each of
them is a *sequence* of awaited steps.  `tools/extract_wsseq.py` writes every such path of the current source out, step by
step (`HC/Extracted/WsSeq.lean`); this file says what a path does to the stream when the connection is lost while one of its
awaits is pending: the failed transport write (or the reader's end, the idle timer) makes the protocol call
`stream.handle(StreamClosed)` *inside* that await - `told`, with the guard and the order the extractor found in that branch
(`ConnGuards.wsHandleClosedGuard`, `wsClosedBeforePut`, `wsPutIsDisconnect`) - and the path then runs on to its end.

The protocol tells a stream once: it forgets it when it has told it (`self.stream = None` / `self.streams.pop`), so
`StreamClosed` sent by the stream itself afterwards (`tell`, `spawnTell`) reaches nobody.
-/
namespace HC.Stream.WsSeq
open HC.Extracted.ConnGuards

inductive Step
  | setClosed (v : Bool)          -- `self.closed = v`
  | assumeClosed (v : Bool)       -- the path is the one on which `self.closed` tested as `v`
  | assumeApp (v : Bool)          -- … on which `self.app_put is not None` tested as `v`
  | spawnApp                      -- `self.app_put = …`
  | send                          -- `await self.send(<not StreamClosed>)`
  | tell                          -- `await self.send(StreamClosed(…))`
  | spawnTell                     -- `task_group.spawn(self.send, StreamClosed(…))`
  | put (disconnect : Bool)       -- `await self.app_put(m)`
  | wait                          -- any other await
deriving DecidableEq, Repr

structure Path where
  root : String                   -- the method the path goes through
  first : Bool                    -- the path handles the `Request` event, the first a stream is given
  steps : List Step
deriving Repr

structure Sq where
  hasApp : Bool                   -- `self.app_put is not None`
  closed : Bool := false
  registered : Bool := true       -- the protocol still has the stream (`self.stream` / `self.streams[stream_id]`)
  pendingTell : Bool := false     -- a spawned `send(StreamClosed)` has not run yet
  discs : Nat := 0                -- disconnects handed to the application
  after : Nat := 0                -- messages handed to the application after a disconnect
  awaits : Nat := 0               -- awaits passed so far
  feasible : Bool := true         -- the tests on the way came out as the path says
deriving Repr, DecidableEq

def Sq.handed (s : Sq) (disconnect : Bool) : Sq :=
  { s with after := s.after + (if s.discs > 0 then 1 else 0), discs := s.discs + (if disconnect then 1 else 0) }

/-- `stream.handle(StreamClosed)` as extracted: `if self.closed: return`; `self.closed = True`; the disconnect for an application -/
def told (s : Sq) : Sq :=
  if wsHandleClosedGuard && s.closed then s else
  let s1 := { s with closed := s.closed || wsClosedBeforePut }
  if s.hasApp then s1.handed wsPutIsDisconnect else s1

/-- the protocol's `_close_stream`: a stream it still has is told, and forgotten -/
def protoClose (s : Sq) : Sq := if s.registered then told { s with registered := false } else s

/-- an await: other tasks run - a spawned `send(StreamClosed)`, and, if this is the await during which the connection is
    lost (`loss`), the protocol's `handle(Closed)` -/
def interfere (loss : Option Nat) (s : Sq) : Sq :=
  let s1 := if s.pendingTell then protoClose { s with pendingTell := false } else s
  let s2 := if loss = some s.awaits then protoClose s1 else s1
  { s2 with awaits := s2.awaits + 1 }

def step (loss : Option Nat) (s : Sq) : Step → Sq
  | .setClosed v => { s with closed := v }
  | .assumeClosed v => if s.closed = v then s else { s with feasible := false }
  | .assumeApp v => if s.hasApp = v then s else { s with feasible := false }
  | .spawnApp => { s with hasApp := true }
  | .send => interfere loss s
  | .wait => interfere loss s
  | .tell => interfere loss (protoClose s)
  | .spawnTell => { s with pendingTell := true }
  | .put d => interfere loss (s.handed d)

/-- the whole path; a spawned `send(StreamClosed)` runs afterwards at the latest -/
def run (loss : Option Nat) (s : Sq) (steps : List Step) : Sq :=
  let r := steps.foldl (step loss) s
  if r.pendingTell then protoClose { r with pendingTell := false } else r

/-- the stream is closed, its application - if it has one - was handed exactly one disconnect and nothing after it -/
def Sq.ok (s : Sq) : Bool := !s.feasible || (s.closed && s.discs == (if s.hasApp then 1 else 0) && s.after == 0)

/-- with or without an application when the path starts (a stream that is handling its `Request` has none) -/
def Path.apps (p : Path) (startsNone : Bool) : List Bool := if p.first && startsNone then [false] else [false, true]
/-- the connection is not lost / is lost during the k-th await of the path -/
def Path.losses (p : Path) : List (Option Nat) := none :: (List.range p.steps.length).map some

def Path.holds (startsNone : Bool) (p : Path) : Bool :=
  (p.apps startsNone).all fun a => p.losses.all fun loss => (run loss { hasApp := a } p.steps).ok

end HC.Stream.WsSeq
