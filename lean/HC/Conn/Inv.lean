import HC.Conn.Server
/-! Invariants of `HC.Conn.Server`, preserved by every instruction of every task's program from every state satisfying
them (so also by programs resumed after a blocked `put`), hence by every operation sequence. -/
namespace HC.Conn
open HC.Extracted.ConnGuards

/-- per-instance invariant -/
structure IOK (x : Inst) : Prop where
  d1 : x.discPuts ≤ 1
  d2 : x.afterDisc = 0
  d3 : x.discPuts = 1 → x.closed = true
  d4 : x.closed = true → x.hasApp = true → x.discPuts = 1
  fifo : x.handed = x.recvd ++ x.inflight.toList ++ x.q ++ x.waiting.map Prod.snd
  d5 : x.discPuts = 0 → QMsg.disconnect ∉ x.handed
  d6 : x.discPuts = 1 → ∃ pre, x.handed = pre ++ [QMsg.disconnect] ∧ QMsg.disconnect ∉ pre
  a1 : x.kind = .http → x.access ≤ 1
  a2 : x.kind = .http → (x.closed = true ∨ x.hst = .closed) → x.access = 1
  a3 : x.kind = .http → x.access = 1 → (x.closed = true ∨ x.hst = .closed)

theorem iok_fresh (k : Kind) (a t : Bool) : IOK { kind := k, hasApp := a, directOk := t } :=
  ⟨by simp, by simp, by simp, by simp, by simp, by simp, by simp, by simp, by simp, by simp⟩

/-- fields an `offer` does not touch -/
theorem offer_same (x : Inst) (cap : Nat) (w : Who) (m : QMsg) :
    (x.offer cap w m).1.closed = x.closed ∧ (x.offer cap w m).1.kind = x.kind ∧ (x.offer cap w m).1.hst = x.hst ∧
    (x.offer cap w m).1.wst = x.wst ∧ (x.offer cap w m).1.access = x.access ∧ (x.offer cap w m).1.hasApp = x.hasApp ∧
    (x.offer cap w m).1.respEnded = x.respEnded ∧ (x.offer cap w m).1.recvd = x.recvd := by
  simp only [Inst.offer]; split <;> simp

theorem offer_counts (x : Inst) (cap : Nat) (w : Who) (m : QMsg) :
    (x.offer cap w m).1.discPuts = x.discPuts + (if m = QMsg.disconnect then 1 else 0) ∧
    (x.offer cap w m).1.afterDisc = x.afterDisc + (if x.discPuts > 0 then 1 else 0) ∧
    (x.offer cap w m).1.handed = x.handed ++ [m] ∧
    (x.offer cap w m).1.recvd ++ (x.offer cap w m).1.inflight.toList ++ (x.offer cap w m).1.q ++ (x.offer cap w m).1.waiting.map Prod.snd =
      (x.recvd ++ x.inflight.toList ++ x.q ++ x.waiting.map Prod.snd) ++ [m] := by
  simp only [Inst.offer]; split
  · rename_i h; simp [h.2]
  · simp

/-- a data message (never the disconnect) handed to an open stream -/
theorem iok_offer_data (x : Inst) (cap : Nat) (w : Who) (m : DMsg) (h : IOK x) (hc : x.closed = false) :
    IOK (x.offer cap w m.toQ).1 := by
  obtain ⟨e1, e2, e3, e4, e5, e6, e7, e8⟩ := offer_same x cap w m.toQ
  obtain ⟨c1, c2, c3, c4⟩ := offer_counts x cap w m.toQ
  have hm : m.toQ ≠ QMsg.disconnect := by cases m <;> simp [DMsg.toQ]
  have h0 : x.discPuts = 0 := by
    have := h.d1; have := h.d3
    by_cases hz : x.discPuts = 0
    · exact hz
    · have h1 : x.discPuts = 1 := by omega
      have := h.d3 h1; simp_all
  refine ⟨?_, ?_, ?_, ?_, ?_, ?_, ?_, ?_, ?_, ?_⟩
  · rw [c1]; simp [hm, h0]
  · rw [c2]; simp [h0, h.d2]
  · rw [c1, e1]; simp [hm, h0]
  · rw [e1, hc]; simp
  · rw [c3, c4, h.fifo]
  · intro _; rw [c3]; simp only [List.mem_append, List.mem_singleton, not_or]
    exact ⟨h.d5 h0, fun e => hm e.symm⟩
  · rw [c1]; simp [hm, h0]
  · rw [e2, e5]; exact h.a1
  · rw [e2, e1, e3, e5]; exact h.a2
  · rw [e2, e1, e3, e5]; exact h.a3

/-- the disconnect handed to a stream that has just been marked closed -/
theorem iok_offer_disc (x : Inst) (cap : Nat) (w : Who) (h0 : x.discPuts = 0) (ha : x.afterDisc = 0) (hc : x.closed = true)
    (hf : x.handed = x.recvd ++ x.inflight.toList ++ x.q ++ x.waiting.map Prod.snd) (h5 : QMsg.disconnect ∉ x.handed)
    (a1 : x.kind = .http → x.access ≤ 1) (a2 : x.kind = .http → x.access = 1) :
    IOK (x.offer cap w .disconnect).1 := by
  obtain ⟨e1, e2, e3, e4, e5, e6, e7, e8⟩ := offer_same x cap w .disconnect
  obtain ⟨c1, c2, c3, c4⟩ := offer_counts x cap w .disconnect
  refine ⟨?_, ?_, ?_, ?_, ?_, ?_, ?_, ?_, ?_, ?_⟩
  · rw [c1]; simp [h0]
  · rw [c2]; simp [h0, ha]
  · rw [e1]; intro _; exact hc
  · rw [c1]; simp [h0]
  · rw [c3, c4, hf]
  · rw [c1]; simp [h0]
  · intro _; rw [c3]; exact ⟨x.handed, rfl, h5⟩
  · rw [e2, e5]; exact a1
  · rw [e2, e5]; intro hk _; exact a2 hk
  · rw [e2, e1]; intro _ _; exact Or.inl hc

theorem markStreamClosed_fields (x : Inst) :
    x.markStreamClosed.closed = true ∧ x.markStreamClosed.kind = x.kind ∧ x.markStreamClosed.hst = x.hst ∧
    x.markStreamClosed.wst = x.wst ∧ x.markStreamClosed.hasApp = x.hasApp ∧ x.markStreamClosed.respEnded = x.respEnded ∧
    x.markStreamClosed.discPuts = x.discPuts ∧ x.markStreamClosed.afterDisc = x.afterDisc ∧ x.markStreamClosed.handed = x.handed ∧
    x.markStreamClosed.recvd = x.recvd ∧ x.markStreamClosed.q = x.q ∧ x.markStreamClosed.waiting = x.waiting ∧
    x.markStreamClosed.access = x.access + (if x.kind = .http ∧ x.hst ≠ .closed then 1 else 0) ∧
    x.markStreamClosed.inflight = x.inflight := by
  unfold Inst.markStreamClosed
  cases hk : x.kind <;> cases hh : x.hst <;>
    simp [httpClosedBeforePut, httpPutIsDisconnect, wsClosedBeforePut, wsPutIsDisconnect, httpStreamClosedLogsUnlessEnded]

/-- `stream.handle(StreamClosed)` on an open stream: closed, logged (HTTP, unless its response end was), disconnect handed over -/
theorem iok_streamClosed (x : Inst) (cap : Nat) (w : Who) (h : IOK x) (hc : x.closed = false) :
    IOK (if x.hasApp then (x.markStreamClosed.offer cap w .disconnect).1 else x.markStreamClosed) := by
  obtain ⟨m1, m2, m3, m4, m5, m6, m7, m8, m9, m10, m11, m12, m13, m14⟩ := markStreamClosed_fields x
  have h0 : x.discPuts = 0 := by
    by_cases hz : x.discPuts = 0
    · exact hz
    · have h1 : x.discPuts = 1 := by have := h.d1; omega
      have := h.d3 h1; simp_all
  have acc0 : x.kind = .http → x.hst ≠ .closed → x.access = 0 := by
    intro hk hh
    have := h.a1 hk
    by_cases hz : x.access = 0
    · exact hz
    · have h1 : x.access = 1 := by omega
      rcases h.a3 hk h1 with c | c
      · simp_all
      · exact absurd c hh
  have a1' : x.markStreamClosed.kind = .http → x.markStreamClosed.access ≤ 1 := by
    rw [m2, m13]; intro hk
    by_cases hh : x.hst = .closed
    · simp [hh]; exact h.a1 hk
    · simp [hk, hh, acc0 hk hh]
  have a2' : x.markStreamClosed.kind = .http → x.markStreamClosed.access = 1 := by
    rw [m2, m13]; intro hk
    by_cases hh : x.hst = .closed
    · simp [hh]; exact h.a2 hk (Or.inr hh)
    · simp [hk, hh, acc0 hk hh]
  split
  · exact iok_offer_disc _ cap w (by rw [m7]; exact h0) (by rw [m8]; exact h.d2) m1
      (by rw [m9, m10, m11, m12, m14]; exact h.fifo) (by rw [m9]; exact h.d5 h0) a1' a2'
  · rename_i hna
    refine ⟨by rw [m7]; exact h.d1, by rw [m8]; exact h.d2, by intro _; exact m1, ?_, by rw [m9, m10, m11, m12, m14]; exact h.fifo,
      by rw [m7, m9]; exact h.d5, by rw [m7, m9]; exact h.d6, a1', fun hk _ => a2' hk, fun _ _ => Or.inl m1⟩
    rw [m5]; intro _ ha; exact absurd ha hna

/-- **the idle task waits exactly `keep_alive_timeout`** on both workers, for every value of it (0 included: `wait_for(…, 0)` /
    `move_on_after(0)` expire at once).  The two expressions are extracted (`asyncioIdleWait`, `trioIdleWait`): anything else than
    the configured value itself - `keep_alive_timeout or None`, say, which turns 0 into "never" - and this no longer holds -/
theorem Cfg.wait_eq (c : Cfg) : c.wait = some c.T := by
  unfold Cfg.wait asyncioIdleWait trioIdleWait; split <;> rfl
attribute [simp] Cfg.wait_eq

/-! ### state-level invariant -/
structure Inv (s : St) : Prop where
  inst : ∀ i, IOK (s.inst i)
  armed : s.timer.isSome = true → s.busy = false
  dl : ∀ d, s.timer = some d → d = s.armedAt + s.cfg.T
  lv : ∀ i, i < s.n → (s.inst i).closed = true ∨ i ∈ s.live     -- a stream the protocol has forgotten is closed
  nl : ∀ d, s.timer = some d → s.now ≤ d                         -- virtual time never passes an armed deadline
  al : ∀ d, s.timer = some d → s.armedAt ≤ s.now                 -- … and the timer was started in the past

theorem busy_mono (s s' : St) (h : ∀ j, j ∈ s'.live → j ∈ s.live ∧ ((s'.inst j).busy = true → (s.inst j).busy = true))
    (hb : s.busy = false) : s'.busy = false := by
  simp only [St.busy, List.any_eq_false] at hb ⊢
  intro j hj hbj
  exact hb j (h j hj).1 ((h j hj).2 hbj)

/-- the general shape of an invariant-preserving update: instances stay well-formed, nothing becomes busier, the timer
    is kept or cleared -/
theorem inv_like (s s' : St) (h : Inv s) (hi : ∀ j, IOK (s'.inst j))
    (hl : ∀ j, j ∈ s'.live → j ∈ s.live ∧ ((s'.inst j).busy = true → (s.inst j).busy = true))
    (ht : s'.timer = s.timer ∨ s'.timer = none) (ha : s'.armedAt = s.armedAt) (hc : s'.cfg = s.cfg)
    (hn : s'.n = s.n) (hcm : ∀ j, (s.inst j).closed = true → (s'.inst j).closed = true)
    (hlv : ∀ j, j ∈ s.live → j ∈ s'.live ∨ (s'.inst j).closed = true) (hnow : s'.now = s.now) : Inv s' := by
  refine ⟨hi, ?_, ?_, ?_, ?_, ?_⟩
  rotate_left 4
  · intro d hd
    rcases ht with e | e
    · rw [ha, hnow]; exact h.al d (by rw [← e]; exact hd)
    · rw [e] at hd; simp at hd
  rotate_left 3
  · intro d hd
    rcases ht with e | e
    · rw [hnow]; exact h.nl d (by rw [← e]; exact hd)
    · rw [e] at hd; simp at hd
  rotate_left 2
  · intro i hi'; rw [hn] at hi'
    rcases h.lv i hi' with c | m
    · exact Or.inl (hcm i c)
    · rcases hlv i m with a | b
      · exact Or.inr a
      · exact Or.inl b
  · intro ha'
    rcases ht with e | e
    · exact busy_mono s s' hl (h.armed (by rw [← e]; exact ha'))
    · rw [e] at ha'; simp at ha'
  · intro d hd
    rcases ht with e | e
    · rw [ha, hc]; exact h.dl d (by rw [← e]; exact hd)
    · rw [e] at hd; simp at hd

theorem inv_congr (s s' : St) (h : Inv s) (e1 : s'.inst = s.inst) (e2 : s'.live = s.live) (e3 : s'.timer = s.timer)
    (e4 : s'.armedAt = s.armedAt) (e5 : s'.cfg = s.cfg) (e6 : s'.n = s.n) (e7 : s'.now = s.now) : Inv s' :=
  inv_like s s' h (by rw [e1]; exact h.inst) (by intro j hj; rw [e2] at hj; rw [e1]; exact ⟨hj, id⟩) (Or.inl e3) e4 e5 e6
    (by intro j hj; rw [e1]; exact hj) (by intro j hj; rw [e2]; exact Or.inl hj) e7

theorem inv_emit (s : St) (o : List Out) (h : Inv s) : Inv (s.emit o) := inv_congr s _ h rfl rfl rfl rfl rfl rfl rfl
theorem inv_block (s : St) (w : Who) (r : List Instr) (h : Inv s) : Inv (s.block w r) := inv_congr s _ h rfl rfl rfl rfl rfl rfl rfl
theorem inv_yieldTo (s : St) (w : Who) (r : List Instr) (h : Inv s) : Inv (s.yieldTo w r) := inv_congr s _ h rfl rfl rfl rfl rfl rfl rfl
theorem inv_release (s : St) (h : Inv s) : Inv s.release := by
  unfold St.release; split
  · exact inv_congr s _ h rfl rfl rfl rfl rfl rfl rfl
  · exact h
theorem inv_releaseWriter (s : St) (h : Inv s) : Inv s.releaseWriter := by
  unfold St.releaseWriter; split
  · exact inv_congr s _ h rfl rfl rfl rfl rfl rfl rfl
  · exact h
theorem releaseWriter_inst (s : St) : s.releaseWriter.inst = s.inst := by unfold St.releaseWriter; split <;> rfl
theorem releaseWriter_live (s : St) : s.releaseWriter.live = s.live := by unfold St.releaseWriter; split <;> rfl
theorem releaseWriter_timer (s : St) : s.releaseWriter.timer = s.timer := by unfold St.releaseWriter; split <;> rfl
theorem releaseWriter_closed (s : St) : s.releaseWriter.closedByServer = s.closedByServer := by unfold St.releaseWriter; split <;> rfl
theorem releaseWriter_closeAt (s : St) : s.releaseWriter.closeAt = s.closeAt := by unfold St.releaseWriter; split <;> rfl
theorem releaseWriter_doneAt (s : St) : s.releaseWriter.doneAt = s.doneAt := by unfold St.releaseWriter; split <;> rfl
theorem releaseWriter_rpc (s : St) : s.releaseWriter.rpc = s.rpc := by unfold St.releaseWriter; split <;> rfl
theorem releaseWriter_closers (s : St) : s.releaseWriter.closers = s.closers := by unfold St.releaseWriter; split <;> rfl
theorem releaseWriter_now (s : St) : s.releaseWriter.now = s.now := by unfold St.releaseWriter; split <;> rfl
theorem releaseWriter_armedAt (s : St) : s.releaseWriter.armedAt = s.armedAt := by unfold St.releaseWriter; split <;> rfl
theorem releaseWriter_cfg (s : St) : s.releaseWriter.cfg = s.cfg := by unfold St.releaseWriter; split <;> rfl
theorem closeTransport_inst (s : St) : s.closeTransport.inst = s.inst := by
  unfold St.closeTransport; split; rfl; simp only []; split <;> simp [St.emit, releaseWriter_inst, releaseWriter_live, releaseWriter_timer, releaseWriter_closed, releaseWriter_closeAt, releaseWriter_doneAt, releaseWriter_rpc, releaseWriter_closers, releaseWriter_now]
theorem closeTransport_live (s : St) : s.closeTransport.live = s.live := by
  unfold St.closeTransport; split; rfl; simp only []; split <;> simp [St.emit, releaseWriter_inst, releaseWriter_live, releaseWriter_timer, releaseWriter_closed, releaseWriter_closeAt, releaseWriter_doneAt, releaseWriter_rpc, releaseWriter_closers, releaseWriter_now]
theorem closeTransport_timer (s : St) : s.closeTransport.timer = s.timer := by
  unfold St.closeTransport; split; rfl; simp only []; split <;> simp [St.emit, releaseWriter_inst, releaseWriter_live, releaseWriter_timer, releaseWriter_closed, releaseWriter_closeAt, releaseWriter_doneAt, releaseWriter_rpc, releaseWriter_closers, releaseWriter_now]
theorem closeTransport_rpc (s : St) : s.closeTransport.rpc = s.rpc := by
  unfold St.closeTransport; split; rfl; simp only []; split <;> simp [St.emit, releaseWriter_inst, releaseWriter_live, releaseWriter_timer, releaseWriter_closed, releaseWriter_closeAt, releaseWriter_doneAt, releaseWriter_rpc, releaseWriter_closers, releaseWriter_now]
theorem closeTransport_closers (s : St) : s.closeTransport.closers = s.closers := by
  unfold St.closeTransport; split; rfl; simp only []; split <;> simp [St.emit, releaseWriter_inst, releaseWriter_live, releaseWriter_timer, releaseWriter_closed, releaseWriter_closeAt, releaseWriter_doneAt, releaseWriter_rpc, releaseWriter_closers, releaseWriter_now]
theorem closeTransport_now (s : St) : s.closeTransport.now = s.now := by
  unfold St.closeTransport; split; rfl; simp only []; split <;> simp [St.emit, releaseWriter_inst, releaseWriter_live, releaseWriter_timer, releaseWriter_closed, releaseWriter_closeAt, releaseWriter_doneAt, releaseWriter_rpc, releaseWriter_closers, releaseWriter_now]
theorem closeTransport_doneAt (s : St) : s.closeTransport.doneAt = s.doneAt := by
  unfold St.closeTransport; split; rfl; simp only []; split <;> simp [St.emit, releaseWriter_inst, releaseWriter_live, releaseWriter_timer, releaseWriter_closed, releaseWriter_closeAt, releaseWriter_doneAt, releaseWriter_rpc, releaseWriter_closers, releaseWriter_now]
theorem closeTransport_closed (s : St) : s.closeTransport.closedByServer = true := by
  unfold St.closeTransport; split
  · rename_i h; exact h
  · simp only []; split <;> simp [St.emit, releaseWriter_inst, releaseWriter_live, releaseWriter_timer, releaseWriter_closed, releaseWriter_closeAt, releaseWriter_doneAt, releaseWriter_rpc, releaseWriter_closers, releaseWriter_now]
theorem closeTransport_closeAt (s : St) (h : s.closedByServer = false) : s.closeTransport.closeAt = some s.now := by
  unfold St.closeTransport; simp only [h, Bool.false_eq_true, if_false]; split <;> simp [St.emit, releaseWriter_inst, releaseWriter_live, releaseWriter_timer, releaseWriter_closed, releaseWriter_closeAt, releaseWriter_doneAt, releaseWriter_rpc, releaseWriter_closers, releaseWriter_now]
theorem stopTimer_inst (s : St) : s.stopTimer.inst = s.inst := by unfold St.stopTimer; split <;> rfl
theorem stopTimer_live (s : St) : s.stopTimer.live = s.live := by unfold St.stopTimer; split <;> rfl
theorem stopTimer_timer (s : St) : s.stopTimer.timer = none := by
  unfold St.stopTimer; split
  · rfl
  · rename_i h; simpa using h
theorem stopTimer_closed (s : St) : s.stopTimer.closedByServer = s.closedByServer := by unfold St.stopTimer; split <;> rfl
theorem stopTimer_rpc (s : St) : s.stopTimer.rpc = s.rpc := by unfold St.stopTimer; split <;> rfl
theorem stopTimer_closers (s : St) : s.stopTimer.closers = s.closers := by unfold St.stopTimer; split <;> rfl
theorem stopTimer_closeAt (s : St) : s.stopTimer.closeAt = s.closeAt := by unfold St.stopTimer; split <;> rfl
theorem stopTimer_now (s : St) : s.stopTimer.now = s.now := by unfold St.stopTimer; split <;> rfl
theorem inv_lockWait (s : St) (w : Who) (r : List Instr) (h : Inv s) : Inv (s.lockWait w r) := inv_congr s _ h rfl rfl rfl rfl rfl rfl rfl
theorem inv_closeTransport (s : St) (h : Inv s) : Inv s.closeTransport := by
  unfold St.closeTransport; split
  · exact h
  · simp only []
    split
    · exact inv_releaseWriter _ (inv_emit _ _ (inv_congr s _ h rfl rfl rfl rfl rfl rfl rfl))
    · exact inv_emit _ _ (inv_congr s _ h rfl rfl rfl rfl rfl rfl rfl)
theorem inv_stopTimer (s : St) (h : Inv s) : Inv s.stopTimer := by
  unfold St.stopTimer; split
  · exact inv_like s _ h h.inst (fun j hj => ⟨hj, id⟩) (Or.inr rfl) rfl rfl rfl (fun _ hj => hj) (fun _ hj => Or.inl hj) rfl
  · exact h
theorem inv_armTimer (s : St) (h : Inv s) (hb : s.busy = false) : Inv s.armTimer :=
  ⟨h.inst, fun _ => hb, by intro d hd; simp [St.armTimer, St.emit, Cfg.wait_eq] at hd ⊢; omega, h.lv,
   by intro d hd; simp [St.armTimer, St.emit, Cfg.wait_eq] at hd ⊢; omega,
   by intro d hd; simp [St.armTimer, St.emit]⟩

theorem inv_setInst (s : St) (i : Nat) (x : Inst) (h : Inv s) (hx : IOK x) (hb : x.busy = true → (s.inst i).busy = true)
    (hcl : (s.inst i).closed = true → x.closed = true) : Inv (s.setInst i x) := by
  refine inv_like s _ h ?_ ?_ (Or.inl rfl) rfl rfl rfl ?_ (fun _ hj => Or.inl hj) rfl
  rotate_left 2
  · intro j hj; simp only [St.setInst, upd]; split
    · rename_i e; subst e; exact hcl hj
    · exact hj
  · intro j; simp only [St.setInst, upd]; split
    · exact hx
    · exact h.inst j
  · intro j hj; refine ⟨hj, ?_⟩
    simp only [St.setInst, upd]; split
    · rename_i e; subst e; exact hb
    · exact id

theorem inv_erase (s : St) (i : Nat) (h : Inv s) (hc : (s.inst i).closed = true) : Inv { s with live := s.live.erase i } :=
  inv_like s _ h h.inst (fun j hj => ⟨List.mem_of_mem_erase hj, id⟩) (Or.inl rfl) rfl rfl rfl (fun _ hj => hj)
    (by intro j hj
        by_cases e : j = i
        · subst e; exact Or.inr hc
        · exact Or.inl ((List.mem_erase_of_ne e).2 hj)) rfl

theorem busy_of_closed (x : Inst) (h : x.closed = true) : x.busy = false := by simp [Inst.busy, h]

theorem offer_busy (x : Inst) (cap : Nat) (w : Who) (m : QMsg) : (x.offer cap w m).1.busy = x.busy := by
  obtain ⟨e1, e2, e3, e4, e5, e6, e7, e8⟩ := offer_same x cap w m
  simp [Inst.busy, e1, e2, e4, e7]

theorem inv_offer_data (s : St) (w : Who) (i : Nat) (m : DMsg) (h : Inv s) (hc : (s.inst i).closed = false) :
    Inv (offer s w i m.toQ).1 := by
  unfold offer
  exact inv_emit _ _ (inv_setInst s i _ h (iok_offer_data _ _ w m (h.inst i) hc) (by rw [offer_busy]; exact id)
    (by rw [(offer_same _ _ _ _).1]; exact id))

@[simp] theorem upd_same (f : Nat → Inst) (i : Nat) (v : Inst) : upd f i v i = v := by simp [upd]
@[simp] theorem upd_upd (f : Nat → Inst) (i : Nat) (a b : Inst) : upd (upd f i a) i b = upd f i b := by
  funext j; simp only [upd]; split <;> rfl

theorem inv_upd_inst (s s' : St) (i : Nat) (x : Inst) (h : Inv s) (hx : IOK x)
    (hb : x.busy = true → (s.inst i).busy = true)
    (e1 : s'.inst = upd s.inst i x) (e2 : ∀ j, j ∈ s'.live → j ∈ s.live) (e3 : s'.timer = s.timer ∨ s'.timer = none)
    (e4 : s'.armedAt = s.armedAt) (e5 : s'.cfg = s.cfg) (e6 : s'.n = s.n) (hcl : (s.inst i).closed = true → x.closed = true)
    (e7 : ∀ j, j ∈ s.live → j ∈ s'.live ∨ (j = i ∧ x.closed = true)) (e8 : s'.now = s.now) : Inv s' := by
  refine inv_like s s' h ?_ ?_ e3 e4 e5 e6 ?_ ?_ e8
  rotate_left 2
  · intro j hj; rw [e1]; simp only [upd]; split
    · rename_i e; subst e; exact hcl hj
    · exact hj
  · intro j hj
    rcases e7 j hj with a | ⟨b, c⟩
    · exact Or.inl a
    · subst b; right; rw [e1]; simp [upd, c]
  · intro j; rw [e1]; simp only [upd]; split
    · exact hx
    · exact h.inst j
  · intro j hj; refine ⟨e2 j hj, ?_⟩
    rw [e1]; simp only [upd]; split
    · rename_i e; subst e; exact hb
    · exact id

theorem inv_closeStreamP (s : St) (w : Who) (i : Nat) (pop : Bool) (h : Inv s) : Inv (closeStreamP s w i pop).1 := by
  unfold closeStreamP
  split
  · exact h
  · simp only []
    split
    · rename_i hg
      have hc : (s.inst i).closed = true := by simp only [Bool.and_eq_true] at hg; exact hg.2
      cases pop
      · exact inv_congr s _ h rfl rfl rfl rfl rfl rfl rfl
      · exact inv_erase s i h hc
    · rename_i hg
      have hc : (s.inst i).closed = false := by
        simp only [Inst.handleGuard] at hg
        cases hk : (s.inst i).kind <;> simp [hk, httpHandleClosedGuard, wsHandleClosedGuard] at hg <;> simpa using hg
      have hm := iok_streamClosed (s.inst i) s.cfg.cap w (h.inst i) hc
      obtain ⟨m1, _⟩ := markStreamClosed_fields (s.inst i)
      have he : ∀ j, j ∈ s.live → j ∈ (if pop = true then s.live.erase i else s.live) ∨ (j = i ∧ True) := by
        intro j hj
        by_cases e : j = i
        · exact Or.inr ⟨e, trivial⟩
        · left; split
          · exact (List.mem_erase_of_ne e).2 hj
          · exact hj
      have hsub : ∀ j, j ∈ (if pop = true then s.live.erase i else s.live) → j ∈ s.live := by
        intro j hj; split at hj
        · exact List.mem_of_mem_erase hj
        · exact hj
      split
      · rename_i ha
        rw [if_pos ha] at hm
        have hcl' : ((s.inst i).markStreamClosed.offer s.cfg.cap w .disconnect).1.closed = true := by
          rw [(offer_same _ _ _ _).1]; exact m1
        refine inv_upd_inst s _ i _ h hm ?_ ?_ ?_ (Or.inl ?_) ?_ ?_ ?_ (fun _ => hcl') ?_ ?_
        · intro hb
          rw [offer_busy, busy_of_closed _ m1] at hb; cases hb
        · simp [offer, St.setInst, St.emit]
        · intro j hj; simp only [offer, St.setInst, St.emit] at hj; exact hsub j hj
        · simp [offer, St.setInst, St.emit]
        · simp [offer, St.setInst, St.emit]
        · simp [offer, St.setInst, St.emit]
        · simp [offer, St.setInst, St.emit]
        · intro j hj
          rcases he j hj with a | ⟨b, _⟩
          · left; simpa only [offer, St.setInst, St.emit] using a
          · exact Or.inr ⟨b, hcl'⟩
        · simp [offer, St.setInst, St.emit]
      · rename_i ha
        rw [if_neg ha] at hm
        refine inv_upd_inst s _ i _ h hm ?_ ?_ ?_ (Or.inl ?_) ?_ ?_ ?_ (fun _ => m1) ?_ ?_
        · intro hb; rw [busy_of_closed _ m1] at hb; cases hb
        · simp [St.setInst, St.emit]
        · intro j hj; simp only [St.setInst, St.emit] at hj; exact hsub j hj
        · simp [St.setInst, St.emit]
        · simp [St.setInst, St.emit]
        · simp [St.setInst, St.emit]
        · simp [St.setInst, St.emit]
        · intro j hj
          rcases he j hj with a | ⟨b, _⟩
          · left; simpa only [St.setInst, St.emit] using a
          · exact Or.inr ⟨b, m1⟩
        · simp [St.setInst, St.emit]

theorem iok_closeAfterError (x : Inst) (cap : Nat) (w : Who) (h : IOK x) (hc : x.closed = false) (hk : x.kind = .ws) :
    IOK (if x.hasApp then ({ x with closed := true }.offer cap w .disconnect).1 else { x with closed := true }) := by
  have h0 : x.discPuts = 0 := by
    by_cases hz : x.discPuts = 0
    · exact hz
    · have h1 : x.discPuts = 1 := by have := h.d1; omega
      have := h.d3 h1; simp_all
  split
  · exact iok_offer_disc _ cap w h0 h.d2 rfl h.fifo (h.d5 h0) (by simp [hk]) (by simp [hk])
  · rename_i hna
    exact ⟨h.d1, h.d2, fun _ => rfl, fun _ ha => absurd ha hna, h.fifo, h.d5, h.d6, by simp [hk], by simp [hk], by simp [hk]⟩

theorem inv_closeAfterErrorP (s : St) (w : Who) (i : Nat) (h : Inv s) : Inv (closeAfterErrorP s w i).1 := by
  unfold closeAfterErrorP
  simp only []
  split
  · exact h
  · rename_i hg
    simp only [Bool.or_eq_true, not_or, Bool.not_eq_true, bne_iff_ne, ne_eq, Decidable.not_not] at hg
    have hc : (s.inst i).closed = false := hg.1
    have hk : (s.inst i).kind = .ws := by simpa using hg.2
    have hm := iok_closeAfterError (s.inst i) s.cfg.cap w (h.inst i) hc hk
    split
    · rename_i ha
      rw [if_pos ha] at hm
      refine inv_upd_inst s _ i _ h hm ?_ ?_ ?_ (Or.inl ?_) ?_ ?_ ?_ (fun _ => by rw [(offer_same _ _ _ _).1]) ?_ ?_
      · intro hb; rw [offer_busy, busy_of_closed _ rfl] at hb; cases hb
      · simp [offer, St.setInst, St.emit]
      · intro j hj; simpa [offer, St.setInst, St.emit] using hj
      · simp [offer, St.setInst, St.emit]
      · simp [offer, St.setInst, St.emit]
      · simp [offer, St.setInst, St.emit]
      · simp [offer, St.setInst, St.emit]
      · intro j hj; left; simpa [offer, St.setInst, St.emit] using hj
      · simp [offer, St.setInst, St.emit]
    · rename_i ha
      rw [if_neg ha] at hm
      exact inv_setInst _ i _ h hm (by intro hb; rw [busy_of_closed _ rfl] at hb; cases hb) (fun _ => rfl)

theorem iok_of_fields (x y : Inst) (h : IOK x) (e1 : y.discPuts = x.discPuts) (e2 : y.afterDisc = x.afterDisc) (e3 : y.closed = x.closed)
    (e4 : y.hasApp = x.hasApp) (e5 : y.handed = x.handed) (e6 : y.recvd = x.recvd) (e7 : y.q = x.q) (e8 : y.waiting = x.waiting)
    (e9 : y.kind = x.kind) (e10 : y.access = x.access) (e11 : y.hst = x.hst) (e12 : y.inflight = x.inflight) : IOK y :=
  ⟨by rw [e1]; exact h.d1, by rw [e2]; exact h.d2, by rw [e1, e3]; exact h.d3, by rw [e1, e3, e4]; exact h.d4,
   by rw [e5, e6, e7, e8, e12]; exact h.fifo, by rw [e1, e5]; exact h.d5, by rw [e1, e5]; exact h.d6,
   by rw [e9, e10]; exact h.a1, by rw [e9, e10, e3, e11]; exact h.a2, by rw [e9, e10, e3, e11]; exact h.a3⟩

theorem idle_not_busy (x : Inst) (h : x.idle = true) : x.busy = false := by
  unfold Inst.idle at h
  cases hk : x.kind <;> simp only [hk] at h
  · simp [httpStreamIdle] at h
  · cases hw : x.wst <;> simp [hw, wsIdleStates] at h <;> simp [Inst.busy, hk, hw]

theorem all_idle_not_busy (s : St) (h : s.live.all (fun j => (s.inst j).idle) = true) : s.busy = false := by
  simp only [St.busy, List.any_eq_false]
  simp only [List.all_eq_true] at h
  intro j hj; simp [idle_not_busy _ (h j hj)]

theorem inv_idleUpdate (s : St) (h : Inv s) :
    Inv (if s.live.all (fun j => (s.inst j).idle) then s.armTimer else s.stopTimer) := by
  split
  · rename_i hi; exact inv_armTimer s h (all_idle_not_busy s hi)
  · exact inv_stopTimer s h

theorem inv_afterCloseP (s : St) (h : Inv s) : Inv (afterCloseP s).1 := by
  unfold afterCloseP
  split
  · split
    · rename_i hc
      simp only [Bool.and_eq_true, List.isEmpty_iff] at hc
      have hl : s.live = [] := hc.2
      split
      · refine inv_armTimer _ (inv_release _ (inv_congr s _ h rfl rfl rfl rfl rfl rfl rfl)) ?_
        have : ({ s with our := .idle, their := .idle } : St).release.live = [] := by
          unfold St.release; split <;> simp [hl]
        simp [St.busy, this]
      · exact inv_release _ (inv_congr s _ h rfl rfl rfl rfl rfl rfl rfl)
    · exact inv_release _ (inv_congr s _ h rfl rfl rfl rfl rfl rfl rfl)
  · exact h

theorem inv_markExited (s : St) (i : Nat) (h : Inv s) : Inv ((s.setInst i { (s.inst i) with exited := true }).emit [.exited i]) :=
  inv_emit _ _ (inv_setInst s i _ h (iok_of_fields (s.inst i) _ (h.inst i) rfl rfl rfl rfl rfl rfl rfl rfl rfl rfl rfl rfl) (by simp [Inst.busy]) (by simp))

theorem inv_httpEnd_closed (s : St) (i : Nat) (h : Inv s) (hh : (s.inst i).hst ≠ .closed) (hk : (s.inst i).kind = .http)
    (hc : (s.inst i).closed = true) : Inv (s.setInst i { (s.inst i) with hst := .closed, respEnded := true }) := by
  have hI := h.inst i
  refine inv_setInst s i _ h ?_ (by simp [Inst.busy, hc]) (by simp)
  exact ⟨hI.d1, hI.d2, hI.d3, hI.d4, hI.fifo, hI.d5, hI.d6, hI.a1, fun hk' _ => hI.a2 hk' (Or.inl hc), fun _ _ => Or.inl hc⟩

theorem inv_httpEnd_open (s : St) (i : Nat) (st : Nat) (h : Inv s) (hh : (s.inst i).hst ≠ .closed) (hk : (s.inst i).kind = .http)
    (hc : (s.inst i).closed = false) :
    Inv ((s.setInst i { (s.inst i) with hst := .closed, respEnded := true, access := (s.inst i).access + 1 }).emit [.access i (some st)]) := by
  have hI := h.inst i
  have acc0 : (s.inst i).access = 0 := by
    have := hI.a1 hk
    by_cases hz : (s.inst i).access = 0
    · exact hz
    · have h1 : (s.inst i).access = 1 := by omega
      rcases hI.a3 hk h1 with c | c
      · simp_all
      · exact absurd c hh
  refine inv_emit _ _ (inv_setInst s i _ h ?_ (by simp [Inst.busy, hk]) (by simp))
  exact ⟨hI.d1, hI.d2, hI.d3, hI.d4, hI.fifo, hI.d5, hI.d6, by simp [acc0], by simp [acc0], by simp⟩

theorem inv_wsAccess (s : St) (i : Nat) (st : Option Nat) (h : Inv s) (hk : (s.inst i).kind = .ws) :
    Inv ((s.setInst i { (s.inst i) with access := (s.inst i).access + 1 }).emit [.access i st]) := by
  have hI := h.inst i
  refine inv_emit _ _ (inv_setInst s i _ h ?_ (by simp [Inst.busy]) (by simp))
  exact ⟨hI.d1, hI.d2, hI.d3, hI.d4, hI.fifo, hI.d5, hI.d6, by simp [hk], by simp [hk], by simp [hk]⟩

theorem inv_setHResponse (s : St) (i : Nat) (h : Inv s) (hr : (s.inst i).hst = .request) :
    Inv (s.setInst i { (s.inst i) with hst := .response }) := by
  have hI := h.inst i
  refine inv_setInst s i _ h ?_ (by simp [Inst.busy]) (by simp)
  exact ⟨hI.d1, hI.d2, hI.d3, hI.d4, hI.fifo, hI.d5, hI.d6, hI.a1,
    fun hk hc => hI.a2 hk (by rcases hc with c | c; exact Or.inl c; simp at c),
    fun hk ha => by rcases hI.a3 hk ha with c | c; exact Or.inl c; simp [hr] at c⟩

theorem inv_setW (s : St) (i : Nat) (v : WSt) (h : Inv s) (hn : ¬ ((s.inst i).wst = .closed ∨ (s.inst i).wst = .httpClosed)) :
    Inv (s.setInst i { (s.inst i) with wst := v }) := by
  refine inv_setInst s i _ h (iok_of_fields (s.inst i) _ (h.inst i) rfl rfl rfl rfl rfl rfl rfl rfl rfl rfl rfl rfl) ?_ (by simp)
  intro hb
  simp only [Inst.busy] at hb ⊢
  cases hk : (s.inst i).kind <;> simp only [hk] at hb ⊢
  · exact hb
  · cases hw : (s.inst i).wst <;> simp_all

theorem inv_setAccepted (s : St) (i : Nat) (h : Inv s) : Inv (s.setInst i { (s.inst i) with accepted := true }) :=
  inv_setInst s i _ h (iok_of_fields (s.inst i) _ (h.inst i) rfl rfl rfl rfl rfl rfl rfl rfl rfl rfl rfl rfl) (by simp [Inst.busy]) (by simp)

theorem inv_markClosed (s : St) (i : Nat) (h : Inv s) (hg : ¬ ((s.inst i).hasApp = true ∨ ((s.inst i).kind = .http ∧ (s.inst i).hst ≠ .closed))) :
    Inv (s.setInst i { (s.inst i) with closed := true }) := by
  have hI := h.inst i
  have hna : (s.inst i).hasApp = false := by
    cases hx : (s.inst i).hasApp
    · rfl
    · exact absurd (Or.inl hx) hg
  have hh : (s.inst i).kind = .http → (s.inst i).hst = .closed := by
    intro hk; by_cases hc : (s.inst i).hst = .closed
    · exact hc
    · exact absurd (Or.inr ⟨hk, hc⟩) hg
  have h0 : (s.inst i).discPuts = 0 ∨ (s.inst i).closed = true := by
    by_cases hz : (s.inst i).discPuts = 0
    · exact Or.inl hz
    · have h1 : (s.inst i).discPuts = 1 := by have := hI.d1; omega
      exact Or.inr (hI.d3 h1)
  refine inv_setInst s i _ h ?_ (by intro hb; rw [busy_of_closed _ rfl] at hb; cases hb) (fun _ => rfl)
  exact ⟨hI.d1, hI.d2, fun _ => rfl, fun _ ha => by simp [hna] at ha, hI.fifo, hI.d5, hI.d6, hI.a1,
    fun hk _ => hI.a2 hk (Or.inr (hh hk)), fun _ _ => Or.inl rfl⟩

/-- every instruction of every program preserves the invariant, from any state satisfying it -/
theorem exec_inv : ∀ (f : Nat) (s : St) (w : Who) (p : List Instr), Inv s → Inv (exec f s w p) := by
  intro f
  induction f with
  | zero => intro s w p h; simp only [exec]; exact inv_congr s _ h rfl rfl rfl rfl rfl rfl rfl
  | succ f ih =>
    intro s w p h
    cases p with
    | nil => simp only [exec]; exact h
    | cons ins rest =>
      cases ins with
      | dataPut i m =>
        simp only [exec]
        split
        · exact ih _ _ _ h
        · rename_i hg
          have hc : (s.inst i).closed = false := by
            simp only [Inst.handleGuard] at hg
            cases hk : (s.inst i).kind <;> simp [hk, httpHandleClosedGuard, wsHandleClosedGuard] at hg <;> simpa using hg
          have h1 := inv_offer_data s w i m h hc
          split
          · exact inv_block _ _ _ h1
          · split
            · exact inv_yieldTo _ _ _ h1
            · exact ih _ _ _ h1
      | closeStream i =>
        simp only [exec]
        have h1 := inv_closeStreamP s w i (s.cfg.proto == .h2 && h2CloseStreamPopsFirst) h
        split
        · exact inv_block _ _ _ h1
        · split
          · exact inv_yieldTo _ _ _ h1
          · exact ih _ _ _ h1
      | h2StreamClosed i =>
        simp only [exec]
        split
        · exact ih _ _ _ h
        · exact ih _ _ _ h
      | forget i =>
        simp only [exec]
        refine ih _ _ _ ?_
        split
        · rename_i hc
          simp only [Bool.and_eq_true] at hc
          exact inv_erase s i h hc.1
        · exact h
      | closeCur =>
        simp only [exec]
        split
        · exact ih _ _ _ h
        · exact ih _ _ _ h
      | closeAfterError i =>
        simp only [exec]
        have h1 := inv_closeAfterErrorP s w i h
        split
        · exact inv_block _ _ _ h1
        · exact ih _ _ _ h1
      | handleClosed =>
        simp only [exec]
        split
        · exact ih _ _ _ h
        · exact ih _ _ _ (inv_congr s _ h rfl rfl rfl rfl rfl rfl rfl)
      | canReadSet => simp only [exec]; exact ih _ _ _ (inv_release s h)
      | yield => simp only [exec]; exact inv_congr s _ h rfl rfl rfl rfl rfl rfl rfl
      | drain i =>
        simp only [exec]
        split
        · exact inv_congr s _ h rfl rfl rfl rfl rfl rfl rfl
        · exact inv_congr s _ h rfl rfl rfl rfl rfl rfl rfl
      | h2buffer i =>
        simp only [exec]
        refine ih _ _ _ ?_
        split
        · exact inv_setInst s i _ h (iok_of_fields (s.inst i) _ (h.inst i) rfl rfl rfl rfl rfl rfl rfl rfl rfl rfl rfl rfl) (by simp [Inst.busy]) (by simp)
        · exact h
      | releaseDrains only => simp only [exec]; exact ih _ _ _ (inv_congr s _ h rfl rfl rfl rfl rfl rfl rfl)
      | write =>
        simp only [exec]
        split
        · exact inv_lockWait _ _ _ h
        · split
          · exact inv_congr s _ h rfl rfl rfl rfl rfl rfl rfl
          · exact ih _ _ _ h
      | writeNow =>
        simp only [exec]
        split
        · exact inv_lockWait _ _ _ h
        · split
          · exact ih _ _ _ (inv_emit _ _ h)
          · split
            · exact ih _ _ _ (inv_emit _ _ (inv_congr s _ h rfl rfl rfl rfl rfl rfl rfl))
            · split
              · exact inv_congr s _ h rfl rfl rfl rfl rfl rfl rfl
              · exact ih _ _ _ (inv_emit _ _ (inv_congr s _ h rfl rfl rfl rfl rfl rfl rfl))
      | writeWait =>
        simp only [exec]
        split
        · exact ih _ _ _ (inv_emit _ _ h)
        · exact ih _ _ _ h
      | wrapperIdle =>
        -- the extracted order: `Updated(idle=True)` is sent while no stream exists
        simp only [exec, priorIdleBeforeData, if_true]
        refine ih _ _ _ ?_
        split
        · rename_i hl
          exact inv_armTimer s h (by simp only [List.isEmpty_iff] at hl; simp [St.busy, hl])
        · exact h
      | serverClose =>
        simp only [exec]
        split
        · exact inv_congr s _ h rfl rfl rfl rfl rfl rfl rfl
        · exact ih _ _ _ h
      | serverCloseNow =>
        simp only [exec]
        split
        · exact h
        have h1 := inv_closeTransport s h
        have h2 : Inv (if s.cfg.closeStops then s.closeTransport.stopTimer else s.closeTransport) := by
          split
          · exact inv_stopTimer _ h1
          · exact h1
        split
        · split
          · exact inv_congr _ _ h2 rfl rfl rfl rfl rfl rfl rfl
          · exact ih _ _ _ h2
        · exact ih _ _ _ h2
      | transportClose => simp only [exec]; exact ih _ _ _ (inv_closeTransport s h)
      | afterClose => simp only [exec]; exact ih _ _ _ (inv_afterCloseP s h)
      | idleUpdate => simp only [exec]; exact ih _ _ _ (inv_idleUpdate s h)
      | access i st =>
        simp only [exec]
        split
        · rename_i hk; exact ih _ _ _ (inv_wsAccess s i st h (by simpa using hk))
        · exact ih _ _ _ h
      | stateClosedEarly i err =>
        simp only [exec]
        cases err <;> simp only [httpSendsBeforeStateClosedError, httpSendsBeforeStateClosedClosed, if_true, Bool.false_eq_true, if_false] <;> exact ih _ _ _ h
      | httpEnd i st =>
        simp only [exec, httpSendsBeforeStateClosedError, httpSendsBeforeStateClosedClosed, Bool.and_self, Bool.not_true, Bool.not_false, Bool.and_true]
        split
        · exact ih _ _ _ h
        · rename_i hg
          simp only [Bool.or_eq_true, not_or, Bool.not_eq_true, beq_eq_false_iff_ne, ne_eq, bne_iff_ne, Decidable.not_not] at hg
          have hk : (s.inst i).kind = .http := by
            cases hx : (s.inst i).kind
            · rfl
            · have := hg.2; simp [hx] at this
          split
          · rename_i hc
            have hc' : (s.inst i).closed = true := by simpa [httpLogGuardedClosed, httpLogGuardedError] using hc
            exact ih _ _ _ (inv_httpEnd_closed s i h hg.1 hk hc')
          · rename_i hc
            have hc' : (s.inst i).closed = false := by simpa [httpLogGuardedClosed, httpLogGuardedError] using hc
            exact ih _ _ _ (inv_httpEnd_open s i st h hg.1 hk hc')
      | setHResponse i =>
        simp only [exec]
        split
        · rename_i hr; exact ih _ _ _ (inv_setHResponse s i h (by simpa using hr))
        · exact ih _ _ _ h
      | setW i v =>
        simp only [exec]
        split
        · exact ih _ _ _ h
        · rename_i hn; exact ih _ _ _ (inv_setW s i v h (by simpa using hn))
      | setAccepted i => simp only [exec]; exact ih _ _ _ (inv_setAccepted s i h)
      | markClosed i =>
        simp only [exec]
        split
        · exact ih _ _ _ h
        · rename_i hn; exact ih _ _ _ (inv_markClosed s i h (by simpa using hn))
      | libResp c => simp only [exec]; exact ih _ _ _ (inv_congr s _ h rfl rfl rfl rfl rfl rfl rfl)
      | libEom => simp only [exec]; exact ih _ _ _ (inv_congr s _ h rfl rfl rfl rfl rfl rfl rfl)
      | sendRet i ok => simp only [exec]; exact ih _ _ _ (inv_emit _ _ h)
      | markExited i => simp only [exec]; exact ih _ _ _ (inv_markExited s i h)
      | spawnCloser i => simp only [exec]; exact ih _ _ _ (inv_congr s _ h rfl rfl rfl rfl rfl rfl rfl)
      | resumeLoop => simp only [exec]; exact ih _ _ _ (inv_congr s _ h rfl rfl rfl rfl rfl rfl rfl)
      | loopEnd =>
        simp only [exec, priorIdleBeforeData, Bool.not_true, Bool.false_and, Bool.false_eq_true, if_false]
        split
        · exact ih _ _ _ h
        · exact ih _ _ _ (inv_congr s _ h rfl rfl rfl rfl rfl rfl rfl)
      | readerEnd =>
        simp only [exec]
        refine ih _ _ _ ?_
        split
        · exact inv_congr _ _ (inv_stopTimer s h) rfl rfl rfl rfl rfl rfl rfl
        · exact inv_congr s _ h rfl rfl rfl rfl rfl rfl rfl
      | timerEnd => simp only [exec]; exact ih _ _ _ h

theorem run_inv' (s : St) (w : Who) (p : List Instr) (h : Inv s) : Inv (s.run w p) := exec_inv _ s w p h

theorem inv_newInst (s : St) (x : Inst) (h : Inv s) (ht : s.timer = none) (hx : IOK x) : Inv (s.newInst x) := by
  refine ⟨?_, ?_, ?_, ?_, ?_, ?_⟩
  rotate_left 5
  · intro d hd; simp [St.newInst, ht] at hd
  rotate_left 4
  · intro d hd; simp [St.newInst, ht] at hd
  rotate_left 3
  · intro i hi
    simp only [St.newInst] at hi ⊢
    by_cases e : i = s.n
    · right; simp [e]
    · have hi' : i < s.n := by omega
      simp only [upd, e, if_false]
      rcases h.lv i hi' with c | m
      · exact Or.inl c
      · right; simp [m]
  · intro j; simp only [St.newInst, upd]; split
    · exact hx
    · exact h.inst j
  · intro ha; simp [St.newInst, ht] at ha
  · intro d hd; simp [St.newInst, ht] at hd

theorem inv_timer_none (s s' : St) (h : Inv s) (e1 : s'.inst = s.inst) (e2 : s'.live = s.live) (e3 : s'.timer = none) (e4 : s'.n = s.n) : Inv s' :=
  ⟨by rw [e1]; exact h.inst, by intro ha; rw [e3] at ha; simp at ha, by intro d hd; rw [e3] at hd; simp at hd,
   by rw [e1, e2, e4]; exact h.lv, by intro d hd; rw [e3] at hd; simp at hd, by intro d hd; rw [e3] at hd; simp at hd⟩

theorem iok_recv (x : Inst) (m : QMsg) (q' : List QMsg) (h : IOK x) (hq : x.q = m :: q') (hn : x.inflight = none) :
    IOK { x with q := q', recvd := x.recvd ++ [m], waitingRecv := false, direct := false } :=
  ⟨h.d1, h.d2, h.d3, h.d4, by have := h.fifo; simp [hq, hn] at this; simp [this, hn], h.d5, h.d6, h.a1, h.a2, h.a3⟩

theorem iok_recv_wake (x : Inst) (m m' : QMsg) (q' : List QMsg) (w : Who) (rest : List (Who × QMsg)) (h : IOK x) (hq : x.q = m :: q')
    (hw : x.waiting = (w, m') :: rest) (hn : x.inflight = none) :
    IOK { x with q := q' ++ [m'], recvd := x.recvd ++ [m], waiting := rest, waitingRecv := false, direct := false } :=
  ⟨h.d1, h.d2, h.d3, h.d4, by have := h.fifo; simp [hq, hw, hn] at this; simp [this, hn], h.d5, h.d6, h.a1, h.a2, h.a3⟩

theorem iok_call_take (x : Inst) (m : QMsg) (q' : List QMsg) (h : IOK x) (hq : x.q = m :: q') (hn : x.inflight = none) :
    IOK { x with q := q', inflight := some m, direct := false } :=
  ⟨h.d1, h.d2, h.d3, h.d4, by have := h.fifo; simp [hq, hn] at this; simp [this], h.d5, h.d6, h.a1, h.a2, h.a3⟩

theorem iok_call_take_wake (x : Inst) (m m' : QMsg) (q' : List QMsg) (w : Who) (rest : List (Who × QMsg)) (h : IOK x) (hq : x.q = m :: q')
    (hw : x.waiting = (w, m') :: rest) (hn : x.inflight = none) :
    IOK { x with q := q' ++ [m'], inflight := some m, direct := false, waiting := rest } :=
  ⟨h.d1, h.d2, h.d3, h.d4, by have := h.fifo; simp [hq, hw, hn] at this; simp [this], h.d5, h.d6, h.a1, h.a2, h.a3⟩

theorem iok_return (x : Inst) (m : QMsg) (h : IOK x) (hi : x.inflight = some m) :
    IOK { x with inflight := none, recvd := x.recvd ++ [m] } :=
  ⟨h.d1, h.d2, h.d3, h.d4, by have := h.fifo; simp [hi] at this; simp [this], h.d5, h.d6, h.a1, h.a2, h.a3⟩

theorem step_inv (s s' : St) (o : Op) (h : Inv s) (hs : step s o = some s') : Inv s' := by
  cases o with
  | read => simp only [step] at hs; split at hs <;> simp at hs; subst hs; exact inv_congr s _ h rfl rfl rfl rfl rfl rfl rfl
  | readEof => simp only [step] at hs; split at hs <;> simp at hs; subst hs; exact inv_congr s _ h rfl rfl rfl rfl rfl rfl rfl
  | readReset =>
    simp only [step] at hs; split at hs <;> simp at hs; subst hs
    exact run_inv' _ _ _ (inv_congr s _ h rfl rfl rfl rfl rfl rfl rfl)
  | head hd =>
    simp only [step] at hs
    split at hs
    · simp at hs
    · split at hs
      · split at hs
        · simp at hs
        · have hst := inv_stopTimer s h
          have ht : s.stopTimer.timer = none := by unfold St.stopTimer; split <;> simp_all [St.emit]
          have hb : Inv { s.stopTimer with our := .sendResp, their := .recv, keepAlive := hd.keepAlive, reqComplete := false, wsMode := hd.kind == Kind.ws } :=
            inv_congr _ _ hst rfl rfl rfl rfl rfl rfl rfl
          split at hs
          · split at hs <;> simp at hs <;> subst hs
            · exact inv_emit _ _ (inv_newInst _ _ hb ht (iok_fresh _ _ _))
            · exact run_inv' _ _ _ (inv_newInst _ _ hb ht (iok_fresh _ _ _))
          · split at hs <;> simp at hs <;> subst hs
            · exact run_inv' _ _ _ (inv_emit _ _ (inv_newInst _ _ hb ht (iok_fresh _ _ _)))
            · exact run_inv' _ _ _ (inv_newInst _ _ hb ht (iok_fresh _ _ _))
      · split at hs
        · simp at hs
        · split at hs
          · simp at hs; subst hs; exact h
          · have hst := inv_stopTimer s h
            have ht : s.stopTimer.timer = none := by unfold St.stopTimer; split <;> simp_all [St.emit]
            split at hs <;> simp at hs <;> subst hs
            · exact run_inv' _ _ _ (inv_emit _ _ (inv_newInst _ _ hst ht (iok_fresh _ _ _)))
            · exact run_inv' _ _ _ (inv_newInst _ _ hst ht (iok_fresh _ _ _))
  | body =>
    simp only [step] at hs; split at hs
    · simp at hs
    · split at hs <;> simp at hs <;> subst hs <;> exact run_inv' _ _ _ h
  | eom =>
    simp only [step] at hs; split at hs
    · simp at hs
    · split at hs <;> simp at hs <;> subst hs <;> exact run_inv' _ _ _ (inv_congr s _ h rfl rfl rfl rfl rfl rfl rfl)
  | h2body i => simp only [step] at hs; split at hs <;> simp at hs; subst hs; exact run_inv' _ _ _ h
  | h2eom i => simp only [step] at hs; split at hs <;> simp at hs; subst hs; exact run_inv' _ _ _ h
  | h2rst i =>
    simp only [step] at hs; split at hs <;> simp at hs; subst hs
    exact run_inv' _ _ _ (inv_setInst s i _ h (iok_of_fields (s.inst i) _ (h.inst i) rfl rfl rfl rfl rfl rfl rfl rfl rfl rfl rfl rfl) (by simp [Inst.busy]) (by simp))
  | h2goaway => simp only [step] at hs; split at hs <;> simp at hs; subst hs; exact run_inv' _ _ _ h
  | h2flush => simp only [step] at hs; split at hs <;> simp at hs; subst hs; exact run_inv' _ _ _ h
  | paused =>
    simp only [step] at hs; split at hs
    · simp at hs
    · split at hs <;> simp at hs <;> subst hs
      · exact run_inv' _ _ _ h
      · exact inv_congr s _ h rfl rfl rfl rfl rfl rfl rfl
  | needData =>
    simp only [step] at hs; split at hs
    · simp at hs; subst hs; exact run_inv' _ _ _ h
    · split at hs <;> simp at hs; subst hs; exact h
  | connClosed => simp only [step] at hs; split at hs <;> simp at hs; subst hs; exact run_inv' _ _ _ (inv_congr s _ h rfl rfl rfl rfl rfl rfl rfl)
  | protoError =>
    simp only [step] at hs; split at hs
    · simp at hs
    · split at hs
      · split at hs
        · simp at hs; subst hs; exact run_inv' _ _ _ (inv_congr s _ h rfl rfl rfl rfl rfl rfl rfl)
        · split at hs <;> simp at hs <;> subst hs <;> exact run_inv' _ _ _ (inv_congr s _ h rfl rfl rfl rfl rfl rfl rfl)
      · simp at hs; subst hs; exact run_inv' _ _ _ h
  | wsMsg =>
    simp only [step] at hs; split at hs
    · simp at hs
    · split at hs
      · split at hs <;> simp at hs; subst hs; exact run_inv' _ _ _ h
      · simp at hs
  | wsPing =>
    simp only [step] at hs; split at hs
    · simp at hs
    · split at hs
      · split at hs <;> simp at hs; subst hs; exact run_inv' _ _ _ h
      · simp at hs
  | wsPeerClose =>
    simp only [step] at hs; split at hs
    · simp at hs
    · split at hs
      · split at hs <;> simp at hs; subst hs; exact run_inv' _ _ _ h
      · simp at hs
  | wsEarlyData =>
    simp only [step] at hs; split at hs
    · simp at hs
    · split at hs
      · split at hs
        · simp at hs
        · split at hs <;> simp at hs <;> subst hs
          · exact h
          · exact run_inv' _ _ _ h
      · simp at hs
  | appRecvCall i =>
    simp only [step] at hs
    split at hs
    · simp at hs
    · rename_i hg
      have hn : (s.inst i).inflight = none := by
        simp only [Bool.not_eq_true', Bool.not_eq_false, Bool.and_eq_true, Option.isNone_iff_eq_none] at hg
        exact hg.2
      have hI := h.inst i
      split at hs
      · simp at hs; subst hs
        exact inv_setInst s i _ h (iok_of_fields (s.inst i) _ hI rfl rfl rfl rfl rfl rfl rfl rfl rfl rfl rfl rfl) (by simp [Inst.busy]) (by simp)
      · rename_i m q' hq
        split at hs
        · simp at hs; subst hs
          exact inv_setInst s i _ h (iok_call_take _ m q' hI hq hn) (by simp [Inst.busy]) (by simp)
        · rename_i w m' rest hw
          have h2 : Inv (s.setInst i { (s.inst i) with q := q' ++ [m'], inflight := some m, direct := false, waiting := rest }) :=
            inv_setInst s i _ h (iok_call_take_wake _ m m' q' w rest hI hq hw hn) (by simp [Inst.busy]) (by simp)
          split at hs <;> simp at hs <;> subst hs
          · exact run_inv' _ _ _ (inv_congr _ _ h2 rfl rfl rfl rfl rfl rfl rfl)
          · exact h2
  | appRecv i =>
    simp only [step] at hs
    split at hs
    · simp at hs
    · have hI := h.inst i
      split at hs
      · rename_i m hi
        simp at hs; subst hs
        exact inv_emit _ _ (inv_setInst s i _ h (iok_return _ m hI hi) (by simp [Inst.busy]) (by simp))
      · rename_i hn
        split at hs
        · simp at hs
        · rename_i m q' hq
          split at hs
          · simp at hs; subst hs
            exact inv_emit _ _ (inv_setInst s i _ h (iok_recv _ m q' hI hq hn) (by simp [Inst.busy]) (by simp))
          · rename_i w m' rest hw
            have h2 : Inv (((s.setInst i { (s.inst i) with q := q', recvd := (s.inst i).recvd ++ [m], waitingRecv := false, direct := false }).emit [.recv i m]).setInst i
                { (((s.setInst i { (s.inst i) with q := q', recvd := (s.inst i).recvd ++ [m], waitingRecv := false, direct := false }).emit [.recv i m]).inst i) with q := q' ++ [m'], waiting := rest }) := by
              refine inv_upd_inst s _ i { (s.inst i) with q := q' ++ [m'], recvd := (s.inst i).recvd ++ [m], waiting := rest, waitingRecv := false, direct := false } h
                (iok_recv_wake _ m m' q' w rest hI hq hw hn) (by simp [Inst.busy]) ?_ ?_ (Or.inl ?_) ?_ ?_ ?_ (by simp) ?_ ?_
              · simp [St.setInst, St.emit]
              · intro j hj; simpa [St.setInst, St.emit] using hj
              · simp [St.setInst, St.emit]
              · simp [St.setInst, St.emit]
              · simp [St.setInst, St.emit]
              · simp [St.setInst, St.emit]
              · intro j hj; left; simpa [St.setInst, St.emit] using hj
              · simp [St.setInst, St.emit]
            split at hs <;> simp at hs <;> subst hs
            · exact run_inv' _ _ _ (inv_congr _ _ h2 rfl rfl rfl rfl rfl rfl rfl)
            · exact h2
  | appSend i m => simp only [step] at hs; split at hs <;> simp at hs; subst hs; exact run_inv' _ _ _ h
  | appExit i =>
    simp only [step] at hs; split at hs <;> simp at hs; subst hs
    exact run_inv' _ _ _ (inv_setInst s i _ h (iok_of_fields (s.inst i) _ (h.inst i) rfl rfl rfl rfl rfl rfl rfl rfl rfl rfl rfl rfl) (by simp [Inst.busy]) (by simp))
  | failWrites => simp only [step] at hs; simp at hs; subst hs; exact inv_releaseWriter _ (inv_congr s _ h rfl rfl rfl rfl rfl rfl rfl)
  | pauseWrites => simp only [step] at hs; simp at hs; subst hs; exact inv_congr s _ h rfl rfl rfl rfl rfl rfl rfl
  | resumeWrites => simp only [step] at hs; simp at hs; subst hs; exact inv_releaseWriter _ (inv_congr s _ h rfl rfl rfl rfl rfl rfl rfl)
  | h2prior =>
    simp only [step] at hs; split at hs <;> simp at hs; subst hs
    exact run_inv' _ _ _ (inv_congr _ _ (inv_stopTimer s h) rfl rfl rfl rfl rfl rfl rfl)
  | h2c =>
    simp only [step] at hs; split at hs <;> simp at hs; subst hs
    exact run_inv' _ _ _ (inv_congr _ _ (inv_stopTimer s h) rfl rfl rfl rfl rfl rfl rfl)
  | failAfter k => simp only [step] at hs; simp at hs; subst hs; exact inv_congr s _ h rfl rfl rfl rfl rfl rfl rfl
  | h2NoCredit => simp only [step] at hs; simp at hs; subst hs; exact inv_congr s _ h rfl rfl rfl rfl rfl rfl rfl
  | terminate => simp only [step] at hs; simp at hs; subst hs; exact inv_congr s _ h rfl rfl rfl rfl rfl rfl rfl
  | tick d =>
    simp only [step] at hs
    split at hs
    · rename_i dl hdl
      split at hs <;> simp at hs
      rename_i hg
      subst hs
      refine ⟨h.inst, h.armed, h.dl, h.lv, ?_, ?_⟩
      · intro d' hd'
        have : dl = d' := by simpa [hdl] using hd'
        subst this
        simp only [Bool.or_eq_true, not_or, Cfg.wait_eq, Option.isSome_some, Bool.true_and] at hg
        have := hg.2; simp at this; omega
      · intro d' hd'
        have := h.al d' hd'
        simp only [] at this ⊢; omega
    · rename_i hn
      simp at hs; subst hs
      exact ⟨h.inst, h.armed, h.dl, h.lv, by intro d' hd'; simp [hn] at hd', by intro d' hd'; simp [hn] at hd'⟩
  | timerFire =>
    simp only [step] at hs
    split at hs
    · split at hs <;> simp at hs; subst hs
      exact run_inv' _ _ _ (inv_timer_none s _ h rfl rfl rfl rfl)
    · simp at hs
  | closerRun i => simp only [step] at hs; split at hs <;> simp at hs; subst hs; exact run_inv' _ _ _ (inv_congr s _ h rfl rfl rfl rfl rfl rfl rfl)
  | readerSeesClose => simp only [step] at hs; split at hs <;> simp at hs; subst hs; exact run_inv' _ _ _ (inv_congr s _ h rfl rfl rfl rfl rfl rfl rfl)
  | resume w =>
    simp only [step] at hs
    split at hs
    · split at hs <;> simp at hs; subst hs
      exact run_inv' _ _ _ (inv_congr s _ h rfl rfl rfl rfl rfl rfl rfl)
    · simp at hs
  | handlerExit =>
    simp only [step] at hs; split at hs <;> simp at hs; subst hs
    exact inv_emit _ _ (inv_congr _ _ (inv_stopTimer _ (inv_closeTransport s h)) rfl rfl rfl rfl rfl rfl rfl)

theorem inv_init (cfg : Cfg) : Inv (init cfg) :=
  inv_armTimer _ ⟨fun _ => iok_fresh _ _ _, by intro h; simp at h, by intro d hd; simp at hd, by intro i hi; simp at hi, by intro d hd; simp at hd,
    by intro d hd; simp at hd⟩ (by simp [St.busy])

theorem run_inv (s s' : St) (ops : List Op) (h : Inv s) (hr : run s ops = some s') : Inv s' := by
  induction ops generalizing s with
  | nil => simp [run] at hr; subst hr; exact h
  | cons o os ih =>
    simp only [run] at hr
    split at hr
    · simp at hr
    · rename_i s1 hs1; exact ih s1 (step_inv s s1 o h hs1) hr

/-- every state reachable from the initial state of any configuration satisfies the invariant -/
theorem reachable_inv (cfg : Cfg) (ops : List Op) (s : St) (hr : run (init cfg) ops = some s) : Inv s :=
  run_inv _ _ ops (inv_init cfg) hr

end HC.Conn
