import HC.Prelude
/-!
# The connection shell of the two workers (`asyncio/tcp_server.py`, `trio/tcp_server.py`) as one model
parametrised by a `Runtime` record

The shell is what differs between the worker classes: the read loop, `protocol_send`, `_close`, the idle single-task
and `_initiate_server_close`.  Everything else (ProtocolWrapper, H11/H2 protocol, streams) is shared source.  One *op* is
one thing that happens at the shell's boundary, in the order the real code performs them:

* the transport delivers a read, the read loop sees the end of the stream (an empty read), the read loop is left;
* the protocol calls `send(RawData)`, `send(Closed())`, `send(Updated(idle))`;
* the idle task's wait ends (`keep_alive_timeout` elapsed or `terminated` set): `_initiate_server_close`;
* the task group has drained and `run()`'s `finally: _close()` runs.

The `Runtime` fields are regenerated from the two source files by `tools/extract.py` (`HC/Extracted/Runtime.lean`), so the
theorems of `HC/Props/C16.lean` are re-checked against what the code says now.  The per-worker model is tied to the real
`TCPServer` of each worker by trace acceptance (harness/gen/C16.py): the op sequence observed at the boundary of the real
shell is replayed through `step` and the log of `protocol.handle` calls, the written bytes and the close are compared.
-/
namespace HC.Conn.Shell
open HC

structure Runtime where
  /-- `protocol_send(Closed)`: after `_close()` the shell also calls `protocol.handle(Closed())` (trio) -/
  closedReenters : Bool
  /-- `_close()` stops the idle task (asyncio: in its `finally`) -/
  closeStopsIdle : Bool
  /-- `run()`: `idle_task.stop()` once `_read_data` has returned -/
  readEndStopsIdle : Bool
  /-- `_read_data` hands the empty read to the protocol whenever the client's stream ends, also when the end arrived
      together with the last data -/
  eofAlwaysPassedOn : Bool
  /-- `protocol_send(RawData)`: a failed write calls `protocol.handle(Closed())` -/
  writeErrorClosesProtocol : Bool
  /-- `_initiate_server_close` tells the protocol before closing the transport -/
  timerTellsProtocolFirst : Bool
  /-- `EventWrapper.clear` replaces the event object instead of clearing it (trio) -/
  clearReplaces : Bool
  /-- `SingleTask.stop/restart` awaits the cancelled task (asyncio) -/
  stopAwaitsCancelled : Bool
  /-- `run()` hands the protocol `ConnectionState(self.state.copy())`: every connection works on its own copy of the
      worker's lifespan state -/
  copiesState : Bool := true
  /-- `MAX_RECV`: the most one read returns; how a burst of client bytes is cut into `protocol.handle(RawData)` calls -/
  maxRecv : Nat := 65536
deriving DecidableEq, Repr

/-- what `protocol.handle` is called with -/
inductive PEv where
  | raw (d : Bytes)
  | closed
deriving DecidableEq, Repr

inductive Op where
  | read (d : Bytes)              -- a read returns data (`d ≠ []`)
  | readEmpty (together : Bool) (afterClosePassed : Bool)
                                  -- the read loop reaches the end of the client's stream; `together`: the end arrived with
                                  -- the data of the previous read (`StreamReader.at_eof()` is already true after it).
                                  -- Once the server has closed the transport itself, whether the woken read still hands an
                                  -- empty read on (asyncio: b""; trio: ClosedResourceError, unless the client's own EOF was
                                  -- picked up while `_close()` was still awaiting `send_eof`) is the runtime's business:
                                  -- `afterClosePassed` reports what happened; it is invisible (theorem `shell_worker_indep`)
  | readEnd                       -- the read loop is left (after the empty read, or because the read raised): `handle(Closed())`
  | peerGone                      -- from now on writes fail
  | pRaw (d : Bytes)              -- `send(RawData d)`
  | drainFail                     -- a write that had been accepted fails later (paused transport, then the peer goes away)
  | pClosed                       -- `send(Closed())`
  | pUpdated (idle : Bool)        -- `send(Updated(idle))`
  | timerFire
  | groupDone                     -- the task group has drained: `finally: await self._close()`
deriving DecidableEq, Repr

structure St where
  readerDone : Bool := false
  eofSeen : Bool := false                 -- the read loop has seen the empty read
  transportClosed : Bool := false
  writeBroken : Bool := false
  timerArmed : Bool := true               -- `idle_task.restart` right after `protocol.initiate()`
  handled : List (PEv × Bool) := []       -- log of `protocol.handle` calls; the flag: the transport was still open
  written : List Bytes := []
  closeStep : Option Nat := none          -- index of the op during which the transport was closed
  steps : Nat := 0
deriving DecidableEq, Repr

def St.tell (s : St) (e : PEv) : St := { s with handled := s.handled ++ [(e, !s.transportClosed)] }

/-- `_close()` -/
def St.close (rt : Runtime) (s : St) : St :=
  { s with transportClosed := true,
           closeStep := if s.transportClosed then s.closeStep else some s.steps,
           timerArmed := if rt.closeStopsIdle then false else s.timerArmed }

def step (rt : Runtime) (s0 : St) (o : Op) : Option St :=
  let s := { s0 with steps := s0.steps + 1 }
  match o with
  | .read d =>
    -- (asyncio's StreamReader still returns data that was buffered before the server's own close; trio's stream raises)
    if s.readerDone || s.eofSeen || d = [] then none else some (s.tell (.raw d))
  | .readEmpty together afterClosePassed =>
    if s.readerDone || s.eofSeen then none else
    let pass := if s.transportClosed then afterClosePassed else (!together || rt.eofAlwaysPassedOn)
    let s1 := if pass then s.tell (.raw []) else s
    some { s1 with eofSeen := true }
  | .readEnd =>
    if s.readerDone then none else
    let s2 := s.tell .closed
    some { s2 with readerDone := true, timerArmed := if rt.readEndStopsIdle then false else s2.timerArmed }
  | .peerGone => some { s with writeBroken := true }
  | .pRaw d =>
    if s.transportClosed || s.writeBroken then
      some (if rt.writeErrorClosesProtocol then s.tell .closed else s)
    else some { s with written := s.written ++ [d] }
  | .drainFail => some (if rt.writeErrorClosesProtocol then s.tell .closed else s)
  | .pClosed =>
    let s1 := s.close rt
    some (if rt.closedReenters then s1.tell .closed else s1)
  | .pUpdated idle => some { s with timerArmed := idle }
  | .timerFire =>
    -- an idle task that had already finished its wait when it was stopped / replaced still runs `_initiate_server_close`
    -- (the close is shielded); this only happens after a close has begun, and is then invisible
    if !s.timerArmed then some (if s.transportClosed then s.tell .closed else s) else
    let s1 := { s with timerArmed := false }
    if rt.timerTellsProtocolFirst then
      let s2 := s1.tell .closed
      some { s2 with transportClosed := true, closeStep := if s2.transportClosed then s2.closeStep else some s2.steps }
    else
      let s2 := { s1 with transportClosed := true, closeStep := if s1.transportClosed then s1.closeStep else some s1.steps }
      some (s2.tell .closed)
  | .groupDone => if s.readerDone then some (s.close rt) else none

def run (rt : Runtime) : St → List Op → Option St
  | s, [] => some s
  | s, o :: os => match step rt s o with
    | none => none
    | some s' => run rt s' os

/-- the part of the `protocol.handle` log that can have a visible consequence: calls made while the transport was open -/
def St.handledOpen (s : St) : List PEv := (s.handled.filter (·.2)).map (·.1)

/-- what C16 compares between the workers -/
structure Obs where
  handledOpen : List PEv
  written : List Bytes
  closeStep : Option Nat
  closed : Bool
  readerDone : Bool
  timerWhileOpen : Option Bool        -- the idle timer's state, as long as it can still cause a close
deriving DecidableEq, Repr

def St.obs (s : St) : Obs :=
  { handledOpen := s.handledOpen, written := s.written, closeStep := s.closeStep, closed := s.transportClosed,
    readerDone := s.readerDone, timerWhileOpen := if s.transportClosed then none else some s.timerArmed }

/-- the fields two runtimes must agree on for their shells to be indistinguishable while the transport is open;
    `closedReenters`, `closeStopsIdle`, `clearReplaces` and `stopAwaitsCancelled` may differ; `copiesState` is what the
    applications of a connection see in `scope["state"]` and what they can do to the worker's own dict -/
def Compatible (a b : Runtime) : Bool :=
  a.readEndStopsIdle == b.readEndStopsIdle && a.eofAlwaysPassedOn == b.eofAlwaysPassedOn &&
  a.writeErrorClosesProtocol == b.writeErrorClosesProtocol && a.timerTellsProtocolFirst == b.timerTellsProtocolFirst &&
  a.copiesState == b.copiesState && a.maxRecv == b.maxRecv

end HC.Conn.Shell
