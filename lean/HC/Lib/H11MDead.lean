import HC.Lib.H11M
/-!
# H11MDead — when the h11 connection-state machine can never accept another request

`Dead`: the client side is in ERROR, or keep-alive has been switched off (a response head announced
`Connection: close`, or the request asked for it) and the client side is past IDLE.  From such a state the client side
never returns to IDLE — `start_next_cycle()` needs both sides DONE and a DONE side turns MUST_CLOSE at once — so
`next_event()` never yields another `Request`.  All facts about the transition tables are decided on the tables
extracted from the installed library.
-/
namespace HC.Lib.H11M
open HC.Extracted.H11Tables

def PreDead (s : St) : Prop := s.client = .error ∨ (s.keepAlive = false ∧ s.client ≠ .idle)
def Dead (s : St) : Prop := s.client = .error ∨ (s.keepAlive = false ∧ s.client ≠ .idle ∧ s.client ≠ .done)

theorem Dead.pre {s : St} (h : Dead s) : PreDead s := by
  rcases h with h | ⟨a, b, _⟩
  · exact Or.inl h
  · exact Or.inr ⟨a, b⟩

theorem Dead.not_idle {s : St} (h : Dead s) : s.client ≠ .idle := by
  rcases h with h | ⟨_, b, _⟩
  · rw [h]; decide
  · exact b

theorem Dead.not_done {s : St} (h : Dead s) : s.client ≠ .done := by
  rcases h with h | ⟨_, _, c⟩
  · rw [h]; decide
  · exact c

theorem firePair_error (pend ka : Bool) (sv : HSt) : (firePair pend ka .error sv).1 = .error := by
  cases pend <;> cases ka <;> cases sv <;> decide

theorem firePair_closing (pend : Bool) (c sv : HSt) (h : c ≠ .idle) :
    (firePair pend false c sv).1 ≠ .idle ∧ (firePair pend false c sv).1 ≠ .done := by
  cases c <;> first | exact absurd rfl h | (cases pend <;> cases sv <;> decide)

theorem firePair_idle (pend ka : Bool) (c sv : HSt) : (firePair pend ka c sv).1 = .idle → c = .idle := by
  cases pend <;> cases ka <;> cases c <;> cases sv <;> decide

@[simp] theorem fireOnce_keepAlive (s : St) : (fireOnce s).keepAlive = s.keepAlive := rfl
@[simp] theorem fire_keepAlive (s : St) : (fire s).keepAlive = s.keepAlive := rfl

theorem fireOnce_dead (s : St) (h : PreDead s) : Dead (fireOnce s) := by
  rcases h with h | ⟨a, b⟩
  · left; simp only [fireOnce]; rw [h]; exact firePair_error _ _ _
  · right
    refine ⟨a, ?_⟩
    simp only [fireOnce]
    rw [a]
    exact firePair_closing _ _ _ b

theorem fire_dead (s : St) (h : PreDead s) : Dead (fire s) := by
  simp only [fire]
  exact fireOnce_dead _ (fireOnce_dead _ (fireOnce_dead _ (fireOnce_dead _ (fireOnce_dead _ (fireOnce_dead _ h).pre).pre).pre).pre).pre

theorem fireOnce_idle (s : St) : (fireOnce s).client = .idle → s.client = .idle := by
  simp only [fireOnce]; exact firePair_idle _ _ _ _

theorem fire_idle (s : St) : (fire s).client = .idle → s.client = .idle := by
  intro h
  simp only [fire] at h
  exact fireOnce_idle _ (fireOnce_idle _ (fireOnce_idle _ (fireOnce_idle _ (fireOnce_idle _ (fireOnce_idle _ h)))))

@[simp] theorem St.set_server_keepAlive (s : St) (v : HSt) : (s.set .server v).keepAlive = s.keepAlive := rfl
@[simp] theorem St.set_client_keepAlive (s : St) (v : HSt) : (s.set .client v).keepAlive = s.keepAlive := rfl
@[simp] theorem St.clearPend_keepAlive (s : St) (b : Bool) : (s.clearPend b).keepAlive = s.keepAlive := by
  unfold St.clearPend; split <;> rfl
@[simp] theorem St.withWaiting_keepAlive (s : St) (b : Bool) : (s.withWaiting b).keepAlive = s.keepAlive := rfl
@[simp] theorem St.withKeepAliveOff_keepAlive (s : St) : s.withKeepAliveOff.keepAlive = false := rfl

theorem no_event_from_error (k : EvKey) : lookupEvent .client .error k = none := by cases k <;> decide
theorem event_not_to_idle (st t : HSt) (k : EvKey) (h : lookupEvent .client st k = some t) : t ≠ .idle := by
  have key : lookupEvent .client st k ≠ some .idle := by cases st <;> cases k <;> decide
  intro ht; subst ht; exact key h
theorem request_from_idle (st t : HSt) (h : lookupEvent .client st .request = some t) : st = .idle := by
  have key : (lookupEvent .client st .request).isSome = true → st = .idle := by cases st <;> decide
  exact key (by simp [h])

theorem stepServer_dead (s s' : St) (k : EvKey) (h : stepServer s k = some s') (hd : PreDead s) : Dead s' := by
  unfold stepServer at h
  split at h
  · cases h
  · split at h
    · cases h
    · simp only [Option.some.injEq] at h
      subst h
      apply fire_dead
      rcases hd with hd | ⟨a, b⟩
      · left; simpa using hd
      · right; exact ⟨by simpa using a, by simpa using b⟩

theorem stepServer_idle (s s' : St) (k : EvKey) (h : stepServer s k = some s') : s'.client = .idle → s.client = .idle := by
  unfold stepServer at h
  split at h
  · cases h
  · split at h
    · cases h
    · simp only [Option.some.injEq] at h
      subst h
      intro hi
      simpa using fire_idle _ hi

theorem stepClient_dead (s s' : St) (k : EvKey) (h : stepClient s k = some s') (hd : Dead s) : Dead s' := by
  unfold stepClient at h
  split at h
  · cases h
  · rename_i c hc
    simp only [Option.some.injEq] at h
    subst h
    rcases hd with hd | ⟨a, _, _⟩
    · rw [hd, no_event_from_error] at hc; cases hc
    · apply fire_dead
      right
      exact ⟨by simpa using a, by simpa using event_not_to_idle _ _ _ hc⟩

theorem proposals_idle (s : St) (r : ReqInfo) : (proposals s r).client = .idle → s.client = .idle := by
  unfold proposals
  intro h
  by_cases hu : r.hasUpgrade = true <;> by_cases hc : r.isConnect = true <;> simp only [hu, hc, if_true] at h
  · have := fire_idle _ h; simp at this; simpa using fire_idle _ this
  · simpa using fire_idle _ h
  · simpa using fire_idle _ h
  · simpa using h

/-- a `Request` event needs the client side in IDLE -/
theorem recvRequest_idle (s s' : St) (r : ReqInfo) (h : recvRequest s r = some s') : s.client = .idle := by
  unfold recvRequest at h
  split at h
  · cases h
  · rename_i s1 hs1
    unfold stepRequest at hs1
    split at hs1
    · cases hs1
    · rename_i c hc
      exact proposals_idle s r (request_from_idle _ _ hc)

theorem recvRequest_not_dead (s s' : St) (r : ReqInfo) (h : recvRequest s r = some s') : ¬ Dead s :=
  fun hd => hd.not_idle (recvRequest_idle s s' r h)

theorem keepAliveDisabled_dead (s : St) (h : s.client ≠ .idle) : Dead (keepAliveDisabled s) := by
  unfold keepAliveDisabled
  exact fire_dead _ (Or.inr ⟨rfl, by simpa using h⟩)

theorem withWaiting_dead (s : St) (b : Bool) (h : Dead s) : Dead (s.withWaiting b) := by
  rcases h with h | ⟨a, b', c⟩
  · left; simpa using h
  · right; exact ⟨by simpa using a, by simpa using b', by simpa using c⟩

theorem sendInfo_dead (s s' : St) (n : Nat) (h : sendInfo s n = some s') (hd : Dead s) : Dead s' := by
  unfold sendInfo at h
  split at h
  · cases h
  · simp only [Option.map_eq_some_iff] at h
    obtain ⟨s1, h1, rfl⟩ := h
    exact withWaiting_dead _ _ (stepServer_dead _ _ _ h1 hd.pre)

theorem sendData_dead (s s' : St) (h : sendData s = some s') (hd : Dead s) : Dead s' := by
  unfold sendData at h
  split at h
  · cases h
  · exact stepServer_dead _ _ _ h hd.pre

theorem sendEom_dead (s s' : St) (h : sendEom s = some s') (hd : Dead s) : Dead s' := by
  unfold sendEom at h
  split at h
  · cases h
  · exact stepServer_dead _ _ _ h hd.pre

theorem sendResponse_dead (s s' : St) (r : RespInfo) (h : sendResponse s r = some s') (hd : Dead s) : Dead s' := by
  unfold sendResponse at h
  split at h
  · cases h
  · split at h
    · cases h
    · rename_i s1 hs1
      simp only [Option.some.injEq] at h
      subst h
      have h1 := withWaiting_dead _ false (stepServer_dead _ _ _ hs1 hd.pre)
      split
      · exact keepAliveDisabled_dead _ h1.not_idle
      · exact h1

/-- a response head that announces close on a connection whose client side is past IDLE ends the connection's reuse -/
theorem sendResponse_close_dead (s s' : St) (r : RespInfo) (h : sendResponse s r = some s') (hc : respAnnouncesClose s r = true)
    (hi : s.client ≠ .idle) : Dead s' := by
  unfold sendResponse at h
  split at h
  · cases h
  · split at h
    · cases h
    · rename_i s1 hs1
      simp only [Option.some.injEq] at h
      subst h
      apply keepAliveDisabled_dead
      intro h0
      exact hi (stepServer_idle _ _ _ hs1 (by simpa using h0))

theorem sendFailed_dead (s : St) (hd : Dead s) : Dead (sendFailed s) := by
  unfold sendFailed processError
  apply fire_dead
  rcases hd with hd | ⟨a, b, _⟩
  · left; simpa using hd
  · right; exact ⟨by simpa using a, by simpa using b⟩

theorem recvError_dead (s : St) : Dead (recvError s) := by
  unfold recvError processError
  exact fire_dead _ (Or.inl (by simp))

theorem recvData_dead (s s' : St) (h : recvData s = some s') (hd : Dead s) : Dead s' := by
  simp only [recvData, Option.map_eq_some_iff] at h
  obtain ⟨x, hx, rfl⟩ := h
  exact withWaiting_dead _ _ (stepClient_dead _ _ _ hx hd)

theorem recvEom_dead (s s' : St) (h : recvEom s = some s') (hd : Dead s) : Dead s' := by
  simp only [recvEom, Option.map_eq_some_iff] at h
  obtain ⟨x, hx, rfl⟩ := h
  exact withWaiting_dead _ _ (stepClient_dead _ _ _ hx hd)

theorem recvClosed_dead (s s' : St) (h : recvClosed s = some s') (hd : Dead s) : Dead s' :=
  stepClient_dead _ _ _ h hd

theorem startNextCycle_not_dead (s s' : St) (h : startNextCycle s = some s') : ¬ Dead s := by
  intro hd
  unfold startNextCycle at h
  split at h
  · rename_i hc
    simp only [Bool.and_eq_true, beq_iff_eq] at hc
    exact hd.not_done hc.1
  · cases h

theorem firePair_error_fix (pend ka : Bool) (sv : HSt) (h : sv ≠ .done) : firePair pend ka .error sv = (.error, sv) := by
  cases sv <;> first | exact absurd rfl h | (cases pend <;> cases ka <;> decide)
theorem firePair_error_done (pend ka : Bool) : firePair pend ka .error .done = (.error, .mustClose) := by
  cases pend <;> cases ka <;> decide

theorem fireOnce_fix (s : St) (h : firePair (s.pendUpgrade || s.pendConnect) s.keepAlive s.client s.server = (s.client, s.server)) :
    fireOnce s = s := by
  simp only [fireOnce, h]
theorem fire_fix (s : St) (h : firePair (s.pendUpgrade || s.pendConnect) s.keepAlive s.client s.server = (s.client, s.server)) :
    fire s = s := by
  simp only [fire, fireOnce_fix s h]

/-- with the client side in ERROR the state-triggered transitions only ever move a DONE server side to MUST_CLOSE -/
theorem fire_error (s : St) (hc : s.client = .error) :
    (fire s).client = .error ∧ (fire s).server = (if s.server = .done then .mustClose else s.server) := by
  by_cases hd : s.server = .done
  · have h1 : fireOnce s = { s with server := .mustClose } := by
      simp only [fireOnce, hc, hd, firePair_error_done]
    have h2 : fireOnce { s with server := .mustClose } = { s with server := .mustClose } :=
      fireOnce_fix _ (by simp only [hc]; exact firePair_error_fix _ _ _ (by decide))
    unfold fire
    rw [h1, h2, h2, h2, h2, h2]
    simp [hc, hd]
  · have := fire_fix s (by rw [hc]; exact firePair_error_fix _ _ _ hd)
    rw [this]; simp [hc, hd]

/-- hypercorn's error response (a non-2xx head carrying `connection: close`, then EndOfMessage) is accepted by h11
    after a `RemoteProtocolError` whenever our side was still IDLE -/
theorem error_response_goes_out (s : St) (r : RespInfo) (hs : s.server = .idle)
    (hst : ¬ (200 ≤ r.status ∧ r.status < 300)) (hcl : r.connClose = true) :
    (recvError s).server = .idle ∧ ∃ s2 s3, sendResponse (recvError s) r = some s2 ∧ sendEom s2 = some s3 := by
  have e1 := fire_error (s.set .client .error) rfl
  simp only [St.set_client_server, hs] at e1
  have hserver : (recvError s).server = .idle := by simpa [recvError, processError] using e1.2
  have hclient : (recvError s).client = .error := by simpa [recvError, processError] using e1.1
  refine ⟨hserver, ?_⟩
  have hk : (((recvError s).pendConnect && decide (200 ≤ r.status) && decide (r.status < 300)) = true) = False := by
    cases (recvError s).pendConnect <;> simp <;> omega
  have hann : respAnnouncesClose (recvError s) r = true := by simp [respAnnouncesClose, hcl]
  have hlook : lookupEvent .server .idle .response = some .sendBody := by decide
  -- the response
  have hstep : ∃ x, stepServer (recvError s) .response = some x ∧ x.client = .error ∧ x.server = .sendBody := by
    simp only [stepServer, hserver, hlook]
    refine ⟨_, by simp; rfl, ?_⟩
    have := fire_error ((St.clearPend (recvError s) true).set .server .sendBody) (by simpa using hclient)
    simpa using this
  obtain ⟨x, hx, hxc, hxs⟩ := hstep
  have hsr : sendResponse (recvError s) r = some (keepAliveDisabled (x.withWaiting false)) := by
    simp only [sendResponse, hserver, hk, if_false, hx, hann, if_true]
    simp
  have e2 := fire_error (x.withWaiting false).withKeepAliveOff (by simpa [St.withKeepAliveOff] using hxc)
  have hs2 : (keepAliveDisabled (x.withWaiting false)).server = .sendBody := by
    simpa [keepAliveDisabled, St.withKeepAliveOff, St.withWaiting, hxs] using e2.2
  have hlook2 : lookupEvent .server .sendBody .eom = some .done := by decide
  have h3 : ∃ s3, sendEom (keepAliveDisabled (x.withWaiting false)) = some s3 := by
    simp only [sendEom, hs2, stepServer, hlook2]
    simp
  obtain ⟨s3, h3⟩ := h3
  exact ⟨_, s3, hsr, h3⟩

end HC.Lib.H11M
