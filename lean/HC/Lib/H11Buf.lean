import HC.Prelude
import HC.Extracted.Limits
/-!
# H11Buf — h11's rule for an event that is still incomplete (library model, *assumed*, sampled)

`h11.Connection.next_event()`: when the reader cannot produce an event from the receive buffer the result is
`NEED_DATA`, and then `if len(self._receive_buffer) > self._max_incomplete_event_size: raise
RemoteProtocolError("Receive buffer too long", error_status_hint=431)`.  Comparator and hint are extracted from the
installed library (`HC.Extracted.Limits`).  A request head is a unit of `H` bytes (tagged bytes, DESIGN.md 3.2): the
reader yields the `Request` event exactly when all `H` bytes are buffered.  The limit therefore concerns the
*incomplete* buffer only: a head of any length that is complete when `next_event()` is called is accepted.
-/
namespace HC.Lib.H11Buf
open HC.Extracted HC.Extracted.Guards

inductive Res where
  | head                       -- the head is complete: `Request`
  | needData
  | tooLarge (hint : Nat)      -- RemoteProtocolError(error_status_hint = hint)
deriving Repr, DecidableEq

/-- `next_event()` with `buffered` bytes of a head of `H` bytes in the receive buffer and limit `L` -/
def nextEvent (L H buffered : Nat) : Res :=
  if H ≤ buffered then .head
  else if Limits.h11LibIncompleteCmp.eval buffered L then .tooLarge Limits.h11LibIncompleteHint
  else .needData

inductive Outcome where
  | waiting (buffered : Nat)               -- every read so far ended in NEED_DATA
  | rejected (read : Nat) (buffered : Nat) -- read number `read` (from 0) made `next_event()` raise
  | accepted (read : Nat)                  -- read number `read` completed the head
deriving Repr, DecidableEq

/-- the reads `rs` (sizes) of one head of `H` bytes reach `receive_data` one by one, `next_event()` after each;
    `b` bytes were buffered before, `k` reads were made before -/
def feed (L H : Nat) : Nat → Nat → List Nat → Outcome
  | b, _, [] => .waiting b
  | b, k, r :: rs =>
    match nextEvent L H (b + r) with
    | .head => .accepted k
    | .tooLarge _ => .rejected k (b + r)
    | .needData => feed L H (b + r) (k + 1) rs

end HC.Lib.H11Buf
