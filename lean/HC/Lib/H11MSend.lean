import HC.Lib.H11MDead
/-!
# H11MSend — what h11's `send` does to the connection-state machine (facts decided on the extracted tables)

Used by the HTTP/1 totality proof (C04 `total_h1`): in which writer states a `send` is accepted, where it leaves the writer,
and that no `send` moves the reader side to IDLE or out of ERROR.
-/
namespace HC.Lib.H11M
open HC.Extracted.H11Tables

/-- the writer is in a state from which `start_next_cycle` / a new request is out of reach without an EndOfMessage -/
def NotBad (sv : HSt) : Prop := sv ≠ .idle ∧ sv ≠ .done ∧ sv ≠ .mustClose

theorem firePair_server (p k : Bool) (c sv : HSt) (h1 : sv ≠ .done) (h2 : sv ≠ .idle) : (firePair p k c sv).2 = sv := by
  cases sv <;> first | exact absurd rfl h1 | exact absurd rfl h2 | (cases p <;> cases k <;> cases c <;> decide)

theorem fireOnce_server (s : St) (h1 : s.server ≠ .done) (h2 : s.server ≠ .idle) : (fireOnce s).server = s.server := by
  simp only [fireOnce]; exact firePair_server _ _ _ _ h1 h2

theorem fire_server (s : St) (h1 : s.server ≠ .done) (h2 : s.server ≠ .idle) : (fire s).server = s.server := by
  have a1 := fireOnce_server s h1 h2
  have a2 := fireOnce_server (fireOnce s) (by rw [a1]; exact h1) (by rw [a1]; exact h2)
  have a3 := fireOnce_server (fireOnce (fireOnce s)) (by rw [a2, a1]; exact h1) (by rw [a2, a1]; exact h2)
  have a4 := fireOnce_server (fireOnce (fireOnce (fireOnce s))) (by rw [a3, a2, a1]; exact h1) (by rw [a3, a2, a1]; exact h2)
  have a5 := fireOnce_server (fireOnce (fireOnce (fireOnce (fireOnce s)))) (by rw [a4, a3, a2, a1]; exact h1) (by rw [a4, a3, a2, a1]; exact h2)
  have a6 := fireOnce_server (fireOnce (fireOnce (fireOnce (fireOnce (fireOnce s))))) (by rw [a5, a4, a3, a2, a1]; exact h1)
    (by rw [a5, a4, a3, a2, a1]; exact h2)
  unfold fire
  rw [a6, a5, a4, a3, a2, a1]

@[simp] theorem St.set_waiting100 (s : St) (r : Role) (v : HSt) : (s.set r v).waiting100 = s.waiting100 := by cases r <;> rfl
@[simp] theorem St.set_pendUpgrade (s : St) (r : Role) (v : HSt) : (s.set r v).pendUpgrade = s.pendUpgrade := by cases r <;> rfl
@[simp] theorem St.set_pendConnect (s : St) (r : Role) (v : HSt) : (s.set r v).pendConnect = s.pendConnect := by cases r <;> rfl
@[simp] theorem St.clearPend_waiting100 (s : St) (b : Bool) : (s.clearPend b).waiting100 = s.waiting100 := by
  unfold St.clearPend; split <;> rfl
@[simp] theorem St.clearPend_false (s : St) : s.clearPend false = s := rfl
@[simp] theorem fire_pendUpgrade (s : St) : (fire s).pendUpgrade = s.pendUpgrade := rfl
@[simp] theorem fire_pendConnect (s : St) : (fire s).pendConnect = s.pendConnect := rfl
@[simp] theorem fire_waiting100 (s : St) : (fire s).waiting100 = s.waiting100 := rfl

theorem fire_client_error (s : St) (h : s.client = .error) : (fire s).client = .error := (fire_error s h).1

/-- the state-triggered transitions move the writer only out of DONE or IDLE, and only to MUST_CLOSE -/
theorem firePair_server_cases (p k : Bool) (c sv : HSt) : (firePair p k c sv).2 = sv ∨ (firePair p k c sv).2 = .mustClose := by
  cases p <;> cases k <;> cases c <;> cases sv <;> decide

theorem fire_notBad (s : St) (h : NotBad s.server) : (fire s).server = s.server := fire_server s h.2.1 h.1

/-- the writer-side targets of every event but EndOfMessage / ConnectionClosed are SEND_RESPONSE, SEND_BODY or SWITCHED_PROTOCOL -/
theorem server_target (st sv : HSt) (k : EvKey) (h : lookupEvent .server st k = some sv)
    (hk : k = .info ∨ k = .response ∨ k = .data ∨ k = .infoSwitchUpgrade ∨ k = .responseSwitchConnect) :
    sv = .sendResponse ∨ sv = .sendBody ∨ sv = .switched := by
  have key : ∀ (st : HSt) (k : EvKey), (k = .info ∨ k = .response ∨ k = .data ∨ k = .infoSwitchUpgrade ∨ k = .responseSwitchConnect) →
      lookupEvent .server st k = none ∨ lookupEvent .server st k = some .sendResponse ∨ lookupEvent .server st k = some .sendBody ∨
      lookupEvent .server st k = some .switched := by
    intro st k hk
    rcases hk with rfl | rfl | rfl | rfl | rfl <;> cases st <;> decide
  rcases key st k hk with h0 | h0 | h0 | h0 <;> rw [h0] at h <;> simp at h <;> simp [← h]

theorem notBad_of_target (sv : HSt) (h : sv = .sendResponse ∨ sv = .sendBody ∨ sv = .switched) : NotBad sv := by
  rcases h with rfl | rfl | rfl <;> exact ⟨by decide, by decide, by decide⟩

/-- what an accepted writer-side step leaves behind -/
theorem stepServer_after (s s' : St) (k : EvKey) (h : stepServer s k = some s')
    (hk : k = .info ∨ k = .response ∨ k = .data ∨ k = .infoSwitchUpgrade ∨ k = .responseSwitchConnect) :
    NotBad s'.server ∧ s'.waiting100 = s.waiting100 ∧ (s.client = .error → s'.client = .error) ∧ (s'.client = .idle → s.client = .idle) ∧
    s'.keepAlive = s.keepAlive := by
  have hidle := stepServer_idle s s' k h
  unfold stepServer at h
  split at h
  · cases h
  · split at h
    · cases h
    · rename_i sv hsv
      simp only [Option.some.injEq] at h
      subst h
      have hnb := notBad_of_target sv (server_target _ _ _ hsv hk)
      refine ⟨?_, ?_, ?_, hidle, ?_⟩
      · rw [fire_notBad _ (by simpa using hnb)]; simpa using hnb
      · simp
      · intro hc; exact fire_client_error _ (by simpa using hc)
      · simp

theorem stepServer_eom_after (s s' : St) (h : stepServer s .eom = some s') :
    s'.waiting100 = s.waiting100 ∧ (s.client = .error → s'.client = .error) ∧ (s'.client = .idle → s.client = .idle) := by
  have hidle := stepServer_idle s s' .eom h
  unfold stepServer at h
  split at h
  · cases h
  · split at h
    · cases h
    · simp only [Option.some.injEq] at h
      subst h
      refine ⟨?_, ?_, hidle⟩
      · simp
      · intro hc; exact fire_client_error _ (by simpa using hc)

theorem keepAliveDisabled_after (s : St) (h : NotBad s.server) :
    (keepAliveDisabled s).server = s.server ∧ (keepAliveDisabled s).waiting100 = s.waiting100 ∧
    (s.client = .error → (keepAliveDisabled s).client = .error) ∧ ((keepAliveDisabled s).client = .idle → s.client = .idle) := by
  unfold keepAliveDisabled
  refine ⟨?_, rfl, ?_, ?_⟩
  · rw [fire_notBad _ (by simpa [St.withKeepAliveOff] using h)]; rfl
  · intro hc; exact fire_client_error _ (by simpa [St.withKeepAliveOff] using hc)
  · intro hi; simpa using fire_idle _ hi

theorem sendInfo_after (s s' : St) (n : Nat) (h : sendInfo s n = some s') :
    NotBad s'.server ∧ s'.waiting100 = false ∧ (s.client = .error → s'.client = .error) ∧ (s'.client = .idle → s.client = .idle) := by
  unfold sendInfo at h
  split at h
  · cases h
  · simp only [Option.map_eq_some_iff] at h
    obtain ⟨s1, h1, rfl⟩ := h
    have a := stepServer_after s s1 _ h1 (by split <;> simp)
    exact ⟨by simpa using a.1, rfl, by simpa using a.2.2.1, by simpa using a.2.2.2.1⟩

theorem sendData_after (s s' : St) (h : sendData s = some s') :
    NotBad s'.server ∧ s'.waiting100 = s.waiting100 ∧ (s.client = .error → s'.client = .error) ∧ (s'.client = .idle → s.client = .idle) := by
  unfold sendData at h
  split at h
  · cases h
  · have a := stepServer_after s s' _ h (by simp)
    exact ⟨a.1, a.2.1, a.2.2.1, a.2.2.2.1⟩

theorem sendEom_after (s s' : St) (h : sendEom s = some s') :
    s'.waiting100 = s.waiting100 ∧ (s.client = .error → s'.client = .error) ∧ (s'.client = .idle → s.client = .idle) := by
  unfold sendEom at h
  split at h
  · cases h
  · exact stepServer_eom_after s s' h

theorem sendResponse_after (s s' : St) (r : RespInfo) (h : sendResponse s r = some s') :
    NotBad s'.server ∧ s'.waiting100 = false ∧ (s.client = .error → s'.client = .error) ∧ (s'.client = .idle → s.client = .idle) := by
  unfold sendResponse at h
  split at h
  · cases h
  · split at h
    · cases h
    · rename_i s1 hs1
      simp only [Option.some.injEq] at h
      have a := stepServer_after s s1 _ hs1 (by split <;> simp)
      split at h
      · subst h
        have b := keepAliveDisabled_after (s1.withWaiting false) (by simpa using a.1)
        refine ⟨by rw [b.1]; simpa using a.1, by rw [b.2.1]; rfl, fun hc => b.2.2.1 (by simpa using a.2.2.1 hc), fun hi => a.2.2.2.1 (by simpa using b.2.2.2 hi)⟩
      · subst h
        exact ⟨by simpa using a.1, rfl, by simpa using a.2.2.1, by simpa using a.2.2.2.1⟩

theorem sendFailed_after (s : St) :
    (sendFailed s).server = .error ∧ (sendFailed s).waiting100 = s.waiting100 ∧ (s.client = .error → (sendFailed s).client = .error) ∧
    ((sendFailed s).client = .idle → s.client = .idle) ∧ (sendFailed s).pendUpgrade = s.pendUpgrade := by
  unfold sendFailed processError
  refine ⟨?_, rfl, ?_, ?_, rfl⟩
  · rw [fire_server _ (by simp) (by simp)]; rfl
  · intro hc; exact fire_client_error _ (by simpa using hc)
  · intro hi; simpa using fire_idle _ hi

/-! ### sends that h11 accepts -/

theorem sendInfo_ok (s : St) (n : Nat) (hs : s.server = .sendResponse) (hn : n = 101 → s.pendUpgrade = true) :
    ∃ s', sendInfo s n = some s' ∧ s'.server = (if n = 101 then .switched else .sendResponse) ∧ s'.pendUpgrade = s.pendUpgrade := by
  unfold sendInfo
  simp only [hs]
  by_cases h101 : n = 101
  · have hp := hn h101
    have hl : lookupEvent .server .sendResponse .infoSwitchUpgrade = some .switched := by decide
    have hb : (EvKey.infoSwitchUpgrade == EvKey.response) = false := by decide
    refine ⟨_, by simp [h101, stepServer, hp, hs, hl, hb]; rfl, ?_, ?_⟩
    · simp only [h101, if_true, St.withWaiting]
      rw [fire_server _ (by simp) (by simp)]; simp
    · simp [St.withWaiting]
  · have hl : lookupEvent .server .sendResponse .info = some .sendResponse := by decide
    have hb : (EvKey.info == EvKey.response) = false := by decide
    refine ⟨_, by simp [h101, stepServer, hs, hl, hb]; rfl, ?_, ?_⟩
    · simp only [h101, if_false, St.withWaiting]
      rw [fire_server _ (by simp) (by simp)]; simp
    · simp [St.withWaiting]

theorem sendResponse_ok (s : St) (r : RespInfo) (hs : s.server = .sendResponse) :
    ∃ s', sendResponse s r = some s' ∧
      (¬ (s.pendConnect = true ∧ 200 ≤ r.status ∧ r.status < 300) → s'.server = .sendBody) := by
  unfold sendResponse
  simp only [hs]
  by_cases hc : s.pendConnect = true ∧ 200 ≤ r.status ∧ r.status < 300
  · have hk : (s.pendConnect && decide (200 ≤ r.status) && decide (r.status < 300)) = true := by simp [hc.1, hc.2.1, hc.2.2]
    have hl : lookupEvent .server .sendResponse .responseSwitchConnect = some .switched := by decide
    have hb : (EvKey.responseSwitchConnect == EvKey.response) = false := by decide
    have h1 : stepServer s .responseSwitchConnect = some (fire ((s.clearPend false).set .server .switched)) := by
      simp [stepServer, hc.1, hs, hl, hb]
    simp only [hk, if_true, h1]
    exact ⟨_, rfl, fun h => absurd hc h⟩
  · have hk : (s.pendConnect && decide (200 ≤ r.status) && decide (r.status < 300)) = false := by
      cases hp : s.pendConnect <;> simp_all <;> omega
    have hl : lookupEvent .server .sendResponse .response = some .sendBody := by decide
    have h1 : stepServer s .response = some (fire ((s.clearPend true).set .server .sendBody)) := by
      simp [stepServer, hs, hl]
    simp only [hk, Bool.false_eq_true, if_false, h1]
    refine ⟨_, rfl, fun _ => ?_⟩
    have hsv : (fire ((s.clearPend true).set .server .sendBody)).server = .sendBody := by
      rw [fire_server _ (by simp) (by simp)]; simp
    split
    · have b := keepAliveDisabled_after ((fire ((s.clearPend true).set .server .sendBody)).withWaiting false)
        (by simp only [St.withWaiting_server, hsv]; exact ⟨by decide, by decide, by decide⟩)
      rw [b.1]; simpa using hsv
    · simpa using hsv

theorem sendEom_ok (s : St) (hs : s.server = .sendBody) : ∃ s', sendEom s = some s' := by
  have hl : lookupEvent .server .sendBody .eom = some .done := by decide
  exact ⟨_, by simp [sendEom, hs, stepServer, hl]; rfl⟩

theorem sendData_ok (s : St) (hs : s.server = .sendBody) : ∃ s', sendData s = some s' ∧ s'.server = .sendBody := by
  have hl : lookupEvent .server .sendBody .data = some .sendBody := by decide
  refine ⟨_, by simp [sendData, hs, stepServer, hl]; rfl, ?_⟩
  rw [fire_server _ (by simp) (by simp)]; simp

/-! ### the reader side -/

/-- a `Request` leaves the writer in SEND_RESPONSE, registers the upgrade proposal and is the only thing that raises the
    100-continue flag -/
theorem recvRequest_after (s s' : St) (r : ReqInfo) (h : recvRequest s r = some s') :
    s'.server = .sendResponse ∧ (r.hasUpgrade = true → s'.pendUpgrade = true) ∧ s'.client ≠ .idle := by
  unfold recvRequest at h
  split at h
  · cases h
  · rename_i s1 hs1
    simp only [Option.some.injEq] at h
    unfold stepRequest at hs1
    split at hs1
    · cases hs1
    · rename_i c hc
      split at hs1
      · cases hs1
      · rename_i sv hsv
        simp only [Option.some.injEq] at hs1
        have hsv' : sv = .sendResponse := by
          have key : ∀ st, lookupEvent .server st .requestClient = none ∨ lookupEvent .server st .requestClient = some .sendResponse := by
            intro st; cases st <;> decide
          rcases key (proposals s r).server with h0 | h0 <;> rw [h0] at hsv <;> simp at hsv
          exact hsv.symm
        subst hsv'
        have h1s : s1.server = .sendResponse := by
          subst hs1; rw [fire_server _ (by simp) (by simp)]; simp
        have h1c : s1.client ≠ .idle := by
          subst hs1
          intro hi
          have := fire_idle _ hi
          simp at this
          exact event_not_to_idle _ _ _ hc this
        have h1p : r.hasUpgrade = true → s1.pendUpgrade = true := by
          intro hu
          subst hs1
          simp only [fire_pendUpgrade]
          simp [proposals, hu, St.withPendUpgrade, St.set]
        subst h
        unfold afterRequest
        have hnb : NotBad s1.server := by rw [h1s]; exact ⟨by decide, by decide, by decide⟩
        by_cases hk : r.keepAlive = true <;> by_cases he : r.expect100 = true <;> simp only [hk, he, if_true, if_false, Bool.false_eq_true]
        · exact ⟨by simpa [St.withReq, St.withWaiting] using h1s, by simpa [St.withReq, St.withWaiting] using h1p, by simpa [St.withReq, St.withWaiting] using h1c⟩
        · exact ⟨by simpa [St.withReq] using h1s, by simpa [St.withReq] using h1p, by simpa [St.withReq] using h1c⟩
        · have b := keepAliveDisabled_after (s1.withReq r.isHead r.isConnect r.http10) (by simpa [St.withReq] using hnb)
          refine ⟨by simp only [St.withWaiting_server]; rw [b.1]; simpa [St.withReq] using h1s, ?_, ?_⟩
          · intro hu; simpa [keepAliveDisabled, St.withKeepAliveOff, St.withReq, St.withWaiting] using h1p hu
          · intro hi; exact h1c (by simpa [St.withReq] using b.2.2.2 (by simpa using hi))
        · have b := keepAliveDisabled_after (s1.withReq r.isHead r.isConnect r.http10) (by simpa [St.withReq] using hnb)
          refine ⟨by rw [b.1]; simpa [St.withReq] using h1s, ?_, ?_⟩
          · intro hu; simpa [keepAliveDisabled, St.withKeepAliveOff, St.withReq] using h1p hu
          · intro hi; exact h1c (by simpa [St.withReq] using b.2.2.2 hi)

/-- Data / EndOfMessage / ConnectionClosed received: the writer stays where it is unless it was DONE or IDLE -/
theorem stepClient_after (s s' : St) (k : EvKey) (h : stepClient s k = some s') :
    (NotBad s.server → s'.server = s.server) ∧ s'.client ≠ .idle ∧ s.client ≠ .error ∧ s'.waiting100 = s.waiting100 ∧
    s'.pendUpgrade = s.pendUpgrade := by
  unfold stepClient at h
  split at h
  · cases h
  · rename_i c hc
    simp only [Option.some.injEq] at h
    subst h
    refine ⟨fun hnb => ?_, ?_, ?_, rfl, rfl⟩
    · rw [fire_notBad _ (by simpa using hnb)]; simp
    · intro hi
      have := fire_idle _ hi
      simp at this
      exact event_not_to_idle _ _ _ hc this
    · intro he; rw [he, no_event_from_error] at hc; cases hc

theorem recvError_after (s : St) :
    (recvError s).client = .error ∧ (NotBad s.server → (recvError s).server = s.server) ∧ (recvError s).waiting100 = s.waiting100 ∧
    ((recvError s).server = .idle ∨ (recvError s).server = .sendResponse → (recvError s).server = s.server) := by
  unfold recvError processError
  have e := fire_error (s.set .client .error) rfl
  have hsv : (s.set .client .error).server = s.server := rfl
  refine ⟨e.1, fun hnb => ?_, rfl, ?_⟩
  · rw [e.2, if_neg (by rw [hsv]; exact hnb.2.1)]; rfl
  · by_cases hd : s.server = .done
    · rw [e.2, if_pos (by rw [hsv]; exact hd)]; intro h; rcases h with h | h <;> cases h
    · rw [e.2, if_neg (by rw [hsv]; exact hd)]; intro _; rfl

end HC.Lib.H11M
