import HC.Prelude
/-!
# What `h2.connection.H2Connection.initiate_upgrade_connection(settings_header)` accepts (server side)

`H2Protocol.initiate(headers, settings)` hands the `HTTP2-Settings` value of an `Upgrade: h2c` request to h2.  h2 (4.x) does

```
elif settings_header:                                        # "" : nothing to apply
    settings_header = base64.urlsafe_b64decode(settings_header)   # ValueError (non-ASCII str), binascii.Error
    f = SettingsFrame(0); f.parse_body(memoryview(settings_header))  # hyperframe InvalidFrameError: length % 6 ≠ 0
    self._receive_settings_frame(f)                          # InvalidSettingsValueError: a value out of range
```

This file is a transcription of those three library steps as total functions (`accepts`), tied to the installed libraries by
the differential of `harness/gen/C13.py` (`settings_model`: generated payloads, the real h2 on a throw-away connection).

* `urlsafe_b64decode` = translate `-_` to `+/`, then `binascii.a2b_base64(strict_mode=False)`: characters outside the
  alphabet are *skipped*, `+` and `/` are accepted as well, a complete pad sequence *ends* the input (the rest is ignored),
  a `=` where no padding is due is skipped; only an incomplete last quantum is an error (`decodeGo`).
* `SettingsFrame.parse_body`: big-endian (u16 identifier, u32 value) pairs into a `dict` (the last value of an identifier
  counts), any remainder is an error (`pairs`).
* `Settings.validate_received_setting` / `__setitem__` (`_validate_setting`): ENABLE_PUSH ∈ {0,1}, INITIAL_WINDOW_SIZE ≤ 2³¹−1,
  16384 ≤ MAX_FRAME_SIZE ≤ 2²⁴−1, ENABLE_CONNECT_PROTOCOL ∈ {0,1}; every other identifier (known or not) takes any value.
-/
namespace HC.Lib.H2Settings
open HC

/-- value of a character in binascii's table, after `urlsafe_b64decode`'s translation of `-` / `_` -/
def b64val (c : UInt8) : Option Nat :=
  let n := c.toNat
  if 65 ≤ n ∧ n ≤ 90 then some (n - 65)
  else if 97 ≤ n ∧ n ≤ 122 then some (n - 71)
  else if 48 ≤ n ∧ n ≤ 57 then some (n + 4)
  else if n = 43 ∨ n = 45 then some 62
  else if n = 47 ∨ n = 95 then some 63
  else none

/-- the loop of `binascii.a2b_base64` (non-strict): `quad` = `quad_pos`, `left` = `leftchar`, `pads` = `pads`,
    `acc` = the output so far, reversed.  `none` = `binascii.Error` -/
def decodeGo : Bytes → Nat → Nat → Nat → Bytes → Option Bytes
  | [], quad, _, _, acc => if quad = 0 then some acc.reverse else none
  | c :: cs, quad, left, pads, acc =>
    if c = 61 then
      -- `if (quad_pos >= 2 && quad_pos + ++pads >= 4) goto done; continue;`
      if 2 ≤ quad ∧ 4 ≤ quad + (pads + 1) then some acc.reverse
      else decodeGo cs quad left (if 2 ≤ quad then pads + 1 else pads) acc
    else
      match b64val c with
      | none => decodeGo cs quad left pads acc
      | some v =>
        if quad = 0 then decodeGo cs 1 v 0 acc
        else if quad = 1 then decodeGo cs 2 (v % 16) 0 (UInt8.ofNat (left * 4 + v / 16) :: acc)
        else if quad = 2 then decodeGo cs 3 (v % 4) 0 (UInt8.ofNat (left * 16 + v / 4) :: acc)
        else decodeGo cs 0 0 0 (UInt8.ofNat (left * 64 + v) :: acc)

/-- `base64.urlsafe_b64decode(s)` for an ASCII `str` -/
def b64decode (s : Bytes) : Option Bytes := decodeGo s 0 0 0 []

/-- `SettingsFrame.parse_body`: (identifier, value) pairs in order; `none` = `InvalidFrameError` -/
def pairs : Bytes → Option (List (Nat × Nat))
  | [] => some []
  | a :: b :: c :: d :: e :: f :: rest =>
    (pairs rest).map (fun ps => (a.toNat * 256 + b.toNat, ((c.toNat * 256 + d.toNat) * 256 + e.toNat) * 256 + f.toNat) :: ps)
  | _ => none

/-- `_validate_setting(setting, value, client=True) == 0` -/
def valueOk (ident value : Nat) : Bool :=
  if ident = 2 then decide (value ≤ 1)                                   -- ENABLE_PUSH
  else if ident = 4 then decide (value ≤ 2147483647)                      -- INITIAL_WINDOW_SIZE
  else if ident = 5 then decide (16384 ≤ value ∧ value ≤ 16777215)        -- MAX_FRAME_SIZE
  else if ident = 8 then decide (value ≤ 1)                               -- ENABLE_CONNECT_PROTOCOL
  else true

/-- the value a `dict` filled in order keeps for `ident` -/
def lastValue (ident : Nat) (ps : List (Nat × Nat)) : Option Nat :=
  (ps.reverse.find? (fun p => p.1 == ident)).map (·.2)

/-- every identifier's *final* value is one h2 accepts -/
def pairsOk (ps : List (Nat × Nat)) : Bool :=
  ps.all (fun p => valueOk p.1 ((lastValue p.1 ps).getD p.2))

def isAscii (s : Bytes) : Bool := s.all (fun c => decide (c.toNat < 128))

/-- `initiate_upgrade_connection(settings)` returns (instead of raising) for the latin-1 decoded header value `s` -/
def accepts (s : Bytes) : Bool :=
  s.isEmpty ||
  (isAscii s &&
    match b64decode s with
    | none => false
    | some raw =>
      match pairs raw with
      | none => false
      | some ps => pairsOk ps)

/-- the settings h2 applies (identifier, final value), for the differential -/
def applied (s : Bytes) : Option (List (Nat × Nat)) :=
  if s.isEmpty then some []
  else if !isAscii s then none
  else (b64decode s).bind pairs |>.bind (fun ps => if pairsOk ps then some ps else none)

theorem accepts_empty : accepts [] = true := rfl

/-- what acceptance of a non-empty value means -/
theorem accepts_iff (s : Bytes) (hs : s ≠ []) :
    accepts s = true ↔ isAscii s = true ∧ ∃ raw ps, b64decode s = some raw ∧ pairs raw = some ps ∧ pairsOk ps = true := by
  have he : s.isEmpty = false := by cases s <;> simp_all
  unfold accepts
  rw [he]
  cases isAscii s
  · simp
  · cases hd : b64decode s with
    | none => simp
    | some raw =>
      cases hp : pairs raw with
      | none => simp [hp]
      | some ps => simp [hp]

/-- a payload is a whole number of 6-byte entries -/
theorem pairs_length (raw : Bytes) (ps : List (Nat × Nat)) (h : pairs raw = some ps) : raw.length = 6 * ps.length := by
  induction ps generalizing raw with
  | nil =>
    match raw, h with
    | [], _ => rfl
    | a :: b :: c :: d :: e :: f :: rest, h =>
      simp only [pairs, Option.map_eq_some_iff] at h
      obtain ⟨_, _, h2⟩ := h
      simp at h2
  | cons p t ih =>
    match raw, h with
    | a :: b :: c :: d :: e :: f :: rest, h =>
      simp only [pairs, Option.map_eq_some_iff] at h
      obtain ⟨qs, h1, h2⟩ := h
      simp only [List.cons.injEq] at h2
      have := ih rest (h2.2 ▸ h1)
      simp only [List.length_cons, this]
      omega

/-- identifiers other than the four range-checked ones never make a payload unacceptable -/
theorem unknown_ids_ignored (ident value : Nat) (h : ident ≠ 2 ∧ ident ≠ 4 ∧ ident ≠ 5 ∧ ident ≠ 8) : valueOk ident value = true := by
  simp [valueOk, h.1, h.2.1, h.2.2.1, h.2.2.2]

end HC.Lib.H2Settings
