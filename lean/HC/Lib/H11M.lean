import HC.Prelude
import HC.Extracted.H11Tables
/-!
# H11M — the h11 connection-state machine as hypercorn uses it (library model, *assumed*, sampled by taps)

Logic transcribed from `h11/_state.py` (`ConnectionState`) and the parts of `h11/_connection.py` that feed it
(`_process_event`, `_keep_alive`, `_clean_up_response_headers_for_sending`); the two transition tables are
generated from the installed library (`HC.Extracted.H11Tables`).  Byte-level parsing is not modelled: the events
`next_event()` yields are inputs.
-/
namespace HC.Lib.H11M
open HC.Extracted.H11Tables

structure St where
  client : HSt := .idle
  server : HSt := .idle
  keepAlive : Bool := true
  pendUpgrade : Bool := false
  pendConnect : Bool := false
  waiting100 : Bool := false          -- client_is_waiting_for_100_continue
  reqHead : Bool := false             -- request method was HEAD
  reqConnect : Bool := false
  their10 : Bool := false             -- their_http_version < 1.1
deriving Repr, DecidableEq

def St.get (s : St) : Role → HSt | .client => s.client | .server => s.server
def St.set (s : St) : Role → HSt → St
  | .client, v => { s with client := v }
  | .server, v => { s with server := v }

def lookupEvent (r : Role) (st : HSt) (k : EvKey) : Option HSt :=
  (eventTable.find? (fun row => row.1 == r && row.2.1 == st && row.2.2.1 == k)).map (·.2.2.2)

/-- `changes = STATE_TRIGGERED_TRANSITIONS.get(joint_state, {}); self.states.update(changes)` on a (client, server) pair -/
def applyState (c sv : HSt) : HSt × HSt :=
  (stateTable.filter (fun row => row.1 == c && row.2.1 == sv)).foldl
    (fun acc row => match row.2.2.1 with | .client => (row.2.2.2, acc.2) | .server => (acc.1, row.2.2.2)) (c, sv)

/-- the client / server states after one pass of `_fire_state_triggered_transitions` -/
def firePair (pend keepAlive : Bool) (c sv : HSt) : HSt × HSt :=
  let c := if pend && c == .done then .mightSwitch else c
  let c := if !pend && c == .mightSwitch then .done else c
  let c := if !keepAlive && c == .done then .mustClose else c
  let sv := if !keepAlive && sv == .done then .mustClose else sv
  applyState c sv

/-- one pass of `_fire_state_triggered_transitions` -/
def fireOnce (s : St) : St :=
  let p := firePair (s.pendUpgrade || s.pendConnect) s.keepAlive s.client s.server
  { s with client := p.1, server := p.2 }

/-- the `while True` loop; it converges within a few passes (6 is ample; convergence is sampled, not proved) -/
def fire (s : St) : St := fireOnce (fireOnce (fireOnce (fireOnce (fireOnce (fireOnce s)))))

/-! small state updates, each with its effect on the `client` field stated as a simp lemma -/
def St.clearPend (s : St) (b : Bool) : St := if b then { s with pendUpgrade := false, pendConnect := false } else s
def St.withKeepAliveOff (s : St) : St := { s with keepAlive := false }
def St.withPendConnect (s : St) : St := { s with pendConnect := true }
def St.withPendUpgrade (s : St) : St := { s with pendUpgrade := true }
def St.withWaiting (s : St) (b : Bool) : St := { s with waiting100 := b }
def St.withReq (s : St) (h c t : Bool) : St := { s with reqHead := h, reqConnect := c, their10 := t }

@[simp] theorem St.set_server_client (s : St) (v : HSt) : (s.set .server v).client = s.client := rfl
@[simp] theorem St.set_client_client (s : St) (v : HSt) : (s.set .client v).client = v := rfl
@[simp] theorem St.set_client_server (s : St) (v : HSt) : (s.set .client v).server = s.server := rfl
@[simp] theorem St.set_server_server (s : St) (v : HSt) : (s.set .server v).server = v := rfl
@[simp] theorem St.clearPend_client (s : St) (b : Bool) : (s.clearPend b).client = s.client := by
  unfold St.clearPend; split <;> rfl
@[simp] theorem St.clearPend_server (s : St) (b : Bool) : (s.clearPend b).server = s.server := by
  unfold St.clearPend; split <;> rfl
@[simp] theorem St.withKeepAliveOff_client (s : St) : s.withKeepAliveOff.client = s.client := rfl
@[simp] theorem St.withPendConnect_client (s : St) : s.withPendConnect.client = s.client := rfl
@[simp] theorem St.withPendUpgrade_client (s : St) : s.withPendUpgrade.client = s.client := rfl
@[simp] theorem St.withWaiting_client (s : St) (b : Bool) : (s.withWaiting b).client = s.client := rfl
@[simp] theorem St.withWaiting_server (s : St) (b : Bool) : (s.withWaiting b).server = s.server := rfl
@[simp] theorem St.withReq_client (s : St) (h c t : Bool) : (s.withReq h c t).client = s.client := rfl

/-- `process_event(CLIENT, Data | EndOfMessage | ConnectionClosed)`; `none` = LocalProtocolError -/
def stepClient (s : St) (k : EvKey) : Option St :=
  match lookupEvent .client s.client k with
  | none => none
  | some c => some (fire (s.set .client c))

/-- `process_event(SERVER, type, server_switch_event)`; a switch event needs a pending proposal -/
def stepServer (s : St) (k : EvKey) : Option St :=
  if (k == .infoSwitchUpgrade && !s.pendUpgrade) || (k == .responseSwitchConnect && !s.pendConnect) then none
  else
    match lookupEvent .server s.server k with
    | none => none
    | some sv => some (fire ((s.clearPend (k == .response)).set .server sv))

/-- `process_event(CLIENT, Request)`: the client transition, then the server's `(Request, CLIENT)` transition -/
def stepRequest (s : St) : Option St :=
  match lookupEvent .client s.client .request with
  | none => none
  | some c =>
    match lookupEvent .server s.server .requestClient with
    | none => none
    | some sv => some (fire ((s.set .client c).set .server sv))

def processError (s : St) (r : Role) : St := fire (s.set r .error)
def keepAliveDisabled (s : St) : St := fire s.withKeepAliveOff

structure ReqInfo where
  isHead : Bool := false
  isConnect : Bool := false
  hasUpgrade : Bool := false        -- a non-empty `Upgrade` header
  keepAlive : Bool := true          -- no `Connection: close` token and HTTP/1.1
  http10 : Bool := false
  expect100 : Bool := false
deriving Repr, DecidableEq

/-- the bookkeeping `_process_event` does after the state machine accepted a Request -/
def afterRequest (s : St) (r : ReqInfo) : St :=
  let s1 := s.withReq r.isHead r.isConnect r.http10
  let s2 := if r.keepAlive then s1 else keepAliveDisabled s1
  if r.expect100 then s2.withWaiting true else s2

/-- the switch proposals `_process_event` registers before the Request is processed -/
def proposals (s : St) (r : ReqInfo) : St :=
  let s1 := if r.isConnect then fire s.withPendConnect else s
  if r.hasUpgrade then fire s1.withPendUpgrade else s1

/-- `_process_event(CLIENT, Request)` as run by `next_event()` -/
def recvRequest (s : St) (r : ReqInfo) : Option St :=
  match stepRequest (proposals s r) with
  | none => none
  | some s1 => some (afterRequest s1 r)

def recvData (s : St) : Option St := (stepClient s .data).map (fun s => s.withWaiting false)
def recvEom (s : St) : Option St := (stepClient s .eom).map (fun s => s.withWaiting false)
def recvClosed (s : St) : Option St := stepClient s .connClosed
/-- `next_event()` raised RemoteProtocolError -/
def recvError (s : St) : St := processError s .client

structure RespInfo where
  status : Nat
  hasContentLength : Bool := false
  hasChunked : Bool := false
  connClose : Bool := false          -- the headers handed over already contain `connection: close`
deriving Repr, DecidableEq

inductive Framing | contentLength | chunked | http10
deriving Repr, DecidableEq

/-- `_body_framing(request_method, response)` -/
def framing (s : St) (r : RespInfo) : Framing :=
  if r.status == 204 || r.status == 304 || s.reqHead || (s.reqConnect && 200 ≤ r.status && r.status < 300) then .contentLength
  else if r.hasChunked then .chunked
  else if r.hasContentLength then .contentLength
  else .http10

/-- whether the response head goes out with `Connection: close` (`_clean_up_response_headers_for_sending`) -/
def respAnnouncesClose (s : St) (r : RespInfo) : Bool :=
  let f := framing s r
  let needClose := (f == .chunked || f == .http10) && s.their10 && !s.reqHead
  r.connClose || !s.keepAlive || needClose

/-- `send(InformationalResponse)`; status 101 is the upgrade switch event -/
def sendInfo (s : St) (status : Nat) : Option St :=
  if s.server == .error then none
  else (stepServer s (if status == 101 then .infoSwitchUpgrade else .info)).map (fun s => s.withWaiting false)

/-- `send(Response)` -/
def sendResponse (s : St) (r : RespInfo) : Option St :=
  if s.server == .error then none
  else
    match stepServer s (if s.pendConnect && 200 ≤ r.status && r.status < 300 then EvKey.responseSwitchConnect else .response) with
    | none => none
    | some s1 => some (if respAnnouncesClose s r then keepAliveDisabled (s1.withWaiting false) else s1.withWaiting false)

def sendData (s : St) : Option St := if s.server == .error then none else stepServer s .data
def sendEom (s : St) : Option St := if s.server == .error then none else stepServer s .eom
/-- a `send` that raised LocalProtocolError puts our side into ERROR -/
def sendFailed (s : St) : St := processError s .server

/-- `start_next_cycle()`: both DONE, else LocalProtocolError -/
def startNextCycle (s : St) : Option St :=
  if s.client == .done && s.server == .done then
    some { s with client := .idle, server := .idle, waiting100 := false, reqHead := false, reqConnect := false }
  else none

end HC.Lib.H11M
