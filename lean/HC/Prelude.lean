/-!
# HC.Prelude — shared vocabulary of the hypercorn models

Bytes are `List UInt8`; Python `bytes` methods used by the glue (`lower`, `strip`, `split(b",")`,
`startswith`, `partition`) are re-implemented here as total structural functions so that the
theorems can reason about them.  Only core Lean is imported.
-/
namespace HC

abbrev Bytes := List UInt8

namespace Bytes

/-- Python `bytes.lower()` on one byte (ASCII only, like CPython). -/
def lowerB (b : UInt8) : UInt8 := if 65 ≤ b.toNat ∧ b.toNat ≤ 90 then b + 32 else b
def upperB (b : UInt8) : UInt8 := if 97 ≤ b.toNat ∧ b.toNat ≤ 122 then b - 32 else b

def lower (bs : Bytes) : Bytes := bs.map lowerB
def upper (bs : Bytes) : Bytes := bs.map upperB

/-- whitespace stripped by `bytes.strip()` : space, \t \n \v \f \r -/
def isWsB (b : UInt8) : Bool := b == 32 || (9 ≤ b.toNat && b.toNat ≤ 13)

/-- whitespace stripped by `str.strip()` for a latin-1 decoded string:
    bytes.strip() set plus 0x1c-0x1f, 0x85, 0xa0 -/
def isWsL1 (b : UInt8) : Bool :=
  isWsB b || (28 ≤ b.toNat && b.toNat ≤ 31) || b == 0x85 || b == 0xa0

def lstripBy (p : UInt8 → Bool) : Bytes → Bytes
  | [] => []
  | b :: bs => if p b then lstripBy p bs else b :: bs

def rstripBy (p : UInt8 → Bool) (bs : Bytes) : Bytes := (lstripBy p bs.reverse).reverse
def stripBy (p : UInt8 → Bool) (bs : Bytes) : Bytes := rstripBy p (lstripBy p bs)

def strip := stripBy isWsB
def stripL1 := stripBy isWsL1

/-- Python `bs.split(sep)` for a one-byte separator: always at least one piece. -/
def splitOnB (sep : UInt8) : Bytes → List Bytes
  | [] => [[]]
  | b :: bs =>
    if b == sep then [] :: splitOnB sep bs
    else match splitOnB sep bs with
      | [] => [[b]]          -- unreachable (result is never empty)
      | p :: ps => (b :: p) :: ps

theorem splitOnB_ne_nil (sep : UInt8) (bs : Bytes) : splitOnB sep bs ≠ [] := by
  induction bs with
  | nil => simp [splitOnB]
  | cons b bs ih =>
    simp only [splitOnB]
    split
    · simp
    · split <;> simp

/-- splitting `a ++ [sep] ++ b` gives the pieces of `a` followed by the pieces of `b` -/
theorem splitOnB_append_sep (sep : UInt8) (a b : Bytes) :
    splitOnB sep (a ++ sep :: b) = splitOnB sep a ++ splitOnB sep b := by
  induction a with
  | nil => simp [splitOnB]
  | cons x xs ih =>
    simp only [List.cons_append, splitOnB]
    split
    · simp [ih]
    · rw [ih]
      have h := splitOnB_ne_nil sep xs
      cases hxs : splitOnB sep xs with
      | nil => exact absurd hxs h
      | cons p ps => simp

def startsWith (pre bs : Bytes) : Bool := pre.isPrefixOf bs

/-- Python `bs.partition(sep)` for a one-byte separator: (before, found?, after) -/
def partitionB (sep : UInt8) : Bytes → Bytes × Bool × Bytes
  | [] => ([], false, [])
  | b :: bs =>
    if b == sep then ([], true, bs)
    else let (h, f, t) := partitionB sep bs; (b :: h, f, t)

theorem partitionB_join (sep : UInt8) (bs : Bytes) :
    let (h, f, t) := partitionB sep bs
    bs = h ++ (if f then sep :: t else t) ∧ sep ∉ h ∧ (f = false → t = []) := by
  induction bs with
  | nil => simp [partitionB]
  | cons b bs ih =>
    simp only [partitionB]
    by_cases hb : b == sep
    · simp only [hb, if_true]
      have : b = sep := by simpa using hb
      simp [this]
    · simp only [hb]
      have hne : b ≠ sep := by simpa using hb
      obtain ⟨h1, h2, h3⟩ := ih
      refine ⟨?_, ?_, h3⟩
      · simp only [List.cons_append, Bool.false_eq_true, ↓reduceIte]; rw [← h1]
      · simp only [Bool.false_eq_true, ↓reduceIte, List.mem_cons, not_or]
        exact ⟨fun h => hne h.symm, h2⟩

def ofString (s : String) : Bytes := s.toList.map (fun c => c.toNat.toUInt8)
def toString (bs : Bytes) : String := String.ofList (bs.map (fun b => Char.ofNat b.toNat))

end Bytes

/-- ASCII literal helper: `b!"host"` is not available, so `"host".b` -/
def _root_.String.b (s : String) : Bytes := Bytes.ofString s

abbrev Header := Bytes × Bytes
abbrev Headers := List Header

/-- generic: run a partial step function over a list of operations -/
def runOps {σ ο : Type} (step : σ → ο → Option σ) : σ → List ο → Option σ
  | s, [] => some s
  | s, o :: os => match step s o with
    | none => none
    | some s' => runOps step s' os

theorem runOps_append {σ ο : Type} (step : σ → ο → Option σ) (s : σ) (as bs : List ο) :
    runOps step s (as ++ bs) = (runOps step s as).bind (fun s' => runOps step s' bs) := by
  induction as generalizing s with
  | nil => simp [runOps]
  | cons a as ih =>
    simp only [List.cons_append, runOps]
    cases step s a <;> simp [ih]

/-- an invariant preserved by every enabled step holds after every accepted run -/
theorem inv_runOps {σ ο : Type} (step : σ → ο → Option σ) (Inv : σ → Prop) (ok : ο → Prop)
    (hstep : ∀ s o s', ok o → Inv s → step s o = some s' → Inv s') :
    ∀ (ops : List ο) (s s' : σ), Inv s → (∀ o ∈ ops, ok o) → runOps step s ops = some s' → Inv s' := by
  intro ops
  induction ops with
  | nil => intro s s' hI _ hr; simp [runOps] at hr; subst hr; exact hI
  | cons o os ih =>
    intro s s' hI hc hr
    simp only [runOps] at hr
    split at hr
    · simp at hr
    · rename_i s1 hs1
      exact ih s1 s' (hstep s o s1 (hc o (by simp)) hI hs1) (fun o' ho' => hc o' (by simp [ho'])) hr

end HC
