import HC.Extracted.Limits
import HC.Worker.Run
/-!
# HC.Worker.Recycle — `WorkerContext.mark_request` and the request budget computed by `worker_serve`

`asyncio/run.py`, `trio/run.py`:  `max_requests = None; if config.max_requests is not None: max_requests =
config.max_requests + randint(0, config.max_requests_jitter); context = WorkerContext(max_requests)`.
`*/worker_context.py`: `if self.max_requests is None: return; self.requests += 1; if self.requests >
self.max_requests: await self.terminate.set()`.
Operator, `randint` bounds, increment, start value and comparator of each worker come from `HC.Extracted`.
-/
namespace HC.Worker.Recycle
open HC.Extracted HC.Extracted.Guards HC.Extracted.Limits

/-- everything about one worker class that the recycling rule depends on (all of it extracted) -/
structure Shape where
  cmp : Cmp
  incr : Nat
  init : Nat
  op : JOp
  lo : Nat
  deriving Repr, DecidableEq

def Shape.asyncio : Shape :=
  { cmp := Guards.asyncioRecycleCmp, incr := asyncioRecycleIncr, init := asyncioRecycleInit, op := asyncioJitterOp, lo := asyncioJitterLo }
def Shape.trio : Shape :=
  { cmp := Guards.trioRecycleCmp, incr := trioRecycleIncr, init := trioRecycleInit, op := trioJitterOp, lo := trioJitterLo }

def JOp.apply : JOp → Nat → Nat → Nat
  | .add, a, b => a + b
  | .sub, a, b => a - b
  | .mul, a, b => a * b

/-- the values `randint(lo, jitter)` can return (inclusive at both ends) -/
def drawn (sh : Shape) (jitter j : Nat) : Prop := sh.lo ≤ j ∧ j ≤ jitter

/-- `WorkerContext(max_requests)`'s argument for a configuration and a drawn `j` -/
def budget (sh : Shape) (configMax : Option Nat) (j : Nat) : Option Nat := configMax.map (fun b => JOp.apply sh.op b j)

structure Ctx where
  max : Option Nat
  requests : Nat
  terminate : Bool := false
  deriving Repr, DecidableEq

def Ctx.new (sh : Shape) (max : Option Nat) : Ctx := { max := max, requests := sh.init }

/-- `mark_request()` -/
def Ctx.mark (sh : Shape) (c : Ctx) : Ctx :=
  match c.max with
  | none => c
  | some m => { c with requests := c.requests + sh.incr, terminate := c.terminate || sh.cmp.eval (c.requests + sh.incr) m }

/-- `n` requests taken on -/
def Ctx.markN (sh : Shape) : Nat → Ctx → Ctx
  | 0, c => c
  | n + 1, c => Ctx.markN sh n (c.mark sh)

end HC.Worker.Recycle
