import HC.Worker.Lifespan
import HC.Extracted.LifespanSites
/-!
# HC.Worker.Escape — what `handle_lifespan` does with the exception that leaves the application

The lifespan model (`HC/Worker/Lifespan.lean`) speaks of the exception travelling through the application as `AppExc`
(`failure st` / `other`) — i.e. of the *verdict* of `handle_lifespan`'s `except` clauses.  An application that runs its
lifespan inside task groups / nurseries (anyio, Starlette) does not raise a bare `LifespanFailureError`: the exception arrives
wrapped in exception groups, one level per task group, possibly next to other exceptions.  Here the thing that escapes is a
**tree** (`ExcTree`: leaves = exceptions, inner nodes = `BaseExceptionGroup`s) and the `except` chain of `handle_lifespan` is a
function on trees (`handle`), parameterised by what the extractor reads off the source of both workers
(`HC/Extracted/LifespanSites.lean`: the classes of the two clauses and how a group is searched — `error.subgroup(...)` is a
search through every level).  `Verdict.appExc` maps the verdict back into the vocabulary of the lifespan model, `translate` does
so for a whole script run under a wrap, and `HC.Props.C14` proves that for the handlers as they are now the translation is
the identity (every theorem about scripts is a theorem about scripts wrapped in any nest of groups).
-/
namespace HC.Worker
open HC.Extracted.LifespanSites

/-- an exception, as far as `handle_lifespan` can tell exceptions apart -/
inductive Exc
  | failure (st : Stage)       -- `LifespanFailureError(stage, …)`
  | cancelled                  -- `asyncio.CancelledError` / `trio.Cancelled`
  | other                      -- any other `Exception`
  deriving Repr, DecidableEq

/-- `isinstance(e, c)`: `LifespanFailureError` is an `Exception`, the cancellation classes are `BaseException`s only -/
def Exc.isa (e : Exc) (c : Cls) : Bool :=
  match e, c with
  | .failure _, .lifespanFailure => true
  | .failure _, .exception => true
  | .cancelled, .cancelled => true
  | .other, .exception => true
  | _, _ => false

/-- `isinstance(e, (c1, c2, …))` -/
def Exc.isaAny (e : Exc) (cs : List Cls) : Bool := cs.any e.isa

/-- what escapes the application: an exception, or a `BaseExceptionGroup` of such things -/
inductive ExcTree
  | leaf (e : Exc)
  | group (ts : List ExcTree)
  deriving Repr

mutual
/-- the exceptions in the tree, left to right -/
def ExcTree.leaves : ExcTree → List Exc
  | .leaf e => [e]
  | .group ts => leavesL ts
def leavesL : List ExcTree → List Exc
  | [] => []
  | t :: ts => t.leaves ++ leavesL ts
end

mutual
/-- `BaseExceptionGroup.subgroup((c1, c2, …))`: the group itself when it is an instance of one of the classes, otherwise the
    same tree with the non-matching leaves and the groups left empty removed; `none` when nothing is left -/
def ExcTree.subgroup (cs : List Cls) : ExcTree → Option ExcTree
  | .leaf e => if e.isaAny cs then some (.leaf e) else none
  | .group ts =>
    if cs.contains .group then some (.group ts)
    else match subgroupL cs ts with
      | [] => none
      | t' :: ts' => some (.group (t' :: ts'))
def subgroupL (cs : List Cls) : List ExcTree → List ExcTree
  | [] => []
  | t :: ts =>
    match t.subgroup cs with
    | some t' => t' :: subgroupL cs ts
    | none => subgroupL cs ts
end

/-- `any(isinstance(x, classes) for x in error.exceptions)`: the direct members only -/
def directMatch (cs : List Cls) (ts : List ExcTree) : Bool :=
  ts.any (fun t => match t with
    | .leaf e => e.isaAny cs
    | .group _ => cs.contains .group)

inductive Verdict
  | reraise (t : ExcTree)     -- the lifespan task ends with `t` (worker_serve will raise it)
  | unsupported               -- `self.supported = False` + a log line: the server goes on without lifespan
  | unknown                   -- the source has a shape the extractor does not know
  deriving Repr

/-- the clause `except <caught> as error:` -/
def caughtVerdict (h : EscapeHandler) (t : ExcTree) : Verdict :=
  let found : Option ExcTree :=
    match t, h.search with
    | .group ts, .subgroup cs => (ExcTree.group ts).subgroup cs
    | .group ts, .directMembers cs => if directMatch cs ts then some (.group ts) else none
    | _, _ => none               -- `isinstance(error, BaseExceptionGroup)` is false for a leaf
  match found with
  | some t' => .reraise t'
  | none => if h.marksUnsupported && h.search != .unrecognised then .unsupported else .unknown

/-- `try: await self.app(…)  except <reraise>: raise  except <caught> as error: …` (an exception no clause names propagates) -/
def handle (h : EscapeHandler) : ExcTree → Verdict
  | .leaf e =>
    if e.isaAny h.reraise then .reraise (.leaf e)
    else if e.isaAny h.caught then caughtVerdict h (.leaf e)
    else .reraise (.leaf e)
  | .group ts =>
    if h.reraise.contains .group then .reraise (.group ts)
    else if h.caught.contains .group then caughtVerdict h (.group ts)
    else .reraise (.group ts)

def firstFailure : List Exc → Option Stage
  | [] => none
  | .failure st :: _ => some st
  | _ :: r => firstFailure r

/-- the verdict in the vocabulary of `Life.finish`: `some (.failure st)` = the task ends with a lifespan failure,
    `some .other` = unsupported; `none` = neither (a re-raised cancellation, an unknown shape) -/
def Verdict.appExc : Verdict → Option AppExc
  | .unsupported => some .other
  | .reraise t => (firstFailure t.leaves).map AppExc.failure
  | .unknown => none

def Verdict.isUnsupported : Verdict → Bool
  | .unsupported => true
  | _ => false

def Verdict.reraised : Verdict → Option (List Exc)
  | .reraise t => some t.leaves
  | _ => none

/-! ### wraps: how the application's own exception is packed when it leaves the application -/

/-- a tree with holes: `own` = the exception the script raised, `sibling` = some other `Exception` raised next to it
    (a sibling task failing while it is cancelled), `group` = one task group / nursery -/
inductive Wrap
  | own
  | sibling
  | group (ws : List Wrap)
  deriving Repr

mutual
def Wrap.fill (e : Exc) : Wrap → ExcTree
  | .own => .leaf e
  | .sibling => .leaf .other
  | .group ws => .group (fillL e ws)
def fillL (e : Exc) : List Wrap → List ExcTree
  | [] => []
  | w :: ws => w.fill e :: fillL e ws
end

mutual
def Wrap.hasOwn : Wrap → Bool
  | .own => true
  | .sibling => false
  | .group ws => hasOwnL ws
def hasOwnL : List Wrap → Bool
  | [] => false
  | w :: ws => w.hasOwn || hasOwnL ws
end

/-- `n` task groups around the script: `group [group [… own …]]` -/
def Wrap.nest : Nat → Wrap
  | 0 => .own
  | n + 1 => .group [Wrap.nest n]

/-- the exception an action raises into / out of the application -/
def LAct.raises : LAct → Option Exc
  | .sendStartupFailed => some (.failure .startup)
  | .sendShutdownFailed => some (.failure .shutdown)
  | .sendUnknown => some .other
  | .raise => some .other
  | _ => none

/-- the action as the server will experience it when its exception leaves the application through `w`: itself when the verdict
    on the wrapped exception is the verdict on the bare one; a `lifespan.*.failed` whose `LifespanFailureError` the handler does
    NOT find in the group is, for the server, an application that raised (`sendUnknown`: an exception raised into the
    application, no event set, "unsupported"); `none`: not expressible in the lifespan model -/
def translateAct (h : EscapeHandler) (w : Wrap) (a : LAct) : Option LAct :=
  match a.raises with
  | none => some a
  | some e =>
    match (handle h (w.fill e)).appExc, e with
    | some (.failure st), .failure st' => if st = st' then some a else none
    | some .other, .other => some a
    | some .other, .failure _ => some .sendUnknown
    | _, _ => none

def translate (h : EscapeHandler) (w : Wrap) (script : List LAct) : Option (List LAct) := script.mapM (translateAct h w)

/-! ### `subgroup` keeps exactly the matching leaves -/

mutual
theorem ExcTree.subgroup_spec (cs : List Cls) (hg : cs.contains .group = false) : ∀ (t : ExcTree),
    (∀ t', t.subgroup cs = some t' → t'.leaves = t.leaves.filter (fun e => e.isaAny cs)) ∧
    (t.subgroup cs = none ↔ t.leaves.filter (fun e => e.isaAny cs) = [])
  | .leaf e => by
    by_cases h : e.isaAny cs = true
    · simp [ExcTree.subgroup, ExcTree.leaves, h]
    · simp [ExcTree.subgroup, ExcTree.leaves, h]
  | .group ts => by
    have ih := subgroupL_spec cs hg ts
    simp only [ExcTree.subgroup, hg, ExcTree.leaves]
    cases hs : subgroupL cs ts with
    | nil =>
      have := ih.2.mp hs
      simp [this]
    | cons t' ts' =>
      have h1 := ih.1
      rw [hs] at h1
      have hne : ¬ (subgroupL cs ts = []) := by simp [hs]
      have h2 : ¬ ((leavesL ts).filter (fun e => e.isaAny cs) = []) := fun h => hne (ih.2.mpr h)
      refine ⟨?_, ?_⟩
      · intro t'' ht''
        simp only [Bool.false_eq_true, ↓reduceIte, Option.some.injEq] at ht''
        subst ht''
        simpa [ExcTree.leaves] using h1
      · simp [h2]
theorem subgroupL_spec (cs : List Cls) (hg : cs.contains .group = false) : ∀ (ts : List ExcTree),
    (leavesL (subgroupL cs ts) = (leavesL ts).filter (fun e => e.isaAny cs)) ∧
    (subgroupL cs ts = [] ↔ (leavesL ts).filter (fun e => e.isaAny cs) = [])
  | [] => by simp [subgroupL, leavesL]
  | t :: ts => by
    have iht := ExcTree.subgroup_spec cs hg t
    have ihs := subgroupL_spec cs hg ts
    simp only [subgroupL, leavesL, List.filter_append]
    cases hs : t.subgroup cs with
    | none =>
      have := iht.2.mp hs
      simp [this, ihs.1, ihs.2]
    | some t' =>
      have h1 := iht.1 t' hs
      have hne : ¬ (t.leaves.filter (fun e => e.isaAny cs) = []) := by
        intro h
        have := iht.2.mpr h
        simp [hs] at this
      simp [leavesL, h1, ihs.1, hne]
end

mutual
theorem Wrap.fill_leaves (e : Exc) : ∀ (w : Wrap),
    (∀ x ∈ (w.fill e).leaves, x = e ∨ x = .other) ∧ (w.hasOwn = true → e ∈ (w.fill e).leaves)
  | .own => by simp [Wrap.fill, ExcTree.leaves, Wrap.hasOwn]
  | .sibling => by simp [Wrap.fill, ExcTree.leaves, Wrap.hasOwn]
  | .group ws => by
    have := fillL_leaves e ws
    simpa [Wrap.fill, ExcTree.leaves, Wrap.hasOwn] using this
theorem fillL_leaves (e : Exc) : ∀ (ws : List Wrap),
    (∀ x ∈ leavesL (fillL e ws), x = e ∨ x = .other) ∧ (hasOwnL ws = true → e ∈ leavesL (fillL e ws))
  | [] => by simp [fillL, leavesL, hasOwnL]
  | w :: ws => by
    have h1 := Wrap.fill_leaves e w
    have h2 := fillL_leaves e ws
    refine ⟨?_, ?_⟩
    · intro x hx
      simp only [fillL, leavesL, List.mem_append] at hx
      rcases hx with hx | hx
      · exact h1.1 x hx
      · exact h2.1 x hx
    · intro h
      simp only [hasOwnL, Bool.or_eq_true] at h
      simp only [fillL, leavesL, List.mem_append]
      rcases h with h | h
      · exact Or.inl (h1.2 h)
      · exact Or.inr (h2.2 h)
end

theorem firstFailure_of_all (st : Stage) : ∀ (l : List Exc), l ≠ [] → (∀ x ∈ l, x = .failure st) → firstFailure l = some st
  | [], h, _ => absurd rfl h
  | x :: r, _, h => by
    have := h x (by simp)
    subst this
    simp [firstFailure]

theorem firstFailure_some_of_mem (st : Stage) : ∀ (l : List Exc), Exc.failure st ∈ l → ∃ st', firstFailure l = some st'
  | [], h => by simp at h
  | x :: r, h => by
    cases x with
    | failure s => exact ⟨s, by simp [firstFailure]⟩
    | cancelled =>
      simp only [List.mem_cons, reduceCtorEq, false_or] at h
      simpa [firstFailure] using firstFailure_some_of_mem st r h
    | other =>
      simp only [List.mem_cons, reduceCtorEq, false_or] at h
      simpa [firstFailure] using firstFailure_some_of_mem st r h

end HC.Worker
