import HC.Worker.Run
/-!
# HC.Worker.LifeLemmas — what every scheduling of the lifespan task preserves

Helper lemmas (no property theorem lives here): the invariant `LifeOk` of the `Life` record and its preservation by
`Life.appStep`, by induction over the application script.
-/
namespace HC.Worker

/-! ### the lifespan task -/

def Life.failedSent (l : Life) : Stage → Bool
  | .startup => l.startupFailedSent
  | .shutdown => l.shutdownFailedSent

/-- `lifespan.startup.failed` immediately followed by a suspension of the application (the F16 shape) -/
def failedThenAwait : List LAct → Bool
  | [] => false
  | a :: rest => (a == .sendStartupFailed && rest.head? == some .awaitInCleanup) || failedThenAwait rest

structure LifeOk (rt : Runtime) (l : Life) : Prop where
  startupWhy : l.startup = true → l.completeSeen = true ∨ l.exited = true ∨
    (rt.failedSetsEvent = true ∧ l.pending = some (.failure .startup))
  shutdownWhy : l.shutdown = true → l.shutdownCompleteSeen = true ∨ l.exited = true ∨
    (rt.failedSetsEvent = true ∧ l.pending = some (.failure .shutdown))
  completeStartup : l.completeSeen = true → l.startup = true
  pendingFailed : ∀ st, l.pending = some (.failure st) → l.failedSent st = true
  exitingRes : ∀ e, l.exiting = some (some e) → ∃ st, e = .lifespanFailure st ∧ l.failedSent st = true
  doneRes : ∀ e, l.taskDone = some (some e) → ∃ st, e = .lifespanFailure st ∧ l.failedSent st = true
  exitedEvents : l.exited = true → l.startup = true ∧ l.shutdown = true ∧ l.pending = none ∧ l.script = []
  exitingFlag : l.exiting.isSome = true → rt.exitCheckpoints = true ∧ l.taskDone = none
  closedWhy : l.channelsClosed = true → l.exited = true ∧ rt.channelsClosedOnExit = true
  closedIf : rt.channelsClosedOnExit = true → l.exited = true → l.channelsClosed = true
  unsupportedWhy : l.supported = false → l.exited = true
  raisedBC : l.raisedBeforeComplete = true → l.supported = false ∧ l.completeSeen = false ∧
    l.exiting ≠ some (some (.lifespanFailure .startup)) ∧ (∀ e, l.exiting ≠ some (some e)) ∧ (∀ e, l.taskDone ≠ some (some e))
  failedBC : l.failedBeforeComplete = true → l.startupFailedSent = true ∧ l.completeSeen = false ∧ l.supported = true ∧
    (l.pending = some (.failure .startup) ∨ l.exiting = some (some (.lifespanFailure .startup)) ∨
     l.taskDone = some (some (.lifespanFailure .startup)))
  notStarted : l.started = false → l.exited = false ∧ l.startup = false ∧ l.shutdown = false ∧ l.recvd = [] ∧
    l.completeSeen = false ∧ l.failedBeforeComplete = false ∧ l.raisedBeforeComplete = false

theorem lifeOk_init (rt : Runtime) (script : List LAct) (cap : Nat) : LifeOk rt (Life.init script cap) := by
  constructor <;> simp [Life.init, Life.exited, Life.failedSent]

private theorem finish_pre (rt : Runtime) (l : Life) (h : LifeOk rt l) (hx : l.exited = false) :
    l.taskDone = none ∧ l.exiting = none ∧ l.supported = true ∧ l.channelsClosed = false := by
  have hx' : l.taskDone = none ∧ l.exiting = none := by
    simp only [Life.exited, Bool.or_eq_false_iff] at hx
    exact ⟨by simpa using hx.1, by simpa using hx.2⟩
  refine ⟨hx'.1, hx'.2, ?_, ?_⟩
  · by_cases hsup : l.supported = true
    · exact hsup
    · have := h.unsupportedWhy (by simpa using hsup); simp [hx] at this
  · by_cases hc : l.channelsClosed = true
    · have := (h.closedWhy hc).1; simp [hx] at this
    · simpa using hc

private theorem finish_ok_none (rt : Runtime) (l : Life) (h : LifeOk rt l) (hx : l.exited = false)
    (hs : l.started = true) (hp : l.pending = none) : LifeOk rt (l.finish rt none) := by
  obtain ⟨p1, p2, p3, p4⟩ := finish_pre rt l h hx
  obtain ⟨h1, h2, h3, h4, h5, h6, h7, h8, h9, h10, h11, h12, h13, h14⟩ := h
  unfold Life.finish
  cases hec : rt.exitCheckpoints <;> constructor <;> simp_all [Life.exited, Life.failedSent]

private theorem finish_ok_other (rt : Runtime) (l : Life) (h : LifeOk rt l) (hx : l.exited = false)
    (hs : l.started = true) (hp : l.pending = some .other) : LifeOk rt (l.finish rt (some .other)) := by
  obtain ⟨p1, p2, p3, p4⟩ := finish_pre rt l h hx
  obtain ⟨h1, h2, h3, h4, h5, h6, h7, h8, h9, h10, h11, h12, h13, h14⟩ := h
  unfold Life.finish
  cases hec : rt.exitCheckpoints <;> constructor <;> simp_all [Life.exited, Life.failedSent]

private theorem finish_ok_failure (rt : Runtime) (l : Life) (st : Stage) (h : LifeOk rt l) (hx : l.exited = false)
    (hs : l.started = true) (hp : l.pending = some (.failure st)) : LifeOk rt (l.finish rt (some (.failure st))) := by
  obtain ⟨p1, p2, p3, p4⟩ := finish_pre rt l h hx
  obtain ⟨h1, h2, h3, h4, h5, h6, h7, h8, h9, h10, h11, h12, h13, h14⟩ := h
  unfold Life.finish
  cases hec : rt.exitCheckpoints <;> constructor <;> simp_all [Life.exited, Life.failedSent] <;> grind

theorem finish_ok (rt : Runtime) (l : Life) (out : Option AppExc) (h : LifeOk rt l) (hx : l.exited = false)
    (hs : l.started = true) (ho : out = l.pending ∨ (l.pending = none ∧ out = none)) : LifeOk rt (l.finish rt out) := by
  have hp : l.pending = out := by rcases ho with h1 | ⟨h1, h2⟩ <;> simp [h1, *]
  subst hp
  cases hq : l.pending with
  | none => exact finish_ok_none rt l h hx hs hq
  | some e =>
    cases e with
    | other => exact finish_ok_other rt l h hx hs hq
    | failure st => exact finish_ok_failure rt l st h hx hs hq

theorem exited_false_iff (l : Life) : l.exited = false ↔ l.taskDone = none ∧ l.exiting = none := by
  simp only [Life.exited, Bool.or_eq_false_iff]
  constructor
  · intro h; exact ⟨by simpa using h.1, by simpa using h.2⟩
  · intro h; simp [h.1, h.2]

/-- changes that do not touch what `LifeOk` speaks about (suspending, dequeuing) -/
private theorem lifeOk_frame (rt : Runtime) (l l' : Life) (h : LifeOk rt l) (hs : l'.started = true)
    (e1 : l'.startup = l.startup) (e2 : l'.shutdown = l.shutdown) (e3 : l'.completeSeen = l.completeSeen)
    (e4 : l'.shutdownCompleteSeen = l.shutdownCompleteSeen) (e5 : l'.taskDone = l.taskDone) (e6 : l'.exiting = l.exiting)
    (e7 : l'.pending = l.pending) (e8 : l'.startupFailedSent = l.startupFailedSent)
    (e9 : l'.shutdownFailedSent = l.shutdownFailedSent) (e10 : l'.channelsClosed = l.channelsClosed)
    (e11 : l'.supported = l.supported) (e12 : l'.raisedBeforeComplete = l.raisedBeforeComplete)
    (e13 : l'.failedBeforeComplete = l.failedBeforeComplete) (e14 : l.exited = true → l'.script = []) : LifeOk rt l' := by
  obtain ⟨h1, h2, h3, h4, h5, h6, h7, h8, h9, h10, h11, h12, h13, h14⟩ := h
  constructor <;> simp only [Life.exited, Life.failedSent, e1, e2, e3, e4, e5, e6, e7, e8, e9, e10, e11, e12, e13, hs] at * <;>
    grind

private theorem ok_startupComplete (rt : Runtime) (l : Life) (h : LifeOk rt l) (hx : l.exited = false) (hs : l.started = true)
    (hp : l.pending = none) : LifeOk rt { l with startup := true, completeSeen := true } := by
  obtain ⟨h1, h2, h3, h4, h5, h6, h7, h8, h9, h10, h11, h12, h13, h14⟩ := h
  constructor <;> simp_all [Life.exited, Life.failedSent]

private theorem ok_shutdownComplete (rt : Runtime) (l : Life) (h : LifeOk rt l) (hx : l.exited = false) (hs : l.started = true)
    (hp : l.pending = none) : LifeOk rt { l with shutdown := true, shutdownCompleteSeen := true } := by
  obtain ⟨h1, h2, h3, h4, h5, h6, h7, h8, h9, h10, h11, h12, h13, h14⟩ := h
  constructor <;> simp_all [Life.exited, Life.failedSent]

private theorem ok_startupFailed (rt : Runtime) (l : Life) (h : LifeOk rt l) (hx : l.exited = false) (hs : l.started = true)
    (hp : l.pending = none) :
    LifeOk rt { l with startup := l.startup || rt.failedSetsEvent, pending := some (.failure .startup),
                       failedBeforeComplete := l.failedBeforeComplete || !l.completeSeen, startupFailedSent := true } := by
  have hsup : l.supported = true := by
    by_cases hsup : l.supported = true
    · exact hsup
    · have := h.unsupportedWhy (by simpa using hsup); simp [hx] at this
  obtain ⟨h1, h2, h3, h4, h5, h6, h7, h8, h9, h10, h11, h12, h13, h14⟩ := h
  constructor <;> simp_all [Life.exited, Life.failedSent] <;> grind

private theorem ok_shutdownFailed (rt : Runtime) (l : Life) (h : LifeOk rt l) (hx : l.exited = false) (hs : l.started = true)
    (hp : l.pending = none) :
    LifeOk rt { l with shutdown := l.shutdown || rt.failedSetsEvent, pending := some (.failure .shutdown),
                       shutdownFailedSent := true } := by
  obtain ⟨h1, h2, h3, h4, h5, h6, h7, h8, h9, h10, h11, h12, h13, h14⟩ := h
  constructor <;> simp_all [Life.exited, Life.failedSent] <;> grind

private theorem ok_other (rt : Runtime) (l : Life) (h : LifeOk rt l) (hx : l.exited = false) (hs : l.started = true)
    (hp : l.pending = none) : LifeOk rt { l with pending := some .other } := by
  obtain ⟨h1, h2, h3, h4, h5, h6, h7, h8, h9, h10, h11, h12, h13, h14⟩ := h
  constructor <;> simp_all [Life.exited, Life.failedSent]

/-- running the application preserves the lifespan invariant -/
theorem runApp_ok (rt : Runtime) : ∀ (acts : List LAct) (l : Life), LifeOk rt l → l.exited = false → l.started = true →
    LifeOk rt (Life.runApp rt l acts) := by
  intro acts
  induction acts with
  | nil => intro l h hx hs; simp only [Life.runApp]; exact finish_ok rt l _ h hx hs (Or.inl rfl)
  | cons a rest ih =>
    intro l h hx hs
    have hx2 : l.exited = true → False := by simp [hx]
    simp only [Life.runApp]
    split
    · rename_i e hp
      split <;> first
        | exact lifeOk_frame rt l _ h hs rfl rfl rfl rfl rfl rfl rfl rfl rfl rfl rfl rfl rfl (fun h => (hx2 h).elim)
        | exact finish_ok rt l _ h hx hs (Or.inl hp.symm)
    · rename_i hp
      split
      · split
        · exact lifeOk_frame rt l _ h hs rfl rfl rfl rfl rfl rfl rfl rfl rfl rfl rfl rfl rfl (fun h => (hx2 h).elim)
        · apply ih
          · exact lifeOk_frame rt l _ h hs rfl rfl rfl rfl rfl rfl rfl rfl rfl rfl rfl rfl rfl (fun h => (hx2 h).elim)
          · simpa [Life.exited] using hx
          · exact hs
      all_goals first
        | exact lifeOk_frame rt l _ h hs rfl rfl rfl rfl rfl rfl rfl rfl rfl rfl rfl rfl rfl (fun h => (hx2 h).elim)
        | exact finish_ok rt l _ h hx hs (Or.inr ⟨hp, rfl⟩)
        | exact ih _ (ok_startupComplete rt l h hx hs hp) (by simpa [Life.exited] using hx) hs
        | exact ih _ (ok_shutdownComplete rt l h hx hs hp) (by simpa [Life.exited] using hx) hs
        | exact ih _ (ok_startupFailed rt l h hx hs hp) (by simpa [Life.exited] using hx) hs
        | exact ih _ (ok_shutdownFailed rt l h hx hs hp) (by simpa [Life.exited] using hx) hs
        | exact ih _ (ok_other rt l h hx hs hp) (by simpa [Life.exited] using hx) hs

theorem appStep_ok (rt : Runtime) (l l' : Life) (h : LifeOk rt l) (hs : l.appStep rt = some l') : LifeOk rt l' := by
  unfold Life.appStep at hs
  split at hs
  · simp at hs
  · rename_i htd
    split at hs
    · rename_i r hr
      simp only [Option.some.injEq] at hs; subst hs
      obtain ⟨h1, h2, h3, h4, h5, h6, h7, h8, h9, h10, h11, h12, h13, h14⟩ := h
      constructor <;> simp_all [Life.exited, Life.failedSent]
    · rename_i hex
      split at hs
      · simp at hs
      · simp only [Option.some.injEq] at hs; subst hs
        apply runApp_ok
        · obtain ⟨h1, h2, h3, h4, h5, h6, h7, h8, h9, h10, h11, h12, h13, h14⟩ := h
          constructor <;> simp_all [Life.exited, Life.failedSent]
        · simp_all [Life.exited]
        · rfl

/-- the application never suspends with `LifespanFailureError("startup")` in flight unless the script says so -/
theorem runApp_nostuck (rt : Runtime) : ∀ (acts : List LAct) (l : Life), failedThenAwait acts = false →
    (l.pending = some (.failure .startup) → acts.head? ≠ some .awaitInCleanup) →
    (Life.runApp rt l acts).pending ≠ some (.failure .startup) ∧ failedThenAwait (Life.runApp rt l acts).script = false := by
  intro acts
  induction acts with
  | nil => intro l _ _; simp only [Life.runApp, Life.finish]; split <;> simp [failedThenAwait]
  | cons a rest ih =>
    intro l hf hh
    simp only [failedThenAwait, Bool.or_eq_false_iff] at hf
    obtain ⟨hf1, hf2⟩ := hf
    simp only [Life.runApp]
    cases hp : l.pending with
    | some e =>
      cases a <;> simp only []
      case awaitInCleanup =>
        refine ⟨?_, hf2⟩
        intro hc
        have hc' : l.pending = some (.failure .startup) := hp.trans hc
        exact hh hc' (by simp)
      all_goals (simp only [Life.finish]; split <;> simp [failedThenAwait])
    | none =>
      cases a <;> simp only []
      case recv =>
        cases hq : l.queue with
        | nil => simp [failedThenAwait, hf1, hf2]
        | cons m q => exact ih _ hf2 (by simp)
      case ret => simp only [Life.finish]; split <;> simp [failedThenAwait]
      case hang => simp [failedThenAwait, hf1, hf2]
      case awaitInCleanup => simp [hf2]
      case sendStartupFailed =>
        apply ih _ hf2
        intro _
        simpa using hf1
      all_goals exact ih _ hf2 (by simp)

/-- `supported` is never set back to `True` -/
theorem runApp_supported (rt : Runtime) : ∀ (acts : List LAct) (l : Life), l.supported = false →
    (Life.runApp rt l acts).supported = false := by
  intro acts
  induction acts with
  | nil => intro l h; simp only [Life.runApp, Life.finish]; split <;> split <;> simp_all
  | cons a rest ih =>
    intro l h
    simp only [Life.runApp]
    cases hp : l.pending with
    | some e =>
      cases a <;> simp only [] <;> first
        | exact h
        | (simp only [Life.finish]; split <;> split <;> simp_all)
    | none =>
      cases a <;> simp only []
      case recv => cases hq : l.queue <;> simp only [] <;> first | exact h | exact ih _ h
      case ret => simp only [Life.finish]; split <;> simp_all
      case hang => exact h
      case awaitInCleanup => exact h
      all_goals exact ih _ h

theorem appStep_supported (rt : Runtime) (l l' : Life) (h : l.appStep rt = some l') (hs : l.supported = false) :
    l'.supported = false := by
  unfold Life.appStep at h
  split at h
  · simp at h
  · split at h
    · simp only [Option.some.injEq] at h; subst h; exact hs
    · split at h
      · simp at h
      · simp only [Option.some.injEq] at h; subst h; exact runApp_supported rt _ _ hs

private theorem finish_queue (rt : Runtime) (l : Life) (out : Option AppExc) :
    (l.finish rt out).recvd ++ (l.finish rt out).queue = l.recvd ++ l.queue ∧ (l.finish rt out).cap = l.cap := by
  unfold Life.finish
  rcases out with _ | (st | _) <;> cases rt.exitCheckpoints <;> exact ⟨rfl, rfl⟩

/-- receiving only moves messages from the queue to the received list -/
theorem runApp_queue (rt : Runtime) : ∀ (acts : List LAct) (l : Life),
    (Life.runApp rt l acts).recvd ++ (Life.runApp rt l acts).queue = l.recvd ++ l.queue ∧
    (Life.runApp rt l acts).cap = l.cap := by
  intro acts
  induction acts with
  | nil => intro l; simp only [Life.runApp]; exact finish_queue rt l _
  | cons a rest ih =>
    intro l
    simp only [Life.runApp]
    split
    · split <;> first
        | exact ⟨rfl, rfl⟩
        | exact finish_queue rt l _
    · split
      · split
        · exact ⟨rfl, rfl⟩
        · rename_i m q hq
          refine ⟨(ih _).1.trans ?_, (ih _).2.trans rfl⟩
          simp [hq]
      all_goals first
        | exact ⟨rfl, rfl⟩
        | exact finish_queue rt l _
        | exact ⟨(ih _).1.trans rfl, (ih _).2.trans rfl⟩

theorem appStep_queue (rt : Runtime) (l l' : Life) (h : l.appStep rt = some l') :
    l'.recvd ++ l'.queue = l.recvd ++ l.queue ∧ l'.cap = l.cap := by
  unfold Life.appStep at h
  split at h
  · simp at h
  · split at h
    · simp only [Option.some.injEq] at h; subst h; exact ⟨rfl, rfl⟩
    · split at h
      · simp at h
      · simp only [Option.some.injEq] at h; subst h
        have := runApp_queue rt l.script { l with started := true, sleeping := false }
        simpa using this

private theorem finish_exited (rt : Runtime) (l : Life) (out : Option AppExc) : (l.finish rt out).exited = true := by
  unfold Life.finish
  rcases out with _ | (st | _) <;> cases rt.exitCheckpoints <;> simp [Life.exited]

private theorem finish_mono (rt : Runtime) (l : Life) (out : Option AppExc) :
    (l.completeSeen = true → (l.finish rt out).completeSeen = true) := by
  unfold Life.finish
  rcases out with _ | (st | _) <;> cases rt.exitCheckpoints <;> simp

/-- what one scheduling of the application cannot undo -/
theorem runApp_mono (rt : Runtime) : ∀ (acts : List LAct) (l : Life),
    (l.completeSeen = true → (Life.runApp rt l acts).completeSeen = true) ∧
    (∀ e, l.pending = some e → (Life.runApp rt l acts).pending = some e ∨ (Life.runApp rt l acts).exited = true) := by
  intro acts
  induction acts with
  | nil =>
    intro l; simp only [Life.runApp]
    exact ⟨finish_mono rt l _, fun e _ => Or.inr (finish_exited rt l _)⟩
  | cons a rest ih =>
    intro l
    simp only [Life.runApp]
    split
    · rename_i e hp
      split
      · exact ⟨fun h => h, fun e' he' => Or.inl (by simpa [hp] using he')⟩
      · exact ⟨finish_mono rt l _, fun e _ => Or.inr (finish_exited rt l _)⟩
    · rename_i hp
      have hnone : ∀ e, l.pending = some e → False := by simp [hp]
      split
      · split
        · exact ⟨fun h => h, fun e he => (hnone e he).elim⟩
        · exact ⟨fun h => (ih _).1 h, fun e he => (hnone e he).elim⟩
      all_goals first
        | exact ⟨fun h => h, fun e he => (hnone e he).elim⟩
        | exact ⟨finish_mono rt l _, fun e he => (hnone e he).elim⟩
        | exact ⟨fun h => (ih _).1 (by simp [h]), fun e he => (hnone e he).elim⟩
        | exact ⟨fun _ => (ih _).1 rfl, fun e he => (hnone e he).elim⟩

theorem appStep_mono (rt : Runtime) (l l' : Life) (h : l.appStep rt = some l') :
    (l.completeSeen = true → l'.completeSeen = true) ∧ (l.exited = true → l'.exited = true) ∧
    (∀ e, l.pending = some e → l'.pending = some e ∨ l'.exited = true) := by
  unfold Life.appStep at h
  split at h
  · simp at h
  · rename_i htd
    split at h
    · simp only [Option.some.injEq] at h; subst h
      exact ⟨fun h => h, fun _ => by simp [Life.exited], fun e he => Or.inl he⟩
    · rename_i hex
      split at h
      · simp at h
      · simp only [Option.some.injEq] at h; subst h
        have := runApp_mono rt l.script { l with started := true, sleeping := false }
        refine ⟨this.1, ?_, this.2⟩
        intro hx
        simp only [Life.exited, Bool.or_eq_true] at hx
        rcases hx with hx | hx
        · simp [hx] at htd
        · simp [hex] at hx

theorem appStep_nostuck (rt : Runtime) (l l' : Life) (h : l.appStep rt = some l')
    (h1 : failedThenAwait l.script = false) (h2 : l.pending ≠ some (.failure .startup)) :
    failedThenAwait l'.script = false ∧ l'.pending ≠ some (.failure .startup) := by
  unfold Life.appStep at h
  split at h
  · simp at h
  · split at h
    · simp only [Option.some.injEq] at h; subst h; exact ⟨h1, h2⟩
    · split at h
      · simp at h
      · simp only [Option.some.injEq] at h; subst h
        have := runApp_nostuck rt l.script { l with started := true, sleeping := false } h1 (fun hc => absurd hc h2)
        exact ⟨this.2, this.1⟩

private theorem finish_failedBC (rt : Runtime) (l : Life) (out : Option AppExc) :
    (l.finish rt out).failedBeforeComplete = l.failedBeforeComplete := by
  unfold Life.finish
  rcases out with _ | (st | _) <;> cases rt.exitCheckpoints <;> rfl

/-- `failedBeforeComplete` is set only by sending `lifespan.startup.failed` before any `startup.complete` -/
theorem runApp_failedBC (rt : Runtime) : ∀ (acts : List LAct) (l : Life),
    (Life.runApp rt l acts).failedBeforeComplete = true →
    l.failedBeforeComplete = true ∨ (l.pending = none ∧ l.completeSeen = false) := by
  intro acts
  induction acts with
  | nil => intro l h; simp only [Life.runApp, finish_failedBC] at h; exact Or.inl h
  | cons a rest ih =>
    intro l
    simp only [Life.runApp]
    split
    · rename_i e hp
      split
      · intro h; exact Or.inl h
      · intro h; rw [finish_failedBC] at h; exact Or.inl h
    · rename_i hp
      split
      · split
        · intro h; exact Or.inl h
        · intro h; rcases ih _ h with h | ⟨_, h⟩
          · exact Or.inl h
          · exact Or.inr ⟨hp, h⟩
      all_goals first
        | (intro h; exact Or.inl h)
        | (intro h; rw [finish_failedBC] at h; exact Or.inl h)
        | (intro h; rcases ih _ h with h | ⟨h1, h2⟩
           · first
               | exact Or.inl h
               | (simp only [Bool.or_eq_true, Bool.not_eq_eq_eq_not, Bool.not_true] at h
                  rcases h with h | h
                  · exact Or.inl h
                  · exact Or.inr ⟨hp, h⟩)
           · first
               | exact Or.inr ⟨hp, h2⟩
               | (exfalso; revert h2; simp; done)
               | (exfalso; revert h1; simp; done))

theorem appStep_failedBC (rt : Runtime) (l l' : Life) (h : l.appStep rt = some l') (hf : l'.failedBeforeComplete = true) :
    l.failedBeforeComplete = true ∨ (l.pending = none ∧ l.completeSeen = false ∧ l.exited = false) := by
  unfold Life.appStep at h
  split at h
  · simp at h
  · rename_i htd
    split at h
    · simp only [Option.some.injEq] at h; subst h; exact Or.inl hf
    · rename_i hex
      split at h
      · simp at h
      · simp only [Option.some.injEq] at h; subst h
        rcases runApp_failedBC rt l.script { l with started := true, sleeping := false } hf with h | ⟨h1, h2⟩
        · exact Or.inl h
        · refine Or.inr ⟨h1, h2, ?_⟩
          have ht : l.taskDone = none := by simpa using htd
          simp [Life.exited, ht, hex]

end HC.Worker
