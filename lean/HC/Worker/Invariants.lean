import HC.Worker.LifeLemmas
/-!
# HC.Worker.Invariants — invariants of the worker model and their preservation by every operation

Helper lemmas for `HC/Props/C14.lean` and `HC/Props/C15.lean` (which contain the property theorems only).
Each invariant is proved to hold initially and to be preserved by every enabled `step`; `HC.inv_runOps` lifts it
to every operation list.
-/
namespace HC.Worker

/-! ### `worker_serve`'s steps as a relation (one constructor per branch of `W.srvStep`) -/

theorem put_cases (l : Life) (m : LMsg) :
    (l.put m = .notSupported ∧ l.supported = false) ∨
    (l.put m = .closed ∧ l.supported = true ∧ l.channelsClosed = true) ∨
    (l.put m = .full ∧ l.supported = true ∧ l.channelsClosed = false ∧ l.cap ≤ l.queue.length) ∨
    (l.put m = .ok { l with queue := l.queue ++ [m] } ∧ l.supported = true ∧ l.channelsClosed = false ∧
      l.queue.length < l.cap) := by
  unfold Life.put
  by_cases h1 : l.supported = true <;> by_cases h2 : l.channelsClosed = true <;>
    by_cases h3 : l.cap ≤ l.queue.length <;> simp_all <;> omega

/-- the put of `lifespan.shutdown` once every handler is gone -/
inductive SlsRel (s : W) : W → Prop
  | unsupported : s.life.supported = false → SlsRel s s.finishServe
  | closed : s.life.supported = true → s.life.channelsClosed = true → SlsRel s (s.fail .closedResource)
  | put : s.life.supported = true → s.life.channelsClosed = false → s.life.queue.length < s.life.cap →
      SlsRel s { s with life := { s.life with queue := s.life.queue ++ [.shutdown] }, phase := .lifespanShutdown s.now,
                        g := { s.g with shutdownPuts := s.g.shutdownPuts + 1, shutdownPutAt := some s.now },
                        log := s.log ++ [.shutdownPut] }

theorem sls_rel (s s' : W) (h : s.startLifespanShutdown = some s') : SlsRel s s' := by
  unfold W.startLifespanShutdown at h
  rcases put_cases s.life .shutdown with ⟨hp, h1⟩ | ⟨hp, h1, h2⟩ | ⟨hp, h1, h2, h3⟩ | ⟨hp, h1, h2, h3⟩ <;>
    simp only [hp] at h
  · simp only [Option.some.injEq] at h; subst h; exact .unsupported h1
  · simp only [Option.some.injEq] at h; subst h; exact .closed h1 h2
  · simp at h
  · simp only [Option.some.injEq] at h; subst h; exact .put h1 h2 h3

inductive SrvRel (s : W) : W → Prop
  | bootUnsupported : s.phase = .booting → s.life.started = true → s.life.supported = false → SrvRel s s.afterStartup
  | bootClosed : s.phase = .booting → s.life.started = true → s.life.supported = true → s.life.channelsClosed = true →
      SrvRel s (s.fail .closedResource)
  | bootPut : s.phase = .booting → s.life.started = true → s.life.supported = true → s.life.channelsClosed = false →
      s.life.queue.length < s.life.cap →
      SrvRel s { s with life := { s.life with queue := s.life.queue ++ [.startup] }, phase := .waitingStartup s.now,
                        g := { s.g with startupPuts := s.g.startupPuts + 1 }, log := s.log ++ [.startupPut] }
  | startupSet (since : Nat) : s.phase = .waitingStartup since → s.life.startup = true → SrvRel s s.afterStartup
  | startupTimeout (since : Nat) : s.phase = .waitingStartup since → s.life.startup = false →
      since + s.cfg.startupTimeout ≤ s.now → SrvRel s (s.fail (.lifespanTimeout .startup))
  | begin : s.phase = .serving → s.triggerPending = true → s.inExitWindow = false → SrvRel s s.beginShutdown
  | closed : s.phase = .closing → s.conns = [] → SrvRel s { s with phase := .draining s.now }
  | drained (since : Nat) (s' : W) : s.phase = .draining since → s.conns = [] → SlsRel s s' → SrvRel s s'
  | graceOver (since : Nat) (s' : W) : s.phase = .draining since → s.conns ≠ [] →
      since + s.cfg.gracefulTimeout ≤ s.now → SlsRel s.cancelAll s' → SrvRel s s'
  | shutdownSet (since : Nat) : s.phase = .lifespanShutdown since → s.life.shutdown = true → SrvRel s s.finishServe
  | shutdownTimeout (since : Nat) : s.phase = .lifespanShutdown since → s.life.shutdown = false →
      since + s.cfg.shutdownTimeout ≤ s.now → SrvRel s (s.fail (.lifespanTimeout .shutdown))

theorem srv_rel (s s' : W) (h : s.srvStep = some s') : SrvRel s s' := by
  unfold W.srvStep at h
  split at h
  · simp at h
  · simp at h
  · rename_i hph
    split at h
    · simp at h
    · rename_i hst
      have hst' : s.life.started = true := by simpa using hst
      rcases put_cases s.life .startup with ⟨hp, h1⟩ | ⟨hp, h1, h2⟩ | ⟨hp, h1, h2, h3⟩ | ⟨hp, h1, h2, h3⟩ <;>
        simp only [hp] at h
      · simp only [Option.some.injEq] at h; subst h; exact .bootUnsupported hph hst' h1
      · simp only [Option.some.injEq] at h; subst h; exact .bootClosed hph hst' h1 h2
      · simp at h
      · simp only [Option.some.injEq] at h; subst h; exact .bootPut hph hst' h1 h2 h3
  · rename_i since hph
    split at h
    · rename_i hsu; simp only [Option.some.injEq] at h; subst h; exact .startupSet since hph hsu
    · rename_i hsu
      split at h
      · rename_i hto; simp only [Option.some.injEq] at h; subst h
        exact .startupTimeout since hph (by simpa using hsu) hto
      · simp at h
  · rename_i hph
    split at h
    · rename_i hc; simp only [Option.some.injEq] at h; subst h
      simp only [Bool.and_eq_true, Bool.not_eq_eq_eq_not, Bool.not_true] at hc
      exact .begin hph hc.1 hc.2
    · simp at h
  · rename_i hph
    split at h
    · rename_i hc; simp only [Option.some.injEq] at h; subst h
      exact .closed hph (by simpa using hc)
    · simp at h
  · rename_i since hph
    split at h
    · rename_i hc; exact .drained since s' hph (by simpa using hc) (sls_rel _ _ h)
    · rename_i hc
      split at h
      · rename_i hto
        split at h
        · simp at h
        · exact .graceOver since s' hph (by simpa using hc) hto (sls_rel _ _ h)
      · simp at h
  · rename_i since hph
    split at h
    · rename_i hsu; simp only [Option.some.injEq] at h; subst h; exact .shutdownSet since hph hsu
    · rename_i hsu
      split at h
      · rename_i hto; simp only [Option.some.injEq] at h; subst h
        exact .shutdownTimeout since hph (by simpa using hsu) hto
      · simp at h

/-! ### every operation as a relation (one constructor per branch of `step`) -/

inductive StepRel (s : W) : Op → W → Prop
  | appFail (l' : Life) (e : ServeErr) : s.phase.terminal = false → s.life.appStep s.rt = some l' →
      s.rt.lifespanInNursery = true → l'.taskDone = some (some e) →
      StepRel s .app (W.fail { s with life := l', log := s.log ++ appEvents s.life l' } e)
  | appOk (l' : Life) : s.phase.terminal = false → s.life.appStep s.rt = some l' →
      (s.rt.lifespanInNursery = true → ∀ e, l'.taskDone ≠ some (some e)) →
      StepRel s .app { s with life := l', log := s.log ++ appEvents s.life l' }
  | srv (s' : W) : SrvRel s s' → s.srvStep = some s' → StepRel s .srv s'
  | accept (k : Kind) : s.listening = true → s.terminated = false → s.inExitWindow = false → k ≠ .ws →
      StepRel s (.connect k) (s.accept k)
  | acceptWs : s.listening = true → s.terminated = false → s.inExitWindow = false →
      StepRel s (.connect .ws) ((s.accept .ws).newScope s.nextId)
  | partialHead (i : Nat) (c : Conn) : s.findConn i = some c → c.phase = .idle → s.inExitWindow = false →
      StepRel s (.partialHead i) { s with conns := s.setPhase i .midHead }
  | request (i : Nat) (rem : Option Nat) (c : Conn) : s.findConn i = some c → (c.phase = .idle ∨ c.phase = .midHead) →
      s.terminated = false → s.inExitWindow = false →
      StepRel s (.request i rem) (W.newScope { s with conns := s.setPhase i (.inRequest (rem.map (s.now + ·))) } i)
  | streamRefused (i : Nat) (c : Conn) (k : Nat) (t : Bool) : s.findConn i = some c → c.phase = .h2 k t →
      s.inExitWindow = false → s.terminated = true →
      StepRel s (.newStream i) { s with g := { s.g with refusedStreams := s.g.refusedStreams + 1 },
                                        log := s.log ++ [.refusedStream i] }
  | streamNew (i : Nat) (c : Conn) (k : Nat) (t : Bool) : s.findConn i = some c → c.phase = .h2 k t →
      s.inExitWindow = false → s.terminated = false →
      StepRel s (.newStream i) (W.newScope { s with conns := s.setPhase i (.h2 (k + 1) t) } i)
  | lastStreamGoaway (i : Nat) (c : Conn) (t : Bool) : s.findConn i = some c → c.phase = .h2 1 t → s.terminated = true →
      StepRel s (.progress i) { s with conns := s.dropConn i, log := s.log ++ [.streamDone i, .goaway i],
                                       hist := { s.hist with goaway := s.hist.goaway ++ [i] } }
  | lastStreamIdle (i : Nat) (c : Conn) (t : Bool) : s.findConn i = some c → c.phase = .h2 1 t → s.terminated = false →
      StepRel s (.progress i) { s with conns := s.setPhase i (.h2 0 true), log := s.log ++ [.streamDone i] }
  | streamDone (i : Nat) (c : Conn) (k : Nat) (t : Bool) : s.findConn i = some c → c.phase = .h2 (k + 2) t →
      StepRel s (.progress i) { s with conns := s.setPhase i (.h2 (k + 1) t), log := s.log ++ [.streamDone i] }
  | wsDone (i : Nat) (c : Conn) : s.findConn i = some c → c.phase = .ws →
      StepRel s (.progress i) { s with conns := s.dropConn i, log := s.log ++ [.wsDone i] }
  | finish (i : Nat) (c : Conn) (due : Nat) : s.findConn i = some c → c.phase = .inRequest (some due) → due ≤ s.now →
      StepRel s (.finish i) { s with conns := if s.terminated then s.dropConn i else s.setPhase i .idle,
                                     hist := { s.hist with delivered := s.hist.delivered ++ [(i, s.now)] },
                                     log := s.log ++ [.delivered i] }
  | clientClose (i : Nat) (c : Conn) : s.findConn i = some c →
      StepRel s (.clientClose i) { s with conns := s.dropConn i, log := s.log ++ [.peerClosed i] }
  | trigger : StepRel s .trigger { s with triggerPending := true }
  | tick (d : Nat) : s.srvStep = none → s.inExitWindow = false → s.tickOk d = true →
      StepRel s (.tick d) { s with now := s.now + d }
  | lifeWrite (k v : Nat) :
      StepRel s (.lifeWrite k v)
        { s with mem := { s.mem with heap := fun r => if r = 0 then kvSet (s.mem.heap 0) k v else s.mem.heap r } }
  | connWrite (i k v : Nat) (c : Conn) : s.findConn i = some c →
      StepRel s (.connWrite i k v)
        { s with mem := { s.mem with heap := fun r => if r = c.ref then kvSet (s.mem.heap c.ref) k v else s.mem.heap r } }

theorem step_rel (s s' : W) (o : Op) (hs : step s o = some s') : StepRel s o s' := by
  cases o with
  | srv => exact .srv s' (srv_rel s s' hs) hs
  | app =>
    simp only [step] at hs
    split at hs
    · simp at hs
    · rename_i hnt
      split at hs
      · simp at hs
      · rename_i l' hl
        split at hs <;> simp only [Option.some.injEq] at hs <;> subst hs
        · rename_i e he
          split at he
          · rename_i hn; exact .appFail l' e (by simpa using hnt) hl hn he
          · simp at he
        · rename_i hne
          refine .appOk l' (by simpa using hnt) hl ?_
          intro hn e he
          exact hne e (by simp [hn, he])
  | connect k =>
    simp only [step] at hs
    split at hs
    · rename_i hg
      simp only [Bool.and_eq_true, Bool.not_eq_eq_eq_not, Bool.not_true] at hg
      simp only [Option.some.injEq] at hs; subst hs
      split
      · rename_i hk; subst hk; exact .acceptWs hg.1.1 hg.1.2 hg.2
      · rename_i hk; exact .accept k hg.1.1 hg.1.2 hg.2 hk
    · simp at hs
  | partialHead i =>
    simp only [step] at hs
    split at hs
    · rename_i c hc
      split at hs
      · rename_i hg
        simp only [Bool.and_eq_true, decide_eq_true_eq, Bool.not_eq_eq_eq_not, Bool.not_true] at hg
        simp only [Option.some.injEq] at hs; subst hs
        exact .partialHead i c hc hg.1 hg.2
      · simp at hs
    · simp at hs
  | request i rem =>
    simp only [step] at hs
    split at hs
    · rename_i c hc
      split at hs
      · rename_i hg
        simp only [Bool.and_eq_true, Bool.or_eq_true, decide_eq_true_eq, Bool.not_eq_eq_eq_not, Bool.not_true] at hg
        simp only [Option.some.injEq] at hs; subst hs
        exact .request i rem c hc hg.1.1 hg.1.2 hg.2
      · simp at hs
    · simp at hs
  | newStream i =>
    simp only [step] at hs
    split at hs
    · rename_i c hc
      split at hs
      · rename_i k t hp
        split at hs
        · simp at hs
        · rename_i hw
          split at hs <;> simp only [Option.some.injEq] at hs <;> subst hs
          · rename_i ht; exact .streamRefused i c k t hc hp (by simpa using hw) ht
          · rename_i ht; exact .streamNew i c k t hc hp (by simpa using hw) (by simpa using ht)
      · simp at hs
    · simp at hs
  | progress i =>
    simp only [step] at hs
    split at hs
    · rename_i c hc
      split at hs
      · rename_i k t hp
        split at hs
        · rename_i hk; subst hk
          split at hs <;> simp only [Option.some.injEq] at hs <;> subst hs
          · rename_i ht; exact .lastStreamGoaway i c t hc hp ht
          · rename_i ht; exact .lastStreamIdle i c t hc hp (by simpa using ht)
        · rename_i hk
          simp only [Option.some.injEq] at hs; subst hs
          obtain ⟨k', rfl⟩ : ∃ k', k = k' + 1 := ⟨k - 1, by omega⟩
          exact .streamDone i c k' t hc hp
      · rename_i hp
        simp only [Option.some.injEq] at hs; subst hs
        exact .wsDone i c hc hp
      · simp at hs
    · simp at hs
  | finish i =>
    simp only [step] at hs
    split at hs
    · rename_i c hc
      split at hs
      · rename_i due hp
        split at hs
        · rename_i hd
          simp only [Option.some.injEq] at hs; subst hs
          exact .finish i c due hc hp hd
        · simp at hs
      · simp at hs
    · simp at hs
  | clientClose i =>
    simp only [step] at hs
    split at hs
    · rename_i c hc
      simp only [Option.some.injEq] at hs; subst hs
      exact .clientClose i c hc
    · simp at hs
  | trigger =>
    simp only [step, Option.some.injEq] at hs; subst hs
    exact .trigger
  | tick d =>
    simp only [step] at hs
    split at hs
    · simp at hs
    · rename_i hg
      simp only [Option.some.injEq] at hs; subst hs
      simp only [Bool.or_eq_true, Bool.not_eq_eq_eq_not, Bool.not_true, not_or, Bool.not_eq_true,
        Option.isSome_eq_false_iff, Option.isNone_iff_eq_none] at hg
      exact .tick d hg.1.1 hg.1.2 (by simpa using hg.2)
  | lifeWrite k v =>
    simp only [step, Option.some.injEq] at hs; subst hs
    exact .lifeWrite k v
  | connWrite i k v =>
    simp only [step] at hs
    split at hs
    · rename_i c hc
      simp only [Option.some.injEq] at hs; subst hs
      exact .connWrite i k v c hc
    · simp at hs

/-! ### InvP — how phases, puts, listening and the connection set hang together -/

structure InvP (s : W) : Prop where
  boot : s.phase = .booting → s.g.startupPuts = 0 ∧ s.g.everListening = false
  wait : ∀ since, s.phase = .waitingStartup since → s.g.startupPuts = 1 ∧ s.g.everListening = false ∧ since ≤ s.now ∧
    s.now ≤ since + s.cfg.startupTimeout
  never : s.g.everListening = false → s.listening = false ∧ s.conns = [] ∧ s.g.scopes = 0 ∧ s.g.accepts = 0 ∧ s.terminated = false
  listen : s.listening = true → s.phase = .serving ∧ s.terminated = false
  serv : s.phase = .serving → s.g.everListening = true ∧ s.terminated = false ∧ s.g.triggerTime = none ∧ s.g.shutdownPuts = 0
  putsLe : s.g.startupPuts ≤ 1 ∧ s.g.shutdownPuts ≤ 1
  early : s.g.everListening = false → s.g.triggerTime = none ∧ s.g.shutdownPuts = 0
  closing : s.phase = .closing →
    s.terminated = true ∧ s.listening = false ∧ s.g.everListening = true ∧ s.g.triggerTime.isSome = true ∧ s.g.shutdownPuts = 0
  drain : ∀ since, s.phase = .draining since →
    s.terminated = true ∧ s.listening = false ∧ s.g.everListening = true ∧ s.g.triggerTime.isSome = true ∧ s.g.shutdownPuts = 0 ∧
    since ≤ s.now ∧ s.now ≤ since + s.cfg.gracefulTimeout
  lsd : ∀ since, s.phase = .lifespanShutdown since →
    s.terminated = true ∧ s.listening = false ∧ s.g.everListening = true ∧ s.g.triggerTime.isSome = true ∧
    s.g.shutdownPuts = 1 ∧ s.conns = [] ∧ s.g.shutdownPutAt = some since ∧
    since ≤ s.now ∧ s.now ≤ since + s.cfg.shutdownTimeout
  term : s.phase.terminal = true → s.conns = [] ∧ s.listening = false ∧ s.g.returnTime.isSome = true
  nonterm : s.phase.terminal = false → s.g.returnTime = none
  noPut : s.g.startupPuts = 0 → s.phase = .booting ∨ s.life.supported = false ∨ s.phase.terminal = true

theorem invP_init (rt : Runtime) (cfg : Cfg) (script : List LAct) (cap : Nat) : InvP (W.init rt cfg script cap) := by
  constructor <;> simp [W.init, Phase.terminal]

/-- operations that leave phase, ghosts, listening, termination, time and the `supported` flag alone -/
theorem invP_frame (s s' : W) (h : InvP s) (h1 : s'.phase = s.phase) (h2 : s'.g = s.g) (h3 : s'.listening = s.listening)
    (h4 : s'.terminated = s.terminated) (h5 : s.life.supported = false → s'.life.supported = false) (h6 : s'.now = s.now)
    (h7 : s'.cfg = s.cfg) (h8 : s.conns = [] → s'.conns = []) : InvP s' := by
  obtain ⟨a1, a2, a3, a4, a5, a6, a7, a8, a9, a10, a11, a12, a13⟩ := h
  constructor <;> simp only [h1, h2, h3, h4, h6, h7] <;> grind

theorem invP_fail (s : W) (e : ServeErr) (h : InvP s) : InvP (s.fail e) := by
  obtain ⟨a1, a2, a3, a4, a5, a6, a7, a8, a9, a10, a11, a12, a13⟩ := h
  constructor <;> simp only [W.fail] <;> grind [Phase.terminal]

theorem invP_enterServing (s : W) (h : InvP s)
    (hp : (s.phase = .booting ∧ s.life.supported = false) ∨ ∃ t, s.phase = .waitingStartup t) : InvP s.enterServing := by
  obtain ⟨a1, a2, a3, a4, a5, a6, a7, a8, a9, a10, a11, a12, a13⟩ := h
  rcases hp with ⟨hp, hs⟩ | ⟨t, hp⟩ <;> constructor <;> simp only [W.enterServing] <;> grind [Phase.terminal]

theorem invP_afterStartup (s : W) (h : InvP s)
    (hp : (s.phase = .booting ∧ s.life.supported = false) ∨ ∃ t, s.phase = .waitingStartup t) : InvP s.afterStartup := by
  unfold W.afterStartup
  split
  · split
    · exact invP_fail s _ h
    · exact invP_enterServing s h hp
  · exact invP_enterServing s h hp

theorem invP_finishServe (s : W) (h : InvP s) (hp : (∃ t, s.phase = .lifespanShutdown t) ∨ ((∃ t, s.phase = .draining t) ∧ s.conns = [])) :
    InvP s.finishServe := by
  have hdone : InvP { s with phase := .done, g := { s.g with returnTime := some s.now }, log := s.log ++ [.returned] } := by
    obtain ⟨a1, a2, a3, a4, a5, a6, a7, a8, a9, a10, a11, a12, a13⟩ := h
    rcases hp with ⟨t, hp⟩ | ⟨⟨t, hp⟩, hc⟩ <;> constructor <;> grind [Phase.terminal]
  unfold W.finishServe
  split
  · split
    · exact invP_fail s _ h
    · exact hdone
  · split
    · exact invP_fail s _ h
    · exact hdone
    · split
      · exact invP_fail s _ h
      · exact hdone

theorem invP_sls (s s' : W) (hI : InvP s) (t : Nat) (ht : s.phase = .draining t) (hc : s.conns = []) (hs : SlsRel s s') :
    InvP s' := by
  cases hs with
  | unsupported hu => exact invP_finishServe s hI (Or.inr ⟨⟨t, ht⟩, hc⟩)
  | closed => exact invP_fail s _ hI
  | put =>
    obtain ⟨h1, h2, h3, h4, h4b, h5, h6, h7, h8, h9, h11, h12, h13⟩ := hI
    constructor <;> grind [Phase.terminal]

theorem invP_cancelAll (s : W) (h : InvP s) : InvP s.cancelAll := by
  exact invP_frame s _ h rfl rfl rfl rfl (fun h => h) rfl rfl (fun _ => rfl)

theorem invP_beginShutdown (s : W) (h : InvP s) (hp : s.phase = .serving) : InvP s.beginShutdown := by
  obtain ⟨a1, a2, a3, a4, a5, a6, a7, a8, a9, a10, a11, a12, a13⟩ := h
  unfold W.beginShutdown
  split <;> constructor <;> grind [Phase.terminal]

theorem invP_srv (s s' : W) (hI : InvP s) (hs : s.srvStep = some s') : InvP s' := by
  have hr := srv_rel s s' hs
  clear hs
  cases hr with
  | bootUnsupported hp hst hsu => exact invP_afterStartup s hI (Or.inl ⟨hp, hsu⟩)
  | bootClosed hp => exact invP_fail s _ hI
  | bootPut hp =>
    obtain ⟨a1, a2, a3, a4, a5, a6, a7, a8, a9, a10, a11, a12, a13⟩ := hI
    constructor <;> grind [Phase.terminal]
  | startupSet since hp hsu => exact invP_afterStartup s hI (Or.inr ⟨since, hp⟩)
  | startupTimeout since hp => exact invP_fail s _ hI
  | begin hp => exact invP_beginShutdown s hI hp
  | closed hp hc =>
    obtain ⟨a1, a2, a3, a4, a5, a6, a7, a8, a9, a10, a11, a12, a13⟩ := hI
    constructor <;> grind [Phase.terminal]
  | drained since s' hp hc hr => exact invP_sls s s' hI since hp hc hr
  | graceOver since s' hp hc hto hr =>
    exact invP_sls s.cancelAll s' (invP_cancelAll s hI) since (by simp [W.cancelAll, hp]) (by simp [W.cancelAll]) hr
  | shutdownSet since hp hsu => exact invP_finishServe s hI (Or.inl ⟨since, hp⟩)
  | shutdownTimeout since hp => exact invP_fail s _ hI

theorem invP_newScope (s : W) (i : Nat) (h : InvP s) (hl : s.g.everListening = true) : InvP (s.newScope i) := by
  obtain ⟨a1, a2, a3, a4, a5, a6, a7, a8, a9, a10, a11, a12, a13⟩ := h
  constructor <;> simp only [W.newScope, W.markRequest] <;> grind [Phase.terminal]

theorem invP_accept (s : W) (k : Kind) (h : InvP s) (hl : s.listening = true) : InvP (s.accept k) := by
  obtain ⟨a1, a2, a3, a4, a5, a6, a7, a8, a9, a10, a11, a12, a13⟩ := h
  constructor <;> simp only [W.accept, W.newConn] <;> grind [Phase.terminal]

theorem invP_everListening (s : W) (h : InvP s) (hc : s.conns ≠ []) : s.g.everListening = true := by
  by_cases he : s.g.everListening = true
  · exact he
  · exact absurd (h.never (by simpa using he)).2.1 hc

theorem findConn_mem (s : W) (i : Nat) (c : Conn) (h : s.findConn i = some c) : c ∈ s.conns ∧ c.id = i := by
  unfold W.findConn at h
  exact ⟨List.mem_of_find?_eq_some h, by simpa using List.find?_some h⟩

theorem setPhase_nil (s : W) (i : Nat) (p : ConnPhase) (h : s.conns = []) : s.setPhase i p = [] := by
  simp [W.setPhase, h]

theorem dropConn_nil (s : W) (i : Nat) (h : s.conns = []) : s.dropConn i = [] := by
  simp [W.dropConn, h]

theorem invP_step (s s' : W) (o : Op) (hI : InvP s) (hs : step s o = some s') : InvP s' := by
  cases o with
  | srv => exact invP_srv s s' hI hs
  | app =>
    simp only [step] at hs
    split at hs
    · simp at hs
    · split at hs
      · simp at hs
      · rename_i l' hl
        have hb : InvP { s with life := l', log := s.log ++ appEvents s.life l' } :=
          invP_frame s _ hI rfl rfl rfl rfl (appStep_supported _ _ _ hl) rfl rfl (fun h => h)
        split at hs <;> simp only [Option.some.injEq] at hs <;> subst hs
        · exact invP_fail _ _ hb
        · exact hb
  | connect k =>
    simp only [step] at hs
    split at hs
    · rename_i hg
      simp only [Bool.and_eq_true, Bool.not_eq_eq_eq_not, Bool.not_true] at hg
      simp only [Option.some.injEq] at hs; subst hs
      have hb := invP_accept s k hI hg.1.1
      split
      · exact invP_newScope _ _ hb (invP_everListening _ hb (by simp [W.accept, W.newConn]))
      · exact hb
    · simp at hs
  | partialHead i =>
    simp only [step] at hs
    split at hs
    · split at hs
      · simp only [Option.some.injEq] at hs; subst hs
        exact invP_frame s _ hI rfl rfl rfl rfl (fun h => h) rfl rfl (setPhase_nil s i _)
      · simp at hs
    · simp at hs
  | request i rem =>
    simp only [step] at hs
    split at hs
    · rename_i c hc
      split at hs
      · simp only [Option.some.injEq] at hs; subst hs
        have hne : s.conns ≠ [] := List.ne_nil_of_mem (findConn_mem s i c hc).1
        refine invP_newScope _ _ (invP_frame s _ hI rfl rfl rfl rfl (fun h => h) rfl rfl (setPhase_nil s i _)) ?_
        exact invP_everListening s hI hne
      · simp at hs
    · simp at hs
  | newStream i =>
    simp only [step] at hs
    split at hs
    · rename_i c hc
      have hne : s.conns ≠ [] := List.ne_nil_of_mem (findConn_mem s i c hc).1
      split at hs
      · split at hs
        · simp at hs
        · split at hs <;> simp only [Option.some.injEq] at hs <;> subst hs
          · obtain ⟨a1, a2, a3, a4, a5, a6, a7, a8, a9, a10, a11, a12, a13⟩ := hI
            constructor <;> grind [Phase.terminal]
          · refine invP_newScope _ _ (invP_frame s _ hI rfl rfl rfl rfl (fun h => h) rfl rfl (setPhase_nil s i _)) ?_
            exact invP_everListening s hI hne
      · simp at hs
    · simp at hs
  | progress i =>
    simp only [step] at hs
    split at hs
    · split at hs
      · split at hs
        · split at hs <;> simp only [Option.some.injEq] at hs <;> subst hs
          · exact invP_frame s _ hI rfl rfl rfl rfl (fun h => h) rfl rfl (dropConn_nil s i)
          · exact invP_frame s _ hI rfl rfl rfl rfl (fun h => h) rfl rfl (setPhase_nil s i _)
        · simp only [Option.some.injEq] at hs; subst hs
          exact invP_frame s _ hI rfl rfl rfl rfl (fun h => h) rfl rfl (setPhase_nil s i _)
      · simp only [Option.some.injEq] at hs; subst hs
        exact invP_frame s _ hI rfl rfl rfl rfl (fun h => h) rfl rfl (dropConn_nil s i)
      · simp at hs
    · simp at hs
  | finish i =>
    simp only [step] at hs
    split at hs
    · split at hs
      · split at hs
        · simp only [Option.some.injEq] at hs; subst hs
          refine invP_frame s _ hI rfl rfl rfl rfl (fun h => h) rfl rfl ?_
          intro h; simp only; split
          · exact dropConn_nil s i h
          · exact setPhase_nil s i _ h
        · simp at hs
      · simp at hs
    · simp at hs
  | clientClose i =>
    simp only [step] at hs
    split at hs
    · simp only [Option.some.injEq] at hs; subst hs
      exact invP_frame s _ hI rfl rfl rfl rfl (fun h => h) rfl rfl (dropConn_nil s i)
    · simp at hs
  | trigger =>
    simp only [step, Option.some.injEq] at hs; subst hs
    exact invP_frame s _ hI rfl rfl rfl rfl (fun h => h) rfl rfl (fun h => h)
  | tick d =>
    simp only [step] at hs
    split at hs
    · simp at hs
    · rename_i hg
      simp only [Option.some.injEq] at hs; subst hs
      simp only [Bool.or_eq_true, Bool.not_eq_eq_eq_not, Bool.not_true, not_or, Bool.not_eq_true] at hg
      have hk : s.tickOk d = true := by simpa using hg.2
      simp only [W.tickOk, Bool.and_eq_true] at hk
      have hk1 := hk.1
      obtain ⟨a1, a2, a3, a4, a5, a6, a7, a8, a9, a10, a11, a12, a13⟩ := hI
      constructor <;> grind [Phase.terminal]
  | lifeWrite k v =>
    simp only [step, Option.some.injEq] at hs; subst hs
    exact invP_frame s _ hI rfl rfl rfl rfl (fun h => h) rfl rfl (fun h => h)
  | connWrite i k v =>
    simp only [step] at hs
    split at hs
    · simp only [Option.some.injEq] at hs; subst hs
      exact invP_frame s _ hI rfl rfl rfl rfl (fun h => h) rfl rfl (fun h => h)
    · simp at hs

/-! ### InvL — the lifespan record stays well-formed; constants stay constant -/

theorem lifeOk_setQueue (rt : Runtime) (l : Life) (q : List LMsg) (h : LifeOk rt l) : LifeOk rt { l with queue := q } := by
  obtain ⟨h1, h2, h3, h4, h5, h6, h7, h8, h9, h10, h11, h12, h13, h14⟩ := h
  constructor <;> simp_all [Life.exited, Life.failedSent]

/-- what `worker_serve` can do to the lifespan record: nothing, or append one message to the queue -/
theorem sls_life (s s' : W) (h : SlsRel s s') : s'.rt = s.rt ∧ s'.cfg = s.cfg ∧
    (s'.life = s.life ∨ s'.life = { s.life with queue := s.life.queue ++ [.shutdown] }) := by
  cases h with
  | unsupported =>
    simp only [W.finishServe]
    split <;> split <;> (try split) <;> simp [W.fail]
  | closed => simp [W.fail]
  | put => simp

theorem srv_life (s s' : W) (h : SrvRel s s') : s'.rt = s.rt ∧ s'.cfg = s.cfg ∧
    (s'.life = s.life ∨ ∃ m, s'.life = { s.life with queue := s.life.queue ++ [m] }) := by
  cases h with
  | bootUnsupported => simp only [W.afterStartup]; split <;> (try split) <;> simp [W.fail, W.enterServing]
  | bootClosed => simp [W.fail]
  | bootPut => exact ⟨rfl, rfl, Or.inr ⟨_, rfl⟩⟩
  | startupSet => simp only [W.afterStartup]; split <;> (try split) <;> simp [W.fail, W.enterServing]
  | startupTimeout => simp [W.fail]
  | begin => simp [W.beginShutdown]
  | closed => simp
  | drained since s' hp hc hr =>
    obtain ⟨a, b, c⟩ := sls_life s s' hr
    exact ⟨a, b, c.elim Or.inl (fun h => Or.inr ⟨_, h⟩)⟩
  | graceOver since s' hp hc hto hr =>
    obtain ⟨a, b, c⟩ := sls_life _ s' hr
    exact ⟨a, b, c.elim Or.inl (fun h => Or.inr ⟨_, h⟩)⟩
  | shutdownSet => simp only [W.finishServe]; split <;> split <;> (try split) <;> simp [W.fail]
  | shutdownTimeout => simp [W.fail]

theorem srv_nonterminal (s s' : W) (h : SrvRel s s') : s.phase.terminal = false := by
  cases h <;> simp_all [Phase.terminal]

/-- life, runtime and configuration after a non-`srv`, non-`app` operation -/
theorem env_life (s s' : W) (o : Op) (h : StepRel s o s') (h1 : o ≠ .app) (h2 : o ≠ .srv) :
    s'.rt = s.rt ∧ s'.cfg = s.cfg ∧ s'.life = s.life ∧ s'.phase = s.phase := by
  cases h <;> first
    | exact absurd rfl h1
    | exact absurd rfl h2
    | simp [W.accept, W.newConn, W.newScope, W.markRequest]
    | (simp only [W.accept, W.newConn, W.newScope, W.markRequest]; split <;> simp)

structure InvL (s : W) : Prop where
  ok : LifeOk s.rt s.life
  nursery : s.rt.lifespanInNursery = true → ∀ e, s.life.taskDone = some (some e) → s.phase.terminal = true

theorem invL_init (rt : Runtime) (cfg : Cfg) (script : List LAct) (cap : Nat) : InvL (W.init rt cfg script cap) :=
  ⟨lifeOk_init rt script cap, by simp [W.init, Life.init]⟩

theorem invL_step (s s' : W) (o : Op) (hI : InvL s) (hs : StepRel s o s') : InvL s' := by
  by_cases h1 : o = .app
  · subst h1
    cases hs with
    | appFail l' e hnt hl hn he => exact ⟨by simpa [W.fail] using appStep_ok _ _ _ hI.ok hl, by simp [W.fail, Phase.terminal]⟩
    | appOk l' hnt hl hne => exact ⟨appStep_ok _ _ _ hI.ok hl, fun hn e he => absurd he (hne hn e)⟩
  · by_cases h2 : o = .srv
    · subst h2
      cases hs with
      | srv s' hr _ =>
        obtain ⟨a, b, c⟩ := srv_life s s' hr
        have hnt := srv_nonterminal s s' hr
        refine ⟨?_, ?_⟩
        · rw [a]; rcases c with c | ⟨m, c⟩ <;> rw [c]
          · exact hI.ok
          · exact lifeOk_setQueue _ _ _ hI.ok
        · intro hn e he
          rw [a] at hn
          have : s.life.taskDone = some (some e) := by
            rcases c with c | ⟨m, c⟩ <;> rw [c] at he <;> exact he
          have := hI.nursery hn e this
          simp [hnt] at this
    · obtain ⟨a, b, c, d⟩ := env_life s s' o hs h1 h2
      exact ⟨by rw [a, c]; exact hI.ok, by rw [a, c, d]; exact hI.nursery⟩

/-! ### InvG — why serving started; InvH — the F16 shape is absent -/

/-- the reasons for which `worker_serve` can have started to serve -/
def Why (s : W) : Prop :=
  s.life.supported = false ∨
  (s.g.startupPuts = 1 ∧ (s.life.completeSeen = true ∨ s.life.exited = true ∨
    (s.rt.failedSetsEvent = true ∧ s.life.pending = some (.failure .startup))))

structure InvG (s : W) : Prop where
  good : s.g.everListening = true → Why s

theorem invG_init (rt : Runtime) (cfg : Cfg) (script : List LAct) (cap : Nat) : InvG (W.init rt cfg script cap) :=
  ⟨by simp [W.init]⟩

theorem why_frame (s s' : W) (h : Why s) (h1 : s'.life = s.life ∨ ∃ q, s'.life = { s.life with queue := q })
    (h2 : s'.g.startupPuts = s.g.startupPuts) (h3 : s'.rt = s.rt) : Why s' := by
  unfold Why at *
  rcases h1 with h1 | ⟨q, h1⟩ <;> simp only [h1, h2, h3, Life.exited] at * <;> exact h

theorem invG_enterServing (s : W) (hL : InvL s)
    (hp : s.life.supported = false ∨ (s.g.startupPuts = 1 ∧ s.life.startup = true)) : InvG s.enterServing := by
  constructor
  intro _
  unfold Why
  simp only [W.enterServing]
  rcases hp with hp | ⟨hp, hs⟩
  · exact Or.inl hp
  · exact Or.inr ⟨hp, hL.ok.startupWhy hs⟩

theorem invG_of_notListening (s : W) (h : s.g.everListening = false) : InvG s := ⟨by simp [h]⟩

theorem invG_fail (s : W) (e : ServeErr) (h : InvG s) : InvG (s.fail e) :=
  ⟨fun he => why_frame s _ (h.good (by simpa [W.fail] using he)) (Or.inl rfl) rfl rfl⟩

theorem invG_step (s s' : W) (o : Op) (hI : InvG s) (hL : InvL s) (hP : InvP s) (hs : StepRel s o s') : InvG s' := by
  have hframe : ∀ s'' : W, (s''.life = s.life ∨ ∃ q, s''.life = { s.life with queue := q }) → s''.g.startupPuts = s.g.startupPuts →
      s''.rt = s.rt → s''.g.everListening = s.g.everListening → InvG s'' := by
    intro s'' h1 h2 h3 h4
    exact ⟨fun he => why_frame s s'' (hI.good (by rw [← h4]; exact he)) h1 h2 h3⟩
  cases hs with
  | appFail l' e hnt hl hn he =>
    refine invG_fail _ e ⟨?_⟩
    intro hev
    have hw := hI.good hev
    obtain ⟨m1, m2, m3⟩ := appStep_mono _ _ _ hl
    unfold Why at *
    rcases hw with hw | ⟨hw1, hw2⟩
    · exact Or.inl (appStep_supported _ _ _ hl hw)
    · refine Or.inr ⟨hw1, ?_⟩
      rcases hw2 with hw2 | hw2 | ⟨hw2, hw3⟩
      · exact Or.inl (m1 hw2)
      · exact Or.inr (Or.inl (m2 hw2))
      · rcases m3 _ hw3 with m | m
        · exact Or.inr (Or.inr ⟨hw2, m⟩)
        · exact Or.inr (Or.inl m)
  | appOk l' hnt hl hne =>
    constructor
    intro hev
    have hw := hI.good hev
    obtain ⟨m1, m2, m3⟩ := appStep_mono _ _ _ hl
    unfold Why at *
    rcases hw with hw | ⟨hw1, hw2⟩
    · exact Or.inl (appStep_supported _ _ _ hl hw)
    · refine Or.inr ⟨hw1, ?_⟩
      rcases hw2 with hw2 | hw2 | ⟨hw2, hw3⟩
      · exact Or.inl (m1 hw2)
      · exact Or.inr (Or.inl (m2 hw2))
      · rcases m3 _ hw3 with m | m
        · exact Or.inr (Or.inr ⟨hw2, m⟩)
        · exact Or.inr (Or.inl m)
  | srv s' hr _ =>
    cases hr with
    | bootUnsupported hp hst hsu =>
      simp only [W.afterStartup]; split
      · split
        · exact invG_fail _ _ hI
        · exact invG_enterServing s hL (Or.inl hsu)
      · exact invG_enterServing s hL (Or.inl hsu)
    | bootClosed => exact invG_fail _ _ hI
    | bootPut hp => exact invG_of_notListening _ (by simpa using (hP.boot hp).2)
    | startupSet since hp hsu =>
      have h1 := (hP.wait since hp).1
      simp only [W.afterStartup]; split
      · split
        · exact invG_fail _ _ hI
        · exact invG_enterServing s hL (Or.inr ⟨h1, hsu⟩)
      · exact invG_enterServing s hL (Or.inr ⟨h1, hsu⟩)
    | startupTimeout => exact invG_fail _ _ hI
    | begin => exact hframe _ (Or.inl rfl) rfl rfl rfl
    | closed => exact hframe _ (Or.inl rfl) rfl rfl rfl
    | drained since s' hp hc hr =>
      cases hr with
      | unsupported =>
        simp only [W.finishServe]
        split <;> split <;> (try split) <;> first | exact invG_fail _ _ hI | exact hframe _ (Or.inl rfl) rfl rfl rfl
      | closed => exact invG_fail _ _ hI
      | put => exact hframe _ (Or.inr ⟨_, rfl⟩) rfl rfl rfl
    | graceOver since s' hp hc hto hr =>
      cases hr with
      | unsupported =>
        simp only [W.finishServe]
        split <;> split <;> (try split) <;> first
          | exact hframe _ (Or.inl rfl) rfl rfl rfl
          | exact ⟨fun he => why_frame s _ (hI.good (by simpa [W.fail, W.cancelAll] using he)) (Or.inl rfl) rfl rfl⟩
      | closed => exact ⟨fun he => why_frame s _ (hI.good (by simpa [W.fail, W.cancelAll] using he)) (Or.inl rfl) rfl rfl⟩
      | put => exact hframe _ (Or.inr ⟨_, rfl⟩) rfl rfl rfl
    | shutdownSet =>
      simp only [W.finishServe]
      split <;> split <;> (try split) <;> first | exact invG_fail _ _ hI | exact hframe _ (Or.inl rfl) rfl rfl rfl
    | shutdownTimeout => exact invG_fail _ _ hI
  | accept => exact hframe _ (Or.inl rfl) rfl rfl rfl
  | acceptWs => exact hframe _ (Or.inl rfl) rfl rfl rfl
  | partialHead => exact hframe _ (Or.inl rfl) rfl rfl rfl
  | request => exact hframe _ (Or.inl rfl) rfl rfl rfl
  | streamRefused => exact hframe _ (Or.inl rfl) rfl rfl rfl
  | streamNew => exact hframe _ (Or.inl rfl) rfl rfl rfl
  | lastStreamGoaway => exact hframe _ (Or.inl rfl) rfl rfl rfl
  | lastStreamIdle => exact hframe _ (Or.inl rfl) rfl rfl rfl
  | streamDone => exact hframe _ (Or.inl rfl) rfl rfl rfl
  | wsDone => exact hframe _ (Or.inl rfl) rfl rfl rfl
  | finish => exact hframe _ (Or.inl rfl) rfl rfl rfl
  | clientClose => exact hframe _ (Or.inl rfl) rfl rfl rfl
  | trigger => exact hframe _ (Or.inl rfl) rfl rfl rfl
  | tick => exact hframe _ (Or.inl rfl) rfl rfl rfl
  | lifeWrite => exact hframe _ (Or.inl rfl) rfl rfl rfl
  | connWrite => exact hframe _ (Or.inl rfl) rfl rfl rfl

/-- the F16 shape (`startup.failed` then a suspension, on a runtime that sets the event first) does not occur -/
structure InvH (s : W) : Prop where
  noF16 : s.rt.failedSetsEvent = false ∨
    (failedThenAwait s.life.script = false ∧ s.life.pending ≠ some (.failure .startup))

theorem invH_step (s s' : W) (o : Op) (hI : InvH s) (hs : StepRel s o s') : InvH s' := by
  by_cases h1 : o = .app
  · subst h1
    have key : ∀ l', s.life.appStep s.rt = some l' → s.rt.failedSetsEvent = false ∨
        (failedThenAwait l'.script = false ∧ l'.pending ≠ some (.failure .startup)) := by
      intro l' hl
      rcases hI.noF16 with h | ⟨h, h'⟩
      · exact Or.inl h
      · exact Or.inr (appStep_nostuck _ _ _ hl h h')
    cases hs with
    | appFail l' e hnt hl hn he => exact ⟨by simpa [W.fail] using key l' hl⟩
    | appOk l' hnt hl hne => exact ⟨key l' hl⟩
  · by_cases h2 : o = .srv
    · subst h2
      cases hs with
      | srv s' hr _ =>
        obtain ⟨a, b, c⟩ := srv_life s s' hr
        constructor
        rw [a]
        rcases c with c | ⟨m, c⟩ <;> rw [c] <;> exact hI.noF16
    · obtain ⟨a, b, c, d⟩ := env_life s s' o hs h1 h2
      exact ⟨by rw [a, c]; exact hI.noF16⟩

/-! ### InvE — every way `worker_serve` fails is attributable -/

/-- why `worker_serve` may legitimately have raised `e` -/
def ErrJustified (s : W) : ServeErr → Prop
  | .lifespanFailure st => s.life.failedSent st = true          -- the application sent `lifespan.<st>.failed`
  | .lifespanTimeout .startup => s.life.startup = false         -- nobody answered `lifespan.startup` in time
  | .lifespanTimeout .shutdown => s.life.shutdown = false
  | .closedResource => s.rt.channelsClosedOnExit = true ∧ s.life.exited = true   -- put on a channel closed by the leaving task
  | .cancelled => s.rt.lifespanInNursery = false ∧ s.life.taskDone = none ∧ s.rt.endCancelRaises = true   -- `await lifespan_task` after `cancel()`

structure InvE (s : W) : Prop where
  just : ∀ e, s.phase = .failed e → ErrJustified s e

theorem invE_init (rt : Runtime) (cfg : Cfg) (script : List LAct) (cap : Nat) : InvE (W.init rt cfg script cap) :=
  ⟨by simp [W.init]⟩

theorem errJ_frame (s s' : W) (e : ServeErr) (h : ErrJustified s e)
    (h1 : s'.life = s.life ∨ ∃ q, s'.life = { s.life with queue := q }) (h3 : s'.rt = s.rt) : ErrJustified s' e := by
  rcases h1 with h1 | ⟨q, h1⟩ <;> cases e <;> (try rename_i st; cases st) <;>
    simp only [ErrJustified, h1, h3, Life.exited, Life.failedSent] at * <;> exact h

theorem invE_fail (s : W) (e : ServeErr) (h : ErrJustified s e) : InvE (s.fail e) := by
  constructor
  intro e' he'
  simp only [W.fail, Phase.failed.injEq] at he'
  subst he'
  exact errJ_frame s _ e h (Or.inl rfl) rfl

theorem invE_ok (s : W) (h : ∀ e, s.phase ≠ .failed e) : InvE s := ⟨fun e he => absurd he (h e)⟩

theorem errJ_done (s : W) (hL : InvL s) (e : ServeErr) (h : s.life.taskDone = some (some e)) : ErrJustified s e := by
  obtain ⟨st, rfl, hst⟩ := hL.ok.doneRes e h
  exact hst

theorem invE_afterStartup (s : W) (hL : InvL s) : InvE s.afterStartup := by
  unfold W.afterStartup
  split
  · split
    · rename_i e he; exact invE_fail s e (errJ_done s hL e he)
    · exact invE_ok _ (by simp [W.enterServing])
  · exact invE_ok _ (by simp [W.enterServing])

theorem invE_finishServe (s : W) (hL : InvL s) : InvE s.finishServe := by
  unfold W.finishServe
  split
  · split
    · rename_i e he; exact invE_fail s e (errJ_done s hL e he)
    · exact invE_ok _ (by simp)
  · rename_i hn
    split
    · rename_i e he; exact invE_fail s e (errJ_done s hL e he)
    · exact invE_ok _ (by simp)
    · rename_i he
      split
      · rename_i hc; exact invE_fail s _ ⟨by simpa using hn, he, hc⟩
      · exact invE_ok _ (by simp)

theorem invE_sls (s s' : W) (hL : InvL s) (hr : SlsRel s s') : InvE s' := by
  cases hr with
  | unsupported => exact invE_finishServe s hL
  | closed h1 h2 => exact invE_fail s _ ⟨(hL.ok.closedWhy h2).2, (hL.ok.closedWhy h2).1⟩
  | put => exact invE_ok _ (by simp)

theorem invL_cancelAll (s : W) (h : InvL s) : InvL s.cancelAll := ⟨h.ok, h.nursery⟩

theorem invE_step (s s' : W) (o : Op) (hI : InvE s) (hL : InvL s) (hs : StepRel s o s') : InvE s' := by
  by_cases h1 : o = .app
  · subst h1
    cases hs with
    | appFail l' e hnt hl hn he =>
      have hok := appStep_ok _ _ _ hL.ok hl
      obtain ⟨st, rfl, hst⟩ := hok.doneRes e he
      exact invE_fail _ _ hst
    | appOk l' hnt hl hne =>
      refine invE_ok _ ?_
      intro e he
      have he' : s.phase = .failed e := he
      simp [he', Phase.terminal] at hnt
  · by_cases h2 : o = .srv
    · subst h2
      cases hs with
      | srv s' hr _ =>
        cases hr with
        | bootUnsupported => exact invE_afterStartup s hL
        | bootClosed hp hst h1 h2 => exact invE_fail s _ ⟨(hL.ok.closedWhy h2).2, (hL.ok.closedWhy h2).1⟩
        | bootPut => exact invE_ok _ (by simp)
        | startupSet => exact invE_afterStartup s hL
        | startupTimeout since hp hsu => exact invE_fail s _ hsu
        | begin => exact invE_ok _ (by simp only [W.beginShutdown]; split <;> simp)
        | closed => exact invE_ok _ (by simp)
        | drained since s' hp hc hr => exact invE_sls s s' hL hr
        | graceOver since s' hp hc hto hr => exact invE_sls _ s' (invL_cancelAll s hL) hr
        | shutdownSet => exact invE_finishServe s hL
        | shutdownTimeout since hp hsu => exact invE_fail s _ hsu
    · obtain ⟨a, b, c, d⟩ := env_life s s' o hs h1 h2
      exact ⟨fun e he => errJ_frame s s' e (hI.just e (by rw [← d]; exact he)) (Or.inl c) a⟩

/-! ### InvF — `lifespan.startup.failed` before `startup.complete`: nothing is served -/

/-- a failed lifespan task is noticed by `worker_serve` before it serves -/
def Noticed (rt : Runtime) : Prop :=
  rt.lifespanInNursery = true ∨ (rt.taskDoneCheckOnly = true ∧ rt.exitCheckpoints = false)

/-- the errors with which a failing start-up may end `worker_serve` -/
def OkStartupErr (s : W) (e : ServeErr) : Prop :=
  e = .lifespanFailure .startup ∨ e = .lifespanTimeout .startup ∨ (e = .closedResource ∧ s.g.startupPuts = 0)

structure FB (s : W) : Prop where
  acc : s.g.accepts = 0
  sco : s.g.scopes = 0
  con : s.conns = []
  srv : s.phase = .serving → s.life.exiting.isSome = true ∧ s.rt.lifespanInNursery = true
  p1 : s.phase ≠ .closing
  p2 : ∀ t, s.phase ≠ .draining t
  p3 : ∀ t, s.phase ≠ .lifespanShutdown t
  p4 : s.phase ≠ .done
  err : ∀ e, s.phase = .failed e → OkStartupErr s e

structure InvF (s : W) : Prop where
  fb : s.life.failedBeforeComplete = true → FB s

theorem invF_init (rt : Runtime) (cfg : Cfg) (script : List LAct) (cap : Nat) : InvF (W.init rt cfg script cap) :=
  ⟨by simp [W.init, Life.init]⟩

theorem invP_notYet (s : W) (h : InvP s) (he : s.g.everListening = false) :
    s.phase = .booting ∨ (∃ t, s.phase = .waitingStartup t) ∨ s.phase.terminal = true := by
  cases hp : s.phase with
  | booting => exact Or.inl rfl
  | waitingStartup t => exact Or.inr (Or.inl ⟨t, rfl⟩)
  | serving => have := (h.serv hp).1; simp [he] at this
  | closing => have := (h.closing hp).2.2.1; simp [he] at this
  | draining t => have := (h.drain t hp).2.2.1; simp [he] at this
  | lifespanShutdown t => have := (h.lsd t hp).2.2.1; simp [he] at this
  | done => simp [Phase.terminal]
  | failed e => simp [Phase.terminal]

/-- nothing has been listened on yet: the start-up facts hold trivially -/
theorem fb_of_notListening (s : W) (hP : InvP s) (he : s.g.everListening = false) (hnt : s.phase.terminal = false) : FB s := by
  have h1 := hP.never he
  rcases invP_notYet s hP he with hp | ⟨t, hp⟩ | hp
  · constructor <;> simp_all
  · constructor <;> simp_all
  · simp [hnt] at hp

/-- the application's last step before `failedBeforeComplete` became true was taken before anything listened -/
theorem notListening_of_new (s : W) (l' : Life) (_hL : InvL s) (hG : InvG s) (hl : s.life.appStep s.rt = some l')
    (hok : LifeOk s.rt l') (hf : l'.failedBeforeComplete = true) (hf0 : s.life.failedBeforeComplete = false) :
    s.g.everListening = false := by
  rcases appStep_failedBC _ _ _ hl hf with h | ⟨h1, h2, h3⟩
  · simp [hf0] at h
  · by_cases he : s.g.everListening = true
    · have hw := hG.good he
      unfold Why at hw
      rcases hw with hw | ⟨_, hw | hw | ⟨_, hw⟩⟩
      · have := appStep_supported _ _ _ hl hw
        simp [(hok.failedBC hf).2.2.1] at this
      · simp [h2] at hw
      · simp [h3] at hw
      · simp [h1] at hw
    · simpa using he

theorem okErr_of_done (l : Life) (rt : Runtime) (e : ServeErr) (hok : LifeOk rt l) (hf : l.failedBeforeComplete = true)
    (he : l.taskDone = some (some e)) : e = .lifespanFailure .startup := by
  have hx : l.exited = true := by simp [Life.exited, he]
  have hpn := (hok.exitedEvents hx).2.2.1
  rcases (hok.failedBC hf).2.2.2 with h | h | h
  · simp [hpn] at h
  · have := (hok.exitingFlag (by simp [h])).2; simp [he] at this
  · simp only [he, Option.some.injEq] at h; exact h

theorem fb_fail (s : W) (e : ServeErr) (hacc : s.g.accepts = 0) (hsco : s.g.scopes = 0) (he : OkStartupErr s e) :
    FB (s.fail e) := by
  constructor <;> simp_all [W.fail, OkStartupErr]

theorem invF_step (s s' : W) (o : Op) (hI : InvF s) (hN : Noticed s.rt) (hH : InvH s) (hL : InvL s) (hP : InvP s) (hG : InvG s)
    (hs : StepRel s o s') : InvF s' := by
  have hframe : ∀ s'' : W, s''.life.failedBeforeComplete = s.life.failedBeforeComplete → s''.g = s.g → s''.conns = s.conns →
      s''.phase = s.phase → s''.life.exiting = s.life.exiting → s''.rt = s.rt → InvF s'' := by
    intro s'' h1 h2 h3 h4 h5 h6
    constructor
    intro hf
    obtain ⟨a1, a2, a3, a4, a5, a6, a7, a8, a9⟩ := hI.fb (by rw [← h1]; exact hf)
    constructor <;> simp_all [OkStartupErr]
  have hnoconn : ∀ i c, s.findConn i = some c → s.life.failedBeforeComplete = true → False := by
    intro i c hc hf
    have := (hI.fb hf).con
    have hm := (findConn_mem s i c hc).1
    simp [this] at hm
  cases hs with
  | appFail l' e hnt hl hn he =>
    have hok := appStep_ok _ _ _ hL.ok hl
    constructor
    intro hf
    have hf' : l'.failedBeforeComplete = true := by simpa [W.fail] using hf
    have hee := okErr_of_done l' s.rt e hok hf' he
    have hacc : s.g.accepts = 0 ∧ s.g.scopes = 0 := by
      by_cases hf0 : s.life.failedBeforeComplete = true
      · exact ⟨(hI.fb hf0).acc, (hI.fb hf0).sco⟩
      · have hev := notListening_of_new s l' hL hG hl hok hf' (by simpa using hf0)
        exact ⟨(hP.never hev).2.2.2.1, (hP.never hev).2.2.1⟩
    exact fb_fail _ e hacc.1 hacc.2 (Or.inl hee)
  | appOk l' hnt hl hne =>
    have hok := appStep_ok _ _ _ hL.ok hl
    constructor
    intro hf'
    by_cases hf0 : s.life.failedBeforeComplete = true
    · obtain ⟨a1, a2, a3, a4, a5, a6, a7, a8, a9⟩ := hI.fb hf0
      have hnf : ∀ e, s.phase ≠ .failed e := by intro e he; simp [he, Phase.terminal] at hnt
      have hns : s.phase ≠ .serving := by
        intro hp
        obtain ⟨hex, hn⟩ := a4 hp
        -- in the window the only possible step publishes the failure, which the nursery turns into `appFail`
        have hx : s.life.exited = true := by simp [Life.exited, hex]
        have hpn := (hL.ok.exitedEvents hx).2.2.1
        have htd := (hL.ok.exitingFlag hex).2
        have hres : s.life.exiting = some (some (.lifespanFailure .startup)) := by
          rcases (hL.ok.failedBC hf0).2.2.2 with h | h | h
          · simp [hpn] at h
          · exact h
          · simp [htd] at h
        have : l'.taskDone = some (some (.lifespanFailure .startup)) := by
          unfold Life.appStep at hl
          simp [htd, hres] at hl
          subst hl; rfl
        exact hne hn _ this
      constructor <;> simp_all [OkStartupErr]
    · have hev := notListening_of_new s l' hL hG hl hok hf' (by simpa using hf0)
      have hb0 := fb_of_notListening s hP hev hnt
      obtain ⟨a1, a2, a3, a4, a5, a6, a7, a8, a9⟩ := hb0
      have hns : s.phase ≠ .serving := by intro hp; have := (hP.serv hp).1; simp [hev] at this
      constructor <;> simp_all [OkStartupErr]
  | srv s' hr _ =>
    constructor
    intro hf'
    obtain ⟨ra, rb, rc⟩ := srv_life s s' hr
    have hf : s.life.failedBeforeComplete = true := by
      rcases rc with rc | ⟨m, rc⟩ <;> rw [rc] at hf' <;> exact hf'
    have hfb := hI.fb hf
    obtain ⟨a1, a2, a3, a4, a5, a6, a7, a8, a9⟩ := hfb
    have hsup := (hL.ok.failedBC hf).2.2.1
    have hcs := (hL.ok.failedBC hf).2.1
    -- the two ways out of `afterStartup`
    have hafter : ∀ t, s.phase = .waitingStartup t → s.life.startup = true → FB s.afterStartup := by
      intro t hp hsu
      have hx : s.life.exited = true := by
        rcases hL.ok.startupWhy hsu with h | h | ⟨h1, h2⟩
        · simp [hcs] at h
        · exact h
        · rcases hH.noF16 with h | ⟨_, h⟩
          · simp [h1] at h
          · exact absurd h2 h
      have hpn := (hL.ok.exitedEvents hx).2.2.1
      unfold W.afterStartup
      by_cases htd : ∃ e, s.life.taskDone = some (some e)
      · obtain ⟨e, he⟩ := htd
        have hee := okErr_of_done s.life s.rt e hL.ok hf he
        have hnn : s.rt.lifespanInNursery = false := by
          by_cases hn : s.rt.lifespanInNursery = true
          · have := hL.nursery hn e he; simp [hp, Phase.terminal] at this
          · simpa using hn
        have hck : s.rt.taskDoneCheckOnly = true := by
          rcases hN with h | h
          · simp [hnn] at h
          · exact h.1
        simp only [hck, if_true, he]
        exact fb_fail s e a1 a2 (Or.inl hee)
      · have hex : s.life.exiting.isSome = true := by
          rcases (hL.ok.failedBC hf).2.2.2 with h | h | h
          · simp [hpn] at h
          · simp [h]
          · exact absurd ⟨_, h⟩ htd
        have hn : s.rt.lifespanInNursery = true := by
          rcases hN with h | h
          · exact h
          · have := (hL.ok.exitingFlag hex).1; simp [h.2] at this
        have hes : FB s.enterServing := by
          constructor <;> simp_all [W.enterServing]
        split
        · split
          · rename_i e he; exact absurd ⟨e, he⟩ htd
          · exact hes
        · exact hes
    cases hr with
    | bootUnsupported hp hst hsu => simp [hsup] at hsu
    | bootClosed hp => exact fb_fail s _ a1 a2 (Or.inr (Or.inr ⟨rfl, (hP.boot hp).1⟩))
    | bootPut hp => constructor <;> simp_all
    | startupSet since hp hsu => exact hafter since hp hsu
    | startupTimeout => exact fb_fail s _ a1 a2 (Or.inr (Or.inl rfl))
    | begin hp htp hw =>
      have := (a4 hp).1
      simp [W.inExitWindow, this] at hw
    | closed hp => exact absurd hp a5
    | drained since s' hp => exact absurd hp (a6 since)
    | graceOver since s' hp => exact absurd hp (a6 since)
    | shutdownSet since hp => exact absurd hp (a7 since)
    | shutdownTimeout since hp => exact absurd hp (a7 since)
  | accept k hl ht hw hk =>
    constructor
    intro hf
    have hf0 : s.life.failedBeforeComplete = true := hf
    have hp := (hP.listen hl).1
    have := ((hI.fb hf0).srv hp).1
    simp [W.inExitWindow, this] at hw
  | acceptWs hl ht hw =>
    constructor
    intro hf
    have hf0 : s.life.failedBeforeComplete = true := hf
    have hp := (hP.listen hl).1
    have := ((hI.fb hf0).srv hp).1
    simp [W.inExitWindow, this] at hw
  | partialHead i c hc => exact ⟨fun hf => (hnoconn i c hc hf).elim⟩
  | request i rem c hc => exact ⟨fun hf => (hnoconn i c hc hf).elim⟩
  | streamRefused i c k t hc => exact ⟨fun hf => (hnoconn i c hc hf).elim⟩
  | streamNew i c k t hc => exact ⟨fun hf => (hnoconn i c hc hf).elim⟩
  | lastStreamGoaway i c t hc => exact ⟨fun hf => (hnoconn i c hc hf).elim⟩
  | lastStreamIdle i c t hc => exact ⟨fun hf => (hnoconn i c hc hf).elim⟩
  | streamDone i c k t hc => exact ⟨fun hf => (hnoconn i c hc hf).elim⟩
  | wsDone i c hc => exact ⟨fun hf => (hnoconn i c hc hf).elim⟩
  | finish i c due hc => exact ⟨fun hf => (hnoconn i c hc hf).elim⟩
  | clientClose i c hc => exact ⟨fun hf => (hnoconn i c hc hf).elim⟩
  | trigger => exact hframe _ rfl rfl rfl rfl rfl rfl
  | tick => exact hframe _ rfl rfl rfl rfl rfl rfl
  | lifeWrite => exact hframe _ rfl rfl rfl rfl rfl rfl
  | connWrite i k v c hc => exact ⟨fun hf => (hnoconn i c hc hf).elim⟩

/-! ### InvT — instants: trigger, grace period, cancellation, the shutdown put, return -/

theorem mem_setPhase (s : W) (i : Nat) (p : ConnPhase) (c : Conn) (h : c ∈ s.setPhase i p) :
    c ∈ s.conns ∨ (c.phase = p ∧ ∃ c0 ∈ s.conns, c0.id = i ∧ c.id = i ∧ c.ref = c0.ref) := by
  simp only [W.setPhase, List.mem_map] at h
  obtain ⟨c0, hc0, rfl⟩ := h
  by_cases hi : c0.id = i
  · right; simp only [hi, if_true]; exact ⟨trivial, c0, hc0, hi, trivial, rfl⟩
  · left; simpa [hi] using hc0

theorem mem_dropConn (s : W) (i : Nat) (c : Conn) (h : c ∈ s.dropConn i) : c ∈ s.conns ∧ c.id ≠ i := by
  simp only [W.dropConn, List.mem_filter, bne_iff_ne, ne_eq] at h; exact h

structure InvT (s : W) : Prop where
  t1 : ∀ since, s.phase = .draining since → ∀ t, s.g.triggerTime = some t → t ≤ since
  t1b : s.rt.waitClosedBlocksOnConnections = false → ∀ since, s.phase = .draining since → s.g.triggerTime = some since
  t1c : s.rt.waitClosedBlocksOnConnections = false → s.phase ≠ .closing
  t2 : ∀ x ∈ s.hist.cancelled, ∀ t, s.g.triggerTime = some t →
    t + s.cfg.gracefulTimeout ≤ x.2.2 ∧ x.2.2 ≤ s.now ∧ (∀ due, x.2.1 = .inRequest (some due) → x.2.2 ≤ due)
  t3 : ∀ p, s.g.shutdownPutAt = some p → ∀ t, s.g.triggerTime = some t →
    t ≤ p ∧ p ≤ s.now ∧ (s.hist.cancelled ≠ [] → t + s.cfg.gracefulTimeout ≤ p)
  t4 : ∀ c ∈ s.conns, ∀ due, c.phase = .inRequest (some due) → s.now ≤ due
  t5 : ∀ t, s.g.triggerTime = some t → t ≤ s.now
  t6 : s.rt.waitClosedBlocksOnConnections = false → ∀ since, s.phase = .lifespanShutdown since →
    ∀ t, s.g.triggerTime = some t → since ≤ t + s.cfg.gracefulTimeout
  t7 : s.rt.waitClosedBlocksOnConnections = false → ∀ r t, s.g.returnTime = some r → s.g.triggerTime = some t →
    r ≤ t + s.cfg.gracefulTimeout + s.cfg.shutdownTimeout
  t9 : s.g.triggerTime = none → s.hist.cancelled = []
  t10 : s.g.shutdownPuts = 0 → s.g.shutdownPutAt = none

theorem invT_init (rt : Runtime) (cfg : Cfg) (script : List LAct) (cap : Nat) : InvT (W.init rt cfg script cap) := by
  constructor <;> simp [W.init]

/-- operations that change neither instants nor phase, and add no request that is already overdue -/
theorem invT_frame (s s' : W) (h : InvT s) (h1 : s'.phase = s.phase)
    (h2 : s'.g.triggerTime = s.g.triggerTime ∧ s'.g.shutdownPutAt = s.g.shutdownPutAt ∧ s'.g.returnTime = s.g.returnTime ∧
          s'.g.shutdownPuts = s.g.shutdownPuts)
    (h3 : s'.hist.cancelled = s.hist.cancelled)
    (h4 : s'.now = s.now) (h5 : s'.rt = s.rt) (h6 : s'.cfg = s.cfg)
    (h7 : ∀ c ∈ s'.conns, ∀ due, c.phase = .inRequest (some due) → s.now ≤ due) : InvT s' := by
  obtain ⟨a1, a1b, a1c, a2, a3, a4, a5, a6, a7, a9, a10⟩ := h
  obtain ⟨g1, g2, g3, g4⟩ := h2
  constructor <;> simp only [h1, g1, g2, g3, g4, h3, h4, h5, h6] <;> assumption

/-- `worker_serve` ends (normally or not) at the current instant -/
theorem invT_end (s : W) (ph : Phase) (lg : List Ev) (hh : Hist) (h : InvT s) (hP : InvP s) (hnt : s.phase.terminal = false)
    (hph : ph.terminal = true) (hc : hh.cancelled = s.hist.cancelled) :
    InvT { s with phase := ph, listening := false, g := { s.g with returnTime := some s.now }, conns := [],
                  hist := hh, log := lg } := by
  obtain ⟨a1, a1b, a1c, a2, a3, a4, a5, a6, a7, a9, a10⟩ := h
  have hret := hP.nonterm hnt
  refine ⟨?_, ?_, ?_, by simpa only [hc] using a2, by simpa only [hc] using a3, by simp, a5, ?_, ?_,
    by simpa only [hc] using a9, a10⟩
  · intro since hp; have hp' : ph = .draining since := hp; simp [hp', Phase.terminal] at hph
  · intro _ since hp; have hp' : ph = .draining since := hp; simp [hp', Phase.terminal] at hph
  · intro _ hp; have hp' : ph = .closing := hp; simp [hp', Phase.terminal] at hph
  · intro _ since hp; have hp' : ph = .lifespanShutdown since := hp; simp [hp', Phase.terminal] at hph
  · -- the bound
    intro hnb r t hr ht
    simp only [Option.some.injEq] at hr
    subst hr
    have ht' : s.g.triggerTime = some t := ht
    cases hp : s.phase with
    | booting => have := (hP.early (hP.boot hp).2).1; simp [ht'] at this
    | waitingStartup t0 => have := (hP.early (hP.wait t0 hp).2.1).1; simp [ht'] at this
    | serving => have := (hP.serv hp).2.2.1; simp [ht'] at this
    | closing => exact absurd hp (a1c hnb)
    | draining since =>
      have := a1b hnb since hp
      rw [ht'] at this
      simp only [Option.some.injEq] at this
      have := (hP.drain since hp).2.2.2.2.2.2
      dsimp only
      omega
    | lifespanShutdown since =>
      have h1 := a6 hnb since hp t ht'
      have h2 := (hP.lsd since hp).2.2.2.2.2.2.2.2
      dsimp only
      omega
    | done => simp [hp, Phase.terminal] at hnt
    | failed e => simp [hp, Phase.terminal] at hnt

theorem invT_fail (s : W) (e : ServeErr) (h : InvT s) (hP : InvP s) (hnt : s.phase.terminal = false) : InvT (s.fail e) :=
  invT_end s (.failed e) _ _ h hP hnt rfl rfl

theorem invT_enterServing (s : W) (h : InvT s) : InvT s.enterServing := by
  obtain ⟨a1, a1b, a1c, a2, a3, a4, a5, a6, a7, a9, a10⟩ := h
  constructor <;> simp only [W.enterServing] <;> first | assumption | simp

theorem invT_afterStartup (s : W) (h : InvT s) (hP : InvP s) (hnt : s.phase.terminal = false) : InvT s.afterStartup := by
  unfold W.afterStartup
  split
  · split
    · exact invT_fail s _ h hP hnt
    · exact invT_enterServing s h
  · exact invT_enterServing s h

theorem invT_finishServe (s : W) (h : InvT s) (hP : InvP s) (hnt : s.phase.terminal = false) (hc : s.conns = [])
    (hl : s.listening = false) : InvT s.finishServe := by
  have hdone : InvT { s with phase := .done, g := { s.g with returnTime := some s.now }, log := s.log ++ [.returned] } := by
    have := invT_end s .done (s.log ++ [.returned]) s.hist h hP hnt rfl rfl
    simpa [hc, hl] using this
  unfold W.finishServe
  split
  · split
    · exact invT_fail s _ h hP hnt
    · exact hdone
  · split
    · exact invT_fail s _ h hP hnt
    · exact hdone
    · split
      · exact invT_fail s _ h hP hnt
      · exact hdone

theorem invT_cancelAll (s : W) (h : InvT s) (hP : InvP s) (since : Nat) (hp : s.phase = .draining since)
    (hto : since + s.cfg.gracefulTimeout ≤ s.now) : InvT s.cancelAll := by
  obtain ⟨a1, a1b, a1c, a2, a3, a4, a5, a6, a7, a9, a10⟩ := h
  have hd := hP.drain since hp
  refine ⟨a1, a1b, a1c, ?_, ?_, by simp [W.cancelAll], a5, a6, a7, ?_, a10⟩
  · intro x hx t ht
    simp only [W.cancelAll] at hx
    rcases List.mem_append.mp hx with hx | hx
    · exact a2 x hx t ht
    · obtain ⟨c, hc, rfl⟩ := List.mem_map.mp hx
      have := a1 since hp t ht
      exact ⟨by simp only [W.cancelAll]; omega, by simp [W.cancelAll], fun due hd => a4 c hc due hd⟩
  · intro p hp' t ht
    have := a10 hd.2.2.2.2.1
    have hp'' : s.g.shutdownPutAt = some p := hp'
    rw [this] at hp''; simp at hp''
  · intro hn
    have hn' : s.g.triggerTime = none := hn
    have := hd.2.2.2.1
    simp [hn'] at this

theorem invT_sls (s s' : W) (h : InvT s) (hP : InvP s) (since : Nat) (hp : s.phase = .draining since) (hc : s.conns = [])
    (hr : SlsRel s s') : InvT s' := by
  have hnt : s.phase.terminal = false := by simp [hp, Phase.terminal]
  have hd := hP.drain since hp
  cases hr with
  | unsupported => exact invT_finishServe s h hP hnt hc hd.2.1
  | closed => exact invT_fail s _ h hP hnt
  | put =>
    obtain ⟨a1, a1b, a1c, a2, a3, a4, a5, a6, a7, a9, a10⟩ := h
    have hret := hP.nonterm hnt
    refine ⟨?_, ?_, ?_, a2, ?_, a4, a5, ?_, ?_, a9, ?_⟩
    · intro s0 h0; simp at h0
    · intro _ s0 h0; simp at h0
    · intro _; simp
    · intro p hp' t ht
      simp only [Option.some.injEq] at hp'
      subst hp'
      refine ⟨a5 t ht, Nat.le_refl _, ?_⟩
      intro hcn
      obtain ⟨x, hx⟩ := List.exists_mem_of_ne_nil _ hcn
      have := a2 x hx t ht
      dsimp only
      omega
    · intro hnb s0 h0 t ht
      simp only [Phase.lifespanShutdown.injEq] at h0
      subst h0
      have := a1b hnb since hp
      have ht' : s.g.triggerTime = some t := ht
      rw [ht'] at this
      simp only [Option.some.injEq] at this
      dsimp only
      omega
    · intro hnb r t hr
      have hr' : s.g.returnTime = some r := hr
      rw [hret] at hr'; simp at hr'
    · intro h0; simp at h0

theorem invT_beginShutdown (s : W) (h : InvT s) (hP : InvP s) (hp : s.phase = .serving) : InvT s.beginShutdown := by
  obtain ⟨a1, a1b, a1c, a2, a3, a4, a5, a6, a7, a9, a10⟩ := h
  have hs := hP.serv hp
  have hret := hP.nonterm (by simp [hp, Phase.terminal])
  have hput := a10 hs.2.2.2
  have hcn := a9 hs.2.2.1
  unfold W.beginShutdown
  refine ⟨?_, ?_, ?_, ?_, ?_, ?_, ?_, ?_, ?_, ?_, a10⟩
  · intro since h0 t ht
    simp only [Option.some.injEq] at ht; subst ht
    dsimp only at h0
    split at h0 <;> simp at h0
    omega
  · intro hnb since h0
    dsimp only at h0 hnb ⊢
    simp only [hnb, Bool.false_eq_true, if_false, Phase.draining.injEq] at h0
    rw [h0]
  · intro hnb
    dsimp only at hnb ⊢
    simp [hnb]
  · intro x hx
    dsimp only at hx
    rw [hcn] at hx; simp at hx
  · intro p hp'
    dsimp only at hp'
    rw [hput] at hp'; simp at hp'
  · intro c hc due hd
    simp only [List.mem_filter] at hc
    exact a4 c hc.1 due hd
  · intro t ht
    simp only [Option.some.injEq] at ht; subst ht
    exact Nat.le_refl _
  · intro hnb since h0
    dsimp only at h0
    split at h0 <;> simp at h0
  · intro hnb r t hr
    dsimp only at hr
    rw [hret] at hr; simp at hr
  · intro h0; simp at h0

theorem tickOk_conn (s : W) (d : Nat) (h : s.tickOk d = true) (c : Conn) (hc : c ∈ s.conns) (due : Nat)
    (hd : c.phase = .inRequest (some due)) : s.now + d ≤ due := by
  simp only [W.tickOk, Bool.and_eq_true, List.all_eq_true] at h
  have := h.2 c hc
  simpa [hd] using this

theorem invT_step (s s' : W) (o : Op) (hI : InvT s) (hP : InvP s) (hs : StepRel s o s') : InvT s' := by
  have hfr : ∀ s'' : W, s''.phase = s.phase →
      (s''.g.triggerTime = s.g.triggerTime ∧ s''.g.shutdownPutAt = s.g.shutdownPutAt ∧ s''.g.returnTime = s.g.returnTime ∧
          s''.g.shutdownPuts = s.g.shutdownPuts) → s''.hist.cancelled = s.hist.cancelled → s''.now = s.now → s''.rt = s.rt →
      s''.cfg = s.cfg → (∀ c ∈ s''.conns, ∀ due, c.phase = .inRequest (some due) → s.now ≤ due) → InvT s'' :=
    fun s'' => invT_frame s s'' hI
  have hset : ∀ i p, (∀ due, p = ConnPhase.inRequest (some due) → s.now ≤ due) →
      ∀ c ∈ s.setPhase i p, ∀ due, c.phase = .inRequest (some due) → s.now ≤ due := by
    intro i p hp c hc due hd
    rcases mem_setPhase s i p c hc with h | ⟨h, _⟩
    · exact hI.t4 c h due hd
    · exact hp due (h ▸ hd)
  have hdrop : ∀ i, ∀ c ∈ s.dropConn i, ∀ due, c.phase = .inRequest (some due) → s.now ≤ due :=
    fun i c hc due hd => hI.t4 c (mem_dropConn s i c hc).1 due hd
  cases hs with
  | appFail l' e hnt hl hn he =>
    have hb : InvT { s with life := l', log := s.log ++ appEvents s.life l' } :=
      hfr _ rfl ⟨rfl, rfl, rfl, rfl⟩ rfl rfl rfl rfl hI.t4
    have hbP : InvP { s with life := l', log := s.log ++ appEvents s.life l' } :=
      invP_frame s _ hP rfl rfl rfl rfl (appStep_supported _ _ _ hl) rfl rfl (fun h => h)
    exact invT_fail _ e hb hbP hnt
  | appOk l' hnt hl hne => exact hfr _ rfl ⟨rfl, rfl, rfl, rfl⟩ rfl rfl rfl rfl hI.t4
  | srv s' hr _ =>
    have hnt := srv_nonterminal s s' hr
    cases hr with
    | bootUnsupported => exact invT_afterStartup s hI hP hnt
    | bootClosed => exact invT_fail s _ hI hP hnt
    | bootPut hp =>
      obtain ⟨a1, a1b, a1c, a2, a3, a4, a5, a6, a7, a9, a10⟩ := hI
      refine ⟨?_, ?_, ?_, a2, a3, a4, a5, ?_, a7, a9, a10⟩
      · intro since h0; simp at h0
      · intro _ since h0; simp at h0
      · intro _; simp
      · intro _ since h0; simp at h0
    | startupSet => exact invT_afterStartup s hI hP hnt
    | startupTimeout => exact invT_fail s _ hI hP hnt
    | begin hp => exact invT_beginShutdown s hI hP hp
    | closed hp hc =>
      obtain ⟨a1, a1b, a1c, a2, a3, a4, a5, a6, a7, a9, a10⟩ := hI
      refine ⟨?_, ?_, ?_, a2, a3, a4, a5, ?_, a7, a9, a10⟩
      · intro since h0 t ht
        simp only [Phase.draining.injEq] at h0; subst h0
        exact a5 t ht
      · intro hnb; exact absurd hp (a1c hnb)
      · intro _; simp
      · intro _ since h0; simp at h0
    | drained since s' hp hc hr => exact invT_sls s s' hI hP since hp hc hr
    | graceOver since s' hp hc hto hr =>
      exact invT_sls s.cancelAll s' (invT_cancelAll s hI hP since hp hto) (invP_cancelAll s hP) since
        (by simp [W.cancelAll, hp]) (by simp [W.cancelAll]) hr
    | shutdownSet since hp =>
      have := hP.lsd since hp
      exact invT_finishServe s hI hP hnt this.2.2.2.2.2.1 this.2.1
    | shutdownTimeout => exact invT_fail s _ hI hP hnt
  | accept k =>
    refine hfr _ rfl ⟨rfl, rfl, rfl, rfl⟩ rfl rfl rfl rfl ?_
    intro c hc due hd
    simp only [W.accept, W.newConn, List.mem_append, List.mem_singleton] at hc
    rcases hc with hc | hc
    · exact hI.t4 c hc due hd
    · subst hc; cases k <;> simp at hd
  | acceptWs =>
    refine hfr _ rfl ⟨rfl, rfl, rfl, rfl⟩ rfl rfl rfl rfl ?_
    intro c hc due hd
    simp only [W.newScope, W.markRequest, W.accept, W.newConn, List.mem_append, List.mem_singleton] at hc
    rcases hc with hc | hc
    · exact hI.t4 c hc due hd
    · subst hc; simp at hd
  | partialHead i c hc hp => exact hfr _ rfl ⟨rfl, rfl, rfl, rfl⟩ rfl rfl rfl rfl (hset i _ (by simp))
  | request i rem c hc =>
    refine hfr _ rfl ⟨rfl, rfl, rfl, rfl⟩ rfl rfl rfl rfl (hset i _ ?_)
    intro due hd
    cases rem with
    | none => simp at hd
    | some r => simp only [Option.map_some, ConnPhase.inRequest.injEq, Option.some.injEq] at hd; omega
  | streamRefused => exact hfr _ rfl ⟨rfl, rfl, rfl, rfl⟩ rfl rfl rfl rfl hI.t4
  | streamNew i c k t hc => exact hfr _ rfl ⟨rfl, rfl, rfl, rfl⟩ rfl rfl rfl rfl (hset i _ (by simp))
  | lastStreamGoaway i => exact hfr _ rfl ⟨rfl, rfl, rfl, rfl⟩ rfl rfl rfl rfl (hdrop i)
  | lastStreamIdle i => exact hfr _ rfl ⟨rfl, rfl, rfl, rfl⟩ rfl rfl rfl rfl (hset i _ (by simp))
  | streamDone i => exact hfr _ rfl ⟨rfl, rfl, rfl, rfl⟩ rfl rfl rfl rfl (hset i _ (by simp))
  | wsDone i => exact hfr _ rfl ⟨rfl, rfl, rfl, rfl⟩ rfl rfl rfl rfl (hdrop i)
  | finish i =>
    refine hfr _ rfl ⟨rfl, rfl, rfl, rfl⟩ rfl rfl rfl rfl ?_
    dsimp only
    split
    · exact hdrop i
    · exact hset i _ (by simp)
  | clientClose i => exact hfr _ rfl ⟨rfl, rfl, rfl, rfl⟩ rfl rfl rfl rfl (hdrop i)
  | trigger => exact hfr _ rfl ⟨rfl, rfl, rfl, rfl⟩ rfl rfl rfl rfl hI.t4
  | tick d hsrv hw hk =>
    obtain ⟨a1, a1b, a1c, a2, a3, a4, a5, a6, a7, a9, a10⟩ := hI
    refine ⟨a1, a1b, a1c, ?_, ?_, ?_, ?_, a6, a7, a9, a10⟩
    · intro x hx t ht
      have := a2 x hx t ht
      exact ⟨this.1, by dsimp only; omega, this.2.2⟩
    · intro p hp t ht
      have := a3 p hp t ht
      exact ⟨this.1, by dsimp only; omega, this.2.2⟩
    · intro c hc due hd
      exact tickOk_conn s d hk c hc due hd
    · intro t ht
      have := a5 t ht
      dsimp only; omega
  | lifeWrite => exact hfr _ rfl ⟨rfl, rfl, rfl, rfl⟩ rfl rfl rfl rfl hI.t4
  | connWrite => exact hfr _ rfl ⟨rfl, rfl, rfl, rfl⟩ rfl rfl rfl rfl hI.t4

/-! ### InvO — after the trigger: nothing new is accepted, nothing idle is left -/

structure InvO (s : W) : Prop where
  o1 : s.terminated = true → ∀ c ∈ s.conns, c.phase.hasIdleTimer = false
  o2 : s.g.acceptsAfterTerm = 0 ∧ s.g.scopesAfterTerm = 0
  o3 : s.rt.h2PriorFreshIdleTimer = true → ∀ c ∈ s.conns, ∀ t, c.phase = .h2 0 t → t = true

theorem invO_init (rt : Runtime) (cfg : Cfg) (script : List LAct) (cap : Nat) : InvO (W.init rt cfg script cap) := by
  constructor <;> simp [W.init]

/-- the connection set changes, termination and the after-termination counters do not -/
theorem invO_conns (s s' : W) (h : InvO s) (h1 : s'.terminated = s.terminated) (h2 : s'.g.acceptsAfterTerm = s.g.acceptsAfterTerm)
    (h3 : s'.g.scopesAfterTerm = s.g.scopesAfterTerm) (h4 : s'.rt = s.rt)
    (hc : ∀ c ∈ s'.conns, c ∈ s.conns ∨ ((s.terminated = true → c.phase.hasIdleTimer = false) ∧
      (s.rt.h2PriorFreshIdleTimer = true → ∀ t, c.phase = .h2 0 t → t = true))) : InvO s' := by
  obtain ⟨a1, a2, a3⟩ := h
  refine ⟨?_, by rw [h2, h3]; exact a2, ?_⟩
  · intro ht c hc'
    rw [h1] at ht
    rcases hc c hc' with h | h
    · exact a1 ht c h
    · exact h.1 ht
  · intro hf c hc' t hp
    rw [h4] at hf
    rcases hc c hc' with h | h
    · exact a3 hf c h t hp
    · exact h.2 hf t hp

theorem invO_empty (s s' : W) (h : InvO s) (h2 : s'.g.acceptsAfterTerm = s.g.acceptsAfterTerm)
    (h3 : s'.g.scopesAfterTerm = s.g.scopesAfterTerm) (hc : s'.conns = []) : InvO s' :=
  ⟨by simp [hc], by rw [h2, h3]; exact h.o2, by simp [hc]⟩

theorem invO_fail (s : W) (e : ServeErr) (h : InvO s) : InvO (s.fail e) := invO_empty s _ h rfl rfl rfl

theorem invO_step (s s' : W) (o : Op) (hI : InvO s) (hs : StepRel s o s') : InvO s' := by
  have hsame : ∀ s'' : W, s''.terminated = s.terminated → s''.g.acceptsAfterTerm = s.g.acceptsAfterTerm →
      s''.g.scopesAfterTerm = s.g.scopesAfterTerm → s''.rt = s.rt → s''.conns = s.conns → InvO s'' :=
    fun s'' h1 h2 h3 h4 h5 => invO_conns s s'' hI h1 h2 h3 h4 (fun c hc => Or.inl (h5 ▸ hc))
  have hset : ∀ i p, ((s.terminated = true → p.hasIdleTimer = false) ∧
      (s.rt.h2PriorFreshIdleTimer = true → ∀ t, p = .h2 0 t → t = true)) →
      ∀ c ∈ s.setPhase i p, c ∈ s.conns ∨ ((s.terminated = true → c.phase.hasIdleTimer = false) ∧
      (s.rt.h2PriorFreshIdleTimer = true → ∀ t, c.phase = .h2 0 t → t = true)) := by
    intro i p hp c hc
    rcases mem_setPhase s i p c hc with h | ⟨h, _⟩
    · exact Or.inl h
    · exact Or.inr (h ▸ hp)
  have hdrop : ∀ i, ∀ c ∈ s.dropConn i, c ∈ s.conns ∨ ((s.terminated = true → c.phase.hasIdleTimer = false) ∧
      (s.rt.h2PriorFreshIdleTimer = true → ∀ t, c.phase = .h2 0 t → t = true)) :=
    fun i c hc => Or.inl (mem_dropConn s i c hc).1
  -- a connection with an armed idle timer exists only before termination
  have hlive : ∀ i c, s.findConn i = some c → c.phase.hasIdleTimer = true → s.terminated = false := by
    intro i c hc ht
    by_cases htm : s.terminated = true
    · have := hI.o1 htm c (findConn_mem s i c hc).1; simp [ht] at this
    · simpa using htm
  cases hs with
  | appFail => exact invO_fail _ _ (hsame _ rfl rfl rfl rfl rfl)
  | appOk => exact hsame _ rfl rfl rfl rfl rfl
  | srv s' hr _ =>
    cases hr with
    | bootUnsupported =>
      simp only [W.afterStartup]; split <;> (try split) <;>
        first | exact invO_fail _ _ hI | exact hsame _ rfl rfl rfl rfl rfl
    | bootClosed => exact invO_fail _ _ hI
    | bootPut => exact hsame _ rfl rfl rfl rfl rfl
    | startupSet =>
      simp only [W.afterStartup]; split <;> (try split) <;>
        first | exact invO_fail _ _ hI | exact hsame _ rfl rfl rfl rfl rfl
    | startupTimeout => exact invO_fail _ _ hI
    | begin =>
      refine ⟨?_, hI.o2, ?_⟩
      · intro _ c hc
        simp only [W.beginShutdown, List.mem_filter, Bool.not_eq_eq_eq_not, Bool.not_true] at hc
        exact hc.2
      · intro hf c hc t hp
        simp only [W.beginShutdown, List.mem_filter] at hc
        exact hI.o3 hf c hc.1 t hp
    | closed => exact hsame _ rfl rfl rfl rfl rfl
    | drained since s' hp hc hr =>
      cases hr with
      | unsupported =>
        simp only [W.finishServe]; split <;> split <;> (try split) <;>
          first | exact invO_fail _ _ hI | exact hsame _ rfl rfl rfl rfl rfl
      | closed => exact invO_fail _ _ hI
      | put => exact hsame _ rfl rfl rfl rfl rfl
    | graceOver since s' hp hc hto hr =>
      have hca : InvO s.cancelAll := invO_empty s _ hI rfl rfl rfl
      cases hr with
      | unsupported =>
        simp only [W.finishServe]; split <;> split <;> (try split) <;>
          first | exact invO_fail _ _ hca | exact invO_empty s _ hI rfl rfl rfl
      | closed => exact invO_fail _ _ hca
      | put => exact invO_empty s _ hI rfl rfl rfl
    | shutdownSet =>
      simp only [W.finishServe]; split <;> split <;> (try split) <;>
        first | exact invO_fail _ _ hI | exact hsame _ rfl rfl rfl rfl rfl
    | shutdownTimeout => exact invO_fail _ _ hI
  | accept k hl ht hw hk =>
    refine invO_conns s _ hI rfl (by simp [W.accept, W.newConn, ht]) rfl rfl ?_
    intro c hc
    simp only [W.accept, W.newConn, List.mem_append, List.mem_singleton] at hc
    rcases hc with hc | hc
    · exact Or.inl hc
    · subst hc
      refine Or.inr ⟨by simp [ht], ?_⟩
      intro hf t hp
      cases k <;> simp at hp
      · rw [← hp]; exact hf
  | acceptWs hl ht hw =>
    refine invO_conns s _ hI rfl (by simp [W.newScope, W.markRequest, W.accept, W.newConn, ht])
      (by simp [W.newScope, W.markRequest, W.accept, W.newConn, ht]) rfl ?_
    intro c hc
    simp only [W.newScope, W.markRequest, W.accept, W.newConn, List.mem_append, List.mem_singleton] at hc
    rcases hc with hc | hc
    · exact Or.inl hc
    · subst hc; exact Or.inr ⟨by simp [ht], by intro _ t hp; simp at hp⟩
  | partialHead i c hc hp hw =>
    have ht := hlive i c hc (by simp [hp, ConnPhase.hasIdleTimer])
    exact invO_conns s _ hI rfl rfl rfl rfl (hset i _ ⟨by simp [ht], by intro _ t h; simp at h⟩)
  | request i rem c hc hp ht hw =>
    exact invO_conns s _ hI rfl rfl (by simp [W.newScope, W.markRequest, ht]) rfl
      (hset i _ ⟨by simp [ht], by intro _ t h; simp at h⟩)
  | streamRefused => exact hsame _ rfl rfl rfl rfl rfl
  | streamNew i c k t hc hp hw ht =>
    exact invO_conns s _ hI rfl rfl (by simp [W.newScope, W.markRequest, ht]) rfl
      (hset i _ ⟨by simp [ht], by intro _ t h; simp at h⟩)
  | lastStreamGoaway i => exact invO_conns s _ hI rfl rfl rfl rfl (hdrop i)
  | lastStreamIdle i c t hc hp ht =>
    exact invO_conns s _ hI rfl rfl rfl rfl (hset i _ ⟨by simp [ht], by intro _ t h; simp at h; exact h⟩)
  | streamDone i c k t hc hp =>
    exact invO_conns s _ hI rfl rfl rfl rfl (hset i _ ⟨by simp [ConnPhase.hasIdleTimer], by intro _ t h; simp at h⟩)
  | wsDone i => exact invO_conns s _ hI rfl rfl rfl rfl (hdrop i)
  | finish i c due hc hp hd =>
    refine invO_conns s _ hI rfl rfl rfl rfl ?_
    dsimp only
    split
    · exact hdrop i
    · rename_i ht
      exact hset i _ ⟨by simp [ht], by intro _ t h; simp at h⟩
  | clientClose i => exact invO_conns s _ hI rfl rfl rfl rfl (hdrop i)
  | trigger => exact hsame _ rfl rfl rfl rfl rfl
  | tick => exact hsame _ rfl rfl rfl rfl rfl
  | lifeWrite => exact hsame _ rfl rfl rfl rfl rfl
  | connWrite => exact hsame _ rfl rfl rfl rfl rfl

/-! ### InvS — every connection owns its own state dict -/

theorem nodup_map_inj {α β : Type} {f : α → β} : ∀ {l : List α}, (l.map f).Nodup → ∀ {a b : α}, a ∈ l → b ∈ l → f a = f b → a = b
  | [], _, _, _, ha, _, _ => by cases ha
  | x :: xs, h, a, b, ha, hb, hf => by
    simp only [List.map_cons, List.nodup_cons] at h
    rcases List.mem_cons.mp ha with rfl | ha' <;> rcases List.mem_cons.mp hb with rfl | hb'
    · rfl
    · exact absurd (List.mem_map.mpr ⟨b, hb', hf.symm⟩) h.1
    · exact absurd (List.mem_map.mpr ⟨a, ha', hf⟩) h.1
    · exact nodup_map_inj h.2 ha' hb' hf

structure InvS (s : W) : Prop where
  s1 : 0 < s.mem.nextRef
  s2 : ∀ r, s.mem.serveRef = some r → 0 < r ∧ r < s.mem.nextRef
  s3 : ∀ c ∈ s.conns, 0 < c.ref ∧ c.ref < s.mem.nextRef ∧ s.mem.serveRef ≠ some c.ref
  s4 : (s.conns.map (·.ref)).Nodup
  s5 : ∀ c ∈ s.conns, c.id < s.nextId
  s6 : (s.conns.map (·.id)).Nodup
  s7 : s.rt.stateCopiedAtServe = false → s.mem.serveRef = none

theorem invS_init (rt : Runtime) (cfg : Cfg) (script : List LAct) (cap : Nat) : InvS (W.init rt cfg script cap) := by
  constructor <;> simp [W.init]

theorem setPhase_map_ref (s : W) (i : Nat) (p : ConnPhase) : (s.setPhase i p).map (·.ref) = s.conns.map (·.ref) := by
  simp only [W.setPhase, List.map_map]
  apply List.map_congr_left
  intro c _
  simp only [Function.comp]
  split <;> rfl

theorem setPhase_map_id (s : W) (i : Nat) (p : ConnPhase) : (s.setPhase i p).map (·.id) = s.conns.map (·.id) := by
  simp only [W.setPhase, List.map_map]
  apply List.map_congr_left
  intro c _
  simp only [Function.comp]
  split <;> rfl

/-- the connection list is filtered or re-phased; memory cells and counters are untouched -/
theorem invS_conns (s s' : W) (h : InvS s) (h1 : s'.mem = s.mem) (h2 : s'.nextId = s.nextId) (h3 : s'.rt = s.rt)
    (hc : (∃ i p, s'.conns = s.setPhase i p) ∨ (∃ f, s'.conns = s.conns.filter f)) : InvS s' := by
  obtain ⟨a1, a2, a3, a4, a5, a6, a7⟩ := h
  rcases hc with ⟨i, p, hc⟩ | ⟨f, hc⟩
  · refine ⟨by rw [h1]; exact a1, by rw [h1]; exact a2, ?_, ?_, ?_, ?_, by rw [h1, h3]; exact a7⟩
    · intro c hcm
      rw [hc] at hcm; rw [h1]
      rcases mem_setPhase s i p c hcm with hm | ⟨_, c0, hc0, _, _, hr⟩
      · exact a3 c hm
      · rw [hr]; exact a3 c0 hc0
    · rw [hc, setPhase_map_ref]; exact a4
    · intro c hcm
      rw [hc] at hcm; rw [h2]
      rcases mem_setPhase s i p c hcm with hm | ⟨_, c0, hc0, hi0, hi, _⟩
      · exact a5 c hm
      · rw [hi, ← hi0]; exact a5 c0 hc0
    · rw [hc, setPhase_map_id]; exact a6
  · refine ⟨by rw [h1]; exact a1, by rw [h1]; exact a2, ?_, ?_, ?_, ?_, by rw [h1, h3]; exact a7⟩
    · intro c hcm; rw [hc] at hcm; rw [h1]; exact a3 c (List.mem_filter.mp hcm).1
    · rw [hc]; exact (List.filter_sublist.map _).nodup a4
    · intro c hcm; rw [hc] at hcm; rw [h2]; exact a5 c (List.mem_filter.mp hcm).1
    · rw [hc]; exact (List.filter_sublist.map _).nodup a6

theorem invS_same (s s' : W) (h : InvS s) (h1 : s'.mem.nextRef = s.mem.nextRef) (h1' : s'.mem.serveRef = s.mem.serveRef)
    (h2 : s'.nextId = s.nextId) (h3 : s'.rt = s.rt) (hc : s'.conns = s.conns) : InvS s' := by
  obtain ⟨a1, a2, a3, a4, a5, a6, a7⟩ := h
  exact ⟨by rw [h1]; exact a1, by rw [h1, h1']; exact a2, by rw [hc, h1, h1']; exact a3, by rw [hc]; exact a4,
    by rw [hc, h2]; exact a5, by rw [hc]; exact a6, by rw [h1', h3]; exact a7⟩

theorem invS_empty (s s' : W) (h : InvS s) (h1 : s'.mem = s.mem) (h3 : s'.rt = s.rt) (hc : s'.conns = []) : InvS s' := by
  obtain ⟨a1, a2, a3, a4, a5, a6, a7⟩ := h
  exact ⟨by rw [h1]; exact a1, by rw [h1]; exact a2, by simp [hc], by simp [hc], by simp [hc], by simp [hc],
    by rw [h1, h3]; exact a7⟩

theorem invS_fail (s : W) (e : ServeErr) (h : InvS s) : InvS (s.fail e) := invS_empty s _ h rfl rfl rfl

theorem invS_enterServing (s : W) (h : InvS s) : InvS s.enterServing := by
  obtain ⟨a1, a2, a3, a4, a5, a6, a7⟩ := h
  by_cases hf : s.rt.stateCopiedAtServe = true
  · refine ⟨?_, ?_, ?_, a4, a5, a6, ?_⟩
    · simp only [W.enterServing, hf, if_true]; omega
    · intro r hr
      simp only [W.enterServing, hf, if_true, Option.some.injEq] at hr ⊢
      omega
    · intro c hc
      have := a3 c hc
      simp only [W.enterServing, hf, if_true, ne_eq, Option.some.injEq]
      omega
    · intro h0
      have h0' : s.rt.stateCopiedAtServe = false := h0
      simp [hf] at h0'
  · have hf' : s.rt.stateCopiedAtServe = false := by simpa using hf
    exact invS_same s _ ⟨a1, a2, a3, a4, a5, a6, a7⟩ (by simp [W.enterServing, hf']) (by simp [W.enterServing, hf']) rfl rfl rfl

theorem invS_accept (s : W) (k : Kind) (h : InvS s) : InvS (s.accept k) := by
  obtain ⟨a1, a2, a3, a4, a5, a6, a7⟩ := h
  refine ⟨?_, ?_, ?_, ?_, ?_, ?_, a7⟩
  · simp only [W.accept, W.newConn]; omega
  · intro r hr
    have := a2 r hr
    simp only [W.accept, W.newConn]; omega
  · intro c hc
    simp only [W.accept, W.newConn, List.mem_append, List.mem_singleton] at hc
    rcases hc with hc | hc
    · have := a3 c hc
      exact ⟨this.1, by simp only [W.accept, W.newConn]; omega, this.2.2⟩
    · subst hc
      refine ⟨a1, by simp only [W.accept, W.newConn]; omega, ?_⟩
      intro hr
      have := a2 _ hr
      dsimp only at this
      omega
  · simp only [W.accept, W.newConn, List.map_append, List.map_cons, List.map_nil]
    rw [List.nodup_append]
    refine ⟨a4, by simp, ?_⟩
    intro x hx y hy
    simp only [List.mem_singleton] at hy
    subst hy
    obtain ⟨c, hc, rfl⟩ := List.mem_map.mp hx
    have := (a3 c hc).2.1
    omega
  · intro c hc
    simp only [W.accept, W.newConn, List.mem_append, List.mem_singleton] at hc
    rcases hc with hc | hc
    · have := a5 c hc; simp only [W.accept, W.newConn]; omega
    · subst hc; simp only [W.accept, W.newConn]; omega
  · simp only [W.accept, W.newConn, List.map_append, List.map_cons, List.map_nil]
    rw [List.nodup_append]
    refine ⟨a6, by simp, ?_⟩
    intro x hx y hy
    simp only [List.mem_singleton] at hy
    subst hy
    obtain ⟨c, hc, rfl⟩ := List.mem_map.mp hx
    have := a5 c hc
    omega

theorem invS_step (s s' : W) (o : Op) (hI : InvS s) (hs : StepRel s o s') : InvS s' := by
  have hsame : ∀ s'' : W, s''.mem.nextRef = s.mem.nextRef → s''.mem.serveRef = s.mem.serveRef → s''.nextId = s.nextId →
      s''.rt = s.rt → s''.conns = s.conns → InvS s'' := fun s'' => invS_same s s'' hI
  cases hs with
  | appFail => exact invS_fail _ _ (hsame _ rfl rfl rfl rfl rfl)
  | appOk => exact hsame _ rfl rfl rfl rfl rfl
  | srv s' hr _ =>
    cases hr with
    | bootUnsupported =>
      simp only [W.afterStartup]; split <;> (try split) <;>
        first | exact invS_fail _ _ hI | exact invS_enterServing s hI
    | bootClosed => exact invS_fail _ _ hI
    | bootPut => exact hsame _ rfl rfl rfl rfl rfl
    | startupSet =>
      simp only [W.afterStartup]; split <;> (try split) <;>
        first | exact invS_fail _ _ hI | exact invS_enterServing s hI
    | startupTimeout => exact invS_fail _ _ hI
    | begin => exact invS_conns s _ hI rfl rfl rfl (Or.inr ⟨_, rfl⟩)
    | closed => exact hsame _ rfl rfl rfl rfl rfl
    | drained since s' hp hc hr =>
      cases hr with
      | unsupported =>
        simp only [W.finishServe]; split <;> split <;> (try split) <;>
          first | exact invS_fail _ _ hI | exact hsame _ rfl rfl rfl rfl rfl
      | closed => exact invS_fail _ _ hI
      | put => exact hsame _ rfl rfl rfl rfl rfl
    | graceOver since s' hp hc hto hr =>
      have hca : InvS s.cancelAll := invS_empty s _ hI rfl rfl rfl
      cases hr with
      | unsupported =>
        simp only [W.finishServe]; split <;> split <;> (try split) <;>
          first | exact invS_fail _ _ hca | exact invS_empty s _ hI rfl rfl rfl
      | closed => exact invS_fail _ _ hca
      | put => exact invS_empty s _ hI rfl rfl rfl
    | shutdownSet =>
      simp only [W.finishServe]; split <;> split <;> (try split) <;>
        first | exact invS_fail _ _ hI | exact hsame _ rfl rfl rfl rfl rfl
    | shutdownTimeout => exact invS_fail _ _ hI
  | accept k => exact invS_accept s k hI
  | acceptWs => exact invS_same _ _ (invS_accept s .ws hI) rfl rfl rfl rfl rfl
  | partialHead i => exact invS_conns s _ hI rfl rfl rfl (Or.inl ⟨_, _, rfl⟩)
  | request i => exact invS_conns s _ hI rfl rfl rfl (Or.inl ⟨_, _, rfl⟩)
  | streamRefused => exact hsame _ rfl rfl rfl rfl rfl
  | streamNew i => exact invS_conns s _ hI rfl rfl rfl (Or.inl ⟨_, _, rfl⟩)
  | lastStreamGoaway i => exact invS_conns s _ hI rfl rfl rfl (Or.inr ⟨_, rfl⟩)
  | lastStreamIdle i => exact invS_conns s _ hI rfl rfl rfl (Or.inl ⟨_, _, rfl⟩)
  | streamDone i => exact invS_conns s _ hI rfl rfl rfl (Or.inl ⟨_, _, rfl⟩)
  | wsDone i => exact invS_conns s _ hI rfl rfl rfl (Or.inr ⟨_, rfl⟩)
  | finish i =>
    refine invS_conns s _ hI rfl rfl rfl ?_
    dsimp only
    split
    · exact Or.inr ⟨_, rfl⟩
    · exact Or.inl ⟨_, _, rfl⟩
  | clientClose i => exact invS_conns s _ hI rfl rfl rfl (Or.inr ⟨_, rfl⟩)
  | trigger => exact hsame _ rfl rfl rfl rfl rfl
  | tick => exact hsame _ rfl rfl rfl rfl rfl
  | lifeWrite => exact hsame _ rfl rfl rfl rfl rfl
  | connWrite => exact hsame _ rfl rfl rfl rfl rfl

/-! ### InvQ — the lifespan queue holds exactly what was put and not yet received -/

structure InvQ (s : W) : Prop where
  q : s.life.recvd ++ s.life.queue =
    List.replicate s.g.startupPuts LMsg.startup ++ List.replicate s.g.shutdownPuts LMsg.shutdown
  q2 : s.g.shutdownPuts = 1 → s.g.startupPuts = 1

theorem invQ_init (rt : Runtime) (cfg : Cfg) (script : List LAct) (cap : Nat) : InvQ (W.init rt cfg script cap) := by
  constructor <;> simp [W.init, Life.init]

theorem invQ_sls (s s' : W) (h : InvQ s) (h0 : s.g.shutdownPuts = 0) (h1 : s.life.supported = true → s.g.startupPuts = 1)
    (hr : SlsRel s s') : InvQ s' := by
  cases hr with
  | unsupported => simp only [W.finishServe]; split <;> split <;> (try split) <;> exact ⟨h.q, h.q2⟩
  | closed => exact ⟨h.q, h.q2⟩
  | put hsup =>
    constructor
    · have := h.q
      simp only [h0, List.replicate_zero, List.append_nil] at this ⊢
      rw [← List.append_assoc, this]
      simp
    · intro _; exact h1 hsup

theorem invQ_step (s s' : W) (o : Op) (hI : InvQ s) (hP : InvP s) (hs : StepRel s o s') : InvQ s' := by
  have hsame : ∀ s'' : W, s''.life = s.life → s''.g.startupPuts = s.g.startupPuts → s''.g.shutdownPuts = s.g.shutdownPuts →
      InvQ s'' := fun s'' h1 h2 h3 => ⟨by rw [h1, h2, h3]; exact hI.q, by rw [h2, h3]; exact hI.q2⟩
  have hsup : ∀ t, s.phase = .draining t → s.life.supported = true → s.g.startupPuts = 1 := by
    intro t hp hs
    have h1 := hP.putsLe.1
    by_cases h0 : s.g.startupPuts = 0
    · rcases hP.noPut h0 with h | h | h
      · simp [hp] at h
      · simp [hs] at h
      · simp [hp, Phase.terminal] at h
    · omega
  cases hs with
  | appFail l' e hnt hl => exact ⟨by simpa [W.fail, (appStep_queue _ _ _ hl).1] using hI.q, hI.q2⟩
  | appOk l' hnt hl => exact ⟨by simpa [(appStep_queue _ _ _ hl).1] using hI.q, hI.q2⟩
  | srv s' hr _ =>
    cases hr with
    | bootUnsupported => simp only [W.afterStartup]; split <;> (try split) <;> exact ⟨hI.q, hI.q2⟩
    | bootClosed => exact ⟨hI.q, hI.q2⟩
    | bootPut hp =>
      have h0 := (hP.early (hP.boot hp).2).2
      have h1 := (hP.boot hp).1
      constructor
      · have := hI.q
        simp only [h0, h1, List.replicate_zero, List.append_nil] at this ⊢
        rw [← List.append_assoc, this]
        simp
      · intro _; simp [h1]
    | startupSet => simp only [W.afterStartup]; split <;> (try split) <;> exact ⟨hI.q, hI.q2⟩
    | startupTimeout => exact ⟨hI.q, hI.q2⟩
    | begin => exact ⟨hI.q, hI.q2⟩
    | closed => exact ⟨hI.q, hI.q2⟩
    | drained since s' hp hc hr => exact invQ_sls s s' hI (hP.drain since hp).2.2.2.2.1 (hsup since hp) hr
    | graceOver since s' hp hc hto hr =>
      exact invQ_sls s.cancelAll s' ⟨hI.q, hI.q2⟩ (hP.drain since hp).2.2.2.2.1 (hsup since hp) hr
    | shutdownSet => simp only [W.finishServe]; split <;> split <;> (try split) <;> exact ⟨hI.q, hI.q2⟩
    | shutdownTimeout => exact ⟨hI.q, hI.q2⟩
  | accept => exact hsame _ rfl rfl rfl
  | acceptWs => exact hsame _ rfl rfl rfl
  | partialHead => exact hsame _ rfl rfl rfl
  | request => exact hsame _ rfl rfl rfl
  | streamRefused => exact hsame _ rfl rfl rfl
  | streamNew => exact hsame _ rfl rfl rfl
  | lastStreamGoaway => exact hsame _ rfl rfl rfl
  | lastStreamIdle => exact hsame _ rfl rfl rfl
  | streamDone => exact hsame _ rfl rfl rfl
  | wsDone => exact hsame _ rfl rfl rfl
  | finish => exact hsame _ rfl rfl rfl
  | clientClose => exact hsame _ rfl rfl rfl
  | trigger => exact hsame _ rfl rfl rfl
  | tick => exact hsame _ rfl rfl rfl
  | lifeWrite => exact hsame _ rfl rfl rfl
  | connWrite => exact hsame _ rfl rfl rfl

/-! ### InvZ — a start-up timeout happens before anything listened -/

structure InvZ (s : W) : Prop where
  z : s.phase = .failed (.lifespanTimeout .startup) → s.g.everListening = false

theorem invZ_step (s s' : W) (o : Op) (hI : InvZ s) (hL : InvL s) (hP : InvP s) (hs : StepRel s o s') : InvZ s' := by
  have hsame : ∀ s'' : W, s''.phase = s.phase → s''.g.everListening = s.g.everListening → InvZ s'' :=
    fun s'' h1 h2 => ⟨by rw [h1, h2]; exact hI.z⟩
  have hnot : ∀ s'' : W, s''.phase ≠ .failed (.lifespanTimeout .startup) → InvZ s'' := fun s'' h => ⟨fun hp => absurd hp h⟩
  have hdone : ∀ (s0 : W) (e : ServeErr), s.life.taskDone = some (some e) → InvZ (s0.fail e) := by
    intro s0 e he
    obtain ⟨st, rfl, _⟩ := hL.ok.doneRes e he
    exact hnot _ (by simp [W.fail])
  have hafter : InvZ s.afterStartup := by
    unfold W.afterStartup
    split
    · split
      · rename_i e he; exact hdone s e he
      · exact hnot _ (by simp [W.enterServing])
    · exact hnot _ (by simp [W.enterServing])
  have hfin : ∀ s0 : W, s0.life = s.life → InvZ s0.finishServe := by
    intro s0 h0
    unfold W.finishServe
    split
    · split
      · rename_i e he; rw [h0] at he; exact hdone s0 e he
      · exact hnot _ (by simp)
    · split
      · rename_i e he; rw [h0] at he; exact hdone s0 e he
      · exact hnot _ (by simp)
      · split
        · exact hnot _ (by simp [W.fail])
        · exact hnot _ (by simp)
  cases hs with
  | appFail l' e hnt hl hn he =>
    obtain ⟨st, rfl, _⟩ := (appStep_ok _ _ _ hL.ok hl).doneRes e he
    exact hnot _ (by simp [W.fail])
  | appOk => exact hsame _ rfl rfl
  | srv s' hr _ =>
    cases hr with
    | bootUnsupported => exact hafter
    | bootClosed => exact hnot _ (by simp [W.fail])
    | bootPut => exact hnot _ (by simp)
    | startupSet => exact hafter
    | startupTimeout since hp => exact ⟨fun _ => by simpa [W.fail] using (hP.wait since hp).2.1⟩
    | begin => exact hnot _ (by simp only [W.beginShutdown]; split <;> simp)
    | closed => exact hnot _ (by simp)
    | drained since s' hp hc hr =>
      cases hr with
      | unsupported => exact hfin s rfl
      | closed => exact hnot _ (by simp [W.fail])
      | put => exact hnot _ (by simp)
    | graceOver since s' hp hc hto hr =>
      cases hr with
      | unsupported => exact hfin s.cancelAll rfl
      | closed => exact hnot _ (by simp [W.fail])
      | put => exact hnot _ (by simp)
    | shutdownSet => exact hfin s rfl
    | shutdownTimeout => exact hnot _ (by simp [W.fail])
  | accept => exact hsame _ rfl rfl
  | acceptWs => exact hsame _ rfl rfl
  | partialHead => exact hsame _ rfl rfl
  | request => exact hsame _ rfl rfl
  | streamRefused => exact hsame _ rfl rfl
  | streamNew => exact hsame _ rfl rfl
  | lastStreamGoaway => exact hsame _ rfl rfl
  | lastStreamIdle => exact hsame _ rfl rfl
  | streamDone => exact hsame _ rfl rfl
  | wsDone => exact hsame _ rfl rfl
  | finish => exact hsame _ rfl rfl
  | clientClose => exact hsame _ rfl rfl
  | trigger => exact hsame _ rfl rfl
  | tick => exact hsame _ rfl rfl
  | lifeWrite => exact hsame _ rfl rfl
  | connWrite => exact hsame _ rfl rfl


/-! ### InvY — a shutdown put leaves its traces -/

structure InvY (s : W) : Prop where
  y : s.g.shutdownPuts = 1 → s.g.shutdownPutAt.isSome = true ∧ s.g.triggerTime.isSome = true ∧ s.terminated = true

theorem invY_step (s s' : W) (o : Op) (hI : InvY s) (hP : InvP s) (hs : StepRel s o s') : InvY s' := by
  have hsame : ∀ s'' : W, s''.g.shutdownPuts = s.g.shutdownPuts → s''.g.shutdownPutAt = s.g.shutdownPutAt →
      s''.g.triggerTime = s.g.triggerTime → s''.terminated = s.terminated → InvY s'' :=
    fun s'' h1 h2 h3 h4 => ⟨by rw [h1, h2, h3, h4]; exact hI.y⟩
  have hfin : ∀ s0 : W, s0.g = s.g → s0.terminated = s.terminated → InvY s0.finishServe := by
    intro s0 h0 h1
    unfold W.finishServe
    split <;> split <;> (try split) <;> exact ⟨by simpa [W.fail, h0, h1] using hI.y⟩
  have hsls : ∀ s0 s0' : W, s0.g = s.g → s0.terminated = s.terminated → s.g.triggerTime.isSome = true → s.terminated = true →
      SlsRel s0 s0' → InvY s0' := by
    intro s0 s0' h0 h1 h2 h3 hr
    cases hr with
    | unsupported => exact hfin s0 h0 h1
    | closed => exact ⟨by simpa [W.fail, h0, h1] using hI.y⟩
    | put => exact ⟨fun _ => ⟨by simp, by simpa [h0] using h2, by simpa [h1] using h3⟩⟩
  cases hs with
  | appFail => exact hsame _ rfl rfl rfl rfl
  | appOk => exact hsame _ rfl rfl rfl rfl
  | srv s' hr _ =>
    cases hr with
    | bootUnsupported => simp only [W.afterStartup]; split <;> (try split) <;> exact hsame _ rfl rfl rfl rfl
    | bootClosed => exact hsame _ rfl rfl rfl rfl
    | bootPut => exact hsame _ rfl rfl rfl rfl
    | startupSet => simp only [W.afterStartup]; split <;> (try split) <;> exact hsame _ rfl rfl rfl rfl
    | startupTimeout => exact hsame _ rfl rfl rfl rfl
    | begin hp =>
      have := (hP.serv hp).2.2.2
      exact ⟨fun h => by simp [W.beginShutdown, this] at h⟩
    | closed => exact hsame _ rfl rfl rfl rfl
    | drained since s' hp hc hr =>
      have := hP.drain since hp
      exact hsls s s' rfl rfl this.2.2.2.1 this.1 hr
    | graceOver since s' hp hc hto hr =>
      have := hP.drain since hp
      exact hsls s.cancelAll s' rfl rfl this.2.2.2.1 this.1 hr
    | shutdownSet => exact hfin s rfl rfl
    | shutdownTimeout => exact hsame _ rfl rfl rfl rfl
  | accept => exact hsame _ rfl rfl rfl rfl
  | acceptWs => exact hsame _ rfl rfl rfl rfl
  | partialHead => exact hsame _ rfl rfl rfl rfl
  | request => exact hsame _ rfl rfl rfl rfl
  | streamRefused => exact hsame _ rfl rfl rfl rfl
  | streamNew => exact hsame _ rfl rfl rfl rfl
  | lastStreamGoaway => exact hsame _ rfl rfl rfl rfl
  | lastStreamIdle => exact hsame _ rfl rfl rfl rfl
  | streamDone => exact hsame _ rfl rfl rfl rfl
  | wsDone => exact hsame _ rfl rfl rfl rfl
  | finish => exact hsame _ rfl rfl rfl rfl
  | clientClose => exact hsame _ rfl rfl rfl rfl
  | trigger => exact hsame _ rfl rfl rfl rfl
  | tick => exact hsame _ rfl rfl rfl rfl
  | lifeWrite => exact hsame _ rfl rfl rfl rfl
  | connWrite => exact hsame _ rfl rfl rfl rfl

/-! ### everything together, for every operation list -/

structure Reach (s : W) : Prop where
  P : InvP s
  L : InvL s
  G : InvG s
  E : InvE s
  T : InvT s
  O : InvO s
  S : InvS s
  Q : InvQ s
  Z : InvZ s
  Y : InvY s

theorem reach_init (rt : Runtime) (cfg : Cfg) (script : List LAct) (cap : Nat) : Reach (W.init rt cfg script cap) :=
  ⟨invP_init .., invL_init .., invG_init .., invE_init .., invT_init .., invO_init .., invS_init .., invQ_init ..,
    ⟨by simp [W.init]⟩, ⟨by simp [W.init]⟩⟩

theorem reach_step (s s' : W) (o : Op) (h : Reach s) (hs : step s o = some s') : Reach s' := by
  have hr := step_rel s s' o hs
  exact ⟨invP_step s s' o h.P hs, invL_step s s' o h.L hr, invG_step s s' o h.G h.L h.P hr, invE_step s s' o h.E h.L hr,
    invT_step s s' o h.T h.P hr, invO_step s s' o h.O hr, invS_step s s' o h.S hr, invQ_step s s' o h.Q h.P hr,
    invZ_step s s' o h.Z h.L h.P hr, invY_step s s' o h.Y h.P hr⟩

theorem step_consts (s s' : W) (o : Op) (hs : step s o = some s') : s'.rt = s.rt ∧ s'.cfg = s.cfg ∧ s'.life.cap = s.life.cap := by
  have hr := step_rel s s' o hs
  by_cases h1 : o = .app
  · subst h1
    cases hr with
    | appFail l' e hnt hl => exact ⟨rfl, rfl, (appStep_queue _ _ _ hl).2⟩
    | appOk l' hnt hl => exact ⟨rfl, rfl, (appStep_queue _ _ _ hl).2⟩
  · by_cases h2 : o = .srv
    · subst h2
      cases hr with
      | srv s' hr _ =>
        obtain ⟨a, b, c⟩ := srv_life s s' hr
        refine ⟨a, b, ?_⟩
        rcases c with c | ⟨m, c⟩ <;> rw [c]
    · obtain ⟨a, b, c, _⟩ := env_life s s' o hr h1 h2
      exact ⟨a, b, by rw [c]⟩

/-- **every state reached by any operation list satisfies all the invariants** -/
theorem reach_run (rt : Runtime) (cfg : Cfg) (script : List LAct) (cap : Nat) (ops : List Op) (s : W)
    (h : run (W.init rt cfg script cap) ops = some s) : Reach s ∧ s.rt = rt ∧ s.cfg = cfg ∧ s.life.cap = cap := by
  have := HC.inv_runOps step (fun s => Reach s ∧ s.rt = rt ∧ s.cfg = cfg ∧ s.life.cap = cap) (fun _ => True)
    (fun s o s' _ hI hs => by
      obtain ⟨a, b, c⟩ := step_consts s s' o hs
      exact ⟨reach_step s s' o hI.1 hs, by rw [a]; exact hI.2.1, by rw [b]; exact hI.2.2.1, by rw [c]; exact hI.2.2.2⟩)
    ops (W.init rt cfg script cap) s ⟨reach_init rt cfg script cap, rfl, rfl, rfl⟩ (fun _ _ => trivial) h
  exact this

/-- the start-up-failure invariants need the "a failed task is noticed" and "no F16 shape" hypotheses -/
theorem reachF_run (rt : Runtime) (cfg : Cfg) (script : List LAct) (cap : Nat) (ops : List Op) (s : W)
    (hN : Noticed rt) (h0 : rt.failedSetsEvent = false ∨ failedThenAwait script = false)
    (h : run (W.init rt cfg script cap) ops = some s) : InvH s ∧ InvF s := by
  have := HC.inv_runOps step (fun s => (Reach s ∧ s.rt = rt) ∧ InvH s ∧ InvF s) (fun _ => True)
    (fun s o s' _ hI hs => by
      obtain ⟨⟨hR, hrt⟩, hH, hF⟩ := hI
      have hr := step_rel s s' o hs
      exact ⟨⟨reach_step s s' o hR hs, by rw [(step_consts s s' o hs).1]; exact hrt⟩, invH_step s s' o hH hr,
        invF_step s s' o hF (by rw [hrt]; exact hN) hH hR.L hR.P hR.G hr⟩)
    ops (W.init rt cfg script cap) s
    ⟨⟨reach_init rt cfg script cap, rfl⟩,
      ⟨by rcases h0 with h0 | h0
          · exact Or.inl h0
          · exact Or.inr ⟨h0, by simp [W.init, Life.init]⟩⟩, invF_init rt cfg script cap⟩
    (fun _ _ => trivial) h
  exact this.2

/-- the "no F16 shape" invariant alone needs only its own hypothesis -/
theorem reachH_run (rt : Runtime) (cfg : Cfg) (script : List LAct) (cap : Nat) (ops : List Op) (s : W)
    (h0 : rt.failedSetsEvent = false ∨ failedThenAwait script = false)
    (h : run (W.init rt cfg script cap) ops = some s) : InvH s := by
  exact HC.inv_runOps step InvH (fun _ => True)
    (fun s o s' _ hI hs => invH_step s s' o hI (step_rel s s' o hs))
    ops (W.init rt cfg script cap) s
    ⟨by rcases h0 with h0 | h0
        · exact Or.inl h0
        · exact Or.inr ⟨h0, by simp [W.init, Life.init]⟩⟩
    (fun _ _ => trivial) h

end HC.Worker
