import HC.Worker.Lifespan
/-!
# BlockedWrite — one connection handler whose write is held up by a peer that does not read, at the end of the grace period

The worker model (`HC.Worker.Run`) lets a cancelled handler end at once; that is what the code does for handlers waiting on
the application, on the client's next bytes or on HTTP/2 flow control.  It is **not** what the code does for a handler whose
application sits in `send()` behind a *transport* write (socket buffers full, peer not reading):

* asyncio (`asyncio/tcp_server.py`): the cancellation is delivered, `run()`'s `finally: await self._close()` calls
  `writer.close()` and awaits `writer.wait_closed()`, which returns when the transport has flushed what is buffered;
  `worker_serve`'s `wait_for(gather(handlers), graceful_timeout)` waits for the cancellation to complete;
* trio (`trio/tcp_server.py`): `protocol_send` runs `stream.send_all` inside a shielded cancel scope: the nursery's deadline
  does not interrupt it, `Cancelled` is delivered when `send_all` returns.

Both facts are extracted (`Guards.asyncioCloseWaitsForFlush`, `Guards.trioSendShielded` → `Runtime.blockedWriteOutlivesCancel`)
and measured by the `noread_h1` scenarios of C15's correspondence run.  This file is the small model of that one handler;
`HC/Props/C15.lean` states what it means for `bounded` (known finding F113).
-/
namespace HC.Worker.BlockedWrite
open HC.Worker

/-- the handler: its application is held in a transport write; it has been cancelled and waits for the transport; it is over -/
inductive Phase | writing | cancelledWaiting | over
  deriving Repr, DecidableEq

/-- what can happen to it: the grace period ends (`worker_serve` cancels what remains), time passes, the peer reads what is
    buffered, the peer closes or resets the connection -/
inductive Ev | cancel | tick | peerReads | peerLeaves
  deriving Repr, DecidableEq

def step (rt : Runtime) : Phase → Ev → Phase
  | .writing, .cancel => if rt.blockedWriteOutlivesCancel then .cancelledWaiting else .over
  | .writing, .peerLeaves => .over                 -- the write fails, the protocol is told `Closed`, the handler ends
  | .writing, _ => .writing                        -- a peer that reads lets the application go on writing
  | .cancelledWaiting, .peerReads => .over         -- flushed (asyncio) / `send_all` returns and `Cancelled` is delivered (trio)
  | .cancelledWaiting, .peerLeaves => .over
  | .cancelledWaiting, _ => .cancelledWaiting
  | .over, _ => .over

def run (rt : Runtime) : Phase → List Ev → Phase
  | p, [] => p
  | p, e :: es => run rt (step rt p e) es

/-- the peer does nothing -/
def Silent (es : List Ev) : Prop := ∀ e ∈ es, e = .tick ∨ e = .cancel

theorem waiting_stays (rt : Runtime) : ∀ (es : List Ev), Silent es → run rt .cancelledWaiting es = .cancelledWaiting := by
  intro es
  induction es with
  | nil => intro _; rfl
  | cons e es ih =>
    intro h
    have he := h e (by simp)
    have : step rt .cancelledWaiting e = .cancelledWaiting := by rcases he with rfl | rfl <;> rfl
    simp only [run, this]
    exact ih (fun x hx => h x (by simp [hx]))

/-- **as the code is**: once cancelled, the handler of a blocked write is still there after any amount of time in which the
    peer neither reads nor leaves -/
theorem outlives_cancel (rt : Runtime) (h : rt.blockedWriteOutlivesCancel = true) (es : List Ev) (hs : Silent es) :
    run rt .writing (.cancel :: es) = .cancelledWaiting := by
  simp only [run, step, h, if_true]
  exact waiting_stays rt es hs

/-- the peer ends it: whatever happened before, the handler is over after the peer has left -/
theorem over_stays (rt : Runtime) : ∀ (es : List Ev), run rt .over es = .over := by
  intro es; induction es with
  | nil => rfl
  | cons e es ih => simp only [run, step]; exact ih

theorem released_by_peer (rt : Runtime) (p : Phase) (es : List Ev) : run rt p (.peerLeaves :: es) = .over := by
  cases p <;> simp only [run, step] <;> exact over_stays rt es

/-- a runtime that gives the connection up when it cancels the handler (aborts the transport / does not shield the write)
    is rid of it at once -/
theorem released_at_once (rt : Runtime) (h : rt.blockedWriteOutlivesCancel = false) (es : List Ev) :
    run rt .writing (.cancel :: es) = .over := by
  simp only [run, step, h]
  exact over_stays rt es

end HC.Worker.BlockedWrite
