import HC.Prelude
import HC.Extracted.Guards
/-!
# HC.Worker.Lifespan — the two `Lifespan` classes (`asyncio/lifespan.py`, `trio/lifespan.py`)

The lifespan application is a *script* (what it does next); one `appStep` runs it from one suspension point to
the next, exactly like one scheduling of the lifespan task.  Everything in which the two worker classes (and
CPython versions) differ is a field of `Runtime`; nothing about a worker is baked into the functions.

Source anchors (hypercorn 0.17.3):
* `asgi_send`     — `startup.complete` / `shutdown.complete` set the event; `*.failed` raises
  `LifespanFailureError` into the application without setting the event (before b14e22f asyncio set it first:
  `failedSetsEvent`); anything else raises `UnexpectedMessageError` into the application.
* `handle_lifespan` — `except (LifespanFailureError, Cancelled): raise`; any other exception: `supported = False`
  + a log line; `finally:` both events are set; trio then `await`s `aclose()` on both memory channels (two
  checkpoints during which `worker_serve` runs: `exitCheckpoints`) — the channels stay closed afterwards
  (`channelsClosedOnExit`).
* `wait_for_startup` / `wait_for_shutdown` — return at once when `not supported`, otherwise put the message
  (trio: a closed channel means the application has left, return; before fa7ea28 `ClosedResourceError` escaped:
  `channelsClosedOnExit`) and wait for the event under the timeout.
-/
namespace HC.Worker

inductive Stage | startup | shutdown
  deriving Repr, DecidableEq

/-- the ways `worker_serve` ends other than by returning -/
inductive ServeErr
  | lifespanFailure (st : Stage)      -- `LifespanFailureError`
  | lifespanTimeout (st : Stage)      -- `LifespanTimeoutError`
  | closedResource                    -- trio `ClosedResourceError` from `app_send_channel.send`
  | cancelled                         -- asyncio `CancelledError` from `await lifespan_task` after `cancel()`
  deriving Repr, DecidableEq

inductive LMsg | startup | shutdown
  deriving Repr, DecidableEq

/-- one thing the lifespan application does.  `awaitInCleanup` is a suspension that has nothing to do with the
    lifespan channel (an `await` in a `finally:` while an exception propagates, or any other `await`). -/
inductive LAct
  | recv | sendStartupComplete | sendStartupFailed | sendShutdownComplete | sendShutdownFailed | sendUnknown
  | raise | hang | ret | awaitInCleanup
  deriving Repr, DecidableEq

/-- the `send` actions as ASGI message types.  The action depends on the `type` of the message only: every other key of a
    lifespan send message (`message`) is optional in the ASGI specification and plays no role in what the server does
    (tied to `Lifespan.asgi_send` of both workers by `HC.Props.C14.asgi_send_dispatch`). -/
def LAct.sendTypes : List (String × LAct) :=
  [("lifespan.startup.complete", .sendStartupComplete), ("lifespan.shutdown.complete", .sendShutdownComplete),
   ("lifespan.startup.failed", .sendStartupFailed), ("lifespan.shutdown.failed", .sendShutdownFailed)]

/-- the action a sent message of type `t` is (`sendUnknown`: any other type) -/
def LAct.ofSendType (t : String) : LAct := (LAct.sendTypes.lookup t).getD .sendUnknown

/-- an exception travelling through the application -/
inductive AppExc | failure (st : Stage) | other
  deriving Repr, DecidableEq

/-- worker-class / CPython / code-path parameters -/
structure Runtime where
  /-- asyncio: a failed lifespan task is noticed only by `if lifespan_task.done()` right after
      `wait_for_startup()` and by the final `await lifespan_task` -/
  taskDoneCheckOnly : Bool
  /-- trio: the lifespan task lives in a nursery around everything else; its exception cancels `worker_serve` -/
  lifespanInNursery : Bool
  /-- `lifespan.*.failed` sets the event before raising (asyncio before b14e22f; false for both workers now) -/
  failedSetsEvent : Bool
  /-- a put after the lifespan application has left raises `ClosedResourceError` (trio before fa7ea28: `handle_lifespan`'s
      `finally` closes both memory channels; the put now tolerates that; false for both workers now) -/
  channelsClosedOnExit : Bool
  /-- trio: that `finally` awaits after setting the events, so `worker_serve` runs before the task is over -/
  exitCheckpoints : Bool
  /-- `worker_serve` awaits, before the bounded wait for the handlers, a `Server.wait_closed()` that returns only when
      every connection of the server is gone (asyncio before 4c08dc8 on CPython ≥ 3.12.1; false for both workers now) -/
  waitClosedBlocksOnConnections : Bool
  /-- trio: `ConnectionState(lifespan_state.copy())` is taken once when serving starts and copied again per
      connection; asyncio copies the live lifespan state per connection -/
  stateCopiedAtServe : Bool
  /-- a prior-knowledge HTTP/2 connection that has not had a stream yet has an idle timer (true since b7ab22b; before,
      h11 reported `Updated(idle=False)` for the preface and nothing re-armed it) -/
  h2PriorFreshIdleTimer : Bool
  /-- asyncio: a cancelled connection handler with an HTTP/2 stream in progress never finishes (the application task's
      `finally: await send(None)` queues a 500 response for a send task that is already cancelled and waits in
      `drain()`), and `asyncio.wait_for(gather(...))` waits for the cancellation to complete — which `gather` reports
      as soon as one handler has finished, so `worker_serve` hangs only when every remaining handler is of that kind -/
  h2CancelDeadlocks : Bool
  /-- asyncio (since the F32 repair): a cancelled connection handler still runs the application task's `finally: await
      send(None)` to its end (the send task's own `finally` releases it): the stream is closed and, `terminated` being set and
      no other stream left busy, the connection says GOAWAY before it is torn down.  trio delivers `Cancelled` at every
      checkpoint: a cancelled handler says nothing more -/
  h2CancelSaysGoaway : Bool
  /-- `lifespan_task.cancel(); await lifespan_task` lets the `CancelledError` of a lifespan task that was still running
      escape from `worker_serve` (asyncio before 9c9a997; false for both workers now) -/
  endCancelRaises : Bool
  /-- `self.requests > self.max_requests` in `<worker>/worker_context.py` (extracted comparator) -/
  recycleCmp : Extracted.Guards.Cmp
  /-- a connection handler cancelled while a transport write is held up by a peer that does not read does not end before
      the peer reads or leaves (F113; asyncio: `_close()` awaits `writer.wait_closed()`, which waits for the transport to
      flush; trio: `protocol_send` shields `stream.send_all` from cancellation).  Not a state of the worker model
      (`HC.Worker.Run`): used by `HC.Worker.BlockedWrite` only; extracted for both workers and measured on every run -/
  blockedWriteOutlivesCancel : Bool := false
  deriving Repr, DecidableEq

/-- the asyncio worker as the code is now (after the `fix:` commits b14e22f, 4c08dc8, 9c9a997, b7ab22b and 5d167c5 (F32):
    the HTTP/2 send task releases every waiting sender when it ends, so a cancelled handler with a stream in progress finishes):
    `lifespan.*.failed` no longer sets the event, `worker_serve` no longer awaits `server.wait_closed()` before the bounded
    wait for the handlers (so CPython's `wait_closed` semantics no longer matter), the `CancelledError` of the cancelled
    lifespan task is swallowed, a fresh prior-knowledge HTTP/2 connection is idle. -/
def Runtime.asyncio : Runtime :=
  { taskDoneCheckOnly := true, lifespanInNursery := false, failedSetsEvent := false, channelsClosedOnExit := false,
    exitCheckpoints := false,
    -- extracted from the exit path of asyncio/run.py: is `server.wait_closed()` awaited before the bounded wait for the handlers?
    waitClosedBlocksOnConnections := Extracted.Guards.asyncioWaitClosedBeforeDrain, stateCopiedAtServe := false,
    h2PriorFreshIdleTimer := true,
    -- extracted from protocol/h2.py: does `send_task` release every waiting sender (`finally: … stream_buffer.close()`) when it ends?
    h2CancelDeadlocks := !Extracted.Guards.h2SendTaskReleasesSenders, h2CancelSaysGoaway := true, endCancelRaises := false,
    recycleCmp := Extracted.Guards.asyncioRecycleCmp,
    blockedWriteOutlivesCancel := Extracted.Guards.asyncioCloseWaitsForFlush }

/-- the trio worker as the code is now (after fa7ea28, b7ab22b): the channels are still closed behind a leaving application
    but a put on them is tolerated (`channelsClosedOnExit` = "such a put raises" = false) -/
def Runtime.trio : Runtime :=
  { taskDoneCheckOnly := false, lifespanInNursery := true, failedSetsEvent := false, channelsClosedOnExit := false,
    exitCheckpoints := true, waitClosedBlocksOnConnections := false, stateCopiedAtServe := true,
    h2PriorFreshIdleTimer := true, h2CancelDeadlocks := false, h2CancelSaysGoaway := false, endCancelRaises := false,
    recycleCmp := Extracted.Guards.trioRecycleCmp, blockedWriteOutlivesCancel := Extracted.Guards.trioSendShielded }

/-- history: the asyncio worker before those commits, on CPython ≥ 3.12.1 (F16, F18, F29, F31, F32) -/
def Runtime.asyncioBeforeFixes : Runtime :=
  { Runtime.asyncio with failedSetsEvent := true, waitClosedBlocksOnConnections := true, h2PriorFreshIdleTimer := false,
                         endCancelRaises := true, h2CancelDeadlocks := true, h2CancelSaysGoaway := false }

/-- history: the asyncio worker after all of those but before the F32 repair: a cancelled connection handler with an HTTP/2
    stream in progress never finished (the application task's `finally: await send(None)` queued a 500 response for a send
    task that was already gone and waited in `drain()`) -/
def Runtime.asyncioBeforeF32 : Runtime :=
  { Runtime.asyncio with h2CancelDeadlocks := true, h2CancelSaysGoaway := false }

/-- history: the trio worker before those commits (F17, F31) -/
def Runtime.trioBeforeFixes : Runtime :=
  { Runtime.trio with channelsClosedOnExit := true, h2PriorFreshIdleTimer := false }

structure Life where
  script : List LAct                       -- what the application still has to do
  cap : Nat                                -- `max_app_queue_size`
  started : Bool := false                  -- `_started` / `task_status.started()`
  startup : Bool := false                  -- the `startup` event
  shutdown : Bool := false                 -- the `shutdown` event
  supported : Bool := true
  queue : List LMsg := []
  channelsClosed : Bool := false
  pending : Option AppExc := none          -- exception propagating inside the application
  exiting : Option (Option ServeErr) := none   -- in the `finally`, events set, task result not yet visible
  taskDone : Option (Option ServeErr) := none  -- `some none` finished normally, `some (some e)` with `e`
  -- ghost fields (what the theorems and the harness speak about)
  recvd : List LMsg := []
  completeSeen : Bool := false             -- `lifespan.startup.complete` was sent
  shutdownCompleteSeen : Bool := false
  failedBeforeComplete : Bool := false     -- `lifespan.startup.failed` sent before any `startup.complete`
  startupFailedSent : Bool := false
  shutdownFailedSent : Bool := false
  raisedBeforeComplete : Bool := false     -- a non-lifespan exception left the application before `startup.complete`
  sleeping : Bool := false                 -- the last scheduling ended in an `awaitInCleanup`
  warnings : Nat := 0                      -- "continuing without Lifespan support"
  exceptionsLogged : Nat := 0

/-- the task has left the application (its result may not be visible yet) -/
def Life.exited (l : Life) : Bool := l.taskDone.isSome || l.exiting.isSome

/-- `handle_lifespan` after the application returned (`out = none`) or raised (`out = some e`) -/
def Life.finish (rt : Runtime) (l : Life) (out : Option AppExc) : Life :=
  let l1 : Life := match out with
    | some .other =>
      { l with supported := false,
               warnings := l.warnings + (if l.startup then 0 else 1),
               exceptionsLogged := l.exceptionsLogged + (if l.startup then 1 else 0),
               raisedBeforeComplete := l.raisedBeforeComplete || !l.completeSeen }
    | _ => l
  let result : Option ServeErr := match out with
    | some (.failure st) => some (.lifespanFailure st)
    | _ => none
  let l2 : Life := { l1 with startup := true, shutdown := true, script := [], pending := none,
                             channelsClosed := l1.channelsClosed || rt.channelsClosedOnExit }
  if rt.exitCheckpoints then { l2 with exiting := some result } else { l2 with taskDone := some result }

/-- run the application from `acts` until it suspends or leaves -/
def Life.runApp (rt : Runtime) : Life → List LAct → Life
  | l, [] => l.finish rt l.pending
  | l, a :: rest =>
    match l.pending with
    | some e =>
      match a with
      | .awaitInCleanup => { l with script := rest, sleeping := true }   -- suspended while unwinding
      | _ => l.finish rt (some e)
    | none =>
      match a with
      | .recv =>
        match l.queue with
        | [] => { l with script := a :: rest }                -- suspended in `receive()`
        | m :: q => Life.runApp rt { l with queue := q, recvd := l.recvd ++ [m] } rest
      | .sendStartupComplete => Life.runApp rt { l with startup := true, completeSeen := true } rest
      | .sendShutdownComplete => Life.runApp rt { l with shutdown := true, shutdownCompleteSeen := true } rest
      | .sendStartupFailed =>
        Life.runApp rt { l with startup := l.startup || rt.failedSetsEvent, pending := some (.failure .startup),
                                failedBeforeComplete := l.failedBeforeComplete || !l.completeSeen,
                                startupFailedSent := true } rest
      | .sendShutdownFailed =>
        Life.runApp rt { l with shutdown := l.shutdown || rt.failedSetsEvent, pending := some (.failure .shutdown),
                                shutdownFailedSent := true } rest
      | .sendUnknown => Life.runApp rt { l with pending := some .other } rest
      | .raise => Life.runApp rt { l with pending := some .other } rest
      | .hang => { l with script := a :: rest }               -- suspended for ever
      | .ret => l.finish rt none
      | .awaitInCleanup => { l with script := rest, sleeping := true }   -- suspended on something else

/-- the application task cannot run now -/
def Life.blocked (l : Life) : Bool :=
  l.pending.isNone && (match l.script with
    | .hang :: _ => true
    | .recv :: _ => l.queue.isEmpty
    | _ => false)

/-- one scheduling of the lifespan task -/
def Life.appStep (rt : Runtime) (l : Life) : Option Life :=
  if l.taskDone.isSome then none
  else match l.exiting with
    | some r => some { l with exiting := none, taskDone := some r }    -- the `aclose()` checkpoints are over
    | none =>
      if l.started && l.blocked then none
      else some (Life.runApp rt { l with started := true, sleeping := false } l.script)

inductive PutResult
  | notSupported            -- `if not self.supported: return`
  | closed                  -- trio: `ClosedResourceError`
  | full                    -- the put blocks
  | ok (l : Life)

/-- the first half of `wait_for_startup` / `wait_for_shutdown` -/
def Life.put (l : Life) (m : LMsg) : PutResult :=
  if !l.supported then .notSupported
  else if l.channelsClosed then .closed
  else if l.cap ≤ l.queue.length then .full
  else .ok { l with queue := l.queue ++ [m] }

def Life.init (script : List LAct) (cap : Nat) : Life := { script := script, cap := cap }

end HC.Worker
